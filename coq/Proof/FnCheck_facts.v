(* Proofs about the model of mg.F / checkF (Model/FnCheck.v) against the declarative reading
   (Model/FnSpec.v).  Provides the lemmas closed in Props/C14.v:
     accepts_iff, flags, faithful_call, error_unchanged
   and, for Proof/FnId_facts.v, [all_match] / [accepted_all_match] / [all_match_supported]. *)
From Mage Require Import Base.Strs Model.FnCheck Model.FnSpec.
From Coq Require Import ZifyBool.
Local Open Scope list_scope.

(* ---------- equality on types ---------- *)

Lemma gty_eqb_spec a b : reflect (a = b) (gty_eqb a b).
Proof.
  revert b; induction a; destruct b; simpl; try (constructor; congruence).
  - destruct (Nat.eqb_spec n n0); constructor; congruence.
  - destruct (IHa b); constructor; congruence.
  - destruct (Nat.eqb_spec n n0); constructor; congruence.
Qed.

(* ---------- the result tests (lines 107-112) ---------- *)

Lemma outs_check o (R : result) :
  (if Nat.ltb 1 (length o) then Bad
   else if Nat.eqb (length o) 1 && negb (gty_eqb (nth 0 o TInt) TErr) then Bad
   else R) = if outs_ok o then R else Bad.
Proof. destruct o as [|t [|t' o']]; try destruct t; reflexivity. Qed.

(* ---------- the stripped prefix ---------- *)

Definition pre (s : sig) : list gty :=
  match ins s with
  | TNs n :: TCtx :: _ => [TNs n; TCtx]
  | TNs n :: _ => [TNs n]
  | TCtx :: _ => [TCtx]
  | _ => []
  end.

Lemma ins_split s : ins s = pre s ++ value_params s.
Proof.
  destruct s as [i v o]. unfold pre, value_params; simpl.
  destruct i as [|t1 [|t2 r]]; try destruct t1; try destruct t2; reflexivity.
Qed.

Lemma pre_len s :
  (if has_ctx s then S (if has_receiver s then 1 else 0) else if has_receiver s then 1 else 0)
  = length (pre s).
Proof.
  destruct s as [i v o]. unfold pre, has_ctx, has_receiver; simpl.
  destruct i as [|t1 [|t2 r]]; try destruct t1; try destruct t2; reflexivity.
Qed.

Lemma isNs_eq s : assignable_to_empty (in_at s 0) = has_receiver s.
Proof.
  destruct s as [i v o]. unfold in_at, all_ins, has_receiver; simpl.
  destruct i as [|t1 r]; [destruct v; reflexivity|]. destruct t1; reflexivity.
Qed.

Lemma hasCtx_eq s :
  Nat.ltb (if has_receiver s then 1 else 0) (num_in s)
  && gty_eqb (in_at s (if has_receiver s then 1 else 0)) TCtx = has_ctx s.
Proof.
  destruct s as [i v o]. unfold in_at, num_in, all_ins, has_receiver, has_ctx; simpl.
  destruct i as [|t1 [|t2 r]]; destruct v; try destruct t1; try destruct t2; reflexivity.
Qed.

Definition vt_list (s : sig) : list gty :=
  match vtail s with Some e => [TSlice e] | None => [] end.

Lemma all_ins_split s : all_ins s = pre s ++ value_params s ++ vt_list s.
Proof. unfold all_ins. rewrite ins_split at 1. rewrite <- app_assoc. reflexivity. Qed.

Lemma in_at_mid s p x r : all_ins s = p ++ x :: r -> in_at s (length p) = x.
Proof. unfold in_at; intros ->. rewrite app_nth2, Nat.sub_diag; auto. Qed.

Lemma in_at_last s e : vtail s = Some e -> in_at s (num_in s - 1) = TSlice e.
Proof.
  unfold in_at, num_in, all_ins. intros ->. rewrite app_length; simpl.
  replace (length (ins s) + 1 - 1) with (length (ins s)) by lia.
  rewrite app_nth2, Nat.sub_diag; auto.
Qed.

(* ---------- the loop (lines 154-170) ---------- *)

Lemma loop_cons s x a rest :
  loop s x (a :: rest) =
  arg_matches (if variadic s && Nat.eqb x (num_in s - 1) then elem (in_at s x) else in_at s x) a
  && loop s (if Nat.ltb x (num_in s - 1) then S x else x) rest.
Proof.
  cbn [loop]. unfold arg_matches.
  destruct (supported _); cbn [negb andb]; [|reflexivity].
  destruct (ty_of a); [|reflexivity]. destruct (gty_eqb _ _); reflexivity.
Qed.

Lemma loop_fixed s : vtail s = None -> forall ps p args,
  all_ins s = p ++ ps -> length args = length ps ->
  loop s (length p) args = match_fixed ps args.
Proof.
  intros Hv. induction ps as [|q ps IH]; intros p args Hall Hlen.
  - destruct args; [reflexivity | discriminate].
  - destruct args as [|a args]; [discriminate|].
    rewrite loop_cons. unfold variadic; rewrite Hv. cbn [andb].
    rewrite (in_at_mid _ _ _ _ Hall). cbn [match_fixed]. f_equal.
    destruct (Nat.ltb_spec (length p) (num_in s - 1)) as [Hlt|Hge].
    + replace (S (length p)) with (length (p ++ [q])) by (rewrite app_length; simpl; lia).
      apply IH.
      * rewrite <- app_assoc; exact Hall.
      * simpl in Hlen; lia.
    + assert (Hz : length ps = 0).
      { unfold num_in in Hge. rewrite Hall, app_length in Hge. simpl in Hge. lia. }
      destruct ps; [|discriminate]. destruct args; [reflexivity | discriminate].
Qed.

Lemma loop_tail s e : vtail s = Some e -> forall args,
  loop s (num_in s - 1) args = forallb (arg_matches e) args.
Proof.
  intros Hv. induction args as [|a args IH]; [reflexivity|].
  rewrite loop_cons. unfold variadic; rewrite Hv. rewrite Nat.eqb_refl. cbn [andb].
  rewrite (in_at_last _ _ Hv). cbn [elem forallb].
  rewrite Nat.ltb_irrefl. rewrite IH. reflexivity.
Qed.

Lemma loop_var s e : vtail s = Some e -> forall ps p args,
  all_ins s = p ++ ps ++ [TSlice e] -> length ps <= length args ->
  loop s (length p) args =
  match_fixed ps (firstn (length ps) args) && forallb (arg_matches e) (skipn (length ps) args).
Proof.
  intros Hv. induction ps as [|q ps IH]; intros p args Hall Hlen.
  - simpl. replace (length p) with (num_in s - 1).
    + apply loop_tail; auto.
    + unfold num_in; rewrite Hall, app_length; simpl; lia.
  - destruct args as [|a args]; [simpl in Hlen; lia|].
    assert (Hn : num_in s - 1 = length p + S (length ps)).
    { unfold num_in; rewrite Hall. rewrite !app_length. simpl. lia. }
    simpl in Hall.
    rewrite loop_cons.
    replace (Nat.eqb (length p) (num_in s - 1)) with false by (symmetry; apply Nat.eqb_neq; lia).
    rewrite andb_false_r.
    rewrite (in_at_mid _ _ _ _ Hall).
    replace (Nat.ltb (length p) (num_in s - 1)) with true by (symmetry; apply Nat.ltb_lt; lia).
    cbn [length firstn skipn match_fixed]. rewrite <- andb_assoc. f_equal.
    replace (S (length p)) with (length (p ++ [q])) by (rewrite app_length; simpl; lia).
    apply IH.
    + rewrite <- app_assoc; exact Hall.
    + simpl in Hlen; lia.
Qed.

(* ---------- checkF computes the specification ---------- *)

Lemma match_fixed_len ps : forall args, match_fixed ps args = true -> length args = length ps.
Proof.
  induction ps as [|q ps IH]; destruct args as [|a args]; simpl; try discriminate; auto.
  intros H. apply andb_prop in H as [_ H]. f_equal; auto.
Qed.

Lemma checkF_spec s args :
  checkF (Func s) args =
  if well_typed (Func s) args then Good (has_ctx s) (has_receiver s) else Bad.
Proof.
  unfold checkF, well_typed. cbv zeta. rewrite outs_check.
  destruct (outs_ok (outs s)); cbn [andb]; [|reflexivity].
  rewrite isNs_eq, hasCtx_eq, pre_len.
  pose proof (all_ins_split s) as Hall.
  pose proof (pre_len s) as Hpl.
  assert (Hn : num_in s = length (pre s) + length (value_params s) + length (vt_list s)).
  { unfold num_in. rewrite Hall, !app_length. lia. }
  unfold vt_list in *. unfold variadic.
  destruct (vtail s) as [e|] eqn:Hv.
  - (* variadic *)
    rewrite (in_at_last _ _ Hv). cbn [elem negb andb length] in *.
    rewrite andb_false_r.
    destruct (Nat.eqb_spec (num_in s) 0) as [H0|H0]; [lia|].
    destruct (supported e) eqn:Hs; cbn [negb andb].
    2:{ rewrite orb_true_r. reflexivity. }
    rewrite orb_false_r.
    destruct (Nat.leb_spec (length (value_params s)) (length args)) as [Hle|Hgt]; cbn [andb].
    + replace (Z.ltb _ _) with false.
      2:{ symmetry. apply Z.ltb_ge.
          destruct (has_ctx s), (has_receiver s); simpl in Hpl; lia. }
      rewrite (loop_var s e Hv (value_params s) (pre s) args Hall Hle).
      reflexivity.
    + replace (Z.ltb _ _) with true; [reflexivity|].
      symmetry. apply Z.ltb_lt.
      destruct (has_ctx s), (has_receiver s); simpl in Hpl; lia.
  - (* not variadic *)
    cbn [negb andb length] in *. rewrite andb_true_r.
    rewrite app_nil_r in Hall.
    destruct (Nat.eq_dec (length args) (length (value_params s))) as [He|Hne].
    + destruct (Nat.ltb_spec (num_in s) (length args)) as [Hlt|Hge]; [lia|].
      destruct (Nat.eqb_spec (num_in s) 0) as [H0|H0].
      * assert (Hp : length (pre s) = 0) by lia.
        assert (Hps : length (value_params s) = 0) by lia.
        destruct (value_params s); [|discriminate].
        destruct args; [|simpl in He; lia].
        destruct (has_ctx s), (has_receiver s); simpl in Hpl; try lia. reflexivity.
      * replace (Z.eqb _ _) with true.
        2:{ symmetry. apply Z.eqb_eq.
            destruct (has_ctx s), (has_receiver s); simpl in Hpl; lia. }
        cbn [negb].
        rewrite (loop_fixed s Hv (value_params s) (pre s) args Hall He). reflexivity.
    + replace (match_fixed (value_params s) args) with false.
      2:{ symmetry. destruct (match_fixed (value_params s) args) eqn:Hm; [|reflexivity].
          apply match_fixed_len in Hm. contradiction. }
      destruct (Nat.ltb_spec (num_in s) (length args)) as [Hlt|Hge]; [reflexivity|].
      destruct (Nat.eqb_spec (num_in s) 0) as [H0|H0]; [lia|].
      replace (Z.eqb _ _) with false; [reflexivity|].
      symmetry. apply Z.eqb_neq.
      destruct (has_ctx s), (has_receiver s); simpl in Hpl; lia.
Qed.

(* ---------- C14: accepts_iff, flags ---------- *)

Lemma accepts_iff : forall t args,
  (exists hc ns, checkF t args = Good hc ns) <-> well_typed t args = true.
Proof.
  intros [s|] args.
  - rewrite checkF_spec. destruct (well_typed (Func s) args); split.
    + reflexivity.
    + intros _. eauto.
    + intros (hc & ns & H). discriminate.
    + discriminate.
  - simpl. split; [intros (hc & ns & H)|intros H]; discriminate.
Qed.

Lemma accepted_well_typed s args hc ns :
  checkF (Func s) args = Good hc ns ->
  well_typed (Func s) args = true /\ hc = has_ctx s /\ ns = has_receiver s.
Proof.
  rewrite checkF_spec. destruct (well_typed (Func s) args); [|discriminate].
  intros H; injection H as <- <-. auto.
Qed.

Lemma flags : forall s args hc ns,
  checkF (Func s) args = Good hc ns -> hc = has_ctx s /\ ns = has_receiver s.
Proof. intros s args hc ns H. apply accepted_well_typed in H. tauto. Qed.

(* ---------- position-wise typing of an accepted argument list ---------- *)

(* every argument matches its parameter; beyond the fixed ones, the default [d] *)
Fixpoint all_match (ps : list gty) (d : gty) (args : list value) : bool :=
  match args with
  | [] => true
  | a :: r =>
      match ps with
      | [] => arg_matches d a && all_match [] d r
      | p :: ps' => arg_matches p a && all_match ps' d r
      end
  end.

Definition vdefault (s : sig) : gty := match vtail s with Some e => e | None => TOther 0 end.

Lemma match_fixed_all_match d ps : forall args,
  match_fixed ps args = true -> all_match ps d args = true.
Proof.
  induction ps as [|q ps IH]; destruct args as [|a args]; simpl; try discriminate; auto.
  intros H. apply andb_prop in H as [H1 H2]. rewrite H1, IH; auto.
Qed.

Lemma forallb_all_match e : forall args,
  forallb (arg_matches e) args = true -> all_match [] e args = true.
Proof.
  induction args as [|a args IH]; simpl; auto.
  intros H. apply andb_prop in H as [H1 H2]. rewrite H1, IH; auto.
Qed.

Lemma var_all_match e ps : forall args,
  length ps <= length args ->
  match_fixed ps (firstn (length ps) args) = true ->
  forallb (arg_matches e) (skipn (length ps) args) = true ->
  all_match ps e args = true.
Proof.
  induction ps as [|q ps IH]; intros args Hlen Hm Hf.
  - simpl in Hf. apply forallb_all_match; auto.
  - destruct args as [|a args]; [reflexivity|].
    simpl in *. apply andb_prop in Hm as [H1 H2]. rewrite H1. simpl.
    apply IH; auto. lia.
Qed.

Lemma well_typed_parts s args :
  well_typed (Func s) args = true ->
  outs_ok (outs s) = true /\
  match vtail s with
  | None => match_fixed (value_params s) args = true
  | Some e => supported e = true /\ length (value_params s) <= length args /\
              match_fixed (value_params s) (firstn (length (value_params s)) args) = true /\
              forallb (arg_matches e) (skipn (length (value_params s)) args) = true
  end.
Proof.
  unfold well_typed. intros H. apply andb_prop in H as [Ho H]. split; [exact Ho|].
  destruct (vtail s) as [e|]; [|exact H].
  apply andb_prop in H as [H H4]. apply andb_prop in H as [H H3]. apply andb_prop in H as [H1 H2].
  apply Nat.leb_le in H2. auto.
Qed.

Lemma accepted_all_match s args hc ns :
  checkF (Func s) args = Good hc ns ->
  all_match (value_params s) (vdefault s) args = true.
Proof.
  intros H. apply accepted_well_typed in H as [H _]. apply well_typed_parts in H as [_ H].
  unfold vdefault. destruct (vtail s) as [e|].
  - destruct H as (_ & Hl & Hm & Hf). apply var_all_match; auto.
  - apply match_fixed_all_match; auto.
Qed.

Lemma arg_matches_supported p a :
  arg_matches p a = true -> wf_value a = true -> supported_value a = true.
Proof.
  unfold arg_matches. intros H Hwf. apply andb_prop in H as [Hs H].
  destruct a; simpl in *; try reflexivity; try discriminate.
  - destruct (gty_eqb_spec p t) as [->|]; [|discriminate].
    rewrite Hs in Hwf. discriminate.
  - destruct (gty_eqb_spec p TCtx) as [->|]; discriminate.
  - destruct (gty_eqb_spec p (TNs 1)) as [->|]; discriminate.
Qed.

Lemma all_match_supported d : forall args ps,
  all_match ps d args = true -> forallb wf_value args = true ->
  forallb supported_value args = true.
Proof.
  induction args as [|a args IH]; intros ps H Hwf; [reflexivity|].
  simpl in Hwf. apply andb_prop in Hwf as [Hw1 Hw2]. simpl.
  destruct ps as [|q ps]; simpl in H; apply andb_prop in H as [H1 H2];
    rewrite (arg_matches_supported _ _ H1 Hw1); simpl; eapply IH; eauto.
Qed.

(* ---------- the call vector fits (faithful_call) ---------- *)

Lemma arg_matches_passable p a : arg_matches p a = true -> passable p a = true.
Proof.
  unfold arg_matches, passable. intros H. apply andb_prop in H as [_ H].
  destruct (ty_of a); [|discriminate]. rewrite H. reflexivity.
Qed.

Lemma match_fixed_fits ps : forall args,
  match_fixed ps args = true -> fits ps None args = true.
Proof.
  induction ps as [|q ps IH]; destruct args as [|a args]; simpl; try discriminate; auto.
  intros H. apply andb_prop in H as [H1 H2].
  rewrite (arg_matches_passable _ _ H1), IH; auto.
Qed.

Lemma forallb_passable e : forall args,
  forallb (arg_matches e) args = true -> forallb (passable e) args = true.
Proof.
  induction args as [|a args IH]; simpl; auto.
  intros H. apply andb_prop in H as [H1 H2].
  rewrite (arg_matches_passable _ _ H1), IH; auto.
Qed.

Lemma var_fits e ps : forall args,
  length ps <= length args ->
  match_fixed ps (firstn (length ps) args) = true ->
  forallb (arg_matches e) (skipn (length ps) args) = true ->
  fits ps (Some e) args = true.
Proof.
  induction ps as [|q ps IH]; intros args Hlen Hm Hf.
  - simpl in *. apply forallb_passable; auto.
  - destruct args as [|a args]; [simpl in Hlen; lia|].
    simpl in *. apply andb_prop in Hm as [H1 H2].
    rewrite (arg_matches_passable _ _ H1). simpl. apply IH; auto. lia.
Qed.

Lemma passable_ns n : passable (TNs n) VEmpty = true.
Proof. unfold passable; simpl. apply orb_true_r. Qed.

Lemma fits_prefix s vs :
  fits (value_params s) (vtail s) vs = true ->
  fits (ins s) (vtail s) (call_args (has_ctx s) (has_receiver s) vs) = true.
Proof.
  destruct s as [i v o]. unfold call_args, has_ctx, has_receiver, value_params; simpl.
  destruct i as [|t1 [|t2 r]]; try destruct t1; try destruct t2; simpl;
    rewrite ?passable_ns; simpl; auto.
Qed.

Lemma faithful_call : forall s args hc ns,
  forallb wf_value args = true ->
  checkF (Func s) args = Good hc ns ->
  call_args hc ns args = expected_binding s args /\
  fits (ins s) (vtail s) (call_args hc ns args) = true /\
  forallb supported_value args = true.
Proof.
  intros s args hc ns Hwf H.
  pose proof (accepted_all_match _ _ _ _ H) as Ham.
  apply accepted_well_typed in H as (Hwt & -> & ->).
  split; [reflexivity|]. split.
  - apply fits_prefix. apply well_typed_parts in Hwt as [_ Hwt].
    destruct (vtail s) as [e|].
    + destruct Hwt as (_ & Hl & Hm & Hf). apply var_fits; auto.
    + apply match_fixed_fits; auto.
  - eapply all_match_supported; eauto.
Qed.

(* ---------- the error result ---------- *)

Lemma error_unchanged : forall r,
  run_result r = match r with RetErr => RunSameErr | _ => RunNil end.
Proof. destruct r; reflexivity. Qed.
