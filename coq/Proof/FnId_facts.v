(* Proofs about the identity encoding (Model/FnId.v).  Provides the lemmas closed in Props/C14.v:
     identity, key_iff, nonvacuous. *)
From Mage Require Import Base.Strs Model.FnCheck Model.FnSpec Model.FnId Proof.FnCheck_facts.
From Coq Require Import DecimalString DecimalZ DecimalPos.
Local Open Scope string_scope.   (* in this file [++] is string append *)

(* ---------- strings ---------- *)

Lemma sapp_assoc (a b c : string) : (a ++ b) ++ c = a ++ (b ++ c).
Proof. induction a as [|x a IH]; simpl; [reflexivity|]. rewrite IH. reflexivity. Qed.

(* a character that is neither the separator nor the terminator *)
Definition okc (c : ascii) : bool := negb (Ascii.eqb c ",") && negb (Ascii.eqb c "]").

Fixpoint oks (s : string) : bool :=
  match s with
  | EmptyString => true
  | String c r => okc c && oks r
  end.

Lemma oks_app a b : oks (a ++ b) = oks a && oks b.
Proof. induction a as [|x a IH]; simpl; [reflexivity|]. rewrite IH, andb_assoc. reflexivity. Qed.

(* a delimiter *)
Definition delim (c : ascii) : bool := negb (okc c).

(* a token followed by a delimiter determines the token *)
Lemma token_unique : forall x y d1 t1 d2 t2,
  oks x = true -> oks y = true -> delim d1 = true -> delim d2 = true ->
  x ++ String d1 t1 = y ++ String d2 t2 ->
  x = y /\ String d1 t1 = String d2 t2.
Proof.
  unfold delim.
  induction x as [|c x IH]; intros y d1 t1 d2 t2 Hx Hy Hd1 Hd2 H.
  - destruct y as [|c' y]; [auto|].
    simpl in H, Hy. injection H as -> _.
    apply andb_prop in Hy as [Hy _]. rewrite Hy in Hd1. discriminate.
  - destruct y as [|c' y].
    + simpl in H, Hx. injection H as -> _.
      apply andb_prop in Hx as [Hx _]. rewrite Hx in Hd2. discriminate.
    + simpl in H, Hx, Hy. injection H as -> H.
      apply andb_prop in Hx as [_ Hx]. apply andb_prop in Hy as [_ Hy].
      destruct (IH y d1 t1 d2 t2 Hx Hy Hd1 Hd2 H) as [-> E]. auto.
Qed.

Definition good (x : string) : Prop := oks x = true /\ x <> EmptyString.

Lemma join_cons_app x r :
  join "," (x :: r) ++ "]" =
  x ++ match r with [] => "]" | _ :: _ => String "," (join "," r ++ "]") end.
Proof.
  destruct r as [|y r]; [reflexivity|].
  change (join "," (x :: y :: r)) with (x ++ "," ++ join "," (y :: r)).
  rewrite sapp_assoc. reflexivity.
Qed.

Lemma join_inj : forall xs ys,
  Forall good xs -> Forall good ys ->
  join "," xs ++ "]" = join "," ys ++ "]" -> xs = ys.
Proof.
  induction xs as [|x xs IH]; intros ys Hxs Hys H.
  - destruct ys as [|y ys]; [reflexivity|].
    rewrite join_cons_app in H. inversion Hys as [|? ? [Hy Hne] _]; subst.
    destruct y as [|c y]; [congruence|].
    simpl in H. injection H as <- _. simpl in Hy. discriminate Hy.
  - destruct ys as [|y ys].
    + rewrite join_cons_app in H. inversion Hxs as [|? ? [Hx Hne] _]; subst.
      destruct x as [|c x]; [congruence|].
      simpl in H. injection H as -> _. simpl in Hx. discriminate Hx.
    + rewrite !join_cons_app in H.
      inversion Hxs as [|? ? [Hx _] Hxs']; subst.
      inversion Hys as [|? ? [Hy _] Hys']; subst.
      destruct xs as [|x' xs]; destruct ys as [|y' ys].
      * apply token_unique in H as [-> _]; auto.
      * apply token_unique in H as [_ E]; auto. discriminate.
      * apply token_unique in H as [_ E]; auto. discriminate.
      * apply token_unique in H as [-> E]; auto.
        injection E as E. f_equal. apply IH; auto.
Qed.

(* ---------- decimal numbers ---------- *)

Lemma oks_uint d : oks (NilEmpty.string_of_uint d) = true.
Proof. induction d; simpl; auto. Qed.

Lemma oks_uint0 d : oks (NilZero.string_of_uint d) = true.
Proof. destruct d; try apply (oks_uint (_ _)). reflexivity. Qed.

Lemma uint0_nonempty d : NilZero.string_of_uint d <> EmptyString.
Proof. destruct d; discriminate. Qed.

Lemma good_dec z : good (dec z).
Proof.
  unfold good, dec. destruct (Z.to_int z) as [d|d]; simpl.
  - split; [apply oks_uint0 | apply uint0_nonempty].
  - split; [apply oks_uint0 | discriminate].
Qed.

Lemma to_int_nonnil z : Z.to_int z <> Decimal.Pos Decimal.Nil /\ Z.to_int z <> Decimal.Neg Decimal.Nil.
Proof.
  destruct z as [|p|p]; simpl; split; try discriminate;
    intros E; injection E as E; exact (Unsigned.to_uint_nonnil p E).
Qed.

Lemma dec_inj z1 z2 : dec z1 = dec z2 -> z1 = z2.
Proof.
  unfold dec. intros H. apply (f_equal NilZero.int_of_string) in H.
  destruct (to_int_nonnil z1) as [A1 B1]. destruct (to_int_nonnil z2) as [A2 B2].
  rewrite !NilZero.isi in H by assumption.
  injection H as H. apply DecimalZ.to_int_inj; exact H.
Qed.

(* ---------- hex ---------- *)

Lemma N_lt16_cases (P : N -> Prop) :
  P 0%N -> P 1%N -> P 2%N -> P 3%N -> P 4%N -> P 5%N -> P 6%N -> P 7%N ->
  P 8%N -> P 9%N -> P 10%N -> P 11%N -> P 12%N -> P 13%N -> P 14%N -> P 15%N ->
  forall n, (n < 16)%N -> P n.
Proof.
  intros. destruct n as [|p]; [assumption|].
  do 4 (try destruct p as [p|p|]); try assumption; exfalso; lia.
Qed.

Definition unhex (c : ascii) : N :=
  let m := N_of_ascii c in if N.ltb m 58 then (m - 48)%N else (m - 87)%N.

Lemma unhex_hexdigit : forall n, (n < 16)%N -> unhex (hexdigit n) = n.
Proof. apply N_lt16_cases; reflexivity. Qed.

Lemma okc_hexdigit : forall n, (n < 16)%N -> okc (hexdigit n) = true.
Proof. apply N_lt16_cases; reflexivity. Qed.

Lemma byte_hi c : (N_of_ascii c / 16 < 16)%N.
Proof. apply N.div_lt_upper_bound; [lia|]. pose proof (N_ascii_bounded c). lia. Qed.

Lemma byte_lo c : (N_of_ascii c mod 16 < 16)%N.
Proof. apply N.mod_lt. lia. Qed.

Lemma oks_hex s : oks (hex s) = true.
Proof.
  induction s as [|c s IH]; [reflexivity|]. cbn [hex oks].
  rewrite (okc_hexdigit _ (byte_hi c)), (okc_hexdigit _ (byte_lo c)), IH. reflexivity.
Qed.

Lemma hexbyte_inj c c' :
  hexdigit (N_of_ascii c / 16) = hexdigit (N_of_ascii c' / 16) ->
  hexdigit (N_of_ascii c mod 16) = hexdigit (N_of_ascii c' mod 16) -> c = c'.
Proof.
  intros H1 H2.
  apply (f_equal unhex) in H1. apply (f_equal unhex) in H2.
  rewrite !unhex_hexdigit in H1, H2 by (apply byte_hi || apply byte_lo).
  rewrite <- (ascii_N_embedding c), <- (ascii_N_embedding c'). f_equal.
  rewrite (N.div_mod' (N_of_ascii c) 16), (N.div_mod' (N_of_ascii c') 16). congruence.
Qed.

Lemma hex_inj : forall s s', hex s ++ quote = hex s' ++ quote -> s = s'.
Proof.
  induction s as [|c s IH]; destruct s' as [|c' s']; cbn [hex]; intros H.
  - reflexivity.
  - simpl in H. injection H as _ H. discriminate.
  - simpl in H. injection H as _ H. discriminate.
  - simpl in H. injection H as H1 H2 H. f_equal.
    + apply hexbyte_inj; assumption.
    + apply IH; exact H.
Qed.

(* ---------- enc ---------- *)

Lemma good_enc v : supported_value v = true -> good (enc v).
Proof.
  destruct v; try discriminate; intros _; cbn [enc].
  - apply good_dec.
  - destruct b; split; (reflexivity || discriminate).
  - split; [|simpl; discriminate].
    rewrite !oks_app, oks_hex. reflexivity.
  - apply good_dec.
Qed.

Definition same_kind (u v : value) : bool :=
  match u, v with
  | VInt _, VInt _ | VBool _, VBool _ | VStr _, VStr _ | VDur _, VDur _ => true
  | _, _ => false
  end.

Lemma enc_inj u v : same_kind u v = true -> enc u = enc v -> u = v.
Proof.
  destruct u, v; try discriminate; intros _; simpl; intros H.
  - f_equal. apply dec_inj; exact H.
  - destruct b, b0; try reflexivity; discriminate.
  - f_equal. injection H as H. apply hex_inj; exact H.
  - f_equal. apply dec_inj; exact H.
Qed.

Lemma arg_matches_same_kind p u v :
  arg_matches p u = true -> arg_matches p v = true ->
  supported_value u = true -> supported_value v = true -> same_kind u v = true.
Proof.
  intros H1 H2 H3 H4.
  destruct u; try discriminate H3; destruct v; try discriminate H4; try reflexivity;
    destruct p; simpl in H1, H2; discriminate.
Qed.

(* position-wise same kind, on the common prefix *)
Fixpoint kinds_agree (a b : list value) : bool :=
  match a, b with
  | x :: a', y :: b' => same_kind x y && kinds_agree a' b'
  | _, _ => true
  end.

Lemma all_match_kinds d : forall a b ps,
  all_match ps d a = true -> all_match ps d b = true ->
  forallb supported_value a = true -> forallb supported_value b = true ->
  kinds_agree a b = true.
Proof.
  induction a as [|x a IH]; intros b ps Ha Hb Sa Sb; [reflexivity|].
  destruct b as [|y b]; [reflexivity|].
  simpl in Sa, Sb. apply andb_prop in Sa as [Sx Sa]. apply andb_prop in Sb as [Sy Sb].
  cbn [kinds_agree].
  destruct ps as [|q ps]; simpl in Ha, Hb;
    apply andb_prop in Ha as [Hx Ha]; apply andb_prop in Hb as [Hy Hb];
    rewrite (arg_matches_same_kind _ _ _ Hx Hy Sx Sy); simpl; eapply IH; eauto.
Qed.

Lemma map_enc_inj : forall a b,
  kinds_agree a b = true -> map enc a = map enc b -> a = b.
Proof.
  induction a as [|x a IH]; destruct b as [|y b]; simpl; intros K H; try discriminate; auto.
  apply andb_prop in K as [K1 K2]. injection H as H1 H2.
  f_equal; [apply enc_inj | apply IH]; auto.
Qed.

Lemma Forall_good_enc : forall a, forallb supported_value a = true -> Forall good (map enc a).
Proof.
  induction a as [|x a IH]; simpl; intros H; constructor;
    apply andb_prop in H as [H1 H2]; [apply good_enc | apply IH]; auto.
Qed.

(* ---------- C14: identity, key, non-vacuity ---------- *)

Lemma identity : forall s a b hc ns hc' ns',
  forallb wf_value a = true -> forallb wf_value b = true ->
  checkF (Func s) a = Good hc ns -> checkF (Func s) b = Good hc' ns' ->
  (fn_id a = fn_id b <-> a = b).
Proof.
  intros s a b hc ns hc' ns' Wa Wb Ha Hb. split; [|intros ->; reflexivity].
  intros H.
  apply accepted_all_match in Ha. apply accepted_all_match in Hb.
  pose proof (all_match_supported _ _ _ Ha Wa) as Sa.
  pose proof (all_match_supported _ _ _ Hb Wb) as Sb.
  unfold fn_id in H. simpl in H. injection H as H.
  apply join_inj in H; try (apply Forall_good_enc; assumption).
  apply map_enc_inj; [|exact H].
  eapply all_match_kinds; eauto.
Qed.

Lemma key_iff : forall s f g a b hc ns hc' ns',
  forallb wf_value a = true -> forallb wf_value b = true ->
  checkF (Func s) a = Good hc ns -> checkF (Func s) b = Good hc' ns' ->
  (once_key f a = once_key g b <-> f = g /\ a = b).
Proof.
  intros s f g a b hc ns hc' ns' Wa Wb Ha Hb. unfold once_key. split.
  - intros H. pose proof (f_equal fst H) as Hf. pose proof (f_equal snd H) as Hid.
    cbn [fst snd] in Hf, Hid. split; [exact Hf|].
    apply (identity s a b hc ns hc' ns' Wa Wb Ha Hb). exact Hid.
  - intros [-> ->]. reflexivity.
Qed.

Lemma nonvacuous :
  checkF (Func {| ins := [TNs 0; TCtx; TInt; TString]; vtail := Some TDur; outs := [TErr] |})
         [VInt 5; VStr "x"; VDur 1; VDur 2] = Good true true
  /\ fn_id [VInt 5; VStr "x"; VDur 1; VDur 2] = "[5,""78"",1,2]"
  /\ fn_id [VStr (bs [255])] <> fn_id [VStr (bs [254])].
Proof.
  split; [vm_compute; reflexivity|]. split; [vm_compute; reflexivity|].
  vm_compute. discriminate.
Qed.
