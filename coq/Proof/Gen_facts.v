(* Lemmas about Model/Gen.v (C18). *)
From Mage Require Import Base.Strs Model.Gen Proof.SortPerm.
From Coq Require Import Sorting.Permutation Sorting.Sorted DecimalString DecimalNat FinFun.

(* ---------------------------------------------------------------- the spec side *)
(* a `range` over a Go map hands out every entry once, in an order of its own choosing *)
Definition is_range {A} (r : list A -> list A) : Prop := forall l, Permutation (r l) l.

(* same magefiles, same imported packages - whatever the hash maps do:
   the files of the package in any order (their names are the keys of a map, so distinct; each
   file's own import specs stay in source order), the functions found in any order (target names
   distinct: Package() rejects anything else), the same Default and Aliases text, and any two
   behaviours of the map ranges *)
Definition same_content_up_to_order (a b : inputs) : Prop :=
  Permutation (in_files a) (in_files b) /\ NoDup (map f_name (in_files a)) /\
  Permutation (in_funcs a) (in_funcs b) /\ NoDup (map local_target_name (in_funcs a)) /\
  in_default a = in_default b /\ in_aliases a = in_aliases b /\
  is_range (in_range_names a) /\ is_range (in_range_names b) /\
  is_range (in_range_aliases a) /\ is_range (in_range_aliases b).

(* ---------------------------------------------------------------- maps keep their keys distinct *)
Lemma mset_keys_in {V} k (v : V) : forall m k', In k' (map fst (mset k v m)) -> k' = k \/ In k' (map fst m).
Proof.
  induction m as [|[k0 v0] m IH]; simpl; intros k' H.
  - destruct H as [H|[]]; auto.
  - destruct (String.eqb k k0) eqn:E; simpl in H.
    + apply String.eqb_eq in E. subst. destruct H; auto.
    + destruct H as [H|H]; auto. destruct (IH _ H); auto.
Qed.

Lemma mset_keys_nodup {V} k (v : V) : forall m, NoDup (map fst m) -> NoDup (map fst (mset k v m)).
Proof.
  induction m as [|[k0 v0] m IH]; simpl; intros H.
  - constructor; [tauto|constructor].
  - inversion H as [|? ? Hn Hnd]; subst.
    destruct (String.eqb k k0) eqn:E; simpl.
    + apply String.eqb_eq in E. subst. now constructor.
    + constructor; auto. intros Hin. apply mset_keys_in in Hin. destruct Hin as [->|Hin]; auto.
      now rewrite String.eqb_refl in E.
Qed.

Lemma set_aliases_nd entries funcs imps : NoDup (map fst (set_aliases entries funcs imps)).
Proof.
  unfold set_aliases. assert (H : NoDup (map fst (@nil (string * func)))) by constructor.
  revert H. generalize (@nil (string * func)).
  induction entries as [|[k e] l IH]; simpl; intros m H; auto.
  apply IH. destruct (get_function e funcs imps); auto using mset_keys_nodup.
Qed.

(* ---------------------------------------------------------------- lookups in an unordered list *)
Lemma find_perm_unique {A} (p : A -> bool) l l' :
  Permutation l l' ->
  (forall x y, In x l -> In y l -> p x = true -> p y = true -> x = y) ->
  find p l = find p l'.
Proof.
  intros P U.
  destruct (find p l) as [a|] eqn:E1; destruct (find p l') as [b|] eqn:E2; auto.
  - apply find_some in E1. apply find_some in E2. destruct E1, E2. f_equal. apply U; auto.
    eapply Permutation_in; [symmetry; exact P|auto].
  - apply find_some in E1. destruct E1 as [Hin Hp].
    rewrite (find_none _ _ E2 a) in Hp; [discriminate|]. eapply Permutation_in; eauto.
  - apply find_some in E2. destruct E2 as [Hin Hp].
    rewrite (find_none _ _ E1 b) in Hp; [discriminate|]. eapply Permutation_in; [symmetry; exact P|auto].
Qed.

Lemma is_fn_local_unique pfs recv name :
  NoDup (map local_target_name pfs) ->
  forall x y, In x (map local_func pfs) -> In y (map local_func pfs) ->
              is_fn recv name x = true -> is_fn recv name y = true -> x = y.
Proof.
  intros Hnd x y Hx Hy Px Py.
  apply in_map_iff in Hx. destruct Hx as (p & <- & Hp).
  apply in_map_iff in Hy. destruct Hy as (q & <- & Hq).
  unfold is_fn in *. simpl in *.
  apply andb_true_iff in Px. destruct Px as [N1 R1]. apply andb_true_iff in Py. destruct Py as [N2 R2].
  apply String.eqb_eq in N1, R1, N2, R2.
  f_equal. apply (nodup_map_inj local_target_name pfs); auto.
  unfold local_target_name, target_name, local_func, mk_func. simpl. rewrite N1, R1, N2, R2. reflexivity.
Qed.

Lemma get_function_perm e pfs pfs' imps :
  Permutation pfs pfs' -> NoDup (map local_target_name pfs) ->
  get_function e (map local_func pfs) imps = get_function e (map local_func pfs') imps.
Proof.
  intros P Hnd.
  assert (F : forall recv name, find (is_fn recv name) (map local_func pfs) = find (is_fn recv name) (map local_func pfs')).
  { intros. apply find_perm_unique; [now apply Permutation_map|now apply is_fn_local_unique]. }
  destruct e; simpl; auto. now rewrite F.
Qed.

Lemma set_aliases_ext entries fs fs' imps :
  (forall e, get_function e fs imps = get_function e fs' imps) ->
  set_aliases entries fs imps = set_aliases entries fs' imps.
Proof.
  intros H. unfold set_aliases. generalize (@nil (string * func)).
  induction entries as [|[k e] l IH]; simpl; intros m; auto. now rewrite H, IH.
Qed.

(* ---------------------------------------------------------------- determinism *)
Lemma set_imports_det env rn rn' files files' :
  Permutation files files' -> NoDup (map f_name files) -> is_range rn -> is_range rn' ->
  set_imports env true rn files = set_imports env true rn' files'.
Proof.
  intros P Hnd R R'. unfold set_imports, files_visited.
  rewrite (sort_canonical f_name files files' P Hnd).
  destruct (collect (sort_by f_name files')) as [names roots].
  assert (E : named_order true rn names = named_order true rn' names).
  { unfold named_order. apply sort_pairs_canonical. rewrite (R names), (R' names). reflexivity. }
  now rewrite E.
Qed.

Lemma description_perm files files' :
  Permutation files files' -> NoDup (map f_name files) -> description files = description files'.
Proof. intros P Hnd. unfold description, package_doc. now rewrite (sort_canonical f_name files files' P Hnd). Qed.

Lemma deterministic env a b :
  same_content_up_to_order a b -> template_data env true a = template_data env true b.
Proof.
  intros (Pf & Nf & Pu & Nu & Ed & Ea & Rna & Rnb & Raa & Rab).
  unfold template_data.
  rewrite (set_imports_det env (in_range_names a) (in_range_names b) _ _ Pf Nf Rna Rnb).
  destruct (set_imports env true (in_range_names b) (in_files b)) as [imps|]; auto.
  assert (G : forall e, get_function e (map local_func (in_funcs a)) imps = get_function e (map local_func (in_funcs b)) imps).
  { intros e. now apply get_function_perm. }
  assert (E1 : sort_by target_name (map local_func (in_funcs a)) = sort_by target_name (map local_func (in_funcs b))).
  { apply sort_canonical; [now apply Permutation_map|]. rewrite map_map. exact Nu. }
  assert (E2 : set_aliases (in_aliases a) (map local_func (in_funcs a)) imps =
               set_aliases (in_aliases b) (map local_func (in_funcs b)) imps).
  { rewrite Ea. now apply set_aliases_ext. }
  assert (E3 : sort_by fst (in_range_aliases a (set_aliases (in_aliases a) (map local_func (in_funcs a)) imps)) =
               sort_by fst (in_range_aliases b (set_aliases (in_aliases b) (map local_func (in_funcs b)) imps))).
  { rewrite E2. apply sort_canonical.
    - rewrite (Raa _), (Rab _). reflexivity.
    - eapply perm_nodup_map; [symmetry; apply Raa|apply set_aliases_nd]. }
  rewrite (description_perm _ _ Pf Nf), E1, E3, Ed. destruct (in_default b); [rewrite G|]; reflexivity.
Qed.

Lemma association_stable env a b t t' :
  same_content_up_to_order a b ->
  template_data env true a = Some t -> template_data env true b = Some t' ->
  association t = association t'.
Proof. intros H Ha Hb. rewrite (deterministic env a b H) in Ha. congruence. Qed.

(* ---------------------------------------------------------------- unique names *)
Lemma dec_inj a b : dec a = dec b -> a = b.
Proof.
  unfold dec. intros H. apply (f_equal NilEmpty.uint_of_string) in H. rewrite !NilEmpty.usu in H.
  injection H as H. apply (f_equal Nat.of_uint) in H. now rewrite !Unsigned.of_to in H.
Qed.

Lemma dec_nonempty k : dec (S k) <> "".
Proof.
  unfold dec. intros H. apply (f_equal NilEmpty.uint_of_string) in H. rewrite NilEmpty.usu in H.
  simpl in H. injection H as H. apply (f_equal Nat.of_uint) in H. rewrite Unsigned.of_to in H. discriminate.
Qed.

Lemma append_inj_l a : forall b c, String.append a b = String.append a c -> b = c.
Proof. induction a as [|x a IH]; simpl; intros b c H; auto. injection H as H. auto. Qed.

(* the candidates the loop tries, by index: name_mageimport, name_mageimport1, name_mageimport2 ... *)
Definition cidx (name : string) (k : nat) : string :=
  match k with 0 => String.append name "_mageimport" | S _ => cand name k end.

Lemma cidx_inj name : Injective (cidx name).
Proof.
  intros j k H.
  assert (E : forall n, cidx name n = String.append name (String.append "_mageimport" (match n with 0 => "" | S _ => dec n end))).
  { intros [|n]; reflexivity. }
  rewrite !E in H. apply append_inj_l in H. apply append_inj_l in H.
  destruct j as [|j], k as [|k]; auto.
  - symmetry in H. now apply dec_nonempty in H.
  - now apply dec_nonempty in H.
  - now apply dec_inj.
Qed.

Lemma mem_true s l : mem s l = true <-> In s l.
Proof.
  unfold mem. rewrite existsb_exists. split.
  - intros (x & Hin & E). apply String.eqb_eq in E. now subst.
  - intros H. exists s. split; auto. apply String.eqb_refl.
Qed.

Lemma uniq_search_free used name : forall fuel k,
  (exists j, k <= j <= k + fuel /\ mem (cidx name j) used = false) ->
  mem (uniq_search fuel (S k) used name (cidx name k)) used = false.
Proof.
  induction fuel as [|f IH]; intros k (j & Hj & Hfree); simpl.
  - assert (j = k) by lia. subst. now rewrite Hfree.
  - destruct (mem (cidx name k) used) eqn:E; auto.
    change (cand name (S k)) with (cidx name (S k)). apply IH.
    exists j. split; auto. assert (j <> k) by (intros ->; congruence). lia.
Qed.

Lemma forallb_false_ex {A} (p : A -> bool) : forall l, forallb p l = false -> exists x, In x l /\ p x = false.
Proof.
  induction l as [|a l IH]; simpl; [discriminate|].
  destruct (p a) eqn:E; simpl; intros H.
  - destruct (IH H) as (x & Hx & Px). exists x. auto.
  - exists a. auto.
Qed.

(* pigeonhole: among (number of used names + 1) distinct candidates one is not in use *)
Lemma free_candidate used name : exists j, 0 <= j <= 0 + length used /\ mem (cidx name j) used = false.
Proof.
  set (cs := map (cidx name) (seq 0 (S (length used)))).
  destruct (forallb (fun s => mem s used) cs) eqn:E.
  - exfalso. rewrite forallb_forall in E.
    assert (I : incl cs used) by (intros s Hs; apply mem_true; auto).
    assert (N : NoDup cs) by (apply Injective_map_NoDup; [apply cidx_inj|apply seq_NoDup]).
    pose proof (NoDup_incl_length N I) as L. unfold cs in L. rewrite map_length, seq_length in L. lia.
  - apply forallb_false_ex in E. destruct E as (s & Hs & Hfree).
    unfold cs in Hs. apply in_map_iff in Hs. destruct Hs as (j & <- & Hj). apply in_seq in Hj.
    exists j. split; auto. lia.
Qed.

(* the fuel [length used] suffices: the name found is not in use *)
Lemma uniq_name_fresh used name : ~ In (uniq_name used name) used.
Proof.
  intros H. apply mem_true in H.
  unfold uniq_name in H. change (String.append name "_mageimport") with (cidx name 0) in H.
  rewrite (uniq_search_free used name (length used) 0 (free_candidate used name)) in H. discriminate.
Qed.

(* and it has the advertised shape *)
Lemma uniq_search_shape used name : forall fuel x unique,
  uniq_search fuel x used name unique = unique \/ exists j, uniq_search fuel x used name unique = cand name j.
Proof.
  induction fuel as [|f IH]; intros x unique; simpl; destruct (mem unique used); auto.
  destruct (IH (S x) (cand name x)) as [H|H]; eauto.
Qed.

Lemma uniq_name_shape used name :
  uniq_name used name = String.append name "_mageimport" \/
  exists j, uniq_name used name = String.append name (String.append "_mageimport" (dec j)).
Proof. apply uniq_search_shape. Qed.

Lemma set_uname_uname u i : i_uname (set_uname u i) = u.
Proof. reflexivity. Qed.

Lemma assign_spec : forall imps used,
  NoDup (map i_uname (assign used imps)) /\
  forall u, In u (map i_uname (assign used imps)) -> ~ In u used.
Proof.
  induction imps as [|i r IH]; intros used; simpl.
  - split; [constructor|tauto].
  - destruct (IH (uniq_name used (i_name i) :: used)) as [Hnd Hfresh]. split.
    + constructor; auto. intros Hin. apply (Hfresh _ Hin). now left.
    + intros u [<-|Hin]; [apply uniq_name_fresh|].
      intros Hu. apply (Hfresh _ Hin). now right.
Qed.

Lemma assign_paths : forall imps used, map i_path (assign used imps) = map i_path imps.
Proof. induction imps as [|i r IH]; intros used; simpl; auto. now rewrite IH. Qed.

Lemma assign_shape : forall imps used i, In i (assign used imps) ->
  i_uname i = String.append (i_name i) "_mageimport" \/
  exists j, i_uname i = String.append (i_name i) (String.append "_mageimport" (dec j)).
Proof.
  induction imps as [|a r IH]; intros used i; simpl; [tauto|].
  intros [<-|Hin]; [apply uniq_name_shape|eauto].
Qed.

Lemma set_imports_nodup env fixed rng files imps :
  set_imports env fixed rng files = Some imps -> NoDup (map i_uname imps).
Proof.
  unfold set_imports. destruct (collect (files_visited fixed files)) as [names roots].
  destruct (get_all env _); [|discriminate]. intros H. injection H as <-. apply assign_spec.
Qed.

Lemma unique_names_injective env fixed i t :
  template_data env fixed i = Some t ->
  NoDup (map i_uname (td_imports t)) /\
  (forall x y, In x (td_imports t) -> In y (td_imports t) -> i_uname x = i_uname y -> x = y).
Proof.
  unfold template_data. destruct (set_imports env fixed (in_range_names i) (in_files i)) as [imps|] eqn:E; [|discriminate].
  intros H. injection H as <-. simpl.
  assert (N : NoDup (map i_uname (sort_by i_uname imps))).
  { eapply perm_nodup_map; [symmetry; apply sort_by_perm|]. eapply set_imports_nodup; eauto. }
  split; auto. intros x y. now apply nodup_map_inj.
Qed.

Lemma unique_name_shape env fixed i t x :
  template_data env fixed i = Some t -> In x (td_imports t) ->
  i_uname x = String.append (i_name x) "_mageimport" \/
  exists j, i_uname x = String.append (i_name x) (String.append "_mageimport" (dec j)).
Proof.
  unfold template_data. destruct (set_imports env fixed (in_range_names i) (in_files i)) as [imps|] eqn:E; [|discriminate].
  intros H. injection H as <-. simpl. intros Hin.
  apply (Permutation_in _ (sort_by_perm i_uname imps)) in Hin.
  unfold set_imports in E. destruct (collect (files_visited fixed (in_files i))) as [names roots].
  destruct (get_all env _); [|discriminate]. injection E as <-. eapply assign_shape; eauto.
Qed.

(* the import list is sorted by unique name, the function list by target name, the aliases by key *)
Lemma outputs_sorted env fixed i t :
  template_data env fixed i = Some t ->
  sorted target_name (td_funcs t) /\ sorted fst (td_aliases t) /\ sorted i_uname (td_imports t).
Proof.
  unfold template_data. destruct (set_imports env fixed (in_range_names i) (in_files i)); [|discriminate].
  intros H. injection H as <-. simpl. auto using sort_by_sorted.
Qed.

(* ---------------------------------------------------------------- without the sorted iterations *)
Definition env2 (p : string) : option (string * list pfunc) :=
  if String.eqb p "x/a/tools" then Some ("tools", [{| pf_recv := ""; pf_name := "Build"; pf_body := "" |}])
  else if String.eqb p "x/b/tools" then Some ("tools", [{| pf_recv := ""; pf_name := "Lint"; pf_body := "" |}])
  else None.

Definition two_named (rng : list (string * string) -> list (string * string)) : inputs :=
  {| in_files := [{| f_name := "magefile.go"; f_doc := None;
                     f_specs := [{| sp_path := "x/a/tools"; sp_alias := "a" |}; {| sp_path := "x/b/tools"; sp_alias := "b" |}] |}];
     in_funcs := [{| pf_recv := ""; pf_name := "All"; pf_body := "" |}];
     in_default := Some (ASel "tools" "Build");
     in_aliases := [("b", ASel "tools" "Build"); ("l", ASel "tools" "Lint")];
     in_range_names := rng; in_range_aliases := fun l => l |}.

Definition root_file (n p : string) : file := {| f_name := n; f_doc := Some (String.append n " says hello"); f_specs := [{| sp_path := p; sp_alias := "" |}] |}.
Definition two_roots (files : list file) : inputs :=
  {| in_files := files; in_funcs := []; in_default := None; in_aliases := [];
     in_range_names := fun l => l; in_range_aliases := fun l => l |}.

Lemma range_id {A} : is_range (fun l : list A => l).
Proof. intros l. reflexivity. Qed.
Lemma range_rev {A} : is_range (@rev A).
Proof. intros l. symmetry. apply Permutation_rev. Qed.

Lemma nodup1 {A} (x : A) : NoDup [x].
Proof. constructor; [simpl; tauto|constructor]. Qed.

Lemma two_named_same : same_content_up_to_order (two_named (fun l => l)) (two_named (@rev _)).
Proof.
  unfold same_content_up_to_order; simpl.
  repeat split; auto using range_id, range_rev, nodup1.
Qed.

Lemma two_roots_same :
  same_content_up_to_order (two_roots [root_file "a.go" "x/a/tools"; root_file "b.go" "x/b/tools"])
                           (two_roots [root_file "b.go" "x/b/tools"; root_file "a.go" "x/a/tools"]).
Proof.
  unfold same_content_up_to_order; simpl.
  repeat split; auto using range_id, perm_swap.
  - constructor; [simpl; intuition discriminate|apply nodup1].
  - constructor.
Qed.

(* the code without the sorted iterations of 7540a9b: the map order decides which package is tools_mageimport *)
Lemma before_repair_refuted :
  (exists env a b, same_content_up_to_order a b /\
      exists t t', template_data env false a = Some t /\ template_data env false b = Some t' /\
                   association t <> association t') /\
  (exists env a b, same_content_up_to_order a b /\
      in_range_names a = in_range_names b /\ in_range_aliases a = in_range_aliases b /\
      exists t t', template_data env false a = Some t /\ template_data env false b = Some t' /\
                   association t <> association t').
Proof.
  split.
  - exists env2, (two_named (fun l => l)), (two_named (@rev _)). split; [apply two_named_same|].
    eexists; eexists. split; [vm_compute; reflexivity|]. split; [vm_compute; reflexivity|].
    vm_compute. discriminate.
  - exists env2, (two_roots [root_file "a.go" "x/a/tools"; root_file "b.go" "x/b/tools"]),
                 (two_roots [root_file "b.go" "x/b/tools"; root_file "a.go" "x/a/tools"]).
    split; [apply two_roots_same|]. split; [reflexivity|]. split; [reflexivity|].
    eexists; eexists. split; [vm_compute; reflexivity|]. split; [vm_compute; reflexivity|].
    vm_compute. discriminate.
Qed.

(* non-vacuity: two named imports of packages both called tools, a Default and aliases that go
   through the package name; the current code gives the same data for both map orders, x/a/tools
   is tools_mageimport, x/b/tools is tools_mageimport1, and `tools.Build` is x/a/tools' Build *)
Lemma nonvacuous_c18 :
  same_content_up_to_order (two_named (fun l => l)) (two_named (@rev _)) /\
  template_data env2 true (two_named (fun l => l)) = template_data env2 true (two_named (@rev _)) /\
  exists t, template_data env2 true (two_named (@rev _)) = Some t /\
            association t = [("x/a/tools", "tools_mageimport"); ("x/b/tools", "tools_mageimport1")] /\
            map target_name (td_funcs t) = ["All"] /\
            map (fun i => map target_name (i_funcs i)) (td_imports t) = [["a:Build"]; ["b:Lint"]] /\
            option_map fn_pkg (td_default t) = Some "tools_mageimport" /\
            map (fun kf => (fst kf, target_name (snd kf))) (td_aliases t) = [("b", "a:Build")].
Proof.
  split; [apply two_named_same|]. split; [vm_compute; reflexivity|].
  eexists. split; [vm_compute; reflexivity|]. vm_compute. repeat split.
Qed.

(* one package imported under two aliases (three specs, two of them identical, over three files in
   any order): two imports, named in the order (path, alias) *)
Definition named_file (n p a : string) : file := {| f_name := n; f_doc := None; f_specs := [{| sp_path := p; sp_alias := a |}] |}.
Definition two_aliases (files : list file) (rng : list (string * string) -> list (string * string)) : inputs :=
  {| in_files := files; in_funcs := []; in_default := None; in_aliases := [];
     in_range_names := rng; in_range_aliases := fun l => l |}.

Lemma two_aliases_example :
  let fa := named_file "a.go" "x/a/tools" "two" in
  let fb := named_file "b.go" "x/a/tools" "one" in
  let fc := named_file "c.go" "x/a/tools" "two" in
  template_data env2 true (two_aliases [fa; fb; fc] (fun l => l)) = template_data env2 true (two_aliases [fc; fb; fa] (@rev _)) /\
  exists t, template_data env2 true (two_aliases [fc; fb; fa] (@rev _)) = Some t /\
            map (fun i => (i_path i, i_alias i, i_uname i)) (td_imports t) =
              [("x/a/tools", "one", "tools_mageimport"); ("x/a/tools", "two", "tools_mageimport1")] /\
            map (fun i => map target_name (i_funcs i)) (td_imports t) = [["one:Build"]; ["two:Build"]].
Proof.
  simpl. split; [vm_compute; reflexivity|].
  eexists. split; [vm_compute; reflexivity|]. vm_compute. split; reflexivity.
Qed.

(* package comments in three of four files (one of them empty), any file order: go/doc's join in
   sorted file-name order, on one line *)
Definition doc_file (n : string) (d : option string) : file := {| f_name := n; f_doc := d; f_specs := [] |}.
Lemma description_example :
  let fa := doc_file "a.go" (Some (String.append "Targets that build." nl)) in
  let fb := doc_file "B.go" (Some (String.append "Deploys" (String.append nl (String.append "to staging." nl)))) in
  let fc := doc_file "c.go" None in
  let fd := doc_file "d.go" (Some "") in
  same_content_up_to_order (two_roots [fa; fb; fc; fd]) (two_roots [fc; fd; fa; fb]) /\
  description [fa; fb; fc; fd] = "Deploys to staging.  Targets that build." /\
  description [fc; fd; fa; fb] = "Deploys to staging.  Targets that build." /\
  option_map td_desc (template_data env2 true (two_roots [fc; fd; fa; fb])) = Some "Deploys to staging.  Targets that build.".
Proof.
  simpl. split; [|vm_compute; auto].
  unfold same_content_up_to_order; simpl. repeat split; auto using range_id.
  - apply Permutation_sym. apply (Permutation_app_comm [_; _] [_; _]).
  - repeat (constructor; [simpl; intuition discriminate|]). constructor.
  - constructor.
Qed.

(* the argument list of `go build` does not depend on the order in which the file system lists the directory *)
Lemma compile_args_order out ldflags selected entries entries' :
  Permutation entries entries' -> NoDup entries ->
  compile_args out ldflags selected entries = compile_args out ldflags selected entries'.
Proof.
  intros P Hnd. unfold compile_args, magefile_list.
  rewrite (sort_canonical (fun s => s) entries entries' P); auto. now rewrite map_id.
Qed.

Lemma compile_args_example :
  compile_args "out" "" (fun s => negb (String.eqb s "go.mod")) ["m1.go"; "go.mod"; "alpha.go"; "Zeta.go"] =
    ["build"; "-o"; "out"; "Zeta.go"; "alpha.go"; "m1.go"; "mage_output_file.go"] /\
  compile_args "out" "-s" (fun s => negb (String.eqb s "go.mod")) ["Zeta.go"; "alpha.go"; "go.mod"; "m1.go"] =
    ["build"; "-o"; "out"; "-ldflags"; "-s"; "Zeta.go"; "alpha.go"; "m1.go"; "mage_output_file.go"].
Proof. vm_compute. split; reflexivity. Qed.
