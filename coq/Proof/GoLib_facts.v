(* Spec lemmas for Base/GoLib.v (the Gallina definitions of the Go library functions the translator
   harness/extract emits) and the generic tactics the per-run agreement proofs (lib/extractlib.py,
   fn_tie) are written with. *)
From Mage Require Import Base.Strs Base.GoLib.

(* ---------------------------------------------------------------- strings *)
Lemma sapp_nil_r : forall s, (s ++ "")%string = s.
Proof. induction s; simpl; congruence. Qed.

Lemma sapp_assoc : forall a b c, ((a ++ b) ++ c)%string = (a ++ (b ++ c))%string.
Proof. induction a; simpl; intros; congruence. Qed.

Lemma slength_app : forall a b, String.length (a ++ b)%string = String.length a + String.length b.
Proof. induction a; simpl; intros; auto. Qed.

(* Go's a < b on strings is the strict part of the order the models sort with *)
Lemma sltb_negb_leb : forall a b, String.ltb a b = negb (String.leb b a).
Proof.
  intros a b. unfold String.ltb, String.leb. rewrite (String.compare_antisym a b).
  destruct (String.compare b a); reflexivity.
Qed.

Lemma sltb_irrefl : forall a, String.ltb a a = false.
Proof.
  intros a. unfold String.ltb.
  assert (String.compare a a = Eq) as ->; [|reflexivity].
  induction a as [|c a IH]; simpl; auto. unfold Ascii.compare. now rewrite N.compare_refl.
Qed.

Lemma prefix_app : forall p r, String.prefix p (p ++ r)%string = true.
Proof.
  induction p as [|a p IH]; simpl; intros r; [destruct r; reflexivity|].
  destruct (ascii_dec a a); [apply IH|congruence].
Qed.

Lemma prefix_inv : forall p s, String.prefix p s = true -> exists r, s = (p ++ r)%string.
Proof.
  induction p as [|a p IH]; intros s H; [exists s; reflexivity|].
  destruct s as [|b s]; simpl in H; [discriminate|].
  destruct (ascii_dec a b); [subst|discriminate].
  destruct (IH _ H) as (r & ->). exists r; reflexivity.
Qed.

(* strings.HasPrefix(s, p)  <->  s = p ++ something *)
Lemma strings_HasPrefix_spec : forall s p, strings_HasPrefix s p = true <-> exists r, s = (p ++ r)%string.
Proof.
  intros s p; unfold strings_HasPrefix; split; [apply prefix_inv|intros (r & ->); apply prefix_app].
Qed.

Lemma strings_Join_concat : forall l sep, strings_Join l sep = String.concat sep l.
Proof. reflexivity. Qed.

(* ---------------------------------------------------------------- s[:n], s[n:] *)
Lemma stake_sdrop : forall n s, (stake n s ++ sdrop n s)%string = s.
Proof. induction n; destruct s; simpl; auto. now rewrite IHn. Qed.

Lemma sdrop_length_le : forall n s, String.length (sdrop n s) <= String.length s.
Proof. induction n; destruct s as [|c r]; simpl; auto; try (specialize (IHn r); lia). Qed.

Lemma sdrop_length : forall n s, n <= String.length s -> String.length (sdrop n s) = String.length s - n.
Proof. induction n; destruct s; simpl; intros; auto; try lia. apply IHn; lia. Qed.

Lemma sdrop_app : forall a b, sdrop (String.length a) (a ++ b)%string = b.
Proof. induction a; simpl; auto. Qed.

Lemma stake_app : forall a b, stake (String.length a) (a ++ b)%string = a.
Proof. induction a; simpl; intros; auto. now rewrite IHa. Qed.

Lemma sdrop_add : forall n m s, sdrop (n + m) s = sdrop m (sdrop n s).
Proof. induction n; simpl; intros; auto. destruct s; simpl; auto. destruct m; reflexivity. Qed.

(* ---------------------------------------------------------------- strings.Index *)
(* the first instance: s = s[:m] ++ substr ++ s[m+len(substr):], and substr does not start at any k < m *)
Lemma strings_Index_Some : forall s sub m, strings_Index s sub = Some m ->
  s = (stake m s ++ sub ++ sdrop (m + String.length sub) s)%string /\
  (forall k, k < m -> String.prefix sub (sdrop k s) = false).
Proof.
  induction s as [|c s IH]; intros sub m; cbn [strings_Index].
  - destruct sub; cbn [String.prefix]; [|discriminate]. intros [= <-]. split; [reflexivity|intros; lia].
  - destruct (String.prefix sub (String c s)) eqn:P.
    + intros [= <-]. split; [|intros; lia].
      destruct (prefix_inv _ _ P) as (r & E). cbn [stake sdrop Nat.add String.append]. rewrite E at 1. now rewrite E, sdrop_app.
    + destruct (strings_Index s sub) as [m'|] eqn:E; cbn [option_map]; [|discriminate]. intros [= <-].
      destruct (IH _ _ E) as (H1 & H2). split.
      * cbn [stake sdrop Nat.add String.append]. now rewrite <- H1.
      * intros [|k] Hk; cbn [sdrop]; [exact P|apply H2; lia].
Qed.

Lemma strings_Index_None : forall s sub, strings_Index s sub = None ->
  forall k, String.prefix sub (sdrop k s) = false.
Proof.
  induction s as [|c s IH]; intros sub; cbn [strings_Index].
  - destruct sub; cbn [String.prefix]; [discriminate|]. intros _ [|k]; reflexivity.
  - destruct (String.prefix sub (String c s)) eqn:P; [discriminate|].
    destruct (strings_Index s sub) eqn:E; cbn [option_map]; [discriminate|]. intros _ [|k]; cbn [sdrop]; [exact P|now apply IH].
Qed.

Lemma stake_Index_length : forall s sub m, strings_Index s sub = Some m -> String.length (stake m s) = m.
Proof.
  induction s as [|c s IH]; intros sub m; cbn [strings_Index].
  - destruct sub; cbn [String.prefix]; [|discriminate]. now intros [= <-].
  - destruct (String.prefix sub (String c s)); [now intros [= <-]|].
    destruct (strings_Index s sub) eqn:E; cbn [option_map]; [|discriminate]. intros [= <-].
    cbn [stake String.length]. f_equal. eapply IH; eauto.
Qed.

Lemma strings_Index_bound : forall s sub m, strings_Index s sub = Some m -> m + String.length sub <= String.length s.
Proof.
  intros s sub m H. destruct (strings_Index_Some _ _ _ H) as (E & _).
  pose proof (stake_Index_length _ _ _ H) as L.
  apply (f_equal String.length) in E. rewrite !slength_app, L in E. lia.
Qed.

(* ---------------------------------------------------------------- strings.Split *)
(* more fuel than len(s) changes nothing (sep <> "") *)
Lemma split_loop_fuel : forall sep, sep <> EmptyString ->
  forall n k s, String.length s <= n -> split_loop (n + k) s sep = split_loop n s sep.
Proof.
  intros sep Hsep. induction n as [|n IH]; intros k s Hl.
  - destruct s; [|simpl in Hl; lia]. destruct k; simpl; auto.
    destruct sep; [congruence|]. reflexivity.
  - simpl. destruct (strings_Index s sep) as [m|] eqn:E; auto. f_equal. apply IH.
    pose proof (strings_Index_bound _ _ _ E) as B.
    assert (0 < String.length sep) by (destruct sep; [congruence|simpl; lia]).
    rewrite sdrop_length by lia. lia.
Qed.

(* one iteration of genSplit's loop *)
Lemma strings_Split_unfold : forall s sep, sep <> EmptyString ->
  strings_Split s sep =
  match strings_Index s sep with
  | None => [s]
  | Some m => stake m s :: strings_Split (sdrop (m + String.length sep) s) sep
  end.
Proof.
  intros s sep Hsep. unfold strings_Split.
  destruct (String.length s) as [|n] eqn:L.
  - destruct s; [|discriminate]. simpl. destruct sep; [congruence|reflexivity].
  - simpl. destruct (strings_Index s sep) as [m|] eqn:E; auto. f_equal.
    pose proof (strings_Index_bound _ _ _ E) as B.
    assert (0 < String.length sep) by (destruct sep; [congruence|simpl; lia]).
    set (s' := sdrop (m + String.length sep) s).
    assert (Hl : String.length s' <= n) by (unfold s'; rewrite sdrop_length by lia; lia).
    replace n with (String.length s' + (n - String.length s')) by lia.
    apply split_loop_fuel; auto.
Qed.

(* joining the pieces with the separator gives the string back *)
Lemma strings_Split_join : forall sep, sep <> EmptyString ->
  forall s, strings_Join (strings_Split s sep) sep = s.
Proof.
  intros sep Hsep s. unfold strings_Join.
  remember (String.length s) as n eqn:L. revert s L.
  induction n as [n IH] using lt_wf_ind. intros s L.
  rewrite strings_Split_unfold by auto.
  destruct (strings_Index s sep) as [m|] eqn:E; [|reflexivity].
  destruct (strings_Index_Some _ _ _ E) as (Es & _).
  pose proof (strings_Index_bound _ _ _ E) as B.
  assert (0 < String.length sep) by (destruct sep; [congruence|simpl; lia]).
  set (s' := sdrop (m + String.length sep) s) in *.
  assert (IH' : String.concat sep (strings_Split s' sep) = s').
  { apply (IH (String.length s')); auto. unfold s'. rewrite sdrop_length by lia. lia. }
  assert (NE : strings_Split s' sep <> []).
  { rewrite strings_Split_unfold by auto. destruct (strings_Index s' sep); discriminate. }
  simpl. destruct (strings_Split s' sep) as [|h t] eqn:Et; [congruence|].
  rewrite IH'. symmetry. exact Es.
Qed.

(* ---------------------------------------------------------------- one-byte separators *)
Lemma split_char_nonempty : forall c s, split_char c s <> [].
Proof. intros c s; destruct s as [|d r]; simpl; [discriminate|]. destruct (Ascii.eqb d c); [discriminate|]. destruct (split_char c r); discriminate. Qed.

Lemma prefix_char : forall c d r, String.prefix (String c EmptyString) (String d r) = Ascii.eqb d c.
Proof.
  intros c d r. simpl. destruct (ascii_dec c d) as [->|N].
  - rewrite Ascii.eqb_refl. destruct r; reflexivity.
  - symmetry. apply Ascii.eqb_neq. congruence.
Qed.

Lemma split_char_Index : forall c s,
  split_char c s =
  match strings_Index s (String c EmptyString) with
  | None => [s]
  | Some m => stake m s :: split_char c (sdrop (m + 1) s)
  end.
Proof.
  intros c. induction s as [|d r IH]; [reflexivity|].
  cbn [split_char strings_Index]. rewrite prefix_char. destruct (Ascii.eqb d c) eqn:E; [reflexivity|].
  rewrite IH. destruct (strings_Index r (String c EmptyString)) as [m|]; reflexivity.
Qed.

(* strings.Split(s, "c") read structurally *)
Lemma strings_Split_char : forall c s, strings_Split s (String c EmptyString) = split_char c s.
Proof.
  intros c s. remember (String.length s) as n eqn:L. revert s L.
  induction n as [n IH] using lt_wf_ind. intros s L.
  rewrite strings_Split_unfold by discriminate. rewrite split_char_Index.
  destruct (strings_Index s (String c EmptyString)) as [m|] eqn:E; [|reflexivity].
  pose proof (strings_Index_bound _ _ _ E) as B. simpl in B.
  f_equal. simpl String.length. apply (IH (String.length (sdrop (m + 1) s))); auto.
  rewrite sdrop_length by lia. lia.
Qed.

Lemma split_char_no_sep : forall c s, Forall (fun p => has_char c p = false) (split_char c s).
Proof.
  intros c. induction s as [|d r IH]; simpl; [repeat constructor|].
  destruct (Ascii.eqb d c) eqn:E; [constructor; auto|].
  destruct (split_char c r) as [|h t]; [repeat constructor; simpl; now rewrite E|].
  inversion IH; subst. constructor; auto. simpl. now rewrite E.
Qed.

Lemma split_char_none : forall c s, has_char c s = false -> split_char c s = [s].
Proof.
  intros c. induction s as [|d r IH]; simpl; auto. intros H. apply orb_false_iff in H as (H1 & H2).
  rewrite H1, (IH H2). reflexivity.
Qed.

Lemma split_char_app : forall c a b, has_char c a = false ->
  split_char c (a ++ String c b)%string = a :: split_char c b.
Proof.
  intros c. induction a as [|d a IH]; simpl; intros b H.
  - now rewrite Ascii.eqb_refl.
  - apply orb_false_iff in H as (H1 & H2). rewrite H1, (IH _ H2). reflexivity.
Qed.

Lemma split_char_one : forall c s b, split_char c s = [b] -> s = b /\ has_char c b = false.
Proof.
  intros c. induction s as [|d r IH]; cbn [split_char]; intros b H.
  - injection H as <-. auto.
  - destruct (Ascii.eqb d c) eqn:E.
    + exfalso. injection H as _ H. exact (split_char_nonempty _ _ H).
    + destruct (split_char c r) as [|h t] eqn:Es; [exfalso; exact (split_char_nonempty _ _ Es)|].
      injection H as <- ->. destruct (IH _ eq_refl) as (-> & Hh). cbn [has_char]. now rewrite E, Hh.
Qed.

(* exactly two pieces <-> exactly one separator *)
Lemma split_char_two : forall c s a b,
  split_char c s = [a; b] <->
  s = (a ++ String c b)%string /\ has_char c a = false /\ has_char c b = false.
Proof.
  intros c s a b; split.
  - revert a b. induction s as [|d r IH]; cbn [split_char]; intros a b H; [discriminate|].
    destruct (Ascii.eqb d c) eqn:E.
    + injection H as <- H. apply Ascii.eqb_eq in E; subst d.
      destruct (split_char_one _ _ _ H) as (-> & Hb). auto.
    + destruct (split_char c r) as [|h t] eqn:Es; [discriminate|]. injection H as <- ->.
      destruct (IH _ _ eq_refl) as (-> & H1 & H2). cbn [has_char String.append]. rewrite E, H1. auto.
  - intros (-> & Ha & Hb). rewrite split_char_app, split_char_none; auto.
Qed.

(* ---------------------------------------------------------------- len, indexing *)
Lemma len_nil {A} : len_ (@nil A) = 0%Z.
Proof. reflexivity. Qed.

Lemma len_cons {A} : forall (x : A) l, len_ (x :: l) = (len_ l + 1)%Z.
Proof. intros; unfold len_; simpl length; lia. Qed.

Lemma len_nonneg {A} : forall (l : list A), (0 <= len_ l)%Z.
Proof. intros; unfold len_; lia. Qed.

Lemma index_0 {A} : forall (z x : A) l, index_ z (x :: l) 0 = x.
Proof. reflexivity. Qed.

Lemma index_nat {A} : forall (z : A) l n, index_ z l (Z.of_nat n) = nth n l z.
Proof. intros; unfold index_. destruct (Z.ltb_spec (Z.of_nat n) 0); [lia|]. now rewrite Nat2Z.id. Qed.

(* ---------------------------------------------------------------- the append-only loop
   for _, s := range l { ...; acc = append(acc, ...) } : when one round only ever appends to the
   accumulator, the loop is acc ++ flat_map (one round from empty) l.  The side condition is what the
   agreement scripts discharge by case analysis on the conditions of the translated loop body, so the
   lemma applies whatever the body looks like (if/continue/else, several appends, renamed locals). *)
Lemma fold_left_append_only {A B} : forall (f : list B -> A -> list B),
  (forall acc x, f acc x = acc ++ f [] x) ->
  forall l acc, fold_left f l acc = acc ++ flat_map (f []) l.
Proof.
  intros f H. induction l as [|x l IH]; intros acc; simpl; [now rewrite app_nil_r|].
  rewrite IH, (H acc x), app_assoc. reflexivity.
Qed.

Lemma flat_map_filter {A} : forall (p : A -> bool) (g : A -> list A),
  (forall x, g x = if p x then [x] else []) -> forall l, flat_map g l = filter p l.
Proof. intros p g H. induction l as [|x l IH]; simpl; auto. rewrite H, IH. destruct (p x); reflexivity. Qed.

(* a loop that appends every element *)
Lemma flat_map_single {A} : forall (g : A -> list A), (forall x, g x = [x]) -> forall l, flat_map g l = l.
Proof. intros g H. induction l as [|x l IH]; simpl; auto. now rewrite H, IH. Qed.

(* ---------------------------------------------------------------- tactics for the agreement proofs *)
(* case analysis on every decidable test that occurs in the goal *)
Ltac go_cases :=
  repeat (cbn [negb andb orb];
          match goal with
          | |- context [String.eqb ?a ?b] => destruct (String.eqb_spec a b); try subst
          | |- context [Z.eqb ?a ?b] => destruct (Z.eqb_spec a b)
          | |- context [Z.ltb ?a ?b] => destruct (Z.ltb_spec a b)
          | |- context [Z.leb ?a ?b] => destruct (Z.leb_spec a b)
          | |- context [strings_HasPrefix ?a ?b] => destruct (strings_HasPrefix a b) eqn:?
          | |- context [String.prefix ?a ?b] => destruct (String.prefix a b) eqn:?
          | |- context [if ?c then _ else _] => destruct c eqn:?
          end); cbn [negb andb orb].

Ltac go_norm := cbv zeta beta; cbn [app]; rewrite ?app_nil_l, ?app_nil_r, <- ?app_assoc, ?sapp_assoc, ?sapp_nil_r.

(* the side condition of fold_left_append_only for a translated loop body *)
Ltac go_pairs := repeat match goal with p : (_ * _)%type |- _ => destruct p end.
Ltac go_append_only := intros; go_pairs; cbv beta zeta; go_cases; rewrite ?app_nil_l, ?app_nil_r, <- ?app_assoc; try reflexivity; try congruence.

(* turn every append-only range loop of the goal into a flat_map (and a copying loop into the list itself) *)
Ltac go_loops :=
  repeat match goal with
         | |- context [fold_left ?f ?l ?a] => rewrite (fold_left_append_only f) by go_append_only
         end;
  repeat match goal with
         | |- context [flat_map ?g ?l] => rewrite (flat_map_single g) by (intros; cbv beta zeta; cbn [app]; reflexivity)
         end.

(* a translated receiver Record: open it, keep the loops and joins folded *)
Ltac go_record f := destruct f; cbn -[String.append String.concat strings_Join fold_left flat_map filter] in *.

(* every string of the context is empty or not (each destructed ONCE: the tails stay abstract) *)
Ltac go_strings :=
  repeat match goal with s : string |- _ => revert s end;
  repeat (let c := fresh "c" in let r := fresh "r" in intros [|c r]).

(* the usual end of an agreement proof about functions of a few strings: loops to flat_maps, case
   analysis on emptiness, computation, associativity of the appends *)
Ltac go_auto := try go_loops; go_norm; go_strings; cbn; go_norm; try reflexivity.

(* ---------------------------------------------------------------- maps *)
From Coq Require Import Permutation.

Lemma map_get_find {V} : forall (z : V) m k, map_get z m k = match map_find m k with Some v => v | None => z end.
Proof. induction m as [|[k' v] m IH]; simpl; intros k; auto. destruct (String.eqb k k'); auto. Qed.

Lemma map_has_find {V} : forall (m : gomap V) k, map_has m k = match map_find m k with Some _ => true | None => false end.
Proof. induction m as [|[k' v] m IH]; simpl; intros k; auto. destruct (String.eqb k k'); auto. Qed.

Lemma map_find_set_same {V} : forall (m : gomap V) k v, map_find (map_set m k v) k = Some v.
Proof.
  induction m as [|[k' v'] m IH]; simpl; intros k v; [now rewrite String.eqb_refl|].
  destruct (String.eqb k k') eqn:E; simpl; [now rewrite String.eqb_refl|]. rewrite E. apply IH.
Qed.

Lemma map_find_set_other {V} : forall (m : gomap V) k k' v, k <> k' -> map_find (map_set m k' v) k = map_find m k.
Proof.
  induction m as [|[k2 v2] m IH]; simpl; intros k k' v H.
  - apply String.eqb_neq in H. now rewrite H.
  - destruct (String.eqb k' k2) eqn:E; simpl.
    + apply String.eqb_eq in E. subst k2. apply String.eqb_neq in H. now rewrite H.
    + destruct (String.eqb k k2); auto.
Qed.

Lemma map_find_set {V} : forall (m : gomap V) k k' v,
  map_find (map_set m k' v) k = if String.eqb k k' then Some v else map_find m k.
Proof.
  intros. destruct (String.eqb_spec k k'); [subst; apply map_find_set_same|now apply map_find_set_other].
Qed.

Lemma map_get_set_same {V} : forall (z : V) m k v, map_get z (map_set m k v) k = v.
Proof. intros. now rewrite map_get_find, map_find_set_same. Qed.

Lemma map_get_set_other {V} : forall (z : V) m k k' v, k <> k' -> map_get z (map_set m k' v) k = map_get z m k.
Proof. intros. rewrite !map_get_find, map_find_set_other; auto. Qed.

Lemma map_find_notin {V} : forall (m : gomap V) k, ~ In k (map fst m) -> map_find m k = None.
Proof.
  induction m as [|[k' v] m IH]; simpl; intros k H; auto.
  destruct (String.eqb_spec k k'); [subst; exfalso; auto|]. apply IH. tauto.
Qed.

Lemma map_find_in_keys {V} : forall (m : gomap V) k v, map_find m k = Some v -> In k (map fst m).
Proof.
  induction m as [|[k' v'] m IH]; simpl; intros k v H; [discriminate|].
  destruct (String.eqb_spec k k'); [now left|right; eauto].
Qed.

(* the keys after m[k] = v: unchanged when k was there, k appended otherwise *)
Lemma map_set_keys {V} : forall (m : gomap V) k v,
  map fst (map_set m k v) = if map_has m k then map fst m else map fst m ++ [k].
Proof.
  induction m as [|[k' v'] m IH]; simpl; intros k v; auto.
  destruct (String.eqb_spec k k'); simpl; [now subst|]. rewrite IH. destruct (map_has m k); reflexivity.
Qed.

(* distinct keys are preserved: a Go map never holds a key twice *)
Lemma map_set_wf {V} : forall (m : gomap V) k v, map_wf m -> map_wf (map_set m k v).
Proof.
  unfold map_wf. induction m as [|[k' v'] m IH]; simpl; intros k v H; [repeat constructor; auto|].
  inversion H as [|? ? Hn Hnd]; subst.
  destruct (String.eqb_spec k k'); simpl; [subst; constructor; auto|].
  constructor; [|now apply IH].
  rewrite map_set_keys. destruct (map_has m k); auto.
  rewrite in_app_iff. simpl. intros [?|[?|[]]]; [auto|congruence].
Qed.

Lemma map_wf_nil {V} : map_wf (@nil (string * V)).
Proof. constructor. Qed.

Lemma map_find_In {V} : forall (m : gomap V) k v, map_wf m -> (map_find m k = Some v <-> In (k, v) m).
Proof.
  unfold map_wf. induction m as [|[k' v'] m IH]; simpl; intros k v N; [split; [discriminate|tauto]|].
  inversion N as [|? ? Hn Hnd]; subst. destruct (String.eqb_spec k k').
  - subst k'. split; [intros [= ->]; now left|].
    intros [[= ->]|Hin]; auto. exfalso. apply Hn. apply in_map_iff. now exists (k, v).
  - rewrite IH by assumption. split; [now right|]. intros [[= -> ->]|Hin]; [congruence|assumption].
Qed.

Lemma map_wf_NoDup {V} : forall (m : gomap V), map_wf m -> NoDup m.
Proof.
  unfold map_wf. induction m as [|[k v] m IH]; simpl; intros N; constructor; inversion N; subst; auto.
  intros Hin. apply H1. apply in_map_iff. now exists (k, v).
Qed.

(* two maps that answer every lookup alike hold the same entries *)
Lemma map_perm_of_find {V} : forall (m1 m2 : gomap V), map_wf m1 -> map_wf m2 ->
  (forall k, map_find m1 k = map_find m2 k) -> Permutation m1 m2.
Proof.
  intros m1 m2 W1 W2 H. apply NoDup_Permutation; auto using map_wf_NoDup.
  intros [k v]. rewrite <- !map_find_In by assumption. now rewrite H.
Qed.

Lemma map_find_perm {V} : forall (m1 m2 : gomap V) k, map_wf m1 -> Permutation m1 m2 -> map_find m2 k = map_find m1 k.
Proof.
  intros m1 m2 k W1 P.
  assert (W2 : map_wf m2) by (unfold map_wf in *; eapply Permutation_NoDup; [apply Permutation_map; exact P|exact W1]).
  destruct (map_find m1 k) as [v|] eqn:E.
  - apply map_find_In; auto. eapply Permutation_in; [exact P|]. now apply map_find_In.
  - destruct (map_find m2 k) as [v|] eqn:E'; auto.
    apply map_find_In in E'; auto. apply Permutation_sym in P. apply (Permutation_in _ P) in E'.
    apply map_find_In in E'; auto. congruence.
Qed.

(* len(m) counts keys; ranging in any order visits every entry once *)
Lemma is_order_length {V} : forall (ord : map_order V), is_order ord -> forall m, length (ord m) = length m.
Proof. intros ord H m. apply Permutation_length, H. Qed.

Lemma is_order_id {V} : is_order (fun m : gomap V => m).
Proof. intros m. apply Permutation_refl. Qed.

(* ---------------------------------------------------------------- strings.SplitN *)
Lemma strings_SplitN_neg : forall s sep n, (n < 0)%Z -> strings_SplitN s sep n = strings_Split s sep.
Proof.
  intros s sep n H. unfold strings_SplitN.
  destruct (Z.eqb_spec n 0); [lia|]. destruct (Z.ltb_spec n 0); [reflexivity|lia].
Qed.

Lemma strings_SplitN_0 : forall s sep, strings_SplitN s sep 0 = [].
Proof. reflexivity. Qed.

(* n = 2: cut at the first instance of sep *)
Lemma strings_SplitN_2 : forall s sep, strings_SplitN s sep 2 =
  match strings_Index s sep with
  | None => [s]
  | Some m => [stake m s; sdrop (m + String.length sep) s]
  end.
Proof.
  intros. unfold strings_SplitN. change (Z.eqb 2 0) with false. change (Z.ltb 2 0) with false.
  change (Z.to_nat (2 - 1)) with 1%nat. cbn [split_loop]. destruct (strings_Index s sep); reflexivity.
Qed.

Lemma split_first_Index : forall c s,
  split_first c s = match strings_Index s (String c EmptyString) with
                    | None => None
                    | Some m => Some (stake m s, sdrop (m + 1) s)
                    end.
Proof.
  intros c. induction s as [|d r IH]; [reflexivity|].
  cbn [split_first strings_Index]. rewrite prefix_char. destruct (Ascii.eqb d c); [reflexivity|].
  rewrite IH. destruct (strings_Index r (String c EmptyString)); reflexivity.
Qed.

Lemma strings_SplitN_2_char : forall c s, strings_SplitN s (String c EmptyString) 2 =
  match split_first c s with Some (a, b) => [a; b] | None => [s] end.
Proof.
  intros. rewrite strings_SplitN_2, split_first_Index.
  destruct (strings_Index s (String c EmptyString)); reflexivity.
Qed.

(* the first c: nothing before it contains c; everything behind it is kept, further c's included *)
Lemma split_first_Some : forall c s a b,
  split_first c s = Some (a, b) <-> s = (a ++ String c b)%string /\ has_char c a = false.
Proof.
  intros c. induction s as [|d r IH]; intros a b; cbn [split_first].
  - split; [discriminate|]. intros [H _]. destruct a; discriminate.
  - destruct (Ascii.eqb d c) eqn:E.
    + apply Ascii.eqb_eq in E. subst d. split.
      * intros [= <- <-]. auto.
      * intros [H Ha]. destruct a as [|e a]; [now injection H as ->|].
        injection H as -> _. cbn in Ha. now rewrite Ascii.eqb_refl in Ha.
    + destruct (split_first c r) as [[a' b']|] eqn:S.
      * split.
        -- intros [= <- <-]. destruct (proj1 (IH a' b') eq_refl) as [-> Ha]. cbn. now rewrite E.
        -- intros [H Ha]. destruct a as [|e a]; [injection H as -> _; now rewrite Ascii.eqb_refl in E|].
           injection H as -> H. cbn in Ha. rewrite E in Ha. cbn in Ha.
           pose proof (proj2 (IH a b) (conj H Ha)) as Q. now injection Q as -> ->.
      * split; [discriminate|]. intros [H Ha]. destruct a as [|e a]; [injection H as -> _; now rewrite Ascii.eqb_refl in E|].
        injection H as -> H. cbn in Ha. rewrite E in Ha. cbn in Ha. pose proof (proj2 (IH a b) (conj H Ha)). discriminate.
Qed.

Lemma split_first_None : forall c s, split_first c s = None <-> has_char c s = false.
Proof.
  intros c. induction s as [|d r IH]; cbn [split_first has_char]; [tauto|].
  destruct (Ascii.eqb d c); cbn; [split; discriminate|].
  destruct (split_first c r) as [[a b]|]; [split; [discriminate|]|tauto].
  intros H. apply IH in H. discriminate.
Qed.

Lemma split_first_app : forall c a b, has_char c a = false -> split_first c (a ++ String c b)%string = Some (a, b).
Proof. intros. apply split_first_Some. auto. Qed.

(* ---------------------------------------------------------------- Replace, ToLower, TrimSpace *)
Lemma concat_cons_char : forall sep d h t, String.concat sep (String d h :: t) = String d (String.concat sep (h :: t)).
Proof. intros. destruct t; reflexivity. Qed.

(* replacing one byte by another is a byte-wise map *)
Lemma strings_ReplaceAll_char : forall c d s,
  strings_ReplaceAll s (String c EmptyString) (String d EmptyString) = map_bytes (fun x => if Ascii.eqb x c then d else x) s.
Proof.
  intros c d s. unfold strings_ReplaceAll, strings_Join. rewrite strings_Split_char.
  induction s as [|e r IH]; [reflexivity|]. cbn [split_char map_bytes].
  destruct (Ascii.eqb e c).
  - destruct (split_char c r) as [|h t] eqn:S; [exfalso; exact (split_char_nonempty _ _ S)|].
    cbn [String.concat]. cbn [String.concat] in IH. rewrite <- IH. reflexivity.
  - destruct (split_char c r) as [|h t] eqn:S; [exfalso; exact (split_char_nonempty _ _ S)|].
    rewrite concat_cons_char, IH. reflexivity.
Qed.

Lemma strings_ToLower_bytes : forall s, strings_ToLower s = map_bytes lower_byte s.
Proof. induction s; simpl; congruence. Qed.

Lemma strings_ToLower_idem : forall s, strings_ToLower (strings_ToLower s) = strings_ToLower s.
Proof.
  induction s as [|c s IH]; simpl; [reflexivity|]. rewrite IH. f_equal.
  unfold lower_byte. destruct (Nat.leb 65 (nat_of_ascii c) && Nat.leb (nat_of_ascii c) 90) eqn:E; [|now rewrite E].
  apply andb_prop in E as [E1 E2]. apply Nat.leb_le in E1, E2.
  rewrite nat_ascii_embedding by lia.
  destruct (Nat.leb 65 (nat_of_ascii c + 32) && Nat.leb (nat_of_ascii c + 32) 90) eqn:E3; [|reflexivity].
  apply andb_prop in E3 as [_ E4]. apply Nat.leb_le in E4. lia.
Qed.

Lemma trim_left_no_space : forall s, match trim_left s with String c _ => is_space_byte c = false | EmptyString => True end.
Proof. induction s as [|c s IH]; simpl; auto. destruct (is_space_byte c) eqn:E; auto. Qed.

(* a loop with a return slot (the translation of `return` inside a range loop): once a round has returned,
   the remaining rounds change nothing.  Adds the hypothesis Hret about the first fold of the goal. *)
Ltac go_returned :=
  match goal with
  | |- context [fold_left ?f _ _] =>
      assert (forall l r st, fold_left f l (Some r, st) = (Some r, st)) as Hret
        by (let l := fresh "l" in intro l; induction l as [|? ? IHl]; intros; cbn [fold_left]; [reflexivity|apply IHl])
  end.

(* ---------------------------------------------------------------- sort.Strings *)
From Coq Require Import Sorting.Sorted.

Lemma sort_insert_perm : forall x l, Permutation (x :: l) (sort_insert x l).
Proof.
  induction l as [|y r IH]; simpl; auto. destruct (String.leb x y); auto.
  eapply perm_trans; [apply perm_swap|]. now apply perm_skip.
Qed.

Lemma sort_Strings_perm : forall l, Permutation l (sort_Strings l).
Proof.
  induction l as [|x l IH]; simpl; auto. eapply perm_trans; [apply perm_skip, IH|]. apply sort_insert_perm.
Qed.

Lemma sleb_total_true : forall a b, String.leb a b = false -> String.leb b a = true.
Proof. intros a b H. destruct (String.leb_total a b); congruence. Qed.

Lemma sort_insert_sorted : forall x l, Sorted (fun a b => String.leb a b = true) l ->
  Sorted (fun a b => String.leb a b = true) (sort_insert x l).
Proof.
  induction l as [|y r IH]; simpl; intros S; [repeat constructor|].
  destruct (String.leb x y) eqn:E; [constructor; auto|].
  inversion S; subst. constructor; [now apply IH|].
  destruct r as [|z r']; simpl; [constructor; now apply sleb_total_true|].
  destruct (String.leb x z); constructor; [now apply sleb_total_true|]. inversion H2; auto.
Qed.

Lemma sort_Strings_sorted : forall l, Sorted (fun a b => String.leb a b = true) (sort_Strings l).
Proof. induction l as [|x l IH]; simpl; [constructor|now apply sort_insert_sorted]. Qed.

Lemma strings_Join_empty_sep : forall l, strings_Join l "" = fold_right String.append EmptyString l.
Proof.
  unfold strings_Join. induction l as [|x l IH]; [reflexivity|]. destruct l as [|y l']; [simpl; now rewrite sapp_nil_r|].
  change (String.concat "" (x :: y :: l')) with (x ++ "" ++ String.concat "" (y :: l'))%string. rewrite IH. reflexivity.
Qed.

(* ---------------------------------------------------------------- counted loops *)
Lemma zrange_nil : forall lo hi, (hi <= lo)%Z -> zrange lo hi = [].
Proof. intros. unfold zrange. replace (Z.to_nat (hi - lo)) with 0%nat by lia. reflexivity. Qed.

Lemma zrange_cons : forall lo hi, (lo < hi)%Z -> zrange lo hi = lo :: zrange (lo + 1) hi.
Proof.
  intros lo hi H. unfold zrange. replace (Z.to_nat (hi - lo)) with (S (Z.to_nat (hi - (lo + 1)))) by lia.
  cbn [seq map]. f_equal; [lia|]. rewrite <- seq_shift, map_map. apply map_ext. intros; lia.
Qed.

Lemma strconv_Itoa_nat : forall n, strconv_Itoa (Z.of_nat n) = dec_nat n.
Proof. intros. unfold strconv_Itoa. destruct (Z.ltb_spec (Z.of_nat n) 0); [lia|]. now rewrite Nat2Z.id. Qed.
