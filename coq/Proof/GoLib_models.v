(* The Go library functions of Base/GoLib.v are the functions the hand models use under other names:
   strings.ToLower = Model/Dupes.lower (= Model/Classify.lower), strings.TrimSpace = Classify.trim_space,
   strings.Replace(s, "\n", " ", -1) = Classify.replace_nl, m[k] = append(m[k], v) = Dupes.mm_add.
   Used by the per-run agreement proofs of lib/extractlib.py (checkDupeTargets, toOneLine). *)
From Mage Require Import Base.Strs Base.GoLib Proof.GoLib_facts.
From Mage Require Model.Dupes Model.Classify.

Lemma ToLower_Dupes : forall s, strings_ToLower s = Dupes.lower s.
Proof. induction s as [|c s IH]; simpl; [reflexivity|]. rewrite IH. reflexivity. Qed.

Lemma ToLower_Classify : forall s, strings_ToLower s = Classify.lower s.
Proof.
  induction s as [|c s IH]; simpl; [reflexivity|]. rewrite IH. reflexivity.
Qed.

(* names[k] = append(names[k], v) on a map of slices *)
Lemma map_set_append : forall (m : gomap (list string)) k v,
  map_set m k (map_get [] m k ++ [v]) = Dupes.mm_add k v m.
Proof.
  induction m as [|[k' l] m IH]; intros k v; simpl; [reflexivity|].
  destruct (String.eqb_spec k k'); [subst; reflexivity|]. now rewrite IH.
Qed.

Lemma map_get_mm_get : forall (m : gomap (list string)) k, map_get [] m k = Dupes.mm_get k m.
Proof. induction m as [|[k' l] m IH]; intros k; simpl; auto. rewrite IH. reflexivity. Qed.

(* strings.TrimSpace (ASCII) is Classify's trim_space *)
Lemma trim_left_Classify : forall s, trim_left s = Classify.ltrim s.
Proof. induction s as [|c s IH]; simpl; auto; try (change (is_space_byte c) with (Classify.is_space c); now rewrite IH). Qed.

Lemma trim_right_Classify : forall s, trim_right s = Classify.rtrim s.
Proof.
  induction s as [|c s IH]; simpl; auto. rewrite <- IH. change (Classify.is_space c) with (is_space_byte c).
  destruct (trim_right s); simpl; destruct (is_space_byte c); reflexivity.
Qed.

Lemma TrimSpace_Classify : forall s, strings_TrimSpace s = Classify.trim_space s.
Proof. intros. unfold strings_TrimSpace, Classify.trim_space. now rewrite trim_left_Classify, trim_right_Classify. Qed.

(* strings.Replace(s, "\n", " ", -1) is Classify's replace_nl *)
Lemma ReplaceAll_nl_Classify : forall s, strings_ReplaceAll s (bs [10]) " " = Classify.replace_nl s.
Proof.
  intros s. change (bs [10]) with (String (ascii_of_nat 10) EmptyString). change " "%string with (String " "%char EmptyString).
  rewrite strings_ReplaceAll_char. induction s as [|c s IH]; simpl; [reflexivity|]. rewrite IH. f_equal.
  destruct (Ascii.eqb_spec c (ascii_of_nat 10)) as [->|N]; [reflexivity|].
  destruct (Nat.eqb_spec (nat_of_ascii c) 10) as [E|]; [|reflexivity].
  exfalso. apply N. rewrite <- (ascii_nat_embedding c), E. reflexivity.
Qed.

(* checkDupeTargets keeps the keys it has seen in a map[string]bool, Model/Dupes.v in a list *)
Definition lowers_rel (lowers : gomap bool) (lowers' : list string) : Prop :=
  forall k, map_get false lowers k = Dupes.set_mem k lowers'.

Lemma lowers_rel_nil : lowers_rel [] [].
Proof. intros k. reflexivity. Qed.

Lemma lowers_rel_add : forall lowers lowers' low,
  lowers_rel lowers lowers' -> lowers_rel (map_set lowers low true) (low :: lowers').
Proof.
  intros lowers lowers' low R k. rewrite map_get_find, map_find_set. unfold Dupes.set_mem. cbn [existsb].
  destruct (String.eqb k low); cbn [orb]; auto. rewrite <- map_get_find. apply R.
Qed.

(* sort.Strings and strings.Join(l, "") are Model/Cache.v's sort_strings and join *)
From Mage Require Model.Cache.
Lemma sort_Strings_Cache : forall l, sort_Strings l = Cache.sort_strings l.
Proof.
  assert (I : forall x l, sort_insert x l = Cache.insert x l) by (induction l as [|y r IH]; simpl; auto; try now rewrite IH).
  induction l as [|x l IH]; simpl; auto; try (now rewrite IH, I).
Qed.
Lemma strings_Join_Cache : forall l, strings_Join l "" = Cache.join l.
Proof. apply strings_Join_empty_sep. Qed.

(* strings.Split(s, "c") and strings.EqualFold are Classify's split_on and equal_fold *)
Lemma split_char_Classify : forall c s, split_char c s = Classify.split_on c s.
Proof. induction s as [|d r IH]; simpl; auto; try (rewrite IH; reflexivity). Qed.
Lemma EqualFold_Classify : forall a b, strings_EqualFold a b = Classify.equal_fold a b.
Proof. intros. unfold strings_EqualFold, Classify.equal_fold. now rewrite !ToLower_Classify. Qed.
Lemma strings_Join_Classify : forall l sep, strings_Join l sep = Classify.join sep l.
Proof. unfold strings_Join. induction l as [|x l IH]; intros sep; simpl; auto; try (destruct l; auto; now rewrite <- IH). Qed.

(* strconv.ParseBool is Model/FlagPkg.parse_bool *)
From Mage Require Model.FlagPkg.
Lemma ParseBool_FlagPkg : forall s,
  strconv_ParseBool s = match FlagPkg.parse_bool s with
                        | Some b => (b, None)
                        | None => (false, Some ("strconv.ParseBool: parsing " ++ s ++ ": invalid syntax")%string)
                        end.
Proof.
  intros s. unfold strconv_ParseBool, FlagPkg.parse_bool, FlagPkg.in_strs. cbn [existsb].
  repeat match goal with |- context [String.eqb s ?l] => destruct (String.eqb_spec s l); [subst; reflexivity|] end.
  reflexivity.
Qed.
