(* The Go library functions of Base/GoLib.v are the functions the hand models use under other names:
   strings.ToLower = Model/Dupes.lower (= Model/Classify.lower), strings.TrimSpace = Classify.trim_space,
   strings.Replace(s, "\n", " ", -1) = Classify.replace_nl, m[k] = append(m[k], v) = Dupes.mm_add.
   Used by the per-run agreement proofs of lib/extractlib.py (checkDupeTargets, toOneLine). *)
From Mage Require Import Base.Strs Base.GoLib Proof.GoLib_facts.
From Mage Require Model.Dupes Model.Classify.

Lemma ToLower_Dupes : forall s, strings_ToLower s = Dupes.lower s.
Proof. induction s as [|c s IH]; simpl; [reflexivity|]. rewrite IH. reflexivity. Qed.

Lemma ToLower_Classify : forall s, strings_ToLower s = Classify.lower s.
Proof.
  induction s as [|c s IH]; simpl; [reflexivity|]. rewrite IH. reflexivity.
Qed.

(* names[k] = append(names[k], v) on a map of slices *)
Lemma map_set_append : forall (m : gomap (list string)) k v,
  map_set m k (map_get [] m k ++ [v]) = Dupes.mm_add k v m.
Proof.
  induction m as [|[k' l] m IH]; intros k v; simpl; [reflexivity|].
  destruct (String.eqb_spec k k'); [subst; reflexivity|]. now rewrite IH.
Qed.

Lemma map_get_mm_get : forall (m : gomap (list string)) k, map_get [] m k = Dupes.mm_get k m.
Proof. induction m as [|[k' l] m IH]; intros k; simpl; auto. rewrite IH. reflexivity. Qed.

(* strings.TrimSpace (ASCII) is Classify's trim_space *)
Lemma trim_left_Classify : forall s, trim_left s = Classify.ltrim s.
Proof. induction s as [|c s IH]; simpl; auto; try (change (is_space_byte c) with (Classify.is_space c); now rewrite IH). Qed.

Lemma trim_right_Classify : forall s, trim_right s = Classify.rtrim s.
Proof.
  induction s as [|c s IH]; simpl; auto. rewrite <- IH. change (Classify.is_space c) with (is_space_byte c).
  destruct (trim_right s); simpl; destruct (is_space_byte c); reflexivity.
Qed.

Lemma TrimSpace_Classify : forall s, strings_TrimSpace s = Classify.trim_space s.
Proof. intros. unfold strings_TrimSpace, Classify.trim_space. now rewrite trim_left_Classify, trim_right_Classify. Qed.

(* strings.Replace(s, "\n", " ", -1) is Classify's replace_nl *)
Lemma ReplaceAll_nl_Classify : forall s, strings_ReplaceAll s (bs [10]) " " = Classify.replace_nl s.
Proof.
  intros s. change (bs [10]) with (String (ascii_of_nat 10) EmptyString). change " "%string with (String " "%char EmptyString).
  rewrite strings_ReplaceAll_char. induction s as [|c s IH]; simpl; [reflexivity|]. rewrite IH. f_equal.
  destruct (Ascii.eqb_spec c (ascii_of_nat 10)) as [->|N]; [reflexivity|].
  destruct (Nat.eqb_spec (nat_of_ascii c) 10) as [E|]; [|reflexivity].
  exfalso. apply N. rewrite <- (ascii_nat_embedding c), E. reflexivity.
Qed.

(* checkDupeTargets keeps the keys it has seen in a map[string]bool, Model/Dupes.v in a list *)
Definition lowers_rel (lowers : gomap bool) (lowers' : list string) : Prop :=
  forall k, map_get false lowers k = Dupes.set_mem k lowers'.

Lemma lowers_rel_nil : lowers_rel [] [].
Proof. intros k. reflexivity. Qed.

Lemma lowers_rel_add : forall lowers lowers' low,
  lowers_rel lowers lowers' -> lowers_rel (map_set lowers low true) (low :: lowers').
Proof.
  intros lowers lowers' low R k. rewrite map_get_find, map_find_set. unfold Dupes.set_mem. cbn [existsb].
  destruct (String.eqb k low); cbn [orb]; auto. rewrite <- map_get_find. apply R.
Qed.

(* sort.Strings and strings.Join(l, "") are Model/Cache.v's sort_strings and join *)
From Mage Require Model.Cache.
Lemma sort_Strings_Cache : forall l, sort_Strings l = Cache.sort_strings l.
Proof.
  assert (I : forall x l, sort_insert x l = Cache.insert x l) by (induction l as [|y r IH]; simpl; auto; try now rewrite IH).
  induction l as [|x l IH]; simpl; auto; try (now rewrite IH, I).
Qed.
Lemma strings_Join_Cache : forall l, strings_Join l "" = Cache.join l.
Proof. apply strings_Join_empty_sep. Qed.

(* strings.Split(s, "c") and strings.EqualFold are Classify's split_on and equal_fold *)
Lemma split_char_Classify : forall c s, split_char c s = Classify.split_on c s.
Proof. induction s as [|d r IH]; simpl; auto; try (rewrite IH; reflexivity). Qed.
Lemma EqualFold_Classify : forall a b, strings_EqualFold a b = Classify.equal_fold a b.
Proof. intros. unfold strings_EqualFold, Classify.equal_fold. now rewrite !ToLower_Classify. Qed.
Lemma strings_Join_Classify : forall l sep, strings_Join l sep = Classify.join sep l.
Proof. unfold strings_Join. induction l as [|x l IH]; intros sep; simpl; auto; try (destruct l; auto; now rewrite <- IH). Qed.

(* strconv.ParseBool is Model/FlagPkg.parse_bool *)
From Mage Require Model.FlagPkg.
Lemma ParseBool_FlagPkg : forall s,
  strconv_ParseBool s = match FlagPkg.parse_bool s with
                        | Some b => (b, None)
                        | None => (false, Some ("strconv.ParseBool: parsing " ++ s ++ ": invalid syntax")%string)
                        end.
Proof.
  intros s. unfold strconv_ParseBool, FlagPkg.parse_bool, FlagPkg.in_strs. cbn [existsb].
  repeat match goal with |- context [String.eqb s ?l] => destruct (String.eqb_spec s l); [subst; reflexivity|] end.
  reflexivity.
Qed.

(* ---------------------------------------------------------------- go/ast shapes -> the textual classes of Model/Classify.v *)
Import Classify.
Definition pty_of (e : ast_expr) : pty :=
  match e with
  | AIdent n => if String.eqb n "string" then TString else if String.eqb n "int" then TInt
                else if String.eqb n "bool" then TBool else TOther n
  | ASelector (AIdent p) s =>
      if String.eqb p "time" && String.eqb s "Duration" then TDur
      else if String.eqb p "context" && String.eqb s "Context" then TCtx else TOther (p ++ "." ++ s)
  | _ => TOther ""
  end.
Definition pgroup_of (f : ast_field) : pgroup := {| pnames := fld_names f; pty_ := pty_of (fld_type f) |}.
(* a result is "textually error" when fmt.Sprint of its type is "error" (sprint: what fmt.Sprint prints for a node) *)
Definition rgroup_of (sprint : ast_expr -> string) (f : ast_field) : rgroup :=
  {| rnames := length (fld_names f); rkind_ := if String.eqb (sprint (fld_type f)) "error" then RKError else RKOther |}.
(* a (value, error) result of the code against an option of the model: same value, error exactly where the model has None *)
Definition agrees (r : bool * option string) (m : option bool) : Prop :=
  match m with Some b => r = (b, None) | None => fst r = false /\ snd r <> None end.

Lemma num_fields_cons : forall g l, num_fields (g :: l) = Nat.max 1 (length (pnames g)) + num_fields l.
Proof. reflexivity. Qed.
Lemma num_fields_r_cons : forall g l, num_fields_r (g :: l) = Nat.max 1 (rnames g) + num_fields_r l.
Proof. reflexivity. Qed.
Lemma NumFields_params : forall l, fieldlist_NumFields (Some l) = Z.of_nat (num_fields (map pgroup_of l)).
Proof.
  unfold fieldlist_NumFields. cbn [fieldlist_List]. induction l as [|f l IH]; [reflexivity|].
  cbn [fold_right map]. rewrite IH, num_fields_cons. cbn [pgroup_of pnames]. unfold len_. lia.
Qed.
Lemma NumFields_results : forall sp l, fieldlist_NumFields (Some l) = Z.of_nat (num_fields_r (map (rgroup_of sp) l)).
Proof.
  unfold fieldlist_NumFields. cbn [fieldlist_List]. induction l as [|f l IH]; [reflexivity|].
  cbn [fold_right map]. rewrite IH, num_fields_r_cons. cbn [rgroup_of rnames]. unfold len_. lia.
Qed.

(* hasErrorReturn asks of a result kind only whether it is RKError: RKLocal (go/doc's factory rule) and RKOther are alike *)
Definition same_for_error (a b : rgroup) : Prop :=
  rnames a = rnames b /\ (rkind_ a = RKError <-> rkind_ b = RKError).
Lemma hasErrorReturn_kinds : forall rs rs', Forall2 same_for_error rs rs' -> hasErrorReturn rs = hasErrorReturn rs'.
Proof.
  intros rs rs' F.
  assert (N : num_fields_r rs = num_fields_r rs').
  { induction F as [|a b l l' [Hn _] _ IH]; [reflexivity|]. rewrite !num_fields_r_cons, Hn, IH. reflexivity. }
  unfold hasErrorReturn. rewrite N. destruct F as [|a b l l' [Hn Hk] _]; [reflexivity|]. rewrite Hn.
  destruct (rkind_ a) eqn:Ea, (rkind_ b) eqn:Eb; try reflexivity;
    (destruct Hk as [H1 H2]; try (specialize (H1 eq_refl); discriminate); try (specialize (H2 eq_refl); discriminate)).
Qed.

(* strings.Fields / strings.ToLower / s[2:] are Model/ImportTag.v's fields / to_lower / drop2 *)
From Mage Require Model.ImportTag.
Lemma Fields_ImportTag : forall s, strings_Fields s = ImportTag.fields s.
Proof.
  unfold strings_Fields, ImportTag.fields. intros s. generalize EmptyString as cur.
  induction s as [|c r IH]; intros cur; simpl; [destruct cur; reflexivity|].
  change (ImportTag.is_space c) with (is_space_byte c). destruct (is_space_byte c); rewrite ?IH; destruct cur; reflexivity.
Qed.
Lemma ToLower_ImportTag : forall s, strings_ToLower s = ImportTag.to_lower s.
Proof. induction s as [|c s IH]; simpl; [reflexivity|]. rewrite IH. reflexivity. Qed.
Lemma sdrop2_ImportTag : forall s, 2 <= String.length s -> sdrop 2 s = ImportTag.drop2 s.
Proof. intros [|a [|b r]] H; simpl in *; try lia; reflexivity. Qed.
Lemma sdrop2_drop2 : forall s, sdrop 2 s = ImportTag.drop2 s.
Proof. intros [|a [|b r]]; reflexivity. Qed.
Lemma nth_last : forall (l : list string), nth (length l - 1) l "" = last l "".
Proof.
  induction l as [|a l IH]; [reflexivity|]. destruct l as [|b r]; [reflexivity|].
  simpl length in *. replace (S (S (length r)) - 1) with (S (length r)) by lia.
  replace (S (length r) - 1) with (length r) in IH by lia.
  change (nth (S (length r)) (a :: b :: r) "") with (nth (length r) (b :: r) "").
  change (last (a :: b :: r) "") with (last (b :: r) ""). exact IH.
Qed.
Lemma index_last : forall (l : list string), l <> [] -> index_ "" l (len_ l - 1) = last l "".
Proof.
  intros l H. unfold len_. replace (Z.of_nat (length l) - 1)%Z with (Z.of_nat (length l - 1)) by (destruct l; [congruence|simpl length; lia]).
  rewrite index_nat. apply nth_last.
Qed.
