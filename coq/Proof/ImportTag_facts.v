(* Facts about Model/ImportTag.v (C19).  The declarative side (tag_rule, leading_group, specs_of,
   tags, contrib, prefixed) is defined here; Props/C19.v states the theorems. *)
From Coq Require Import Permutation.
From Mage Require Import Base.Strs Model.ImportTag.

(* ================================================================ the declarative side *)

(* a comment line read as words: the text without its two-byte comment marker, lower-cased, split
   at white space *)
Definition line_words (text : string) : list string := fields (to_lower (drop2 text)).

(* a mage:import line: its first word is the tag *)
Definition is_import_line (text : string) : bool :=
  match line_words text with
  | w :: _ => String.eqb w "mage:import"
  | [] => false
  end.

(* what an import line says: the bare tag = root import; tag + one word = that alias;
   anything longer says nothing (mage warns and ignores it) *)
Definition line_shape (text : string) : option (option string) :=
  match line_words text with
  | [_] => Some None
  | [_; a] => Some (Some a)
  | _ => None
  end.

(* the last line of a comment group, whatever precedes it *)
Definition last_line (g : group) : option string :=
  match g with
  | Some (x :: r) => Some (last (x :: r) EmptyString)
  | _ => None
  end.

Definition import_line_of (g : group) : option string :=
  match last_line g with
  | Some l => if is_import_line l then Some l else None
  | None => None
  end.

(* THE RULE: the last line of the leading comment group if it is a mage:import line, or else the
   (last line of the) trailing comment if that is one *)
Definition tag_rule (s : impspec) : option (option string) :=
  match import_line_of (is_doc s) with
  | Some l => line_shape l
  | None => match import_line_of (is_comment s) with
            | Some l => line_shape l
            | None => None
            end
  end.

(* the leading comment group of a spec inside its declaration: in a single-line import
   (`import "x"`, no parentheses) it is the comment group above the `import` keyword; in a grouped
   import it is the group directly above the spec *)
Definition leading_group (gen : gendecl) (s : impspec) : group :=
  match gd_specs gen, gd_lparen gen, is_doc s with
  | [_], false, None => gd_doc gen
  | _, _, d => d
  end.

Definition spec_view (gen : gendecl) (s : impspec) : impspec :=
  {| is_doc := leading_group gen s; is_comment := is_comment s; is_path := is_path s; is_raw := is_raw s |}.

(* all import specs of the package with their comment groups, in source order *)
Definition specs_of (files : list file) : list impspec :=
  flat_map (fun f => flat_map (fun gen => map (spec_view gen) (gd_specs gen)) f) files.

Definition tags (files : list file) : list (string * option (option string)) :=
  map (fun s => (is_path s, tag_rule s)) (specs_of files).

Definition alias_str (t : option string) : string := match t with None => EmptyString | Some a => a end.

Definition named_tags (l : list (string * option (option string))) : list (string * string) :=
  flat_map (fun pt => match snd pt with Some (Some a) => [(fst pt, a)] | _ => [] end) l.
(* the paths of the specs with a bare tag, one entry per spec *)
Definition all_root_tags (l : list (string * option (option string))) : list string :=
  flat_map (fun pt => match snd pt with Some None => [fst pt] | _ => [] end) l.
(* the root imports of a package: every path once, however many specs carry a bare tag for it *)
Definition root_tags (l : list (string * option (option string))) : list string :=
  nodup string_dec (all_root_tags l).

(* the named imports of a package: every (path, alias) pair once, however many specs carry it *)
Definition pair_dec (a b : string * string) : {a = b} + {a <> b}.
Proof. decide equality; apply string_dec. Defined.
Definition distinct (l : list (string * string)) : list (string * string) := nodup pair_dec l.

(* names: the package's own name of a target, and the name it gets under an alias *)
Definition own_name (f : func) : string :=
  if is_empty (f_recv f) then f_name f else (f_recv f ++ ":" ++ f_name f)%string.
Definition prefixed (alias name : string) : string :=
  if is_empty alias then name else (alias ++ ":" ++ name)%string.

(* ================================================================ strings *)
Lemma is_empty_true : forall s, is_empty s = true -> s = EmptyString.
Proof. destruct s; simpl; congruence. Qed.

Lemma is_empty_app_r : forall s c, is_empty (s ++ String c EmptyString)%string = false.
Proof. destruct s; reflexivity. Qed.

Lemma fields_from_nonempty : forall s cur x, In x (fields_from s cur) -> is_empty x = false.
Proof.
  induction s as [|c r IH]; intros cur x H; simpl in H.
  - destruct (is_empty cur) eqn:E; simpl in H; [contradiction|].
    destruct H as [<-|[]]; exact E.
  - destruct (is_space c).
    + destruct (is_empty cur) eqn:E.
      * eapply IH; eauto.
      * destruct H as [<-|H]; [exact E|]. eapply IH; eauto.
    + eapply IH; eauto.
Qed.

Lemma line_words_nonempty : forall t x, In x (line_words t) -> is_empty x = false.
Proof. intros t x; unfold line_words, fields; apply fields_from_nonempty. Qed.

(* ================================================================ the scanner *)
Lemma from_group_spec : forall g,
  from_group g = match import_line_of g with Some l => line_words l | None => [] end.
Proof.
  intros [[|x r]|]; try reflexivity.
  unfold from_group, from_group_gen, import_line_of, last_line, is_import_line, line_words.
  change (Nat.eqb 0 (length (x :: r))) with false. cbv iota.
  set (s := last (x :: r) EmptyString).
  destruct (fields (to_lower (drop2 s))) as [|v0 vs] eqn:E; [reflexivity|].
  change import_tag with "mage:import".
  destruct (String.eqb v0 "mage:import"); cbv beta iota; [now rewrite E|reflexivity].
Qed.

Lemma import_line_words : forall g l, import_line_of g = Some l -> exists w ws, line_words l = w :: ws.
Proof.
  intros g l; unfold import_line_of.
  destruct (last_line g) as [l0|]; [|discriminate].
  destruct (is_import_line l0) eqn:E; [|discriminate].
  intros H; inversion H; subst l0. unfold is_import_line in E.
  destruct (line_words l) as [|w ws]; [discriminate|eauto].
Qed.

Lemma shape_of_vals : forall (p : string) (v : list string),
  (forall x, In x v -> is_empty x = false) ->
  tag_of (match v with
          | [_] => Some (p, EmptyString)
          | [_; a] => Some (p, a)
          | _ => None
          end) = match v with [_] => Some None | [_; a] => Some (Some a) | _ => None end.
Proof.
  intros p v NE.
  destruct v as [|w [|a [|b r]]]; try reflexivity.
  simpl. rewrite (NE a); [reflexivity|simpl; auto].
Qed.

Lemma tagged_gen_code : forall lit_ok s,
  tag_of (get_import_path_gen from_group lit_ok s) = if lit_ok s then tag_rule s else None.
Proof.
  intros lit_ok s; unfold get_import_path_gen, tag_rule.
  rewrite !from_group_spec.
  destruct (import_line_of (is_doc s)) as [l|] eqn:EL.
  - destruct (import_line_words _ _ EL) as (w & ws & Hw).
    unfold line_shape. pose proof (line_words_nonempty l) as NE.
    destruct (line_words l) as [|w' ws']; [discriminate|].
    cbv beta iota zeta. destruct (lit_ok s); [|reflexivity].
    exact (shape_of_vals (is_path s) (w' :: ws') NE).
  - destruct (import_line_of (is_comment s)) as [l|] eqn:ET; [|destruct (lit_ok s); reflexivity].
    destruct (import_line_words _ _ ET) as (w & ws & Hw).
    unfold line_shape. pose proof (line_words_nonempty l) as NE.
    destruct (line_words l) as [|w' ws']; [discriminate|].
    cbv beta iota zeta. destruct (lit_ok s); [|reflexivity].
    exact (shape_of_vals (is_path s) (w' :: ws') NE).
Qed.

Lemma tagged_is_rule : forall s, tagged s = tag_rule s.
Proof. intros s. exact (tagged_gen_code lit_ok_now s). Qed.

Lemma tagged_before_48f17db_code : forall s, tagged_before_48f17db s = if is_raw s then None else tag_rule s.
Proof.
  intros s. unfold tagged_before_48f17db, get_import_path_before_48f17db.
  rewrite tagged_gen_code. unfold lit_ok_before_48f17db. destruct (is_raw s); reflexivity.
Qed.

Lemma last_line_snoc : forall pre x, last_line (Some (pre ++ [x])) = Some x.
Proof.
  intros pre x. unfold last_line.
  destruct (pre ++ [x]) as [|y r] eqn:E.
  - destruct pre; discriminate.
  - rewrite <- E. now rewrite last_last.
Qed.

Lemma any_length : forall pre tagline tr path raw,
  is_import_line tagline = true ->
  tagged {| is_doc := Some (pre ++ [tagline]); is_comment := tr; is_path := path; is_raw := raw |} = line_shape tagline.
Proof.
  intros. rewrite tagged_is_rule. unfold tag_rule, import_line_of; cbn [is_doc is_comment].
  rewrite last_line_snoc, H. reflexivity.
Qed.

Lemma any_length_not_last : forall pre lastline tr path raw,
  is_import_line lastline = false ->
  tagged {| is_doc := Some (pre ++ [lastline]); is_comment := tr; is_path := path; is_raw := raw |} =
  tagged {| is_doc := None; is_comment := tr; is_path := path; is_raw := raw |}.
Proof.
  intros. rewrite !tagged_is_rule. unfold tag_rule, import_line_of; cbn [is_doc is_comment].
  rewrite last_line_snoc, H. reflexivity.
Qed.

Lemma before_repair_refuted :
  exists s, (exists l, is_doc s = Some l /\ length l = 9) /\ tag_rule s = Some None /\ tagged_pinned s = None.
Proof.
  exists {| is_doc := Some ["// 1"; "// 2"; "// 3"; "// 4"; "// 5"; "// 6"; "// 7"; "// 8"; "// mage:import"];
            is_comment := None; is_path := "example.test/p/imp/a"; is_raw := false |}.
  split; [eexists; split; reflexivity|]. split; vm_compute; reflexivity.
Qed.

(* ================================================================ declarations *)
Lemma eff_spec_view : forall gen s, eff_spec gen s = spec_view gen s.
Proof.
  intros gen s; unfold eff_spec, spec_view, leading_group.
  destruct (gd_specs gen) as [|a [|b r]]; simpl; try (destruct s; reflexivity).
  destruct (gd_lparen gen); simpl; try (destruct s; reflexivity).
  destruct s as [[d|] c p raw]; reflexivity.
Qed.

Lemma single_line_import : forall doc tr path raw,
  specs_of [[ {| gd_doc := doc; gd_lparen := false;
                 gd_specs := [ {| is_doc := None; is_comment := tr; is_path := path; is_raw := raw |} ] |} ]] =
  [ {| is_doc := doc; is_comment := tr; is_path := path; is_raw := raw |} ].
Proof. reflexivity. Qed.

Lemma grouped_import : forall doc specs,
  specs_of [[ {| gd_doc := doc; gd_lparen := true; gd_specs := specs |} ]] = specs.
Proof.
  intros doc specs; unfold specs_of; simpl. rewrite !app_nil_r.
  assert (H : forall s, spec_view {| gd_doc := doc; gd_lparen := true; gd_specs := specs |} s = s).
  { intros [d c p raw]; unfold spec_view, leading_group; simpl. destruct specs as [|a [|b r]]; reflexivity. }
  rewrite (map_ext _ (fun x => x) H). apply map_id.
Qed.

(* ================================================================ the scan *)
Lemma fold_left_flat_map : forall {A B C} (f : A -> C -> A) (g : B -> list C) (l : list B) (a : A),
  fold_left f (flat_map g l) a = fold_left (fun a x => fold_left f (g x) a) l a.
Proof.
  intros A B C f g l; induction l as [|x l IH]; intros a; simpl; [reflexivity|].
  rewrite fold_left_app. apply IH.
Qed.

Lemma fold_left_map : forall {A B C} (f : A -> C -> A) (h : B -> C) (l : list B) (a : A),
  fold_left f (map h l) a = fold_left (fun a x => f a (h x)) l a.
Proof. intros A B C f h l; induction l as [|x l IH]; intros a; simpl; [reflexivity|apply IH]. Qed.

Lemma fold_left_ext : forall {A B} (f g : A -> B -> A) (l : list B) (a : A),
  (forall a x, f a x = g a x) -> fold_left f l a = fold_left g l a.
Proof. intros A B f g l; induction l as [|x l IH]; intros a H; simpl; [reflexivity|]. rewrite H. now apply IH. Qed.

Lemma scan_flat : forall gip put rput files,
  scan gip put rput files = fold_left (scan_step gip put rput) (specs_of files) ([], []).
Proof.
  intros gip put rput files; unfold scan, specs_of.
  rewrite fold_left_flat_map. apply fold_left_ext; intros a f.
  unfold scan_file. rewrite fold_left_flat_map. apply fold_left_ext; intros a' gen.
  unfold scan_decl. rewrite fold_left_map. apply fold_left_ext; intros a'' s.
  now rewrite eff_spec_view.
Qed.

Lemma gip_path : forall s p a, get_import_path s = Some (p, a) -> p = is_path s.
Proof.
  intros s p a; unfold get_import_path, get_import_path_gen, lit_ok_now; cbn [negb].
  destruct (from_group (is_doc s)) as [|x [|y [|z r]]];
    [destruct (from_group (is_comment s)) as [|x [|y [|z r]]]|..]; intros H; inversion H; reflexivity.
Qed.

Definition put_all (l : list (string * string)) (m : list (string * string)) : list (string * string) :=
  fold_left (fun m pa => set_put (fst pa) (snd pa) m) l m.

Definition tags_of_specs (l : list impspec) := map (fun s => (is_path s, tag_rule s)) l.

Definition rput_all (rput : string -> list string -> list string) (l : list string) (r : list string) : list string :=
  fold_left (fun r p => rput p r) l r.

Lemma scan_steps : forall rput l m r,
  fold_left (scan_step get_import_path set_put rput) l (m, r) =
  (put_all (named_tags (tags_of_specs l)) m, rput_all rput (all_root_tags (tags_of_specs l)) r).
Proof.
  intros rput. induction l as [|s l IH]; intros m r; simpl.
  - reflexivity.
  - unfold scan_step at 2. pose proof (tagged_is_rule s) as T. unfold tagged in T.
    destruct (get_import_path s) as [[p a]|] eqn:G; simpl in T.
    + apply gip_path in G as ->.
      destruct (is_empty a) eqn:E; rewrite <- T; simpl.
      * rewrite IH. reflexivity.
      * rewrite IH. reflexivity.
    + rewrite <- T; simpl. apply IH.
Qed.

(* ---------------------------------------------------------------- the set of (path, alias) pairs *)
Lemma pair_eqb_eq : forall a b, pair_eqb a b = true <-> a = b.
Proof.
  intros [a1 a2] [b1 b2]; unfold pair_eqb; simpl. rewrite andb_true_iff, !String.eqb_eq.
  split; [intros [-> ->]; reflexivity|intros H; inversion H; auto].
Qed.

Lemma mem_in : forall k m, existsb (pair_eqb k) m = true <-> In k m.
Proof.
  intros k m. rewrite existsb_exists. split.
  - intros (x & I & E). apply pair_eqb_eq in E. now subst.
  - intros I. exists k; split; [exact I|now apply pair_eqb_eq].
Qed.

Lemma set_put_in : forall p a m x, In x (set_put p a m) <-> x = (p, a) \/ In x m.
Proof.
  intros p a m x. unfold set_put. destruct (existsb (pair_eqb (p, a)) m) eqn:E.
  - apply mem_in in E. split; [auto|intros [->|H]; auto].
  - rewrite in_app_iff; simpl. intuition.
Qed.

Lemma set_put_nodup : forall p a m, NoDup m -> NoDup (set_put p a m).
Proof.
  intros p a m H. unfold set_put. destruct (existsb (pair_eqb (p, a)) m) eqn:E; [exact H|].
  assert (N : ~ In (p, a) m) by (intros I; apply mem_in in I; congruence).
  eapply Permutation_NoDup; [apply Permutation_cons_append|]. now constructor.
Qed.

Lemma put_all_in : forall l m x, In x (put_all l m) <-> In x l \/ In x m.
Proof.
  induction l as [|[p a] l IH]; intros m x; simpl; [intuition|].
  unfold put_all in *; simpl. rewrite IH, set_put_in. intuition.
Qed.

Lemma put_all_nodup : forall l m, NoDup m -> NoDup (put_all l m).
Proof.
  induction l as [|[p a] l IH]; intros m H; simpl; [exact H|].
  unfold put_all in *; simpl. apply IH, set_put_nodup, H.
Qed.

Lemma insert_sorted_perm : forall k m, Permutation (insert_sorted k m) (k :: m).
Proof.
  induction m as [|k' m IH]; simpl; [apply Permutation_refl|].
  destruct (pair_compare k k'); try apply Permutation_refl.
  eapply Permutation_trans; [apply perm_skip, IH|apply perm_swap].
Qed.

Lemma sort_pairs_perm : forall l, Permutation (sort_pairs l) l.
Proof.
  induction l as [|k l IH]; simpl; [constructor|].
  eapply Permutation_trans; [apply insert_sorted_perm|]. now apply perm_skip.
Qed.

(* the named imports that are visited: every tagged (path, alias) pair exactly once *)
Lemma named_visited : forall l, Permutation (sort_pairs (put_all l [])) (distinct l).
Proof.
  intros l. apply NoDup_Permutation.
  - eapply Permutation_NoDup; [apply Permutation_sym, sort_pairs_perm|]. apply put_all_nodup. constructor.
  - apply NoDup_nodup.
  - intros x. unfold distinct. rewrite nodup_In. split; intros H.
    + apply (Permutation_in _ (sort_pairs_perm _)) in H. apply put_all_in in H as [H|[]]. exact H.
    + apply (Permutation_in _ (Permutation_sym (sort_pairs_perm _))). apply put_all_in. auto.
Qed.

(* ---------------------------------------------------------------- the root imports: every path once *)
Lemma root_put_in : forall p r x, In x (root_put p r) <-> x = p \/ In x r.
Proof.
  intros p r x. unfold root_put. destruct (existsb (String.eqb p) r) eqn:E.
  - apply existsb_exists in E. destruct E as (y & I & E). apply String.eqb_eq in E. subst y.
    split; [auto|intros [->|H]; auto].
  - rewrite in_app_iff; simpl. intuition.
Qed.

Lemma root_put_nodup : forall p r, NoDup r -> NoDup (root_put p r).
Proof.
  intros p r H. unfold root_put. destruct (existsb (String.eqb p) r) eqn:E; [exact H|].
  assert (N : ~ In p r).
  { intros I. assert (existsb (String.eqb p) r = true) by (apply existsb_exists; exists p; split; [exact I|apply String.eqb_refl]). congruence. }
  eapply Permutation_NoDup; [apply Permutation_cons_append|]. now constructor.
Qed.

Lemma rput_all_in : forall l r x, In x (rput_all root_put l r) <-> In x l \/ In x r.
Proof.
  induction l as [|p l IH]; intros r x; simpl; [intuition|].
  unfold rput_all in *; simpl. rewrite IH, root_put_in. intuition.
Qed.

Lemma rput_all_nodup : forall l r, NoDup r -> NoDup (rput_all root_put l r).
Proof.
  induction l as [|p l IH]; intros r H; simpl; [exact H|].
  unfold rput_all in *; simpl. apply IH, root_put_nodup, H.
Qed.

(* the root imports that are visited: every path with a bare tag exactly once *)
Lemma roots_visited : forall l, Permutation (rput_all root_put l []) (nodup string_dec l).
Proof.
  intros l. apply NoDup_Permutation.
  - apply rput_all_nodup. constructor.
  - apply NoDup_nodup.
  - intros x. rewrite nodup_In, rput_all_in. simpl. intuition.
Qed.

Lemma rput_all_append : forall l r, rput_all root_append l r = r ++ l.
Proof.
  induction l as [|p l IH]; intros r; simpl; [now rewrite app_nil_r|].
  unfold rput_all in *; simpl. rewrite IH. unfold root_append. now rewrite <- app_assoc.
Qed.

(* the tree before fix 5f65f03: the map keyed by the path *)
Lemma map_set_perm : forall k v m, ~ In k (map fst m) -> Permutation (map_set k v m) ((k, v) :: m).
Proof.
  induction m as [|[k' v'] m IH]; intros H; simpl; [apply Permutation_refl|].
  destruct (String.compare k k') eqn:C.
  - apply String.compare_eq_iff in C. subst k'. exfalso; apply H; simpl; auto.
  - apply Permutation_refl.
  - eapply Permutation_trans; [apply perm_skip, IH|apply perm_swap].
    intros I; apply H; simpl; auto.
Qed.

(* ================================================================ lookups *)
Section Look.
Variable golist : string -> string -> option pkginfo.
Variable dir : string.

Definition contribN (pa : string * string) : list func :=
  match golist dir (fst pa) with
  | Some pk => map (stamp (snd pa) (fst pa)) (pk_funcs pk)
  | None => []
  end.

(* what one import spec contributes: nothing without the tag; with it, every target of the
   package its path names, stamped with the alias (none for a bare tag) *)
Definition contrib (pt : string * option (option string)) : list func :=
  match snd pt with
  | None => []
  | Some a => contribN (fst pt, alias_str a)
  end.

Lemma collect_ok : forall (l : list (string * string)),
  (forall pa, In pa l -> golist dir (fst pa) <> None) ->
  exists imps, collect (fun pa => get_import_from golist dir (fst pa) (snd pa)) l = Some imps /\
               exposed imps = flat_map contribN l.
Proof.
  induction l as [|pa l IH]; intros H; simpl; [exists []; auto|].
  destruct IH as (imps & E & X); [intros; apply H; simpl; auto|].
  unfold get_import_from at 1. unfold contribN at 1.
  destruct (golist dir (fst pa)) as [pk|] eqn:G; [|exfalso; apply (H pa); simpl; auto].
  rewrite E. eexists; split; [reflexivity|]. unfold exposed in *; simpl. now rewrite X.
Qed.

Lemma collect_root_ok : forall (l : list string),
  (forall p, In p l -> golist dir p <> None) ->
  exists imps, collect (fun s => get_import_from golist dir s EmptyString) l = Some imps /\
               exposed imps = flat_map (fun p => contribN (p, EmptyString)) l.
Proof.
  induction l as [|p l IH]; intros H; simpl; [exists []; auto|].
  destruct IH as (imps & E & X); [intros; apply H; simpl; auto|].
  unfold get_import_from at 1. unfold contribN at 1; simpl.
  destruct (golist dir p) as [pk|] eqn:G; [|exfalso; apply (H p); simpl; auto].
  rewrite E. eexists; split; [reflexivity|]. unfold exposed in *; simpl. now rewrite X.
Qed.

Lemma contrib_split : forall l,
  Permutation (flat_map contrib l)
              (flat_map contribN (named_tags l) ++ flat_map (fun p => contribN (p, EmptyString)) (all_root_tags l)).
Proof.
  induction l as [|[p t] l IH]; simpl; [apply Permutation_refl|].
  unfold named_tags, all_root_tags in *; simpl.
  destruct t as [[a|]|]; simpl.
  - unfold contrib at 1; simpl. rewrite ?app_nil_r, <- ?app_assoc. now apply Permutation_app_head.
  - unfold contrib at 1; simpl. rewrite ?app_nil_r.
    eapply Permutation_trans; [apply Permutation_app_head, IH|]. apply Permutation_app_swap_app.
  - exact IH.
Qed.

Lemma named_in_tags : forall l p a, In (p, a) (named_tags l) -> In (p, Some (Some a)) l.
Proof.
  induction l as [|[p' t] l IH]; intros p a H; [contradiction|].
  unfold named_tags in H; simpl in H. apply in_app_or in H as [H|H].
  - destruct t as [[a'|]|]; simpl in H; try contradiction. destruct H as [H|[]]. inversion H; subst. left; reflexivity.
  - right. apply IH, H.
Qed.

Lemma all_root_in_tags : forall l p, In p (all_root_tags l) -> In (p, Some None) l.
Proof.
  induction l as [|[p' t] l IH]; intros p H; [contradiction|].
  unfold all_root_tags in H; simpl in H. apply in_app_or in H as [H|H].
  - destruct t as [[a'|]|]; simpl in H; try contradiction. destruct H as [H|[]]. subst. left; reflexivity.
  - right. apply IH, H.
Qed.

Lemma in_named_tags : forall l p a, In (p, Some (Some a)) l -> In (p, a) (named_tags l).
Proof.
  induction l as [|[p' t'] l IH]; intros p a I; [contradiction|].
  unfold named_tags; simpl. apply in_or_app. destruct I as [I|I].
  - inversion I; subst. left; simpl; auto.
  - right. apply IH, I.
Qed.

Lemma root_in_tags : forall l p, In p (root_tags l) -> In (p, Some None) l.
Proof. intros l p H. unfold root_tags in H. apply nodup_In in H. now apply all_root_in_tags. Qed.

Lemma in_all_root_tags : forall l p, In (p, Some None) l -> In p (all_root_tags l).
Proof.
  induction l as [|[p' t'] l IH]; intros p I; [contradiction|].
  unfold all_root_tags; simpl. apply in_or_app. destruct I as [I|I].
  - inversion I; subst. left; simpl; auto.
  - right. apply IH, I.
Qed.

Lemma in_root_tags : forall l p, In (p, Some None) l -> In p (root_tags l).
Proof. intros l p I. unfold root_tags. apply nodup_In. now apply in_all_root_tags. Qed.

(* what the tagged specs of a package contribute together: every (path, alias) pair once (a pair
   repeated in several specs is one import), every root import once (a package imported bare by
   several specs is one import) *)
Definition contributions (l : list (string * option (option string))) : list func :=
  flat_map contribN (distinct (named_tags l)) ++ flat_map (fun p => contribN (p, EmptyString)) (root_tags l).

Theorem exposes_exactly : forall files,
  (forall p t, In (p, Some t) (tags files) -> golist dir p <> None) ->
  exists imps, set_imports golist dir files = Some imps /\
               Permutation (exposed imps) (contributions (tags files)).
Proof.
  intros files RES.
  unfold set_imports, set_imports_gen. rewrite scan_flat, scan_steps.
  change (tags_of_specs (specs_of files)) with (tags files).
  set (named := named_tags (tags files)) in *. set (roots := all_root_tags (tags files)).
  pose proof (named_visited named) as P. pose proof (roots_visited roots) as P2.
  destruct (collect_ok (sort_pairs (put_all named []))) as (imps1 & E1 & X1).
  { intros pa I. apply (Permutation_in _ P) in I. unfold distinct in I. apply nodup_In in I.
    destruct pa as [p a]. apply named_in_tags in I. eapply RES; eauto. }
  destruct (collect_root_ok (rput_all root_put roots [])) as (imps2 & E2 & X2).
  { intros p I. apply rput_all_in in I as [I|[]]. apply all_root_in_tags in I. eapply RES; eauto. }
  rewrite E1, E2. eexists; split; [reflexivity|].
  unfold exposed, contributions, root_tags in *. rewrite flat_map_app, X1, X2.
  apply Permutation_app; now apply Permutation_flat_map.
Qed.

(* no (path, alias) pair tagged twice: the sum of the contributions of the single specs *)
Theorem exposes_exactly_distinct : forall files,
  NoDup (named_tags (tags files)) -> NoDup (all_root_tags (tags files)) ->
  (forall p t, In (p, Some t) (tags files) -> golist dir p <> None) ->
  exists imps, set_imports golist dir files = Some imps /\
               Permutation (exposed imps) (flat_map contrib (tags files)).
Proof.
  intros files ND NR RES. destruct (exposes_exactly files RES) as (imps & E & P).
  exists imps; split; [exact E|].
  eapply Permutation_trans; [exact P|]. unfold contributions, distinct, root_tags.
  rewrite (nodup_fixed_point pair_dec ND), (nodup_fixed_point string_dec NR). apply Permutation_sym, contrib_split.
Qed.

Theorem lookup_error : forall files p t,
  In (p, Some t) (tags files) -> golist dir p = None ->
  set_imports golist dir files = None.
Proof.
  intros files p t I G.
  unfold set_imports, set_imports_gen. rewrite scan_flat, scan_steps.
  change (tags_of_specs (specs_of files)) with (tags files).
  set (named := named_tags (tags files)) in *. set (roots := all_root_tags (tags files)).
  assert (CN : forall l, In p (map fst l) -> collect (fun pa => get_import_from golist dir (fst pa) (snd pa)) l = None).
  { induction l as [|pa l IH]; simpl; [contradiction|]. intros [H|H].
    - unfold get_import_from. rewrite H, G. reflexivity.
    - rewrite (IH H). destruct (get_import_from golist dir (fst pa) (snd pa)); reflexivity. }
  assert (CR : forall l, In p l -> collect (fun s => get_import_from golist dir s EmptyString) l = None).
  { induction l as [|q l IH]; simpl; [contradiction|]. intros [H|H].
    - unfold get_import_from. rewrite H, G. reflexivity.
    - rewrite (IH H). destruct (get_import_from golist dir q EmptyString); reflexivity. }
  destruct t as [a|].
  - rewrite CN; [reflexivity|].
    apply in_named_tags in I. fold named in I.
    apply (in_map fst) with (x := (p, a)).
    apply (Permutation_in _ (Permutation_sym (sort_pairs_perm _))). apply put_all_in. auto.
  - destruct (collect _ (sort_pairs (put_all named []))); [|reflexivity].
    rewrite CR; [reflexivity|]. apply rput_all_in. left. apply in_all_root_tags, I.
Qed.

Theorem untagged_nothing : forall files,
  (forall s, In s (specs_of files) -> tag_rule s = None) ->
  set_imports golist dir files = Some [].
Proof.
  intros files H. unfold set_imports, set_imports_gen. rewrite scan_flat, scan_steps.
  assert (N : named_tags (tags_of_specs (specs_of files)) = [] /\ all_root_tags (tags_of_specs (specs_of files)) = []).
  { induction (specs_of files) as [|s l IH]; [split; reflexivity|].
    destruct IH as [IH1 IH2]; [intros; apply H; simpl; auto|].
    unfold named_tags, all_root_tags in *; simpl. rewrite (H s), IH1, IH2 by (simpl; auto). simpl; auto. }
  destruct N as [-> ->]. reflexivity.
Qed.

(* ---------------------------------------------------------------- per alias: the union *)
Lemma filter_perm : forall {A} (f : A -> bool) l l', Permutation l l' -> Permutation (filter f l) (filter f l').
Proof.
  intros A f l l' P; induction P; simpl.
  - constructor.
  - destruct (f x); [constructor|]; assumption.
  - destruct (f x), (f y); try apply Permutation_refl. apply perm_swap.
  - eapply Permutation_trans; eassumption.
Qed.

Definition has_alias (a : string) (f : func) : bool := String.eqb (f_alias f) a.
Definition tag_has_alias (a : string) (pt : string * option (option string)) : bool :=
  match snd pt with Some t => String.eqb (alias_str t) a | None => false end.

Lemma filter_stamped : forall a b p l,
  filter (has_alias a) (map (stamp b p) l) = if String.eqb b a then map (stamp b p) l else [].
Proof.
  intros a b p l; induction l as [|f l IH]; simpl.
  - destruct (String.eqb b a); reflexivity.
  - unfold has_alias at 1; simpl. rewrite IH. destruct (String.eqb b a); reflexivity.
Qed.

Lemma filter_contrib : forall a l,
  filter (has_alias a) (flat_map contrib l) = flat_map contrib (filter (tag_has_alias a) l).
Proof.
  intros a l; induction l as [|[p t] l IH]; [reflexivity|].
  cbn [flat_map filter]. rewrite filter_app, IH.
  destruct t as [t|].
  - change (tag_has_alias a (p, Some t)) with (String.eqb (alias_str t) a).
    assert (E : filter (has_alias a) (contrib (p, Some t)) =
                if String.eqb (alias_str t) a then contrib (p, Some t) else []).
    { unfold contrib, contribN; cbn [fst snd].
      destruct (golist dir p); [apply filter_stamped|destruct (String.eqb _ _); reflexivity]. }
    rewrite E. destruct (String.eqb (alias_str t) a); reflexivity.
  - change (tag_has_alias a (p, None)) with false. reflexivity.
Qed.

Theorem shared_alias : forall files a,
  NoDup (named_tags (tags files)) -> NoDup (all_root_tags (tags files)) ->
  (forall p t, In (p, Some t) (tags files) -> golist dir p <> None) ->
  exists imps, set_imports golist dir files = Some imps /\
               Permutation (filter (has_alias a) (exposed imps))
                           (flat_map contrib (filter (tag_has_alias a) (tags files))).
Proof.
  intros files a ND NR RES. destruct (exposes_exactly_distinct files ND NR RES) as (imps & E & P).
  exists imps; split; [exact E|]. rewrite <- filter_contrib. now apply filter_perm.
Qed.
End Look.

(* ================================================================ what the result depends on *)
Lemma collect_ext : forall {A} (f g : A -> option import) l, (forall x, f x = g x) -> collect f l = collect g l.
Proof. intros A f g l H; induction l as [|x l IH]; simpl; [reflexivity|]. now rewrite H, IH. Qed.

Definition pk_core (pk : pkginfo) : string * list func := (pk_name pk, pk_funcs pk).

Theorem default_aliases_ignored : forall g g' dir files,
  (forall p, option_map pk_core (g dir p) = option_map pk_core (g' dir p)) ->
  set_imports g dir files = set_imports g' dir files.
Proof.
  intros g g' dir files H. unfold set_imports, set_imports_gen.
  destruct (scan get_import_path set_put root_put files) as [m r].
  assert (E : forall p a, get_import_from g dir p a = get_import_from g' dir p a).
  { intros p a. unfold get_import_from. specialize (H p).
    destruct (g dir p) as [pk|], (g' dir p) as [pk'|]; simpl in H; try discriminate; [|reflexivity].
    unfold pk_core in H. inversion H as [[H1 H2]]. now rewrite H1, H2. }
  rewrite (collect_ext _ (fun pa => get_import_from g' dir (fst pa) (snd pa))) by (intros; apply E).
  rewrite (collect_ext (fun s => get_import_from g dir s EmptyString) (fun s => get_import_from g' dir s EmptyString)) by (intros; apply E).
  reflexivity.
Qed.

Theorem lookup_in_magefile_dir : forall g g' dir files,
  (forall p, g dir p = g' dir p) -> set_imports g dir files = set_imports g' dir files.
Proof.
  intros g g' dir files H. apply default_aliases_ignored. intros p. now rewrite H.
Qed.

(* ================================================================ names *)
Lemma target_name_prefixed : forall a p f, f_name f <> EmptyString ->
  target_name (stamp a p f) = prefixed a (own_name f).
Proof.
  intros a p [fa fp fr fn] H; unfold target_name, prefixed, own_name, stamp; simpl in *.
  destruct fn as [|c fn]; [congruence|].
  destruct a as [|ca a], fr as [|cr fr]; simpl; reflexivity.
Qed.

(* ================================================================ witnesses *)
(* Package() lists namespace methods first (setNamespaces), then functions (setFuncs) *)
Definition w_pkg (n : string) : pkginfo :=
  {| pk_name := n; pk_funcs := [ {| f_alias := ""; f_path := ""; f_recv := "Docker"; f_name := "Push" |};
                                 {| f_alias := ""; f_path := ""; f_recv := ""; f_name := "Build" |} ];
     pk_default := Some "Build"; pk_aliases := [("b", "Build")] |}.
(* the packages resolve from the magefile directory "build" only, not from the start directory "" *)
Definition w_golist (d p : string) : option pkginfo :=
  if String.eqb d "build" then
    if String.eqb p "ex/imp/a" then Some (w_pkg "a") else if String.eqb p "ex/imp/b" then Some (w_pkg "b") else
    if String.eqb p "ex/imp/c" then Some (w_pkg "c") else None
  else None.
Definition w_files : list file :=
  [ [ {| gd_doc := Some ["// tools"; "// mage:import"]; gd_lparen := false;
         gd_specs := [ {| is_doc := None; is_comment := None; is_path := "ex/imp/a"; is_raw := false |} ] |};
      {| gd_doc := Some ["// mage:import zzz"]; gd_lparen := true;
         gd_specs := [ {| is_doc := Some ["// mage:import x"; "//MAGE:IMPORT  Tools"]; is_comment := None; is_path := "ex/imp/b"; is_raw := false |};
                       {| is_doc := None; is_comment := Some ["// mage:import tools"]; is_path := "ex/imp/c"; is_raw := true |};
                       {| is_doc := Some ["// mage:import"; "// not the last line"]; is_comment := None; is_path := "ex/imp/d"; is_raw := false |} ] |} ];
    [ {| gd_doc := Some ["// the same package under a second alias"; "// mage:import ci"]; gd_lparen := false;
         gd_specs := [ {| is_doc := None; is_comment := None; is_path := "ex/imp/b"; is_raw := false |} ] |};
      {| gd_doc := None; gd_lparen := false;
         gd_specs := [ {| is_doc := None; is_comment := Some ["// mage:import Tools"]; is_path := "ex/imp/b"; is_raw := false |} ] |};
      {| gd_doc := Some ["// the same package bare once more"; "//mage:import"]; gd_lparen := false;
         gd_specs := [ {| is_doc := None; is_comment := None; is_path := "ex/imp/a"; is_raw := false |} ] |} ] ].

Definition w_tags : list (string * option (option string)) :=
  [("ex/imp/a", Some None); ("ex/imp/b", Some (Some "tools")); ("ex/imp/c", Some (Some "tools")); ("ex/imp/d", None);
   ("ex/imp/b", Some (Some "ci")); ("ex/imp/b", Some (Some "tools")); ("ex/imp/a", Some None)]%string.

Lemma nonvacuous_c19 :
  tags w_files = w_tags /\
  (forall p t, In (p, Some t) (tags w_files) -> w_golist "build" p <> None) /\
  option_map (fun imps => map target_name (exposed imps)) (set_imports w_golist "build" w_files) =
    Some ["ci:Docker:Push"; "ci:Build"; "tools:Docker:Push"; "tools:Build"; "tools:Docker:Push"; "tools:Build"; "Docker:Push"; "Build"]%string.
Proof.
  split; [vm_compute; reflexivity|].
  split; [|vm_compute; reflexivity].
  intros p t H. vm_compute in H.
  repeat (destruct H as [H|H]; [inversion H; subst; vm_compute; discriminate|]). contradiction.
Qed.

(* before fix b79c739 the lookup ran in the start directory: the same input fails *)
Lemma start_dir_before_repair_refuted :
  exists g dir files,
    (forall p t, In (p, Some t) (tags files) -> g dir p <> None) /\
    (exists imps, set_imports g dir files = Some imps /\ exposed imps <> []) /\
    set_imports_start_dir g dir files = None.
Proof.
  exists w_golist, "build"%string, w_files. split; [exact (proj1 (proj2 nonvacuous_c19))|].
  split; [|vm_compute; reflexivity].
  destruct (set_imports w_golist "build" w_files) as [imps|] eqn:E; [|vm_compute in E; discriminate].
  exists imps; split; [reflexivity|]. vm_compute in E. inversion E. discriminate.
Qed.

(* before fix 5f65f03 importNames was keyed by the import path: one package under two aliases was
   exposed under the alias of the last spec only; now under both *)
Definition w_two : list file :=
  [ [ {| gd_doc := Some ["// mage:import one"]; gd_lparen := false;
         gd_specs := [ {| is_doc := None; is_comment := None; is_path := "ex/imp/a"; is_raw := false |} ] |} ];
    [ {| gd_doc := Some ["// mage:import two"]; gd_lparen := false;
         gd_specs := [ {| is_doc := None; is_comment := None; is_path := "ex/imp/a"; is_raw := false |} ] |} ] ].

Lemma one_package_two_aliases_before_repair_refuted :
  exists g dir files,
    tags files = [("ex/imp/a", Some (Some "one")); ("ex/imp/a", Some (Some "two"))]%string /\
    g dir "ex/imp/a"%string <> None /\
    option_map (fun imps => map target_name (exposed imps)) (set_imports g dir files) =
      Some ["one:Docker:Push"; "one:Build"; "two:Docker:Push"; "two:Build"]%string /\
    option_map (fun imps => map target_name (exposed imps)) (set_imports_path_keyed g dir files) =
      Some ["two:Docker:Push"; "two:Build"]%string.
Proof.
  exists w_golist, "build"%string, w_two. split; [vm_compute; reflexivity|].
  split; [vm_compute; discriminate|]. split; vm_compute; reflexivity.
Qed.

(* before fix 48f17db lit2string wanted double quotes: a tagged import whose path is a raw string
   literal was not scanned *)
Lemma raw_path_before_repair_refuted :
  exists s, is_raw s = true /\ tag_rule s = Some (Some "one"%string) /\ tagged s = Some (Some "one"%string) /\
            tagged_before_48f17db s = None.
Proof.
  exists {| is_doc := Some ["// mage:import one"]; is_comment := None; is_path := "ex/imp/a"; is_raw := true |}.
  repeat split; vm_compute; reflexivity.
Qed.

(* before fix 4a102aa every bare spec was appended to rootImports: the same package imported bare by
   two magefiles was imported twice, every target of it twice under the same name (what the
   duplicate check then rejects: "lint" target has multiple definitions: p.Lint, p.Lint) *)
Definition w_bare_twice : list file :=
  [ [ {| gd_doc := Some ["// mage:import"]; gd_lparen := false;
         gd_specs := [ {| is_doc := None; is_comment := None; is_path := "ex/imp/a"; is_raw := false |} ] |} ];
    [ {| gd_doc := Some ["// mage:import"]; gd_lparen := false;
         gd_specs := [ {| is_doc := None; is_comment := None; is_path := "ex/imp/a"; is_raw := false |} ] |} ] ].

Lemma bare_twice_before_repair_refuted :
  exists g dir files,
    tags files = [("ex/imp/a", Some None); ("ex/imp/a", Some None)]%string /\
    g dir "ex/imp/a"%string <> None /\
    option_map (fun imps => map target_name (exposed imps)) (set_imports g dir files) =
      Some ["Docker:Push"; "Build"]%string /\
    option_map (fun imps => map target_name (exposed imps)) (set_imports_roots_appended g dir files) =
      Some ["Docker:Push"; "Build"; "Docker:Push"; "Build"]%string.
Proof.
  exists w_golist, "build"%string, w_bare_twice. split; [vm_compute; reflexivity|].
  split; [vm_compute; discriminate|]. split; vm_compute; reflexivity.
Qed.
