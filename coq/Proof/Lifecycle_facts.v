(* Proofs for C09 (Props/C09.v) over Model/Lifecycle.v. *)
From Mage Require Import Base.Strs Model.Lifecycle.

(* ------------------------------------------------------------------------------------------ *)
(* association lists                                                                           *)

Lemma eqb_neq_false : forall a b : string, a <> b -> String.eqb a b = false.
Proof. intros a b H. apply String.eqb_neq. exact H. Qed.

Lemma lookup_set_same : forall d n e, lookup (set n e d) n = Some e.
Proof.
  induction d as [|[n' e'] r IH]; intros n e; cbn [set lookup].
  - rewrite String.eqb_refl. reflexivity.
  - destruct (String.eqb n n') eqn:E; cbn [lookup].
    + rewrite String.eqb_refl. reflexivity.
    + rewrite E. apply IH.
Qed.

Lemma lookup_set_other : forall d n n' e, n' <> n -> lookup (set n e d) n' = lookup d n'.
Proof.
  induction d as [|[m e'] r IH]; intros n n' e H; cbn [set lookup].
  - rewrite (eqb_neq_false _ _ H). reflexivity.
  - destruct (String.eqb n m) eqn:E; cbn [lookup].
    + apply String.eqb_eq in E. subst m. rewrite (eqb_neq_false _ _ H). reflexivity.
    + destruct (String.eqb n' m); [reflexivity|]. apply IH. exact H.
Qed.

Lemma lookup_remove_same : forall d n, lookup (remove n d) n = None.
Proof.
  induction d as [|[m e] r IH]; intros n; cbn [remove filter fst]; [reflexivity|].
  destruct (String.eqb n m) eqn:E; cbn [negb lookup].
  - apply IH.
  - rewrite E. apply IH.
Qed.

Lemma lookup_remove_other : forall d n n', n' <> n -> lookup (remove n d) n' = lookup d n'.
Proof.
  induction d as [|[m e] r IH]; intros n n' H; cbn [remove filter fst]; [reflexivity|].
  destruct (String.eqb n m) eqn:E; cbn [negb lookup].
  - apply String.eqb_eq in E. subst m. rewrite (eqb_neq_false _ _ H). apply IH. exact H.
  - destruct (String.eqb n' m); [reflexivity|]. apply IH. exact H.
Qed.

Lemma remove_set : forall d n e, remove n (set n e d) = remove n d.
Proof.
  induction d as [|[m e'] r IH]; intros n e; cbn [set remove filter fst].
  - rewrite String.eqb_refl. reflexivity.
  - destruct (String.eqb n m) eqn:E; cbn [remove filter fst negb].
    + rewrite String.eqb_refl. reflexivity.
    + rewrite E. cbn [negb]. f_equal. apply IH.
Qed.

Lemma remove_absent : forall d n, lookup d n = None -> remove n d = d.
Proof.
  induction d as [|[m e] r IH]; intros n H; cbn [remove filter fst]; [reflexivity|].
  cbn [lookup] in H. destruct (String.eqb n m); [discriminate|].
  cbn [negb]. f_equal. apply IH. exact H.
Qed.

Lemma remove_idem : forall d n, remove n (remove n d) = remove n d.
Proof. intros d n. apply remove_absent. apply lookup_remove_same. Qed.

Lemma set_set : forall d n e e', set n e (set n e' d) = set n e d.
Proof.
  induction d as [|[m x] r IH]; intros n e e'; cbn [set].
  - rewrite String.eqb_refl. reflexivity.
  - destruct (String.eqb n m) eqn:E; cbn [set].
    + rewrite String.eqb_refl. reflexivity.
    + rewrite E. f_equal. apply IH.
Qed.

Lemma remove_set_other : forall d n n' e, n <> n' -> remove n (set n' e d) = set n' e (remove n d).
Proof.
  induction d as [|[m x] r IH]; intros n n' e H; cbn [set remove filter fst].
  - rewrite (eqb_neq_false _ _ H). reflexivity.
  - destruct (String.eqb n' m) eqn:E.
    + apply String.eqb_eq in E. subst m. cbn [remove filter fst].
      rewrite (eqb_neq_false _ _ H). cbn [negb set]. rewrite String.eqb_refl. reflexivity.
    + cbn [remove filter fst]. destruct (String.eqb n m) eqn:E2; cbn [negb].
      * apply IH. exact H.
      * cbn [set]. rewrite E. f_equal. apply IH. exact H.
Qed.

(* ------------------------------------------------------------------------------------------ *)
(* the name mage_output_file.go                                                                *)

(* nothing, or a regular file: what an interrupted run can leave *)
Definition plain (d : fs) : Prop :=
  match lookup d mainfile with None => True | Some (File _) => True | Some _ => False end.

(* not a symbolic link (a directory of that name is allowed: os.Create fails on it) *)
Definition nolink (d : fs) : Prop := forall t, lookup d mainfile <> Some (Link t).

Lemma plain_nolink : forall d, plain d -> nolink d.
Proof. intros d H t E. unfold plain in H. rewrite E in H. exact H. Qed.

Lemma stale_plain : forall d, plain d -> remove_stale d = remove mainfile d.
Proof.
  intros d H. unfold plain in H. unfold remove_stale.
  destruct (lookup d mainfile) as [[b|es|t]|] eqn:E; try contradiction; [reflexivity|].
  symmetry. apply remove_absent. exact E.
Qed.

Lemma stale_lookup_other : forall d n, n <> mainfile -> lookup (remove_stale d) n = lookup d n.
Proof.
  intros d n H. unfold remove_stale.
  destruct (lookup d mainfile) as [[b|es|t]|]; try reflexivity.
  apply lookup_remove_other. exact H.
Qed.

Lemma stale_lookup_main : forall d,
  lookup (remove_stale d) mainfile = match lookup d mainfile with Some (File _) => None | x => x end.
Proof.
  intros d. unfold remove_stale.
  destruct (lookup d mainfile) as [[b|es|t]|] eqn:E; try exact E.
  apply lookup_remove_same.
Qed.

Lemma stale_idem : forall d, remove_stale (remove_stale d) = remove_stale d.
Proof.
  intros d. unfold remove_stale at 1. rewrite stale_lookup_main.
  destruct (lookup d mainfile) as [[b|es|t]|]; reflexivity.
Qed.

Lemma stale_nolink : forall d, nolink d -> nolink (remove_stale d).
Proof.
  intros d H t E. rewrite stale_lookup_main in E.
  destruct (lookup d mainfile) as [[b|es|t']|] eqn:E'; try discriminate.
  apply (H t). rewrite E'. exact E.
Qed.

Lemma stale_plain_plain : forall d, plain d -> plain (remove_stale d).
Proof.
  intros d H. unfold plain in *. rewrite stale_lookup_main.
  destruct (lookup d mainfile) as [[b|es|t]|]; auto.
Qed.

Lemma plain_set_main : forall d b, plain (set mainfile (File b) d).
Proof. intros d b. unfold plain. rewrite lookup_set_same. exact I. Qed.

Lemma plain_remove_main : forall d, plain (remove mainfile d).
Proof. intros d. unfold plain. rewrite lookup_remove_same. exact I. Qed.

Lemma stale_set_main : forall d b, plain d -> remove_stale (set mainfile (File b) d) = remove_stale d.
Proof.
  intros d b H. rewrite (stale_plain _ (plain_set_main d b)). rewrite remove_set.
  symmetry. apply stale_plain. exact H.
Qed.

Lemma stale_remove_main : forall d, plain d -> remove_stale (remove mainfile d) = remove_stale d.
Proof.
  intros d H. rewrite (stale_plain _ (plain_remove_main d)). rewrite remove_idem.
  symmetry. apply stale_plain. exact H.
Qed.

(* ------------------------------------------------------------------------------------------ *)
(* runs                                                                                        *)

Lemma calls_fields : forall c n s,
  s_fs (calls c n s) = s_fs s /\ s_defer (calls c n s) = s_defer s /\ s_reuse (calls c n s) = s_reuse s /\
  s_fd (calls c n s) = s_fd s /\ s_gen (calls c n s) = s_gen s.
Proof.
  intros c n. induction n as [|k IH]; intros s; cbn [calls]; [repeat split|].
  destruct (IH (call c s)) as (A & B & C & D & E). cbn in *. repeat split; assumption.
Qed.

Section Run.
Variable w : world.
Variable faults : step -> bool.
Variable fl : flags.
Notation exec := (exec w faults fl).
Notation run := (run w faults fl).

Lemma run_app : forall l1 l2 s,
  run (l1 ++ l2) s = match run l1 s with
                     | (s', Some x) => (s', Some x)
                     | (s', None) => run l2 s'
                     end.
Proof.
  induction l1 as [|st r IH]; intros l2 s; cbn [app Lifecycle.run]; [reflexivity|].
  destruct (exec st s) as [s'|c s']; [apply IH|reflexivity].
Qed.

(* a predicate on (directory, open file) that every step preserves holds after every run *)
Definition step_stable (P : fs -> option string -> Prop) : Prop :=
  forall st s, P (s_fs s) (s_fd s) ->
    match exec st s with Cont s' => P (s_fs s') (s_fd s') | Exit _ s' => P (s_fs s') (s_fd s') end.

Lemma run_stable : forall P, step_stable P ->
  forall l s, P (s_fs s) (s_fd s) -> P (s_fs (fst (run l s))) (s_fd (fst (run l s))).
Proof.
  intros P HP. induction l as [|st r IH]; intros s H; cbn [Lifecycle.run]; [exact H|].
  specialize (HP st s H). destruct (exec st s) as [s'|c s']; [apply IH; exact HP|exact HP].
Qed.

(* the shape of one step: what it can do to the directory and the open file *)
Inductive effect (s : state) : state -> Prop :=
| EfSame : forall s', s_fs s' = s_fs s -> s_fd s' = s_fd s -> effect s s'
| EfClose : forall s', s_fs s' = s_fs s -> s_fd s' = None -> effect s s'
| EfStale : forall s', s_fs s' = remove_stale (s_fs s) -> s_fd s' = s_fd s -> effect s s'
| EfCreate : forall s', (forall t, lookup (s_fs s) mainfile <> Some (Link t)) ->
    (forall es, lookup (s_fs s) mainfile <> Some (Dir es)) ->
    s_fs s' = set mainfile (File "") (s_fs s) -> s_fd s' = Some mainfile -> effect s s'
| EfCreateLink : forall s' t, lookup (s_fs s) mainfile = Some (Link t) ->
    s_fs s' = set t (File "") (s_fs s) -> s_fd s' = Some t -> effect s s'
| EfWrite : forall s' n b, s_fd s = Some n -> s_fs s' = set n (File b) (s_fs s) -> s_fd s' = s_fd s -> effect s s'
| EfRemove : forall s', s_fs s' = remove mainfile (s_fs s) -> s_fd s' = s_fd s -> effect s s'
| EfWriteRemove : forall s' n b, s_fd s = Some n -> s_fs s' = remove mainfile (set n (File b) (s_fs s)) ->
    s_fd s' = s_fd s -> effect s s'
| EfCloseRemove : forall s', s_fs s' = remove mainfile (s_fs s) -> s_fd s' = None -> effect s s'.

Lemma exec_effect : forall st s,
  match exec st s with Cont s' => effect s s' | Exit _ s' => effect s s' end.
Proof.
  intros st s.
  assert (Same : effect s s) by (apply EfSame; reflexivity).
  destruct st; cbn [Lifecycle.exec]; unfold fallible.
  - (* RemoveStale *) destruct (w_fixed w); [apply EfStale; reflexivity|exact Same].
  - destruct (faults ListMage || negb (leftover_lists_ok w (s_fs s))); exact Same.
  - destruct (f_mfdir fl); [exact Same|]. destruct (faults ListNonMage); exact Same.
  - destruct (faults CheckFiles); exact Same.
  - destruct (f_compile fl); [exact Same|]. destruct (faults HashFiles); exact Same.
  - destruct (f_compile fl); [exact Same|]. destruct (faults GoVersion); apply EfSame; reflexivity.
  - destruct (f_hashfast fl); [exact Same|]. destruct (faults GoEnvGocache); apply EfSame; reflexivity.
  - destruct (negb (f_hashfast fl) && w_gocache w); [exact Same|].
    destruct (w_exe_cached w && negb (f_force fl)); apply EfSame; reflexivity.
  - destruct (s_reuse s); [exact Same|]. destruct (faults Parse); exact Same.
  - destruct (s_reuse s); [exact Same|]. destruct (w_imports w); [exact Same|].
    destruct (faults GoListDir); apply EfSame; reflexivity.
  - destruct (s_reuse s); [exact Same|]. destruct (w_imports w) as [|k]; [exact Same|].
    destruct (faults GoListFiles); [apply EfSame; reflexivity|].
    destruct (calls_fields GList (2 * k) (call GList s)) as (A & _ & _ & D & _).
    apply EfSame; [rewrite A|rewrite D]; reflexivity.
  - destruct (s_reuse s); [exact Same|]. destruct (faults Dupes); exact Same.
  - (* CreateMain *)
    destruct (s_reuse s); [exact Same|].
    destruct (lookup (s_fs s) mainfile) as [[b|es|t]|] eqn:E.
    + destruct (faults CreateMain); [exact Same|].
      apply EfCreate; cbn; try reflexivity; intros ? ?; congruence.
    + exact Same.
    + destruct (faults CreateMain); [exact Same|].
      destruct (lookup (s_fs s) t) as [[b'|es'|t']|] eqn:E'; try exact Same;
        apply (EfCreateLink s _ t E); reflexivity.
    + destruct (faults CreateMain); [exact Same|].
      apply EfCreate; cbn; try reflexivity; intros ? ?; congruence.
  - (* WriteMain *)
    destruct (s_fd s) as [n|] eqn:E; [|exact Same].
    destruct (faults WriteMain); [|eapply EfWrite; try exact E; cbn; try reflexivity; exact E].
    unfold cleanup. destruct (w_cleanup w).
    + eapply EfWriteRemove; try exact E; cbn; try reflexivity; exact E.
    + eapply EfWrite; try exact E; cbn; try reflexivity; exact E.
  - destruct (s_fd s) as [n|] eqn:E; [|exact Same].
    destruct (faults CloseMain); [|apply EfClose; reflexivity].
    unfold cleanup. destruct (w_cleanup w); [apply EfCloseRemove|apply EfClose]; reflexivity.
  - destruct (s_reuse s); [exact Same|]. destruct (faults Chtimes); [|apply EfSame; reflexivity].
    unfold cleanup. destruct (w_cleanup w); [apply EfRemove|apply EfSame]; reflexivity.
  - destruct (s_reuse s || f_keep fl); apply EfSame; reflexivity.
  - destruct (s_reuse s || negb (f_debug fl)); apply EfSame; reflexivity.
  - destruct (s_reuse s || negb (f_debug fl)); apply EfSame; reflexivity.
  - destruct (s_reuse s); [exact Same|]. destruct (faults GoBuild); apply EfSame; reflexivity.
  - destruct (s_reuse s || f_keep fl); [exact Same|]. apply EfRemove; reflexivity.
  - destruct (negb (s_reuse s) && f_compile fl); exact Same.
  - destruct (faults ExecBinary); exact Same.
  - exact Same.
Qed.
End Run.

(* ------------------------------------------------------------------------------------------ *)
(* two invariants of every step                                                                *)

(* (1) every name other than mage_output_file.go keeps its entry *)
Definition Untouched (d : fs) (x : fs) (fd : option string) : Prop :=
  (forall n, n <> mainfile -> lookup x n = lookup d n) /\ (fd = None \/ fd = Some mainfile) /\ nolink x.

(* (2) the directory differs from d at most by a regular file named mage_output_file.go *)
Definition UpToStale (d : fs) (x : fs) (fd : option string) : Prop :=
  plain x /\ remove_stale x = remove_stale d /\ (fd = None \/ fd = Some mainfile).

Lemma untouched_stable : forall w faults fl d, step_stable w faults fl (Untouched d).
Proof.
  intros w faults fl d st s (A & B & C).
  pose proof (exec_effect w faults fl st s) as E.
  assert (G : forall s', effect s s' -> Untouched d (s_fs s') (s_fd s')).
  { intros s' Ef. destruct Ef as [s' F1 F2|s' F1 F2|s' F1 F2|s' L1 L2 F1 F2|s' t L F1 F2|s' n b D F1 F2|s' F1 F2|s' n b D F1 F2|s' F1 F2];
      rewrite F1, F2; unfold Untouched.
    - auto.
    - auto.
    - split; [|split; [exact B|apply stale_nolink; exact C]].
      intros n Hn. rewrite stale_lookup_other by exact Hn. apply A. exact Hn.
    - split; [|split; [right; reflexivity|]].
      + intros n Hn. rewrite lookup_set_other by exact Hn. apply A. exact Hn.
      + intros t. rewrite lookup_set_same. discriminate.
    - exfalso. exact (C t L).
    - assert (n = mainfile) by (destruct B as [B|B]; congruence). subst n.
      split; [|split; [exact B|]].
      + intros n Hn. rewrite lookup_set_other by exact Hn. apply A. exact Hn.
      + intros t. rewrite lookup_set_same. discriminate.
    - split; [|split; [exact B|]].
      + intros n Hn. rewrite lookup_remove_other by exact Hn. apply A. exact Hn.
      + intros t. rewrite lookup_remove_same. discriminate.
    - assert (n = mainfile) by (destruct B as [B|B]; congruence). subst n.
      split; [|split; [exact B|]].
      + intros n Hn. rewrite lookup_remove_other by exact Hn. rewrite lookup_set_other by exact Hn. apply A. exact Hn.
      + intros t. rewrite lookup_remove_same. discriminate.
    - split; [|split; [left; reflexivity|]].
      + intros n Hn. rewrite lookup_remove_other by exact Hn. apply A. exact Hn.
      + intros t. rewrite lookup_remove_same. discriminate. }
  destruct (exec w faults fl st s); apply G; exact E.
Qed.

Lemma uptostale_stable : forall w faults fl d, step_stable w faults fl (UpToStale d).
Proof.
  intros w faults fl d st s (A & B & C).
  pose proof (exec_effect w faults fl st s) as E.
  assert (G : forall s', effect s s' -> UpToStale d (s_fs s') (s_fd s')).
  { intros s' Ef. destruct Ef as [s' F1 F2|s' F1 F2|s' F1 F2|s' L1 L2 F1 F2|s' t L F1 F2|s' n b D F1 F2|s' F1 F2|s' n b D F1 F2|s' F1 F2];
      rewrite F1, F2; unfold UpToStale.
    - auto.
    - auto.
    - split; [apply stale_plain_plain; exact A|]. split; [rewrite stale_idem; exact B|exact C].
    - split; [apply plain_set_main|]. split; [rewrite stale_set_main by exact A; exact B|right; reflexivity].
    - exfalso. unfold plain in A. rewrite L in A. exact A.
    - assert (n = mainfile) by (destruct C as [C|C]; congruence). subst n.
      split; [apply plain_set_main|]. split; [rewrite stale_set_main by exact A; exact B|exact C].
    - split; [apply plain_remove_main|]. split; [rewrite stale_remove_main by exact A; exact B|exact C].
    - assert (n = mainfile) by (destruct C as [C|C]; congruence). subst n.
      split; [apply plain_remove_main|]. split; [|exact C].
      rewrite stale_remove_main by apply plain_set_main. rewrite stale_set_main by exact A. exact B.
    - split; [apply plain_remove_main|]. split; [rewrite stale_remove_main by exact A; exact B|left; reflexivity]. }
  destruct (exec w faults fl st s); apply G; exact E.
Qed.

(* ------------------------------------------------------------------------------------------ *)
(* user files are untouched: complete runs and runs cut at any step                            *)

Lemma finish_lookup_other : forall s n, n <> mainfile -> lookup (finish s) n = lookup (s_fs s) n.
Proof.
  intros s n H. unfold finish. destruct (s_defer s); [|reflexivity]. apply lookup_remove_other. exact H.
Qed.

Lemma crash_untouched : forall w faults fl k d name, nolink d -> name <> mainfile ->
  lookup (crash_dir w faults fl k d) name = lookup d name.
Proof.
  intros w faults fl k d name Hd Hn. unfold crash_dir.
  assert (I0 : Untouched d (s_fs (init_state d)) (s_fd (init_state d))).
  { cbn. split; [reflexivity|]. split; [left; reflexivity|exact Hd]. }
  destruct (run_stable w faults fl _ (untouched_stable w faults fl d) (firstn k all_steps) _ I0) as (A & _).
  apply A. exact Hn.
Qed.

Lemma invoke_dir_fst : forall w faults fl d,
  fst (invoke_dir w faults fl d) = finish (fst (run w faults fl all_steps (init_state d))).
Proof.
  intros. unfold invoke_dir, invoke_dir_full.
  destruct (run w faults fl all_steps (init_state d)) as [s r]. reflexivity.
Qed.

Lemma invoke_untouched : forall w faults fl d name, nolink d -> name <> mainfile ->
  lookup (fst (invoke_dir w faults fl d)) name = lookup d name.
Proof.
  intros w faults fl d name Hd Hn. rewrite invoke_dir_fst.
  rewrite finish_lookup_other by exact Hn.
  assert (I0 : Untouched d (s_fs (init_state d)) (s_fd (init_state d))).
  { cbn. split; [reflexivity|]. split; [left; reflexivity|exact Hd]. }
  destruct (run_stable w faults fl _ (untouched_stable w faults fl d) all_steps _ I0) as (A & _).
  apply A. exact Hn.
Qed.

(* ------------------------------------------------------------------------------------------ *)
(* a leftover is irrelevant: a run sees the directory only through remove_stale                *)

Lemma invoke_full_stale : forall w faults fl a b, w_fixed w = true ->
  remove_stale a = remove_stale b -> invoke_dir_full w faults fl a = invoke_dir_full w faults fl b.
Proof.
  intros w faults fl a b Hf H. unfold invoke_dir_full, all_steps.
  cbn [run exec]. rewrite Hf. unfold with_fs, init_state. cbn [s_fs s_defer s_reuse s_fd s_gen s_calls].
  rewrite H. reflexivity.
Qed.

Lemma invoke_stale : forall w faults fl a b, w_fixed w = true ->
  remove_stale a = remove_stale b -> invoke_dir w faults fl a = invoke_dir w faults fl b.
Proof. intros. unfold invoke_dir. rewrite (invoke_full_stale w faults fl a b) by assumption. reflexivity. Qed.

Lemma leftover_irrelevant : forall w faults fl d junk, w_fixed w = true -> plain d ->
  invoke_dir_full w faults fl (set mainfile (File junk) d) = invoke_dir_full w faults fl d.
Proof. intros. apply invoke_full_stale; [assumption|]. apply stale_set_main. assumption. Qed.

Lemma crash_uptostale : forall w faults fl k d, plain d ->
  plain (crash_dir w faults fl k d) /\ remove_stale (crash_dir w faults fl k d) = remove_stale d.
Proof.
  intros w faults fl k d Hd. unfold crash_dir.
  assert (I0 : UpToStale d (s_fs (init_state d)) (s_fd (init_state d))).
  { cbn. split; [exact Hd|]. split; [reflexivity|left; reflexivity]. }
  destruct (run_stable w faults fl _ (uptostale_stable w faults fl d) (firstn k all_steps) _ I0) as (A & B & _).
  split; assumption.
Qed.

Lemma crash_then_run : forall w1 f1 fl1 k w2 f2 fl2 d, w_fixed w2 = true -> plain d ->
  invoke_dir_full w2 f2 fl2 (crash_dir w1 f1 fl1 k d) = invoke_dir_full w2 f2 fl2 d.
Proof.
  intros. apply invoke_full_stale; [assumption|]. apply crash_uptostale. assumption.
Qed.

(* ------------------------------------------------------------------------------------------ *)
(* the exact directory after a run                                                             *)

Definition pre_steps : list step :=
  [ListMage; ListNonMage; CheckFiles; HashFiles; GoVersion; GoEnvGocache; StatExe; Parse; GoListDir; GoListFiles; Dupes].
Definition gen_steps : list step := [CreateMain; WriteMain; CloseMain; Chtimes].
Definition post_steps : list step :=
  [RegisterDefer; DbgVersion; DbgEnv; GoBuild; RemoveMain; CompileExit; ExecBinary; TargetOutcome].

Lemma all_steps_split : all_steps = RemoveStale :: pre_steps ++ gen_steps ++ post_steps.
Proof. reflexivity. Qed.

Definition same_core (s s' : state) : Prop :=
  s_fs s' = s_fs s /\ s_defer s' = s_defer s /\ s_fd s' = s_fd s /\ s_gen s' = s_gen s.

Section Exact.
Variable w : world.
Variable faults : step -> bool.
Variable fl : flags.

Lemma pre_quiet : forall st s, In st pre_steps ->
  match exec w faults fl st s with Cont s' => same_core s s' | Exit _ s' => same_core s s' end.
Proof.
  intros st s H.
  assert (Same : same_core s s) by (repeat split).
  unfold pre_steps in H. cbn [In] in H.
  repeat (destruct H as [<-|H]); try contradiction; cbn [exec]; unfold fallible.
  - destruct (faults ListMage || negb (leftover_lists_ok w (s_fs s))); exact Same.
  - destruct (f_mfdir fl); [exact Same|]. destruct (faults ListNonMage); exact Same.
  - destruct (faults CheckFiles); exact Same.
  - destruct (f_compile fl); [exact Same|]. destruct (faults HashFiles); exact Same.
  - destruct (f_compile fl); [exact Same|]. destruct (faults GoVersion); repeat split.
  - destruct (f_hashfast fl); [exact Same|]. destruct (faults GoEnvGocache); repeat split.
  - destruct (negb (f_hashfast fl) && w_gocache w); [exact Same|].
    destruct (w_exe_cached w && negb (f_force fl)); repeat split.
  - destruct (s_reuse s); [exact Same|]. destruct (faults Parse); exact Same.
  - destruct (s_reuse s); [exact Same|]. destruct (w_imports w); [exact Same|].
    destruct (faults GoListDir); repeat split.
  - destruct (s_reuse s); [exact Same|]. destruct (w_imports w) as [|k]; [exact Same|].
    destruct (faults GoListFiles); [repeat split|].
    destruct (calls_fields GList (2 * k) (call GList s)) as (A & B & _ & D & E).
    unfold same_core. rewrite A, B, D, E. repeat split.
  - destruct (s_reuse s); [exact Same|]. destruct (faults Dupes); exact Same.
Qed.

Lemma run_quiet : forall l, (forall st, In st l -> In st pre_steps) ->
  forall s, same_core s (fst (run w faults fl l s)).
Proof.
  induction l as [|st r IH]; intros Hl s; cbn [run]; [repeat split|].
  pose proof (pre_quiet st s (Hl st (or_introl eq_refl))) as Q.
  destruct (exec w faults fl st s) as [s'|c s']; cbn [fst]; [|exact Q].
  assert (Hr : forall x, In x r -> In x pre_steps) by (intros x Hx; apply Hl; right; exact Hx).
  destruct (IH Hr s') as (A & B & C & D). destruct Q as (A' & B' & C' & D').
  unfold same_core. rewrite A, B, C, D. repeat split; assumption.
Qed.

Definition write_ok : Prop :=
  faults WriteMain = false /\ faults CloseMain = false /\ faults Chtimes = false.

(* from the creation of the generated file to the end *)
Lemma run_cons : forall st l s,
  run w faults fl (st :: l) s =
    match exec w faults fl st s with Cont s' => run w faults fl l s' | Exit c s' => (s', Some (st, c)) end.
Proof. reflexivity. Qed.

Ltac stepx E K Dg Cm W1 W2 W3 :=
  rewrite run_cons;
  cbn [exec fallible s_fs s_defer s_reuse s_fd s_gen s_calls with_fs with_defer with_reuse with_fd with_gen call]; unfold fallible, cleanup;
  rewrite ?E, ?K, ?Dg, ?Cm, ?W1, ?W2, ?W3; cbn [orb andb negb];
  try match goal with
      | |- context [f_debug fl] => destruct (f_debug fl); cbn [orb andb negb]
      | |- context [f_compile fl] => destruct (f_compile fl); cbn [orb andb negb]
      end;
  try match goal with |- context [if faults ?x then _ else _] => destruct (faults x) eqn:? end.

(* what the exact-result theorems need: GenerateMainfile cleans up on its error paths (the code
   since 1372a21), or nothing fails between os.Create and the registration of the deferred removal *)
Definition safe : Prop := write_ok \/ w_cleanup w = true.

Lemma tail_run : forall d0 ru cl,
  (lookup d0 mainfile = None \/ exists es, lookup d0 mainfile = Some (Dir es)) -> safe ->
  let s' := fst (run w faults fl (gen_steps ++ post_steps)
                   {| s_fs := d0; s_defer := false; s_reuse := ru; s_fd := None; s_gen := false; s_calls := cl |}) in
  finish s' = (if s_gen s' && f_keep fl then set mainfile (File (w_gen w)) d0 else d0).
Proof.
  intros d0 ru cl E [(W1 & W2 & W3)|W1].
  - unfold gen_steps, post_steps. cbn [app]. cbv zeta.
    pose proof I as Dg; pose proof I as Cm; destruct ru; destruct (f_keep fl) eqn:K;
      (destruct E as [E|[es E]];
       repeat stepx E K Dg Cm W1 W2 W3;
       cbn [run fst finish s_fs s_defer s_reuse s_fd s_gen s_calls with_fs with_defer with_reuse with_fd with_gen call andb];
       rewrite ?remove_set, ?set_set, ?remove_idem; try reflexivity;
       try (apply remove_absent; exact E)).
  - unfold gen_steps, post_steps. cbn [app]. cbv zeta.
    pose proof I as Dg; pose proof I as Cm; pose proof I as W2; pose proof I as W3; destruct ru; destruct (f_keep fl) eqn:K;
      (destruct E as [E|[es E]];
       repeat stepx E K Dg Cm W1 W2 W3;
       cbn [run fst finish s_fs s_defer s_reuse s_fd s_gen s_calls with_fs with_defer with_reuse with_fd with_gen call andb negb];
       rewrite ?K; cbn [andb];
       rewrite ?remove_set, ?set_set, ?remove_idem; try reflexivity;
       try (apply remove_absent; exact E)).
Qed.
End Exact.

Lemma stale_none_or_dir : forall d, nolink d ->
  lookup (remove_stale d) mainfile = None \/ exists es, lookup (remove_stale d) mainfile = Some (Dir es).
Proof.
  intros d H. rewrite stale_lookup_main.
  destruct (lookup d mainfile) as [[b|es|t]|] eqn:E; eauto. exfalso. exact (H t E).
Qed.

(* the directory after a complete run: for every fault assignment (code since 1372a21), or for
   those that spare the three steps between os.Create and the registration of the deferred removal *)
Lemma invoke_exact : forall w faults fl d, w_fixed w = true -> nolink d -> safe w faults ->
  let o := invoke_dir_full w faults fl d in
  o_fs o = if o_generated o && f_keep fl then set mainfile (File (w_gen w)) (remove_stale d) else remove_stale d.
Proof.
  intros w faults fl d Hf Hd W. cbv zeta. unfold invoke_dir_full. rewrite all_steps_split.
  cbn [run exec]. rewrite Hf. unfold with_fs, init_state. cbn [s_fs s_defer s_reuse s_fd s_gen s_calls].
  set (d0 := remove_stale d).
  assert (Hd0 : lookup d0 mainfile = None \/ exists es, lookup d0 mainfile = Some (Dir es))
    by (apply stale_none_or_dir; exact Hd).
  rewrite run_app.
  pose proof (run_quiet w faults fl pre_steps (fun st H => H)
                {| s_fs := d0; s_defer := false; s_reuse := false; s_fd := None; s_gen := false; s_calls := [] |}) as Q.
  destruct (run w faults fl pre_steps _) as [s1 [x|]]; cbn [fst] in Q;
    destruct s1 as [x1 df ru fd g cl]; destruct Q as (A & B & C & D); cbn in A, B, C, D; subst x1 df fd g.
  - destruct x as [st c]. cbn. reflexivity.
  - pose proof (tail_run w faults fl d0 ru cl Hd0 W) as T. cbv zeta in T.
    destruct (run w faults fl (gen_steps ++ post_steps) _) as [s' r]. cbn [fst] in T.
    cbn [o_fs o_generated]. exact T.
Qed.

Lemma invoke_clean : forall w faults fl d, w_fixed w = true -> nolink d -> safe w faults ->
  f_keep fl = false -> fst (invoke_dir w faults fl d) = remove_stale d.
Proof.
  intros w faults fl d Hf Hd W K. unfold invoke_dir. cbn [fst].
  rewrite (invoke_exact w faults fl d Hf Hd W). rewrite K. rewrite Bool.andb_false_r. reflexivity.
Qed.

Lemma invoke_clean_noleftover : forall w faults fl d, w_fixed w = true -> lookup d mainfile = None ->
  safe w faults -> f_keep fl = false -> fst (invoke_dir w faults fl d) = d.
Proof.
  intros w faults fl d Hf Hd W K.
  rewrite invoke_clean; try assumption.
  - unfold remove_stale. rewrite Hd. reflexivity.
  - intros t E. congruence.
Qed.

Lemma invoke_keep : forall w faults fl d, w_fixed w = true -> nolink d -> safe w faults ->
  f_keep fl = true ->
  fst (invoke_dir w faults fl d) =
    if o_generated (invoke_dir_full w faults fl d) then set mainfile (File (w_gen w)) (remove_stale d) else remove_stale d.
Proof.
  intros w faults fl d Hf Hd W K. unfold invoke_dir. cbn [fst].
  rewrite (invoke_exact w faults fl d Hf Hd W). rewrite K. rewrite Bool.andb_true_r. reflexivity.
Qed.

(* ------------------------------------------------------------------------------------------ *)
(* Invoke from its first line (the magefiles directory)                                        *)

Lemma mfd_neq_main : magefilesDir <> mainfile.
Proof. unfold magefilesDir, mainfile. discriminate. Qed.

Lemma stale_set_other : forall d n e, n <> mainfile -> remove_stale (set n e d) = set n e (remove_stale d).
Proof.
  intros d n e H. unfold remove_stale.
  rewrite lookup_set_other by (intro X; apply H; symmetry; exact X).
  destruct (lookup d mainfile) as [[b|es|t]|]; try reflexivity.
  apply remove_set_other. intro X. apply H. symmetry. exact X.
Qed.

Lemma stale_fix : forall d, (forall b, lookup d mainfile <> Some (File b)) -> remove_stale d = d.
Proof.
  intros d H. unfold remove_stale. destruct (lookup d mainfile) as [[b|es|t]|] eqn:E; try reflexivity.
  exfalso. exact (H b eq_refl).
Qed.

(* since 62b109f the stale file in magefiles/ is removed only when magefiles/ is the directory used *)
Definition remove_stale_top (ohf : bool) (d : fs) : fs :=
  let d1 := remove_stale d in
  match lookup d1 magefilesDir with
  | Some (Dir sub) => if ohf then d1 else set magefilesDir (Dir (remove_stale sub)) d1
  | _ => d1
  end.

Lemma invoke_top_leftover : forall w faults fl tn ohf d junk, w_fixed w = true -> plain d ->
  invoke_named w faults fl tn ohf (set mainfile (File junk) d) = invoke_named w faults fl tn ohf d.
Proof.
  intros w faults fl tn ohf d junk Hf Hd. unfold invoke_named, rs. rewrite Hf.
  rewrite stale_set_main by exact Hd. reflexivity.
Qed.

Lemma invoke_top_leftover_sub : forall w faults fl tn d sub junk, w_fixed w = true ->
  lookup d magefilesDir = Some (Dir sub) -> plain sub ->
  invoke_named w faults fl tn false (set magefilesDir (Dir (set mainfile (File junk) sub)) d) = invoke_named w faults fl tn false d.
Proof.
  intros w faults fl tn d sub junk Hf L Hs. unfold invoke_named, rs. rewrite Hf.
  rewrite stale_set_other by exact mfd_neq_main.
  rewrite lookup_set_same.
  rewrite (stale_lookup_other d magefilesDir mfd_neq_main). rewrite L.
  rewrite stale_set_main by exact Hs.
  destruct (invoke_dir w faults (with_mfdir fl true) (remove_stale sub)) as [sub2 c].
  rewrite set_set. reflexivity.
Qed.

(* the directory that is NOT chosen ("." has magefiles of its own): magefiles/ and everything in it,
   a file called mage_output_file.go included, is left exactly as it is *)
Lemma unchosen_magefiles_untouched : forall w faults fl tn d e, nolink d ->
  lookup d magefilesDir = Some e ->
  lookup (fst (invoke_named w faults fl tn true d)) magefilesDir = Some e.
Proof.
  intros w faults fl tn d e Hd L. unfold invoke_named.
  assert (N1 : nolink (rs w d)) by (unfold rs; destruct (w_fixed w); [apply stale_nolink|]; exact Hd).
  assert (L1 : lookup (rs w d) magefilesDir = Some e).
  { unfold rs. destruct (w_fixed w); [rewrite (stale_lookup_other d magefilesDir mfd_neq_main)|]; exact L. }
  rewrite L1.
  destruct e as [b|sub|t]; rewrite (invoke_untouched _ _ _ _ magefilesDir N1 mfd_neq_main); exact L1.
Qed.

Lemma invoke_clean_mf : forall w faults fl b d, w_fixed w = true -> nolink d -> safe w faults ->
  f_keep fl = false -> fst (invoke_dir w faults (with_mfdir fl b) d) = remove_stale d.
Proof. intros. apply invoke_clean; try assumption. Qed.

Lemma invoke_top_clean : forall w faults fl tn ohf d, w_fixed w = true -> safe w faults -> f_keep fl = false ->
  nolink d -> (forall sub, lookup d magefilesDir = Some (Dir sub) -> nolink sub) ->
  fst (invoke_named w faults fl tn ohf d) = remove_stale_top ohf d.
Proof.
  intros w faults fl tn ohf d Hf W K Hd Hsub. unfold invoke_named, remove_stale_top, rs. rewrite Hf.
  pose proof (stale_nolink d Hd) as Hd1.
  rewrite (stale_lookup_other d magefilesDir mfd_neq_main) in *.
  destruct (lookup d magefilesDir) as [[b|sub|t]|] eqn:L;
    try (rewrite invoke_clean_mf by assumption; apply stale_idem).
  pose proof (stale_nolink sub (Hsub sub eq_refl)) as Hs1.
  destruct ohf.
  - rewrite invoke_clean_mf by assumption. apply stale_idem.
  - destruct (invoke_dir w faults (with_mfdir fl true) (remove_stale sub)) as [sub2 c] eqn:R.
    cbn [fst].
    assert (X : sub2 = remove_stale sub).
    { change sub2 with (fst (sub2, c)). rewrite <- R. rewrite invoke_clean_mf by assumption. apply stale_idem. }
    rewrite X. reflexivity.
Qed.

(* ------------------------------------------------------------------------------------------ *)
(* -init                                                                                       *)

Lemma init_existing : forall of wf tpl partial d e, lookup d initFile = Some e ->
  init_cmd of wf tpl partial d = (d, 1).
Proof. intros. unfold init_cmd. rewrite H. reflexivity. Qed.

Lemma init_absent : forall tpl partial d, lookup d initFile = None ->
  init_cmd false false tpl partial d = (set initFile (File tpl) d, 0).
Proof. intros. unfold init_cmd. rewrite H. reflexivity. Qed.

(* whatever fails: every entry that existed is still there, unchanged *)
Lemma init_preserves : forall of wf tpl partial d n e, lookup d n = Some e ->
  lookup (fst (init_cmd of wf tpl partial d)) n = Some e.
Proof.
  intros of wf tpl partial d n e H. unfold init_cmd.
  destruct (lookup d initFile) eqn:L; [exact H|].
  assert (n <> initFile) by (intro X; subst n; congruence).
  destruct of; [exact H|]. destruct wf; cbn [fst]; rewrite lookup_set_other by assumption; exact H.
Qed.

(* and the only name that can appear is magefile.go *)
Lemma init_only_initfile : forall of wf tpl partial d n, n <> initFile ->
  lookup (fst (init_cmd of wf tpl partial d)) n = lookup d n.
Proof.
  intros of wf tpl partial d n H. unfold init_cmd.
  destruct (lookup d initFile); [reflexivity|].
  destruct of; [reflexivity|]. destruct wf; cbn [fst]; apply lookup_set_other; exact H.
Qed.

(* ------------------------------------------------------------------------------------------ *)
(* -clean                                                                                      *)

Lemma clean_entries_dir : forall rmfault es n x, lookup es n = Some (Dir x) ->
  lookup (fst (clean_entries rmfault es)) n = Some (Dir x).
Proof.
  induction es as [|[m e] r IH]; intros n x H; [discriminate|].
  cbn [clean_entries]. cbn [lookup] in H.
  destruct (is_dir e) eqn:De.
  - destruct (clean_entries rmfault r) as [r' ok] eqn:R. cbn [fst lookup].
    destruct (String.eqb n m); [exact H|]. specialize (IH n x H). rewrite ?R in IH. exact IH.
  - destruct (String.eqb n m) eqn:E.
    + injection H as ->. discriminate.
    + destruct (rmfault m); [cbn [fst lookup]; rewrite E; exact H|]. apply IH. exact H.
Qed.

(* nothing that is not there before is there afterwards, and nothing changes its kind or content *)
Lemma clean_entries_sub : forall rmfault es n e, lookup (fst (clean_entries rmfault es)) n = Some e ->
  In (n, e) es.
Proof.
  induction es as [|[m x] r IH]; intros n e H; [discriminate|].
  cbn [clean_entries] in H.
  destruct (is_dir x).
  - destruct (clean_entries rmfault r) as [r' ok] eqn:R. cbn [fst lookup] in H.
    destruct (String.eqb n m) eqn:E.
    + apply String.eqb_eq in E. subst m. injection H as ->. left. reflexivity.
    + right. apply IH. rewrite ?R. exact H.
  - destruct (rmfault m).
    + cbn [fst lookup] in H. destruct (String.eqb n m) eqn:E.
      * apply String.eqb_eq in E. subst m. injection H as ->. left. reflexivity.
      * right. clear IH. induction r as [|[m' x'] r' IH']; [discriminate|]. cbn [lookup] in H.
        destruct (String.eqb n m') eqn:E'.
        -- apply String.eqb_eq in E'. subst m'. injection H as ->. left. reflexivity.
        -- right. apply IH'. exact H.
    + right. apply IH. exact H.
Qed.

Lemma clean_entries_all : forall es,
  clean_entries (fun _ => false) es = (filter (fun p => is_dir (snd p)) es, true).
Proof.
  induction es as [|[m x] r IH]; [reflexivity|].
  cbn [clean_entries filter snd]. destruct (is_dir x); rewrite IH; reflexivity.
Qed.

Lemma in_lookup_some : forall (es : fs) n e, In (n, e) es -> exists e0, lookup es n = Some e0.
Proof.
  induction es as [|[m x] r IH]; intros n e H; [contradiction|].
  cbn [lookup]. destruct (String.eqb n m) eqn:E; [eauto|].
  destruct H as [H|H]; [|eapply IH; exact H].
  injection H as -> ->. rewrite String.eqb_refl in E. discriminate.
Qed.

Lemma nodup_lookup : forall (es : fs) n e, NoDup (map fst es) -> In (n, e) es -> lookup es n = Some e.
Proof.
  induction es as [|[m x] r IH]; intros n e ND H; [contradiction|].
  cbn [map fst] in ND. inversion ND as [|? ? NI ND']; subst.
  cbn [lookup]. destruct H as [H|H].
  - injection H as -> ->. rewrite String.eqb_refl. reflexivity.
  - destruct (String.eqb n m) eqn:E; [|apply IH; assumption].
    apply String.eqb_eq in E. subst m. exfalso. apply NI.
    change n with (fst (n, e)). apply in_map. exact H.
Qed.

(* p names a non-directory entry directly inside the cache directory *)
Definition cache_file (cache : string) (root : fs) (p : list string) : Prop :=
  exists n, p = [cache; n] /\ stat_path root p <> None /\ stat_path root p <> Some NDir.

(* the listing of the cache directory has no name twice *)
Definition wf_cache (cache : string) (root : fs) : Prop :=
  forall es, lookup root cache = Some (Dir es) -> NoDup (map fst es).

Lemma stat_path_cons2 : forall d a b rest,
  stat_path d (a :: b :: rest) = match lookup d a with Some (Dir x) => stat_path x (b :: rest) | _ => None end.
Proof. reflexivity. Qed.

Lemma clean_shallow : forall readfault rmfault cache root p, wf_cache cache root -> ~ cache_file cache root p ->
  stat_path (fst (clean_cmd readfault rmfault cache root)) p = stat_path root p.
Proof.
  intros readfault rmfault cache root p WF H. unfold clean_cmd.
  destruct (lookup root cache) as [[b|es|t]|] eqn:L; try reflexivity.
  destruct readfault; [reflexivity|].
  destruct (clean_entries rmfault es) as [es' ok] eqn:R. cbn [fst].
  assert (ES : es' = fst (clean_entries rmfault es)) by (rewrite R; reflexivity).
  pose proof (WF es L) as ND.
  destruct p as [|a [|b rest]]; [reflexivity| |].
  - cbn [stat_path]. destruct (String.eqb a cache) eqn:E.
    + apply String.eqb_eq in E. subst a. rewrite lookup_set_same, L. reflexivity.
    + apply String.eqb_neq in E. rewrite lookup_set_other by exact E. reflexivity.
  - rewrite !stat_path_cons2. destruct (String.eqb a cache) eqn:E.
    2:{ apply String.eqb_neq in E. rewrite lookup_set_other by exact E. reflexivity. }
    apply String.eqb_eq in E. subst a. rewrite lookup_set_same, L.
    (* what the cleaned listing says about b is what the old one said, or nothing *)
    assert (K : forall e', lookup es' b = Some e' -> lookup es b = Some e').
    { intros e' X. rewrite ES in X. apply clean_entries_sub in X. apply nodup_lookup; assumption. }
    destruct (lookup es b) as [e|] eqn:Lb.
    + destruct (is_dir e) eqn:De.
      * destruct e as [fb|sub|lt]; try discriminate.
        rewrite ES. pose proof (clean_entries_dir rmfault es b sub Lb) as X.
        destruct rest; cbn [stat_path]; rewrite X, Lb; reflexivity.
      * destruct rest as [|c rest'].
        -- exfalso. apply H. exists b. split; [reflexivity|].
           rewrite stat_path_cons2, L. cbn [stat_path]. rewrite Lb.
           destruct e; try discriminate; cbn; split; discriminate.
        -- cbn [stat_path]. rewrite Lb.
           destruct (lookup es' b) as [e'|] eqn:Lb'.
           ++ pose proof (K e' eq_refl) as X. rewrite ?Lb in X. injection X as <-. destruct e; try discriminate; reflexivity.
           ++ destruct e; try discriminate; reflexivity.
    + destruct (lookup es' b) as [e'|] eqn:Lb'; [specialize (K e' eq_refl); rewrite ?Lb in K; discriminate|].
      destruct rest; cbn [stat_path]; rewrite Lb', Lb; reflexivity.
Qed.

(* when nothing fails: exactly the directories stay *)
Lemma clean_complete : forall cache root es, lookup root cache = Some (Dir es) ->
  clean_cmd false (fun _ => false) cache root = (set cache (Dir (filter (fun p => is_dir (snd p)) es)) root, 0).
Proof. intros cache root es L. unfold clean_cmd. rewrite L, clean_entries_all. reflexivity. Qed.

Lemma clean_absent : forall readfault rmfault cache root, lookup root cache = None ->
  clean_cmd readfault rmfault cache root = (root, 0).
Proof. intros. unfold clean_cmd. rewrite H. reflexivity. Qed.

(* ------------------------------------------------------------------------------------------ *)
(* witnesses                                                                                   *)

Definition no_faults : step -> bool := fun _ => false.
Definition only (x : step) : step -> bool := fun st => step_eqb st x.

Definition w_ex (fixed cleanup : bool) : world :=
  {| w_fixed := fixed; w_cleanup := cleanup; w_gen := "GENERATED"; w_partial := "GENER";
     w_lists_ok := fun e => match e with File EmptyString => false | _ => true end;
     w_gocache := true; w_exe_cached := false; w_imports := 1; w_tcode := 7 |}.
Definition fl_ex (keep : bool) : flags :=
  {| f_keep := keep; f_force := false; f_hashfast := false; f_compile := false; f_debug := false; f_mfdir := false |}.
Definition d_ex : fs :=
  [("magefile.go", File "m"); ("helper.go", File "h"); ("data", Dir [("x", File "1")]); ("ln", Link "data")].

(* before commit 1372a21 the full statement of C09_clean was false: a failing write left the
   truncated file behind *)
Lemma clean_before_repair_refuted : exists w faults fl d,
  w_fixed w = true /\ w_cleanup w = false /\ f_keep fl = false /\ lookup d mainfile = None /\
  snd (invoke_dir w faults fl d) = 1 /\
  lookup (fst (invoke_dir w faults fl d)) mainfile = Some (File (w_partial w)).
Proof. exists (w_ex true false), (only WriteMain), (fl_ex false), d_ex. vm_compute. repeat split. Qed.

(* before commit d5ea0c0: an empty leftover makes the next run fail *)
Lemma before_repair_refuted : exists w faults fl d junk,
  w_fixed w = false /\ lookup d mainfile = None /\
  snd (invoke_dir w faults fl (set mainfile (File junk) d)) <> snd (invoke_dir w faults fl d).
Proof. exists (w_ex false true), no_faults, (fl_ex false), d_ex, EmptyString. vm_compute. repeat split. discriminate. Qed.

(* a symbolic link of that name is not "a generated file left behind": os.Create writes through it *)
Lemma symlink_written_through : exists w faults fl d,
  w_fixed w = true /\ lookup d mainfile = Some (Link "helper.go") /\
  lookup (fst (invoke_dir w faults fl d)) "helper.go" = Some (File (w_gen w)) /\
  lookup (fst (invoke_dir w faults fl d)) mainfile = None.
Proof. exists (w_ex true true), no_faults, (fl_ex false), (d_ex ++ [(mainfile, Link "helper.go")]). vm_compute. repeat split. Qed.

Lemma nonvacuous_c09 :
  let d := d_ex in
  let dj := set mainfile (File "pack") d in
  (* success, failing target, failing build, failing go list: the directory is as before; a leftover is removed *)
  invoke_dir (w_ex true true) no_faults (fl_ex false) d = (d, 0) /\
  invoke_dir (w_ex true true) (only TargetOutcome) (fl_ex false) d = (d, 7) /\
  invoke_dir (w_ex true true) (only GoBuild) (fl_ex false) dj = (d, 1) /\
  invoke_dir (w_ex true true) (only GoListFiles) (fl_ex false) dj = (d, 1) /\
  (* the write of the generated file fails (full disk), with and without -keep *)
  invoke_dir (w_ex true true) (only WriteMain) (fl_ex false) dj = (d, 1) /\
  invoke_dir (w_ex true true) (only Chtimes) (fl_ex true) d = (d, 1) /\
  (* -keep *)
  invoke_dir (w_ex true true) no_faults (fl_ex true) dj = (set mainfile (File "GENERATED") d, 0) /\
  invoke_dir (w_ex true true) (only Parse) (fl_ex true) dj = (d, 1) /\
  (* killed while go build runs, then a normal run *)
  crash_dir (w_ex true true) no_faults (fl_ex false) 19 d = set mainfile (File "GENERATED") d /\
  invoke_dir (w_ex true true) no_faults (fl_ex false) (crash_dir (w_ex true true) no_faults (fl_ex false) 19 d) = (d, 0) /\
  (* killed between os.Create and the first write *)
  crash_dir (w_ex true true) no_faults (fl_ex false) 13 d = set mainfile (File "") d /\
  (* the go commands of a normal run *)
  o_calls (invoke_dir_full (w_ex true true) no_faults (fl_ex false) d) = [GVersion; GEnvGocache; GList; GList; GBuild] /\
  (* -init and -clean *)
  init_cmd false false "tpl" "t" d = (d, 1) /\
  init_cmd false false "tpl" "t" [("a", File "1")] = ([("a", File "1"); (initFile, File "tpl")], 0) /\
  clean_cmd false (fun _ => false) "cache"
    [("keep", File "k"); ("cache", Dir [("bin1", File "b"); ("sub", Dir [("y", File "2")]); ("l", Link "sub")])]
  = ([("keep", File "k"); ("cache", Dir [("sub", Dir [("y", File "2")])])], 0).
Proof. vm_compute. repeat split. Qed.

(* ------------------------------------------------------------------------------------------ *)
(* the statements of Props/C09.v, arguments in the order used there                            *)

Lemma p_clean : forall w faults fl, w_fixed w = true -> w_cleanup w = true ->
  forall d, f_keep fl = false -> nolink d -> fst (invoke_dir w faults fl d) = remove_stale d.
Proof. intros. apply invoke_clean; try assumption. right. assumption. Qed.

Lemma p_clean_noleftover : forall w faults fl, w_fixed w = true -> w_cleanup w = true ->
  forall d, f_keep fl = false -> lookup d mainfile = None -> fst (invoke_dir w faults fl d) = d.
Proof. intros. apply invoke_clean_noleftover; try assumption. right. assumption. Qed.

(* the code before 1372a21 (any w_cleanup): only when write, close and chtimes do not fail *)
Lemma p_clean_old_partial : forall w faults fl, w_fixed w = true -> forall d, f_keep fl = false -> nolink d -> write_ok faults ->
  fst (invoke_dir w faults fl d) = remove_stale d.
Proof. intros. apply invoke_clean; try assumption. left. assumption. Qed.

Lemma p_keep : forall w faults fl, w_fixed w = true -> w_cleanup w = true -> forall d, f_keep fl = true -> nolink d ->
  fst (invoke_dir w faults fl d) =
    if o_generated (invoke_dir_full w faults fl d)
    then set mainfile (File (w_gen w)) (remove_stale d) else remove_stale d.
Proof. intros. apply invoke_keep; try assumption. right. assumption. Qed.

Lemma p_leftover : forall w faults fl, w_fixed w = true -> forall d junk, plain d ->
  invoke_dir_full w faults fl (set mainfile (File junk) d) = invoke_dir_full w faults fl d.
Proof. intros. apply leftover_irrelevant; assumption. Qed.

Lemma p_crash_then_run : forall w faults fl, w_fixed w = true -> forall w1 f1 fl1 k d, plain d ->
  invoke_dir_full w faults fl (crash_dir w1 f1 fl1 k d) = invoke_dir_full w faults fl d.
Proof. intros. apply crash_then_run; assumption. Qed.

Lemma p_leftover_top : forall w faults fl, w_fixed w = true -> forall tn ohf d junk, plain d ->
  invoke_named w faults fl tn ohf (set mainfile (File junk) d) = invoke_named w faults fl tn ohf d.
Proof. intros. apply invoke_top_leftover; assumption. Qed.

Lemma p_leftover_sub : forall w faults fl, w_fixed w = true -> forall tn d sub junk,
  lookup d magefilesDir = Some (Dir sub) -> plain sub ->
  invoke_named w faults fl tn false (set magefilesDir (Dir (set mainfile (File junk) sub)) d) = invoke_named w faults fl tn false d.
Proof. intros. apply invoke_top_leftover_sub; assumption. Qed.

Lemma p_clean_top : forall w faults fl, w_fixed w = true -> w_cleanup w = true -> forall tn ohf d, f_keep fl = false ->
  nolink d -> (forall sub, lookup d magefilesDir = Some (Dir sub) -> nolink sub) ->
  fst (invoke_named w faults fl tn ohf d) = remove_stale_top ohf d.
Proof. intros. apply invoke_top_clean; try assumption. right. assumption. Qed.

Lemma p_init_only_creates : forall open_fault write_fault tpl partial d,
  (forall n e, lookup d n = Some e -> lookup (fst (init_cmd open_fault write_fault tpl partial d)) n = Some e) /\
  (forall n, n <> initFile -> lookup (fst (init_cmd open_fault write_fault tpl partial d)) n = lookup d n).
Proof. intros. split; [intros n e; apply init_preserves|intros n; apply init_only_initfile]. Qed.

(* in a directory called magefiles (mage -d magefiles) and in the magefiles/ sub-directory the
   "files without the mage tag" listing pass does not exist: a fault assigned to it changes nothing *)
Lemma listnonmage_absent : forall w faults faults' fl d, f_mfdir fl = true ->
  (forall st, st <> ListNonMage -> faults' st = faults st) ->
  invoke_dir_full w faults' fl d = invoke_dir_full w faults fl d.
Proof.
  intros w faults faults' fl d M H.
  assert (X : forall st s, exec w faults' fl st s = exec w faults fl st s).
  { intros st s. destruct st; cbn [exec]; unfold fallible, cleanup;
      rewrite ?M; try reflexivity;
      repeat match goal with |- context [faults' ?x] => rewrite (H x) by discriminate end; reflexivity. }
  assert (R : forall l s, run w faults' fl l s = run w faults fl l s).
  { induction l as [|st r IH]; intros s; cbn [run]; [reflexivity|]. rewrite X.
    destruct (exec w faults fl st s); [apply IH|reflexivity]. }
  unfold invoke_dir_full. rewrite R. reflexivity.
Qed.

Lemma invoke_is_named : forall w faults fl ohf d, invoke w faults fl ohf d = invoke_named w faults fl false ohf d.
Proof. reflexivity. Qed.

Lemma invoke_named_top : forall w faults fl tn ohf d, (forall sub, lookup (rs w d) magefilesDir <> Some (Dir sub)) ->
  invoke_named w faults fl tn ohf d = invoke_dir w faults (with_mfdir fl tn) (rs w d).
Proof.
  intros w faults fl tn ohf d H. unfold invoke_named.
  destruct (lookup (rs w d) magefilesDir) as [[b|sub|t]|] eqn:E; try reflexivity. exfalso. exact (H sub eq_refl).
Qed.

(* ------------------------------------------------------------------------------------------ *)
(* -compile <out>                                                                              *)

Lemma run_exit_step : forall w faults fl l s s' st c, run w faults fl l s = (s', Some (st, c)) ->
  exists s0, exec w faults fl st s0 = Exit c s'.
Proof.
  induction l as [|x r IH]; intros s s' st c H; cbn [run] in H; [discriminate|].
  destruct (exec w faults fl x s) as [s1|c1 s1] eqn:E.
  - eapply IH. exact H.
  - injection H as <- <- <-. exists s. exact E.
Qed.

Lemma compiled_exit0 : forall w faults fl d, compiled fl (invoke_dir_full w faults fl d) = true ->
  o_exit (invoke_dir_full w faults fl d) = 0.
Proof.
  intros w faults fl d H. unfold compiled, invoke_dir_full in *.
  destruct (run w faults fl all_steps (init_state d)) as [s r] eqn:R. cbn [o_at o_exit] in *.
  destruct r as [[st c]|]; [|rewrite Bool.andb_false_r in H; discriminate].
  destruct st; try (rewrite Bool.andb_false_r in H; discriminate).
  destruct (run_exit_step w faults fl all_steps _ _ _ _ R) as [s0 E]. cbn [exec] in E.
  destruct (negb (s_reuse s0) && f_compile fl); [injection E as <- _; reflexivity|discriminate].
Qed.

(* whatever fails: when the run does not get to the `return 0` after the build, nothing that
   existed changes - the entry at the output path included; when it does, exactly that entry is
   (re)written and the exit status is 0 *)
Lemma compile_exact : forall w faults fl out bin inner d,
  w_fixed w = true -> w_cleanup w = true -> f_keep fl = false -> nolink d -> out <> mainfile ->
  invoke_compile w faults fl out bin inner d =
    if compiled fl (invoke_dir_full w faults fl d)
    then (set out (install bin inner (lookup d out)) (remove_stale d), 0)
    else (remove_stale d, snd (invoke_dir w faults fl d)).
Proof.
  intros w faults fl out bin inner d Hf Hc K Hd Ho. unfold invoke_compile, output_after.
  pose proof (p_clean w faults fl Hf Hc d K Hd) as C. unfold invoke_dir in C. cbn [fst] in C.
  destruct (compiled fl (invoke_dir_full w faults fl d)) eqn:W.
  - rewrite (compiled_exit0 w faults fl d W), C.
    rewrite (stale_lookup_other d out Ho). reflexivity.
  - rewrite C. destruct (lookup (remove_stale d) out); reflexivity.
Qed.

Lemma compile_failure_changes_nothing : forall w faults fl out bin inner d,
  w_fixed w = true -> w_cleanup w = true -> f_keep fl = false -> lookup d mainfile = None -> out <> mainfile ->
  compiled fl (invoke_dir_full w faults fl d) = false ->
  fst (invoke_compile w faults fl out bin inner d) = d.
Proof.
  intros w faults fl out bin inner d Hf Hc K Hd Ho W.
  rewrite compile_exact; try assumption; [|intros t E; congruence].
  rewrite W. cbn [fst]. unfold remove_stale. rewrite Hd. reflexivity.
Qed.

Lemma compile_other_entries : forall w faults fl out bin inner d n,
  w_fixed w = true -> w_cleanup w = true -> f_keep fl = false -> nolink d -> out <> mainfile ->
  n <> out -> n <> mainfile ->
  lookup (fst (invoke_compile w faults fl out bin inner d)) n = lookup d n.
Proof.
  intros w faults fl out bin inner d n Hf Hc K Hd Ho N1 N2.
  rewrite compile_exact by assumption.
  destruct (compiled fl (invoke_dir_full w faults fl d)); cbn [fst];
    rewrite ?lookup_set_other by exact N1; apply stale_lookup_other; exact N2.
Qed.

Lemma output_elsewhere : forall fl o bin inner e, compiled fl o = false -> output_after fl o bin inner e = e.
Proof. intros. unfold output_after. rewrite H. reflexivity. Qed.

Lemma p_compile_exact : forall w faults fl, w_fixed w = true -> w_cleanup w = true -> forall out bin inner d,
  f_keep fl = false -> nolink d -> out <> mainfile ->
  invoke_compile w faults fl out bin inner d =
    if compiled fl (invoke_dir_full w faults fl d)
    then (set out (install bin inner (lookup d out)) (remove_stale d), 0)
    else (remove_stale d, snd (invoke_dir w faults fl d)).
Proof. intros. apply compile_exact; assumption. Qed.

Lemma p_compile_failure : forall w faults fl, w_fixed w = true -> w_cleanup w = true -> forall out bin inner d,
  f_keep fl = false -> lookup d mainfile = None -> out <> mainfile ->
  compiled fl (invoke_dir_full w faults fl d) = false ->
  fst (invoke_compile w faults fl out bin inner d) = d.
Proof. intros. apply compile_failure_changes_nothing; assumption. Qed.

Lemma p_compile_others : forall w faults fl, w_fixed w = true -> w_cleanup w = true -> forall out bin inner d n,
  f_keep fl = false -> nolink d -> out <> mainfile -> n <> out -> n <> mainfile ->
  lookup (fst (invoke_compile w faults fl out bin inner d)) n = lookup d n.
Proof. intros. apply compile_other_entries; assumption. Qed.

(* before commit 62b109f a leftover in the magefiles/ directory that is NOT used was removed all the same *)
Lemma before_62b109f_refuted : exists w faults fl d sub,
  lookup d magefilesDir = Some (Dir sub) /\ lookup sub mainfile = Some (File "in use by another mage") /\
  lookup (fst (invoke_named w faults fl false true d)) magefilesDir = Some (Dir sub) /\
  lookup (fst (invoke_named_before_62b109f w faults fl false true d)) magefilesDir <> Some (Dir sub).
Proof.
  exists (w_ex true true), no_faults, (fl_ex false),
         (d_ex ++ [(magefilesDir, Dir [("tasks.go", File "t"); (mainfile, File "in use by another mage")])]),
         [("tasks.go", File "t"); (mainfile, File "in use by another mage")].
  vm_compute. repeat split. discriminate.
Qed.
