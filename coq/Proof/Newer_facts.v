(* Proofs for C17 (Props/C17.v): the model of target.Path/Glob/Dir and the *Newer functions
   in Model/Newer.v.  Every lemma that Props/C17.v closes with [exact] is proved here, stated
   at top level with the world parameters (root, env, globf) as leading arguments. *)
From Mage Require Import Base.Strs Base.Expand Model.Newer.
From Coq Require Export Permutation.

(* ---------------------------------------------------------------------------------------- *)
(* auxiliary facts                                                                            *)

(* the nested fix in [nodes] is a flat_map over the entries *)
Lemma nodes_Dir : forall m es, nodes (Dir m es) = m :: flat_map (fun e => nodes (snd e)) es.
Proof.
  intros m es. cbn [nodes]. f_equal.
  induction es as [|[n c] r IH]; [reflexivity|].
  cbn [flat_map snd]. rewrite <- IH. reflexivity.
Qed.

Lemma nodes_nonempty : forall t, exists m r, nodes t = m :: r.
Proof.
  intros [m|m es]; [exists m, []; reflexivity|].
  rewrite nodes_Dir. eauto.
Qed.

(* same definitions as the section-local ones of Props/C17.v, with the world made explicit *)
Definition AllFound (root : tree) (env : list (string * string)) (srcs : list string) : Prop :=
  forall s, In s srcs -> exists t, statx root env s = Found t.

Definition GlobsOk (root : tree) (env : list (string * string)) (globf : string -> option (list string))
  (globs : list string) : Prop :=
  forall g, In g globs -> exists fs, globf g = Some fs /\ fs <> [] /\ AllFound root env fs.

Lemma AllFound_tail : forall root env s r, AllFound root env (s :: r) -> AllFound root env r.
Proof. intros root env s r H x Hx. apply H. right. exact Hx. Qed.

Lemma ans_eq : forall x y : ans, x <> Error -> y <> Error -> (x = Yes <-> y = Yes) -> x = y.
Proof.
  intros x y Hx Hy [H1 H2].
  destruct x, y; try congruence;
    try (specialize (H1 eq_refl); discriminate);
    try (specialize (H2 eq_refl); discriminate).
Qed.

(* the folds of the two scans are max and min *)
Lemma fold_max_eq : forall l a,
  fold_left (fun acc m => if after m acc then m else acc) l a = fold_left Z.max l a.
Proof.
  induction l as [|x l IH]; intros a; [reflexivity|].
  cbn [fold_left]. rewrite IH. f_equal.
  unfold after. destruct (Z.ltb_spec a x); lia.
Qed.

Lemma fold_min_eq : forall l a,
  fold_left (fun acc m => if before m acc then m else acc) l a = fold_left Z.min l a.
Proof.
  induction l as [|x l IH]; intros a; [reflexivity|].
  cbn [fold_left]. rewrite IH. f_equal.
  unfold before. destruct (Z.ltb_spec x a); lia.
Qed.

Lemma fold_max_spec : forall l a,
  (a <= fold_left Z.max l a)%Z /\
  (forall m, In m l -> (m <= fold_left Z.max l a)%Z) /\
  (fold_left Z.max l a = a \/ In (fold_left Z.max l a) l).
Proof.
  induction l as [|x l IH]; intros a.
  - cbn [fold_left]. split; [lia|]. split; [intros m []|left; reflexivity].
  - cbn [fold_left]. destruct (IH (Z.max a x)) as (Hle & Hall & Hin).
    split; [lia|]. split.
    + intros m [<-|Hm]; [lia|apply Hall; exact Hm].
    + destruct Hin as [Heq|Hin].
      * rewrite Heq. destruct (Z.max_spec a x) as [[_ E]|[_ E]]; rewrite E.
        -- right. left. reflexivity.
        -- left. reflexivity.
      * right. right. exact Hin.
Qed.

(* ---------------------------------------------------------------------------------------- *)
(* the *Newer functions                                                                      *)

Lemma pathNewer_spec : forall root env target srcs, AllFound root env srcs ->
  (pathNewer root env target srcs = Yes <->
     exists s t, In s srcs /\ statx root env s = Found t /\ (target < mtime_of t)%Z) /\
  (pathNewer root env target srcs <> Error).
Proof.
  intros root env target srcs; induction srcs as [|s r IH]; intros H.
  - cbn [pathNewer]. split; [|discriminate].
    split; [discriminate|]. intros (s & t & [] & _).
  - cbn [pathNewer]. destruct (H s (or_introl eq_refl)) as [t Ht]. rewrite Ht.
    unfold after. destruct (Z.ltb_spec target (mtime_of t)) as [Hlt|Hge].
    + split; [|discriminate]. split; [|reflexivity].
      intros _. exists s, t. split; [left; reflexivity|]. split; assumption.
    + destruct (IH (AllFound_tail _ _ _ _ H)) as [IH1 IH2].
      split; [|exact IH2]. rewrite IH1. split.
      * intros (x & tx & Hin & Hs & Hlt). exists x, tx. split; [right; exact Hin|]. split; assumption.
      * intros (x & tx & [Heq|Hin] & Hs & Hlt).
        -- subst x. rewrite Ht in Hs. injection Hs as <-. lia.
        -- exists x, tx. split; [exact Hin|]. split; assumption.
Qed.

Lemma walkNewer_true : forall target t,
  walkNewer target t = true <-> exists m, In m (nodes t) /\ (target < m)%Z.
Proof.
  intros target t. unfold walkNewer. rewrite existsb_exists. unfold after.
  split; intros (m & Hin & Hm); exists m; (split; [exact Hin|]).
  - apply Z.ltb_lt. exact Hm.
  - apply Z.ltb_lt. exact Hm.
Qed.

Lemma dirNewer_spec : forall root env target srcs, AllFound root env srcs ->
  (dirNewer root env target srcs = Yes <->
     exists s t m, In s srcs /\ statx root env s = Found t /\ In m (nodes t) /\ (target < m)%Z) /\
  (dirNewer root env target srcs <> Error).
Proof.
  intros root env target srcs; induction srcs as [|s r IH]; intros H.
  - cbn [dirNewer]. split; [|discriminate].
    split; [discriminate|]. intros (s & t & m & [] & _).
  - cbn [dirNewer]. destruct (H s (or_introl eq_refl)) as [t Ht]. rewrite Ht.
    destruct (walkNewer target t) eqn:W.
    + split; [|discriminate]. split; [|reflexivity].
      intros _. apply walkNewer_true in W. destruct W as (m & Hin & Hm).
      exists s, t, m. split; [left; reflexivity|]. repeat split; assumption.
    + destruct (IH (AllFound_tail _ _ _ _ H)) as [IH1 IH2].
      split; [|exact IH2]. rewrite IH1. split.
      * intros (x & tx & m & Hin & Hs & Hm & Hlt). exists x, tx, m.
        split; [right; exact Hin|]. repeat split; assumption.
      * intros (x & tx & m & [Heq|Hin] & Hs & Hm & Hlt).
        -- subst x. rewrite Ht in Hs. injection Hs as <-.
           assert (W' : walkNewer target t = true) by (apply walkNewer_true; exists m; split; assumption).
           rewrite W in W'. discriminate.
        -- exists x, tx, m. split; [exact Hin|]. repeat split; assumption.
Qed.

Lemma globNewer_spec : forall root env globf target globs, GlobsOk root env globf globs ->
  (globNewer root env globf target globs = Yes <->
     exists g fs f t, In g globs /\ globf g = Some fs /\ In f fs /\ statx root env f = Found t /\
                      (target < mtime_of t)%Z) /\
  (globNewer root env globf target globs <> Error).
Proof.
  intros root env globf target globs; induction globs as [|g r IH]; intros H.
  - cbn [globNewer]. split; [|discriminate].
    split; [discriminate|]. intros (g & fs & f & t & [] & _).
  - destruct (H g (or_introl eq_refl)) as (fs & Hg & Hne & Hfs).
    assert (E : globNewer root env globf target (g :: r) =
                match pathNewer root env target fs with
                | Error => Error | Yes => Yes | No => globNewer root env globf target r end).
    { cbn [globNewer]. rewrite Hg. destruct fs as [|f fs']; [congruence|]. reflexivity. }
    rewrite E. clear E.
    destruct (pathNewer_spec root env target fs Hfs) as [P1 P2].
    destruct (pathNewer root env target fs) eqn:P.
    + split; [|discriminate]. split; [|reflexivity].
      intros _. destruct (proj1 P1 eq_refl) as (f & t & Hin & Hs & Hlt).
      exists g, fs, f, t. split; [left; reflexivity|]. repeat split; assumption.
    + assert (H' : GlobsOk root env globf r) by (intros x Hx; apply H; right; exact Hx).
      destruct (IH H') as [IH1 IH2].
      split; [|exact IH2]. rewrite IH1. split.
      * intros (x & fx & f & t & Hin & Hx & Hf & Hs & Hlt). exists x, fx, f, t.
        split; [right; exact Hin|]. repeat split; assumption.
      * intros (x & fx & f & t & [Heq|Hin] & Hx & Hf & Hs & Hlt).
        -- subst x. rewrite Hg in Hx. injection Hx as <-.
           assert (Y : No = Yes) by (apply P1; exists f, t; repeat split; assumption).
           discriminate.
        -- exists x, fx, f, t. split; [exact Hin|]. repeat split; assumption.
    + exfalso. apply P2. reflexivity.
Qed.

(* ---------------------------------------------------------------------------------------- *)
(* Path / Glob / Dir                                                                         *)

Lemma missing_destination : forall root env globf dst srcs, statx root env dst = Missing ->
  path_ root env dst srcs = Yes /\ glob_ root env globf dst srcs = Yes /\ dir_ root env dst srcs = Yes.
Proof.
  intros root env globf dst srcs H. unfold path_, glob_, dir_. rewrite H.
  split; [reflexivity|]. split; reflexivity.
Qed.

Lemma path_unfold : forall root env globf dst d srcs, statx root env dst = Found d ->
  path_ root env dst srcs = pathNewer root env (mtime_of d) srcs /\
  glob_ root env globf dst srcs = globNewer root env globf (mtime_of d) srcs.
Proof.
  intros root env globf dst d srcs H. unfold path_, glob_. rewrite H.
  split; reflexivity.
Qed.

Lemma newest_single : forall root s t a, stat root s = Found t ->
  newest root a [s] = (fold_left (fun acc m => if after m acc then m else acc) (nodes t) a, false).
Proof. intros root s t a H. cbn [newest]. rewrite H. reflexivity. Qed.

Lemma dir_unfold : forall root env dst d srcs, statx root env dst = Found d ->
  dir_ root env dst srcs = dirNewer root env (dest_time d) srcs.
Proof.
  intros root env dst d srcs H. unfold dir_. rewrite H.
  destruct d as [m|m es]; [reflexivity|].
  unfold statx in H. rewrite (newest_single root _ _ zero_time H).
  reflexivity.
Qed.

Lemma dest_time_max : forall d, (forall m, In m (nodes d) -> (zero_time < m)%Z) ->
  In (dest_time d) (nodes d) /\ forall m, In m (nodes d) -> (m <= dest_time d)%Z.
Proof.
  intros d H. destruct d as [m|m es].
  - cbn [dest_time nodes]. split; [left; reflexivity|].
    intros m' [<-|[]]. lia.
  - assert (E : dest_time (Dir m es) = fold_left Z.max (nodes (Dir m es)) zero_time).
    { unfold dest_time. apply fold_max_eq. }
    rewrite E. clear E.
    assert (Hm : In m (nodes (Dir m es))) by (rewrite nodes_Dir; left; reflexivity).
    destruct (fold_max_spec (nodes (Dir m es)) zero_time) as (Hle & Hall & Hin).
    split; [|exact Hall].
    destruct Hin as [Heq|Hin]; [|exact Hin].
    exfalso. pose proof (Hall m Hm) as H1. pose proof (H m Hm) as H2.
    rewrite Heq in H1. lia.
Qed.

(* ---------------------------------------------------------------------------------------- *)
(* missing sources, order, strictness                                                        *)

Lemma missing_source : forall root env target pre s post,
  AllFound root env pre -> (forall t, statx root env s <> Found t) ->
  pathNewer root env target (pre ++ s :: post) =
    (if existsb (fun x => match statx root env x with
                          | Found t => Z.ltb target (mtime_of t) | _ => false end) pre
     then Yes else Error).
Proof.
  intros root env target pre s post; induction pre as [|a pre IH]; intros H Hs.
  - cbn [app pathNewer existsb].
    destruct (statx root env s) as [t| |] eqn:E; [|reflexivity|reflexivity].
    exfalso. exact (Hs t eq_refl).
  - cbn [app pathNewer existsb].
    destruct (H a (or_introl eq_refl)) as [t Ht]. rewrite Ht.
    unfold after. destruct (Z.ltb target (mtime_of t)); cbn [orb]; [reflexivity|].
    apply IH; [exact (AllFound_tail _ _ _ _ H)|exact Hs].
Qed.

Lemma order_irrelevant : forall root env target a b, AllFound root env a -> Permutation a b ->
  pathNewer root env target a = pathNewer root env target b /\
  dirNewer root env target a = dirNewer root env target b.
Proof.
  intros root env target a b Ha P.
  assert (Hb : AllFound root env b).
  { intros s Hs. apply Ha. exact (Permutation_in s (Permutation_sym P) Hs). }
  split.
  - destruct (pathNewer_spec root env target a Ha) as [A1 A2].
    destruct (pathNewer_spec root env target b Hb) as [B1 B2].
    apply ans_eq; [exact A2|exact B2|].
    rewrite A1, B1. split; intros (s & t & Hin & R); exists s, t; (split; [|exact R]).
    + exact (Permutation_in s P Hin).
    + exact (Permutation_in s (Permutation_sym P) Hin).
  - destruct (dirNewer_spec root env target a Ha) as [A1 A2].
    destruct (dirNewer_spec root env target b Hb) as [B1 B2].
    apply ans_eq; [exact A2|exact B2|].
    rewrite A1, B1. split; intros (s & t & m & Hin & R); exists s, t, m; (split; [|exact R]).
    + exact (Permutation_in s P Hin).
    + exact (Permutation_in s (Permutation_sym P) Hin).
Qed.

Lemma strict : forall root env s t, statx root env s = Found t ->
  pathNewer root env (mtime_of t) [s] = No /\ pathNewer root env (mtime_of t - 1) [s] = Yes.
Proof.
  intros root env s t H. cbn [pathNewer]. rewrite H. unfold after. split.
  - rewrite Z.ltb_irrefl. reflexivity.
  - destruct (Z.ltb_spec (mtime_of t - 1) (mtime_of t)); [reflexivity|lia].
Qed.

(* ---------------------------------------------------------------------------------------- *)
(* the scans                                                                                 *)

Lemma newest_spec : forall root targets ts,
  Forall2 (fun s t => stat root s = Found t) targets ts ->
  forall a, newest root a targets = (fold_left Z.max (flat_map nodes ts) a, false).
Proof.
  intros root targets ts F; induction F as [|s t targets ts Hs F IH]; intros a.
  - reflexivity.
  - cbn [newest flat_map]. rewrite Hs. rewrite fold_left_app, fold_max_eq. apply IH.
Qed.

Lemma oldest_spec : forall root targets ts,
  Forall2 (fun s t => stat root s = Found t) targets ts ->
  forall a, oldest root a targets = (fold_left Z.min (flat_map nodes ts) a, false).
Proof.
  intros root targets ts F; induction F as [|s t targets ts Hs F IH]; intros a.
  - reflexivity.
  - cbn [oldest flat_map]. rewrite Hs. rewrite fold_left_app, fold_min_eq. apply IH.
Qed.

Lemma scans : forall root targets ts seed,
  Forall2 (fun s t => stat root s = Found t) targets ts ->
  let all := flat_map nodes ts in
  newestModTime root targets = (fold_left Z.max all zero_time, false) /\
  oldestModTime root seed targets = (fold_left Z.min all seed, false).
Proof.
  intros root targets ts seed F all. subst all.
  unfold newestModTime, oldestModTime. split.
  - apply newest_spec. exact F.
  - apply oldest_spec. exact F.
Qed.

(* ---------------------------------------------------------------------------------------- *)
(* non-vacuity                                                                               *)

Lemma nonvacuous_c17 :
  let root := Dir 5 [("a", File 7); ("d", Dir 3 [("x", File 9)]); ("out", File 7)] in
  path_ root [] "out" ["a"] = No /\ dir_ root [] "out" ["d"] = Yes /\ path_ root [] "out" ["d"] = No /\
  path_ root [] "nope" ["a"] = Yes /\ path_ root [] "out" ["nope"; "d/x"] = Error /\
  path_ root [] "out" ["d/x"; "nope"] = Yes /\
  path_ root [("V", "d")] "out" ["$V/x"] = Yes.
Proof. vm_compute. repeat split; reflexivity. Qed.
