(* Further facts about package target (C17): the missing-source / no-match clauses for Dir and
   Glob, order independence for Glob, and agreement of the three entry points on plain files. *)
From Mage Require Import Base.Strs Base.Expand Model.Newer Proof.Newer_facts.

Lemma missing_source_dir : forall root env target pre s post,
  AllFound root env pre -> (forall t, statx root env s <> Found t) ->
  dirNewer root env target (pre ++ s :: post) =
    (if existsb (fun x => match statx root env x with
                          | Found t => walkNewer target t | _ => false end) pre
     then Yes else Error).
Proof.
  intros root env target pre s post; induction pre as [|a pre IH]; intros H Hs.
  - cbn [app dirNewer existsb].
    destruct (statx root env s) as [t| |] eqn:E; [|reflexivity|reflexivity].
    exfalso. exact (Hs t eq_refl).
  - cbn [app dirNewer existsb].
    destruct (H a (or_introl eq_refl)) as [t Ht]. rewrite Ht.
    destruct (walkNewer target t); cbn [orb]; [reflexivity|].
    apply IH; [exact (AllFound_tail _ _ _ _ H)|exact Hs].
Qed.

(* one step of GlobNewer on a pattern with matches *)
Lemma globNewer_cons : forall root env globf target g r fs,
  globf g = Some fs -> fs <> [] ->
  globNewer root env globf target (g :: r) =
    match pathNewer root env target fs with
    | Error => Error | Yes => Yes | No => globNewer root env globf target r end.
Proof.
  intros root env globf target g r fs Hg Hne. cbn [globNewer]. rewrite Hg.
  destruct fs as [|f fs']; [congruence|reflexivity].
Qed.

(* some match of some pattern of [globs] is strictly later than the target *)
Definition glob_stale root env (globf : string -> option (list string)) target (globs : list string) : bool :=
  existsb (fun g => match globf g with
                    | Some fs => existsb (fun f => match statx root env f with
                                                   | Found t => Z.ltb target (mtime_of t) | _ => false end) fs
                    | None => false end) globs.

Lemma pathNewer_existsb : forall root env target fs, AllFound root env fs ->
  pathNewer root env target fs =
    if existsb (fun f => match statx root env f with Found t => Z.ltb target (mtime_of t) | _ => false end) fs
    then Yes else No.
Proof.
  intros root env target fs; induction fs as [|f r IH]; intros H; [reflexivity|].
  cbn [pathNewer existsb]. destruct (H f (or_introl eq_refl)) as [t Ht]. rewrite Ht.
  unfold after. destruct (Z.ltb target (mtime_of t)); cbn [orb]; [reflexivity|].
  apply IH. exact (AllFound_tail _ _ _ _ H).
Qed.

(* a pattern without matches (or a malformed one) yields an error unless an earlier pattern
   already proved the destination stale *)
Lemma glob_no_match : forall root env globf target pre g post,
  GlobsOk root env globf pre -> (globf g = None \/ globf g = Some []) ->
  globNewer root env globf target (pre ++ g :: post) =
    (if glob_stale root env globf target pre then Yes else Error).
Proof.
  intros root env globf target pre g post; induction pre as [|a pre IH]; intros H Hg.
  - cbn [app globNewer glob_stale existsb]. destruct Hg as [-> | ->]; reflexivity.
  - destruct (H a (or_introl eq_refl)) as (fs & Ha & Hne & Hfs).
    cbn [app]. rewrite (globNewer_cons root env globf target a (pre ++ g :: post) fs Ha Hne).
    unfold glob_stale. cbn [existsb]. rewrite Ha.
    rewrite (pathNewer_existsb root env target fs Hfs).
    destruct (existsb _ fs); cbn [orb]; [reflexivity|].
    apply IH; [intros x Hx; apply H; right; exact Hx|exact Hg].
Qed.

Lemma GlobsOk_perm : forall root env globf a b, GlobsOk root env globf a -> Permutation a b -> GlobsOk root env globf b.
Proof. intros root env globf a b H P g Hg. apply H. exact (Permutation_in g (Permutation_sym P) Hg). Qed.

Lemma order_irrelevant_glob : forall root env globf target a b,
  GlobsOk root env globf a -> Permutation a b ->
  globNewer root env globf target a = globNewer root env globf target b.
Proof.
  intros root env globf target a b Ha P.
  pose proof (GlobsOk_perm _ _ _ _ _ Ha P) as Hb.
  destruct (globNewer_spec root env globf target a Ha) as [A1 A2].
  destruct (globNewer_spec root env globf target b Hb) as [B1 B2].
  apply ans_eq; [exact A2|exact B2|].
  rewrite A1, B1. split; intros (g & fs & f & t & Hin & R); exists g, fs, f, t; (split; [|exact R]).
  - exact (Permutation_in g P Hin).
  - exact (Permutation_in g (Permutation_sym P) Hin).
Qed.

(* the three entry points agree where their inputs mean the same thing: on plain FILES a Dir
   source is a Path source, and a pattern that matches exactly itself is a Path source *)
Definition all_files root env (srcs : list string) : Prop :=
  forall s, In s srcs -> exists m, statx root env s = Found (File m).

Lemma dir_is_path_on_files : forall root env target srcs, all_files root env srcs ->
  dirNewer root env target srcs = pathNewer root env target srcs.
Proof.
  intros root env target srcs; induction srcs as [|s r IH]; intros H; [reflexivity|].
  cbn [dirNewer pathNewer]. destruct (H s (or_introl eq_refl)) as [m Hm]. rewrite Hm.
  unfold walkNewer. cbn [nodes existsb mtime_of]. rewrite orb_false_r.
  destruct (after m target); [reflexivity|].
  apply IH. intros x Hx. apply H. right. exact Hx.
Qed.

Lemma glob_is_path_on_literals : forall root env globf target srcs,
  AllFound root env srcs -> (forall s, In s srcs -> globf s = Some [s]) ->
  globNewer root env globf target srcs = pathNewer root env target srcs.
Proof.
  intros root env globf target srcs; induction srcs as [|s r IH]; intros H Hg; [reflexivity|].
  rewrite (globNewer_cons root env globf target s r [s] (Hg s (or_introl eq_refl))) by discriminate.
  cbn [pathNewer]. destruct (H s (or_introl eq_refl)) as [t Ht]. rewrite Ht.
  destruct (after (mtime_of t) target); [reflexivity|].
  apply IH; [exact (AllFound_tail _ _ _ _ H)|intros x Hx; apply Hg; right; exact Hx].
Qed.
