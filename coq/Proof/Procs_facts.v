(* Lemmas about Model/Procs.v (C20): non-interference of concurrent invocations by disjoint
   footprints + "concurrent writes to a shared cache entry write the same value". *)
From Mage Require Import Base.Strs Model.Procs.

(* ------------------------------------------------------------------ lists *)
Lemma set_nth_length : forall A (l : list A) i x, length (set_nth l i x) = length l.
Proof. induction l; destruct i; simpl; intros; auto. Qed.

Lemma nth_error_set_nth_eq : forall A (l : list A) i x y,
  nth_error l i = Some y -> nth_error (set_nth l i x) i = Some x.
Proof. induction l; destruct i; simpl; intros; try discriminate; eauto. Qed.

Lemma nth_error_set_nth_neq : forall A (l : list A) i j x,
  i <> j -> nth_error (set_nth l i x) j = nth_error l j.
Proof.
  induction l; destruct i, j; simpl; intros; auto; try congruence.
Qed.

Lemma nth_error_map_const : forall A B (b : B) (l : list A) i y,
  nth_error (map (fun _ => b) l) i = Some y -> y = b.
Proof. induction l; destruct i; simpl; intros; try discriminate; eauto. congruence. Qed.

Lemma nth_error_both : forall A B (l : list A) (m : list B) i y,
  length m = length l -> nth_error m i = Some y -> exists x, nth_error l i = Some x.
Proof.
  intros A B l m i y HL H.
  assert (i < length l) as Hi by (rewrite <- HL; apply nth_error_Some; congruence).
  destruct (nth_error l i) eqn:E; eauto. apply nth_error_None in E. lia.
Qed.

Lemma count_occ_repeat_same : forall i k, count_occ Nat.eq_dec (repeat i k) i = k.
Proof. induction k; simpl; auto. destruct (Nat.eq_dec i i); congruence. Qed.

(* ------------------------------------------------------------------ one step *)
Section Facts.
Variable name : contents -> ename.
Variable gen : contents -> option gentext.
Variable compile : envid -> contents -> gentext -> option program.
Variable behave : program -> dir -> args -> result.

Notation step := (step name gen compile behave).
Notation sys_step := (sys_step name gen compile behave).
Notation run_from := (run_from name gen compile behave).
Notation run := (run name gen compile behave).
Notation alone := (alone name gen compile behave).
Notation prog_of := (prog_of gen compile).
Notation spec_result := (spec_result gen compile behave).
Notation content_addressed := (content_addressed name gen compile).
Notation cache_sound := (cache_sound name gen compile).
Notation no_overlap := (no_overlap name gen compile behave).
Notation exec_result := (exec_result behave).

Ltac break_in H :=
  repeat match type of H with
         | context [match ?x with _ => _ end] => let E := fresh "E" in destruct x eqn:E
         | context [if ?x then _ else _] => let E := fresh "E" in destruct x eqn:E
         end.

Ltac inv_pair H := inversion H; subst; clear H.

(* footprint: a step of an invocation in directory D writes nothing but D/main and the cache,
   never removes a cache entry, never touches magefiles or module context *)
Lemma step_frame : forall i iv fs p fs' p', step i iv fs p = (fs', p') ->
  f_mf fs' = f_mf fs /\ f_env fs' = f_env fs /\
  (forall d, d <> i_dir iv -> f_main fs' d = f_main fs d) /\
  (forall e q, f_cache fs e = Some q -> exists q', f_cache fs' e = Some q').
Proof.
  intros i iv fs p fs' p' H. unfold step in H.
  assert (forall v, forall d, d <> i_dir iv -> f_main (upd_main fs (i_dir iv) v) d = f_main fs d) as Hm.
  { intros v d Hd. simpl. destruct (Nat.eqb d (i_dir iv)) eqn:E; auto. apply Nat.eqb_eq in E. congruence. }
  destruct (p_pc p); break_in H; inv_pair H; simpl;
    repeat split; auto; intros; eauto;
    try (destruct (Nat.eqb d (i_dir iv)) eqn:E'; auto; apply Nat.eqb_eq in E'; congruence).
  (* the build: installs an entry *)
  destruct (String.eqb e (p_exe p)); eauto.
Qed.

Lemma prog_of_frame : forall fs fs' D, f_mf fs' = f_mf fs -> f_env fs' = f_env fs -> prog_of fs' D = prog_of fs D.
Proof. intros fs fs' D H1 H2. unfold Procs.prog_of. rewrite H1, H2. reflexivity. Qed.

Lemma spec_result_frame : forall fs fs' iv, f_mf fs' = f_mf fs -> f_env fs' = f_env fs ->
  spec_result fs' iv = spec_result fs iv.
Proof. intros fs fs' iv H1 H2. unfold Procs.spec_result. rewrite (prog_of_frame fs fs' _ H1 H2), H1. reflexivity. Qed.

Lemma content_addressed_frame : forall invs fs fs', f_mf fs' = f_mf fs -> f_env fs' = f_env fs ->
  content_addressed invs fs -> content_addressed invs fs'.
Proof.
  intros invs fs fs' H1 H2 H i j ivi ivj Hi Hj Hn.
  rewrite !(prog_of_frame fs fs' _ H1 H2). rewrite H1 in Hn. eauto.
Qed.

(* what is known about invocation i (directory D) at each program point, in terms of its own
   footprint only *)
Definition linv (i : nat) (iv : inv) (fs : fsys) (p : proc) : Prop :=
  let D := i_dir iv in
  let c := f_mf fs D in
  match p_pc p with
  | PStale => True
  | PList => f_main fs D = None
  | PHash => f_main fs D = None /\ String.eqb c "" = false
  | PStat | PParse => f_main fs D = None /\ String.eqb c "" = false /\ p_exe p = name c
  | PCreate => f_main fs D = None /\ String.eqb c "" = false /\ p_exe p = name c /\ gen c = Some (p_gen p)
  | PWrite => f_main fs D = Some (S i, Partial) /\ p_fd p = S i /\
              String.eqb c "" = false /\ p_exe p = name c /\ gen c = Some (p_gen p)
  | PChtimes | PBuild => f_main fs D = Some (S i, Full (p_gen p)) /\
              String.eqb c "" = false /\ p_exe p = name c /\ gen c = Some (p_gen p)
  | PRemove | PExec | PExecCached =>
              String.eqb c "" = false /\ p_exe p = name c /\ exists q, f_cache fs (name c) = Some q
  | PFailRm | PDeferRm | PDone => p_res p = spec_result fs iv
  end.

Lemma upd_main_same : forall fs d v, f_main (upd_main fs d v) d = v.
Proof. intros. simpl. rewrite Nat.eqb_refl. reflexivity. Qed.

Lemma exec_spec : forall invs fs i iv q, cache_sound invs fs -> nth_error invs i = Some iv ->
  String.eqb (f_mf fs (i_dir iv)) "" = false ->
  f_cache fs (name (f_mf fs (i_dir iv))) = Some q ->
  exec_result fs (name (f_mf fs (i_dir iv))) (i_dir iv) (i_args iv) = spec_result fs iv.
Proof.
  intros invs fs i iv q Hc Hi He Hq. unfold Procs.exec_result, Procs.spec_result.
  rewrite Hq, He. rewrite (Hc i iv q Hi Hq). reflexivity.
Qed.

(* a step of invocation i keeps what is known about i *)
Lemma step_own : forall invs i iv fs p fs' p', cache_sound invs fs -> nth_error invs i = Some iv ->
  linv i iv fs p -> step i iv fs p = (fs', p') -> linv i iv fs' p'.
Proof.
  intros invs i iv fs p fs' p' Hc Hi L H.
  unfold linv in L. unfold step in H.
  destruct (p_pc p) eqn:PC.
  - (* PStale *) break_in H; inv_pair H; unfold linv; simpl; auto. rewrite Nat.eqb_refl. reflexivity.
  - (* PList *) rewrite L in H. break_in H; inv_pair H; unfold linv; simpl; auto.
    unfold Procs.spec_result. rewrite E. reflexivity.
  - (* PHash *) inv_pair H. unfold linv; simpl. tauto.
  - (* PStat *) destruct L as (L1 & L2 & L3). rewrite L3 in H.
    break_in H; inv_pair H; unfold linv; simpl; repeat split; eauto.
  - (* PParse *) destruct L as (L1 & L2 & L3).
    break_in H; inv_pair H; unfold linv; simpl; repeat split; auto.
    unfold Procs.spec_result, Procs.prog_of. rewrite L2, E. reflexivity.
  - (* PCreate *) destruct L as (L1 & L2 & L3 & L4). rewrite L1 in H. inv_pair H.
    unfold linv; simpl. rewrite Nat.eqb_refl. repeat split; auto.
  - (* PWrite *) destruct L as (L1 & L2 & L3 & L4 & L5). rewrite L1, L2, Nat.eqb_refl in H. inv_pair H.
    unfold linv; simpl. rewrite Nat.eqb_refl. repeat split; auto.
  - (* PChtimes *) destruct L as (L1 & L2 & L3 & L4). rewrite L1 in H. inv_pair H.
    unfold linv; simpl. repeat split; auto.
  - (* PBuild *) destruct L as (L1 & L2 & L3 & L4). rewrite L1 in H.
    break_in H; inv_pair H; unfold linv; simpl.
    + repeat split; auto. rewrite L3, String.eqb_refl. eauto.
    + unfold Procs.spec_result, Procs.prog_of. rewrite L2, L4, E. reflexivity.
  - (* PFailRm *) inv_pair H. unfold linv; simpl. rewrite L. symmetry. apply spec_result_frame; reflexivity.
  - (* PRemove *) destruct L as (L1 & L2 & L3). inv_pair H. unfold linv; simpl. repeat split; auto.
  - (* PExec *) destruct L as (L1 & L2 & q & L3). inv_pair H. unfold linv; simpl.
    rewrite L2. eapply exec_spec; eauto.
  - (* PDeferRm *) inv_pair H. unfold linv; simpl. rewrite L. symmetry. apply spec_result_frame; reflexivity.
  - (* PExecCached *) destruct L as (L1 & L2 & q & L3). inv_pair H. unfold linv; simpl.
    rewrite L2. eapply exec_spec; eauto.
  - (* PDone *) inv_pair H. unfold linv. rewrite PC. exact L.
Qed.

(* the only write to the cache is the build's, and it writes the program of the contents the entry
   is named after: concurrent writers of one entry write the same value *)
Lemma step_cache_sound : forall invs i iv fs p fs' p',
  content_addressed invs fs -> cache_sound invs fs -> nth_error invs i = Some iv ->
  linv i iv fs p -> step i iv fs p = (fs', p') -> cache_sound invs fs'.
Proof.
  intros invs i iv fs p fs' p' Ha Hc Hi L H.
  destruct (step_frame _ _ _ _ _ _ H) as (F1 & F2 & _ & _).
  intros k ivk q Hk Hq. rewrite (prog_of_frame fs fs' _ F1 F2). rewrite F1 in Hq.
  unfold linv in L. unfold step in H.
  destruct (p_pc p) eqn:PC; try (break_in H; inv_pair H; simpl in Hq; eauto; fail).
  (* PBuild *)
  destruct L as (L1 & L2 & L3 & L4). rewrite L1 in H.
  destruct (compile (f_env fs (i_dir iv)) (f_mf fs (i_dir iv)) (p_gen p)) as [q'|] eqn:E2;
    inv_pair H; simpl in Hq; eauto.
  destruct (String.eqb (name (f_mf fs (i_dir ivk))) (p_exe p)) eqn:EQ; eauto.
  apply String.eqb_eq in EQ. inv_pair Hq.
  rewrite (Ha k i ivk iv Hk Hi) by congruence.
  unfold Procs.prog_of. rewrite L4. assumption.
Qed.

(* a step of ANOTHER invocation, in another directory (or while this one is quiescent), keeps what
   is known about this one *)
Lemma step_other : forall i ivi pi j ivj pj fs fs' pi',
  linv j ivj fs pj -> step i ivi fs pi = (fs', pi') ->
  (i_dir ivi <> i_dir ivj \/ quiescent pj) -> linv j ivj fs' pj.
Proof.
  intros i ivi pi j ivj pj fs fs' pi' L H Hd.
  destruct (step_frame _ _ _ _ _ _ H) as (F1 & F2 & F3 & F4).
  unfold linv in *. rewrite F1. rewrite (spec_result_frame fs fs' _ F1 F2).
  destruct Hd as [Hd | [Hq | Hq]].
  - rewrite (F3 (i_dir ivj)) by congruence.
    destruct (p_pc pj); auto.
    all: destruct L as (L1 & L2 & q & L3); destruct (F4 _ _ L3); eauto.
  - rewrite Hq. exact I.
  - rewrite Hq in *. exact L.
Qed.

(* ------------------------------------------------------------------ the system *)
Definition ok_step (invs : list inv) (s : sys) (i : nat) : Prop :=
  forall j ivi ivj pj, j <> i -> nth_error invs i = Some ivi -> nth_error invs j = Some ivj ->
    i_dir ivi = i_dir ivj -> nth_error (s_procs s) j = Some pj -> quiescent pj.

Definition Inv (invs : list inv) (fs0 : fsys) (s : sys) : Prop :=
  length (s_procs s) = length invs /\
  f_mf (s_fs s) = f_mf fs0 /\ f_env (s_fs s) = f_env fs0 /\
  content_addressed invs (s_fs s) /\ cache_sound invs (s_fs s) /\
  forall i iv p, nth_error invs i = Some iv -> nth_error (s_procs s) i = Some p -> linv i iv (s_fs s) p.

Lemma sys_step_length : forall invs s i, length (s_procs (sys_step invs s i)) = length (s_procs s).
Proof.
  intros. unfold Procs.sys_step. destruct (nth_error invs i); auto. destruct (nth_error (s_procs s) i); auto.
  destruct (step _ _ _ _). simpl. apply set_nth_length.
Qed.

Lemma sys_step_other : forall invs s i j, j <> i ->
  nth_error (s_procs (sys_step invs s i)) j = nth_error (s_procs s) j.
Proof.
  intros. unfold Procs.sys_step. destruct (nth_error invs i); auto. destruct (nth_error (s_procs s) i); auto.
  destruct (step _ _ _ _). simpl. apply nth_error_set_nth_neq. congruence.
Qed.

Lemma sys_step_inv : forall invs fs0 s i, Inv invs fs0 s -> ok_step invs s i -> Inv invs fs0 (sys_step invs s i).
Proof.
  intros invs fs0 s i (HL & Hm & He & Ha & Hc & HI) Hok.
  unfold Procs.sys_step.
  destruct (nth_error invs i) as [iv|] eqn:Ei; [|repeat split; auto].
  destruct (nth_error (s_procs s) i) as [p|] eqn:Ep; [|repeat split; auto].
  destruct (step i iv (s_fs s) p) as [fs' p'] eqn:Es. unfold Inv. simpl.
  destruct (step_frame _ _ _ _ _ _ Es) as (F1 & F2 & _ & _).
  repeat split.
  - rewrite set_nth_length. exact HL.
  - congruence.
  - congruence.
  - eapply content_addressed_frame; eauto.
  - eapply step_cache_sound; eauto.
  - intros k ivk pk Hk Hpk.
    destruct (Nat.eq_dec k i) as [->|Hne].
    + rewrite (nth_error_set_nth_eq _ _ _ _ _ Ep) in Hpk. inv_pair Hpk.
      rewrite Ei in Hk. inv_pair Hk. eapply step_own; eauto.
    + rewrite nth_error_set_nth_neq in Hpk by congruence.
      eapply step_other; eauto.
      destruct (Nat.eq_dec (i_dir iv) (i_dir ivk)); [right|left; assumption].
      eapply Hok; eauto.
Qed.

Lemma run_from_inv : forall invs fs0 sched s, Inv invs fs0 s -> no_overlap invs s sched ->
  Inv invs fs0 (run_from invs s sched).
Proof.
  intros invs fs0. induction sched as [|i r IH]; simpl; intros s HI Hn; auto.
  destruct Hn as (H1 & H2). apply IH; auto. apply sys_step_inv; auto.
Qed.

Lemma init_inv : forall invs fs0, content_addressed invs fs0 -> cache_sound invs fs0 -> Inv invs fs0 (init invs fs0).
Proof.
  intros. unfold init. repeat split; simpl; auto.
  - apply map_length.
  - intros i iv p _ Hp. apply nth_error_map_const in Hp. subst. exact I.
Qed.

(* the engine: in a run without same-directory overlap every finished invocation has produced the
   behaviour of its own directory's program *)
Lemma result_spec : forall invs fs0 sched i iv r,
  content_addressed invs fs0 -> cache_sound invs fs0 -> no_overlap invs (init invs fs0) sched ->
  nth_error invs i = Some iv -> result_of (run invs fs0 sched) i = Some r -> r = spec_result fs0 iv.
Proof.
  intros invs fs0 sched i iv r Ha Hc Hn Hi Hr.
  pose proof (run_from_inv invs fs0 sched _ (init_inv invs fs0 Ha Hc) Hn) as (HL & Hm & He & _ & _ & HI).
  unfold result_of in Hr. fold (run invs fs0 sched) in HI, Hm, He.
  destruct (nth_error (s_procs (run invs fs0 sched)) i) as [p|] eqn:Ep; [|discriminate].
  specialize (HI i iv p Hi Ep). unfold linv in HI.
  destruct (p_pc p); try discriminate. inv_pair Hr. rewrite HI. apply spec_result_frame; auto.
Qed.

(* ------------------------------------------------------------------ progress: nobody blocks anybody *)
Definition rank (c : pc) : nat :=
  match c with
  | PStale => 12 | PList => 11 | PHash => 10 | PStat => 9 | PParse => 8 | PCreate => 7 | PWrite => 6
  | PChtimes => 5 | PBuild => 4 | PRemove => 3 | PExec => 2
  | PDeferRm => 1 | PFailRm => 1 | PExecCached => 1 | PDone => 0
  end.

Lemma rank_le_fuel : forall c, rank c <= fuel.
Proof. destruct c; unfold fuel; simpl; lia. Qed.

Lemma step_rank : forall i iv fs p fs' p', step i iv fs p = (fs', p') -> rank (p_pc p') <= pred (rank (p_pc p)).
Proof.
  intros i iv fs p fs' p' H. unfold step in H.
  destruct (p_pc p) eqn:PC; break_in H; inv_pair H; simpl; try rewrite PC; simpl; lia.
Qed.

Definition rank_of (s : sys) (i : nat) : nat :=
  match nth_error (s_procs s) i with Some p => rank (p_pc p) | None => 0 end.

Lemma sys_step_rank : forall invs s i, length (s_procs s) = length invs ->
  rank_of (sys_step invs s i) i <= pred (rank_of s i).
Proof.
  intros invs s i HL. unfold rank_of at 2.
  destruct (nth_error (s_procs s) i) as [p|] eqn:Ep.
  - destruct (nth_error_both _ _ invs _ i p HL Ep) as [iv Ei].
    unfold rank_of, Procs.sys_step. rewrite Ei, Ep.
    destruct (step i iv (s_fs s) p) as [fs' p'] eqn:Es. simpl.
    rewrite (nth_error_set_nth_eq _ _ _ _ _ Ep). eapply step_rank; eauto.
  - unfold rank_of, Procs.sys_step. rewrite Ep. destruct (nth_error invs i); rewrite Ep; simpl; lia.
Qed.

Lemma run_from_length : forall invs sched s, length (s_procs (run_from invs s sched)) = length (s_procs s).
Proof.
  intros invs. unfold Procs.run_from. induction sched; simpl; intros; auto.
  rewrite IHsched. apply sys_step_length.
Qed.

Lemma run_from_rank : forall invs i sched s, length (s_procs s) = length invs ->
  rank_of (run_from invs s sched) i <= rank_of s i - count_occ Nat.eq_dec sched i.
Proof.
  intros invs i. induction sched as [|k r IH]; intros s HL; simpl.
  - lia.
  - assert (length (s_procs (sys_step invs s k)) = length invs) as HL' by (rewrite sys_step_length; exact HL).
    specialize (IH _ HL'). unfold Procs.run_from in *. simpl.
    destruct (Nat.eq_dec k i) as [->|Hne].
    + pose proof (sys_step_rank invs s i HL). lia.
    + assert (rank_of (sys_step invs s k) i = rank_of s i) as R
        by (unfold rank_of; rewrite sys_step_other by congruence; reflexivity).
      lia.
Qed.

Lemma rank0_done : forall s i p, nth_error (s_procs s) i = Some p -> rank_of s i = 0 -> result_of s i = Some (p_res p).
Proof.
  intros s i p Hp H. unfold rank_of in H. unfold result_of. rewrite Hp in *.
  destruct (p_pc p); simpl in H; try discriminate. reflexivity.
Qed.

Lemma init_rank : forall invs fs0 i, i < length invs -> rank_of (init invs fs0) i = fuel.
Proof.
  intros invs fs0 i Hi. unfold rank_of, init. simpl.
  destruct (nth_error (map (fun _ => proc0) invs) i) eqn:E.
  - apply nth_error_map_const in E. subst. reflexivity.
  - apply nth_error_None in E. rewrite map_length in E. lia.
Qed.

(* every invocation that is given [fuel] steps finishes, whatever the others do, in any directories *)
Lemma no_blocking : forall invs fs0 sched i, i < length invs -> fuel <= count_occ Nat.eq_dec sched i ->
  exists r, result_of (run invs fs0 sched) i = Some r.
Proof.
  intros invs fs0 sched i Hi Hc.
  assert (length (s_procs (init invs fs0)) = length invs) as HL by (simpl; apply map_length).
  pose proof (run_from_rank invs i sched _ HL) as R. rewrite init_rank in R by assumption.
  fold (run invs fs0 sched) in R.
  assert (i < length (s_procs (run invs fs0 sched))) as Hlt
    by (unfold Procs.run; rewrite run_from_length, HL; assumption).
  destruct (nth_error (s_procs (run invs fs0 sched)) i) as [p|] eqn:Ep.
  - exists (p_res p). apply rank0_done; auto. lia.
  - apply nth_error_None in Ep. lia.
Qed.

(* ------------------------------------------------------------------ schedules without overlap *)
Lemma run_from_other : forall invs j sched s, ~ In j sched ->
  nth_error (s_procs (run_from invs s sched)) j = nth_error (s_procs s) j.
Proof.
  intros invs j. induction sched as [|k r IH]; simpl; intros s Hn; auto.
  unfold Procs.run_from in *. simpl. rewrite IH by tauto. apply sys_step_other. intro; subst; tauto.
Qed.

Lemma run_from_app : forall invs a b s, run_from invs s (a ++ b) = run_from invs (run_from invs s a) b.
Proof. intros. unfold Procs.run_from. apply fold_left_app. Qed.

Lemma no_overlap_app : forall invs a b s,
  no_overlap invs s a -> no_overlap invs (run_from invs s a) b -> no_overlap invs s (a ++ b).
Proof.
  intros invs. induction a as [|i r IH]; simpl; intros b s Ha Hb; auto.
  destruct Ha as (H1 & H2). split; auto.
Qed.

Definition all_quiescent_but (s : sys) (i : nat) : Prop :=
  forall j pj, j <> i -> nth_error (s_procs s) j = Some pj -> quiescent pj.

Lemma no_overlap_block : forall invs i k s, all_quiescent_but s i -> no_overlap invs s (repeat i k).
Proof.
  intros invs i. induction k as [|k IH]; simpl; intros s H; auto.
  split.
  - intros j ivi ivj pj Hj _ _ _ Hp. eauto.
  - apply IH. intros j pj Hj Hp. rewrite sys_step_other in Hp by assumption. eauto.
Qed.

(* distinct directories: nothing to check *)
Lemma distinct_no_overlap : forall invs, NoDup (map i_dir invs) -> forall sched s, no_overlap invs s sched.
Proof.
  intros invs Hnd. induction sched as [|i r IH]; simpl; intros s; auto.
  split; auto.
  intros j ivi ivj pj Hj Hi Hjj Hd _. exfalso. apply Hj.
  rewrite NoDup_nth_error in Hnd. symmetry. apply Hnd.
  - rewrite map_length. apply nth_error_Some. congruence.
  - rewrite (map_nth_error i_dir _ _ Hi), (map_nth_error i_dir _ _ Hjj). congruence.
Qed.

(* an invocation run alone produces the behaviour of its own directory's program *)
Lemma alone_spec : forall invs fs0 i iv, content_addressed invs fs0 -> cache_sound invs fs0 ->
  nth_error invs i = Some iv -> alone invs fs0 i = Some (spec_result fs0 iv).
Proof.
  intros invs fs0 i iv Ha Hc Hi. unfold Procs.alone.
  assert (i < length invs) as Hlt by (apply nth_error_Some; congruence).
  destruct (no_blocking invs fs0 (repeat i fuel) i Hlt) as [r Hr].
  { rewrite count_occ_repeat_same. lia. }
  rewrite Hr. f_equal. eapply result_spec; eauto.
  apply no_overlap_block. intros j pj _ Hp. simpl in Hp. apply nth_error_map_const in Hp. subst. left. reflexivity.
Qed.

(* main theorem, general form *)
Lemma no_overlap_alone : forall invs fs0 sched i r,
  content_addressed invs fs0 -> cache_sound invs fs0 -> no_overlap invs (init invs fs0) sched ->
  result_of (run invs fs0 sched) i = Some r -> alone invs fs0 i = Some r.
Proof.
  intros invs fs0 sched i r Ha Hc Hn Hr.
  assert (exists iv, nth_error invs i = Some iv) as [iv Hi].
  { unfold result_of in Hr. destruct (nth_error (s_procs (run invs fs0 sched)) i) eqn:E; [|discriminate].
    eapply nth_error_both; [|exact E]. unfold Procs.run. rewrite run_from_length. simpl. apply map_length. }
  rewrite (alone_spec invs fs0 i iv Ha Hc Hi). f_equal. symmetry. eapply result_spec; eauto.
Qed.

Lemma distinct_dirs : forall invs fs0 sched i r,
  NoDup (map i_dir invs) -> content_addressed invs fs0 -> cache_sound invs fs0 ->
  result_of (run invs fs0 sched) i = Some r -> alone invs fs0 i = Some r.
Proof. intros. eapply no_overlap_alone; eauto. apply distinct_no_overlap; assumption. Qed.

Lemma distinct_dirs_total : forall invs fs0 sched i,
  NoDup (map i_dir invs) -> content_addressed invs fs0 -> cache_sound invs fs0 ->
  i < length invs -> fuel <= count_occ Nat.eq_dec sched i ->
  result_of (run invs fs0 sched) i = alone invs fs0 i /\ exists r, alone invs fs0 i = Some r.
Proof.
  intros invs fs0 sched i Hn Ha Hc Hi Hf. destruct (no_blocking invs fs0 sched i Hi Hf) as [r Hr].
  rewrite Hr. rewrite (distinct_dirs invs fs0 sched i r Hn Ha Hc Hr). eauto.
Qed.

(* sequential schedules: one complete block of steps per listed invocation, any directories *)
Definition blocks (order : list nat) : list nat := flat_map (fun k => repeat k fuel) order.

Definition all_quiescent (s : sys) : Prop := forall j pj, nth_error (s_procs s) j = Some pj -> quiescent pj.

Lemma block_quiescent : forall invs i s, length (s_procs s) = length invs -> all_quiescent s ->
  all_quiescent (run_from invs s (repeat i fuel)).
Proof.
  intros invs i s HL H j pj Hp.
  destruct (Nat.eq_dec j i) as [->|Hne].
  - pose proof (run_from_rank invs i (repeat i fuel) s HL) as R. rewrite count_occ_repeat_same in R.
    unfold rank_of in R at 1. rewrite Hp in R.
    assert (rank_of s i <= fuel) by (unfold rank_of; destruct (nth_error (s_procs s) i); [apply rank_le_fuel|lia]).
    right. destruct (p_pc pj); simpl in R; try lia. reflexivity.
  - rewrite run_from_other in Hp; eauto. intro Hin. apply repeat_spec in Hin. congruence.
Qed.

Lemma blocks_no_overlap : forall invs order s, length (s_procs s) = length invs -> all_quiescent s ->
  no_overlap invs s (blocks order).
Proof.
  intros invs. induction order as [|i r IH]; intros s HL H; [exact I|].
  change (blocks (i :: r)) with (repeat i fuel ++ blocks r).
  apply no_overlap_app.
  - apply no_overlap_block. intros j pj _ Hp. eauto.
  - apply IH.
    + rewrite run_from_length. exact HL.
    + apply block_quiescent; auto.
Qed.

Lemma count_occ_blocks : forall order i, In i order -> fuel <= count_occ Nat.eq_dec (blocks order) i.
Proof.
  induction order as [|k r IH]; intros i Hin; [destruct Hin|].
  change (blocks (k :: r)) with (repeat k fuel ++ blocks r). rewrite count_occ_app.
  destruct Hin as [->|Hin].
  - rewrite count_occ_repeat_same. lia.
  - specialize (IH i Hin). lia.
Qed.

Lemma sequential_ok : forall invs fs0 order i,
  content_addressed invs fs0 -> cache_sound invs fs0 -> In i order -> i < length invs ->
  result_of (run invs fs0 (blocks order)) i = alone invs fs0 i /\ exists r, alone invs fs0 i = Some r.
Proof.
  intros invs fs0 order i Ha Hc Hin Hi.
  destruct (no_blocking invs fs0 (blocks order) i Hi (count_occ_blocks order i Hin)) as [r Hr].
  rewrite Hr.
  assert (alone invs fs0 i = Some r) as A.
  { eapply no_overlap_alone; eauto. apply blocks_no_overlap.
    - simpl. apply map_length.
    - intros j pj Hp. simpl in Hp. apply nth_error_map_const in Hp. subst. left. reflexivity. }
  rewrite A. eauto.
Qed.

(* invocations in one directory always satisfy the content-addressing hypothesis *)
Lemma same_dir_content_addressed : forall invs fs0 D, (forall iv, In iv invs -> i_dir iv = D) -> content_addressed invs fs0.
Proof.
  intros invs fs0 D H i j ivi ivj Hi Hj _.
  rewrite (H ivi (nth_error_In _ _ Hi)), (H ivj (nth_error_In _ _ Hj)). reflexivity.
Qed.

End Facts.

(* ------------------------------------------------------------------ concrete witnesses *)
Definition w_name (c : contents) : ename := c.
Definition w_gen (c : contents) : option gentext := Some ("main+" ++ c)%string.
Definition w_compile (e : envid) (c : contents) (g : gentext) : option program := Some (e ++ "/" ++ c)%string.
Definition w_behave (q : program) (D : dir) (a : args) : result := (q, 0%Z).
Definition w_fs (mf : dir -> contents) (env : dir -> envid) : fsys :=
  {| f_mf := mf; f_env := env; f_main := fun _ => None; f_cache := fun _ => None; f_out := fun _ => None |}.
Definition w_inv (D : dir) (hashfast : bool) : inv :=
  {| i_dir := D; i_hashfast := hashfast; i_gocache := true; i_force := false; i_args := "t" |}.

(* F22: two invocations in ONE directory; the second one's removeStaleMainfile removes the
   generated file of the first between its Chtimes and its build *)
Definition w_same_invs := [w_inv 0 false; w_inv 0 false].
Definition w_same_fs := w_fs (fun _ => "m") (fun _ => "env").
Definition w_same_sched := repeat 0 8 ++ [1] ++ repeat 0 4 ++ repeat 1 12.

Lemma same_dir_refuted :
  result_of (run w_name w_gen w_compile w_behave w_same_invs w_same_fs w_same_sched) 0 = Some fail /\
  alone w_name w_gen w_compile w_behave w_same_invs w_same_fs 0 = Some ("env/m", 0%Z).
Proof. vm_compute. split; reflexivity. Qed.

(* the other overlap: the second invocation TRUNCATES (os.Create) the file the first is about to compile *)
Definition w_same_sched_trunc := repeat 0 8 ++ repeat 1 6 ++ repeat 0 4 ++ repeat 1 12.
Lemma same_dir_refuted_truncate :
  result_of (run w_name w_gen w_compile w_behave w_same_invs w_same_fs w_same_sched_trunc) 0 = Some fail /\
  result_of (run w_name w_gen w_compile w_behave w_same_invs w_same_fs w_same_sched_trunc) 1 = Some fail.
Proof. vm_compute. split; reflexivity. Qed.

(* distinct directories with byte-identical magefiles but different module context (an imported
   package differs): both use ONE cache entry; the second build replaces the first's binary
   between its build and its exec *)
Definition w_ctx_invs := [w_inv 0 false; w_inv 1 false].
Definition w_ctx_fs := w_fs (fun _ => "m") (fun d => if Nat.eqb d 0 then "envA" else "envB").
Definition w_ctx_sched := repeat 0 10 ++ repeat 1 9 ++ repeat 0 2 ++ repeat 1 3.

Lemma shared_entry_refuted :
  NoDup (map i_dir w_ctx_invs) /\
  result_of (run w_name w_gen w_compile w_behave w_ctx_invs w_ctx_fs w_ctx_sched) 0 = Some ("envB/m", 0%Z) /\
  alone w_name w_gen w_compile w_behave w_ctx_invs w_ctx_fs 0 = Some ("envA/m", 0%Z).
Proof.
  split.
  - simpl. repeat constructor; simpl; intuition discriminate.
  - vm_compute. split; reflexivity.
Qed.

(* non-vacuity: three invocations in three directories, two of them with identical magefiles (one
   shared cache entry), one in hash mode, round-robin interleaving *)
Definition w_nv_invs := [w_inv 0 false; w_inv 1 true; w_inv 2 false].
Definition w_nv_fs := w_fs (fun d => if Nat.eqb d 2 then "k" else "m") (fun _ => "env").
Definition w_nv_sched := flat_map (fun _ => [0; 1; 2]) (seq 0 12).

Lemma nonvacuous_c20 :
  NoDup (map i_dir w_nv_invs) /\
  content_addressed w_name w_gen w_compile w_nv_invs w_nv_fs /\
  cache_sound w_name w_gen w_compile w_nv_invs w_nv_fs /\
  map (result_of (run w_name w_gen w_compile w_behave w_nv_invs w_nv_fs w_nv_sched)) [0; 1; 2] =
    [Some ("env/m", 0%Z); Some ("env/m", 0%Z); Some ("env/k", 0%Z)] /\
  map (alone w_name w_gen w_compile w_behave w_nv_invs w_nv_fs) [0; 1; 2] =
    [Some ("env/m", 0%Z); Some ("env/m", 0%Z); Some ("env/k", 0%Z)].
Proof.
  split; [|split; [|split]].
  - simpl. repeat constructor; simpl; intuition discriminate.
  - intros i j ivi ivj Hi Hj Hn.
    destruct i as [|[|[|i]]]; simpl in Hi; try (destruct i; discriminate); inversion Hi; subst;
    destruct j as [|[|[|j]]]; simpl in Hj; try (destruct j; discriminate); inversion Hj; subst;
    vm_compute in Hn; try discriminate; reflexivity.
  - intros i iv q _ H. discriminate H.
  - vm_compute. split; reflexivity.
Qed.

(* the existential forms stated in Props/C20.v *)
Lemma same_dir_refuted_ex :
  exists name gen compile behave iv0 iv1 fs0 sched,
    i_dir iv0 = i_dir iv1 /\
    result_of (run name gen compile behave [iv0; iv1] fs0 sched) 0 = Some fail /\
    alone name gen compile behave [iv0; iv1] fs0 0 = Some ("env/m", 0%Z).
Proof.
  exists w_name, w_gen, w_compile, w_behave, (w_inv 0 false), (w_inv 0 false), w_same_fs, w_same_sched.
  split; [reflexivity|exact same_dir_refuted].
Qed.

Lemma same_dir_refuted_truncate_ex :
  exists name gen compile behave iv0 iv1 fs0 sched,
    i_dir iv0 = i_dir iv1 /\
    result_of (run name gen compile behave [iv0; iv1] fs0 sched) 0 = Some fail /\
    result_of (run name gen compile behave [iv0; iv1] fs0 sched) 1 = Some fail /\
    alone name gen compile behave [iv0; iv1] fs0 0 = Some ("env/m", 0%Z).
Proof.
  exists w_name, w_gen, w_compile, w_behave, (w_inv 0 false), (w_inv 0 false), w_same_fs, w_same_sched_trunc.
  split; [reflexivity|]. destruct same_dir_refuted_truncate as (A & B). destruct same_dir_refuted as (_ & C).
  repeat split; assumption.
Qed.

Lemma shared_entry_refuted_ex :
  exists name gen compile behave invs fs0 sched,
    NoDup (map i_dir invs) /\
    result_of (run name gen compile behave invs fs0 sched) 0 = Some ("envB/m", 0%Z) /\
    alone name gen compile behave invs fs0 0 = Some ("envA/m", 0%Z).
Proof.
  exists w_name, w_gen, w_compile, w_behave, w_ctx_invs, w_ctx_fs, w_ctx_sched. exact shared_entry_refuted.
Qed.

(* ------------------------------------------------------------------ the general system: every command *)
Section General.
Variable name : contents -> ename.
Variable gen : contents -> option gentext.
Variable compile : envid -> contents -> gentext -> option program.
Variable behave : program -> dir -> args -> result.
Notation gstep := (gstep name gen compile behave).
Notation gsys_step := (gsys_step name gen compile behave).
Notation grun := (grun name gen compile behave).
Notation run := (run name gen compile behave).

Ltac gbreak H :=
  repeat match type of H with
         | context [match ?x with _ => _ end] => let E := fresh "E" in destruct x eqn:E
         | context [if ?x then _ else _] => let E := fresh "E" in destruct x eqn:E
         end.

Lemma gstep_rank : forall i g fs p fs' p', gstep i g fs p = (fs', p') -> rank (p_pc p') <= pred (rank (p_pc p)).
Proof.
  intros i g fs p fs' p' H. unfold Procs.gstep in H.
  assert (forall r, snd (remove_sub g p r) = snd r) as RS
    by (intros r; unfold remove_sub; destruct (p_pc p); destruct (g_sub g); reflexivity).
  destruct (g_cmd g).
  - destruct (step name gen compile behave i (g_inv g) fs p) as [fs1 p1] eqn:E1.
    assert (p' = p1) by (pose proof (RS (fs1, p1)) as Q; rewrite H in Q; simpl in Q; exact Q). subst. eapply step_rank; eauto.
  - destruct (Procs.step_compile gen compile behave i (g_inv g) fs p) as [fs1 p1] eqn:E1.
    assert (p' = p1) by (pose proof (RS (fs1, p1)) as Q; rewrite H in Q; simpl in Q; exact Q). subst. clear H. rename E1 into H.
    unfold Procs.step_compile in H. destruct (p_pc p) eqn:PC; gbreak H; inversion H; subst; simpl; try rewrite PC; simpl; lia.
  - destruct (p_pc p) eqn:PC; inversion H; subst; simpl; try rewrite PC; simpl; lia.
  - destruct (p_pc p) eqn:PC; inversion H; subst; simpl; try rewrite PC; simpl; lia.
Qed.

Lemma gsys_step_length : forall ginvs s i, length (s_procs (gsys_step ginvs s i)) = length (s_procs s).
Proof.
  intros. unfold Procs.gsys_step. destruct (nth_error ginvs i); auto. destruct (nth_error (s_procs s) i); auto.
  destruct (gstep _ _ _ _). simpl. apply set_nth_length.
Qed.

Lemma gsys_step_other : forall ginvs s i j, j <> i ->
  nth_error (s_procs (gsys_step ginvs s i)) j = nth_error (s_procs s) j.
Proof.
  intros. unfold Procs.gsys_step. destruct (nth_error ginvs i); auto. destruct (nth_error (s_procs s) i); auto.
  destruct (gstep _ _ _ _). simpl. apply nth_error_set_nth_neq. congruence.
Qed.

Lemma gsys_step_rank : forall ginvs s i, length (s_procs s) = length ginvs ->
  rank_of (gsys_step ginvs s i) i <= pred (rank_of s i).
Proof.
  intros ginvs s i HL. unfold rank_of at 2.
  destruct (nth_error (s_procs s) i) as [p|] eqn:Ep.
  - destruct (nth_error_both _ _ ginvs _ i p HL Ep) as [g Ei].
    unfold rank_of, Procs.gsys_step. rewrite Ei, Ep.
    destruct (gstep i g (s_fs s) p) as [fs' p'] eqn:Es. simpl.
    rewrite (nth_error_set_nth_eq _ _ _ _ _ Ep). eapply gstep_rank; eauto.
  - unfold rank_of, Procs.gsys_step. rewrite Ep. destruct (nth_error ginvs i); rewrite Ep; simpl; lia.
Qed.

Lemma grun_from_rank : forall ginvs i sched s, length (s_procs s) = length ginvs ->
  rank_of (fold_left (gsys_step ginvs) sched s) i <= rank_of s i - count_occ Nat.eq_dec sched i.
Proof.
  intros ginvs i. induction sched as [|k r IH]; intros s HL; simpl.
  - lia.
  - assert (length (s_procs (gsys_step ginvs s k)) = length ginvs) as HL' by (rewrite gsys_step_length; exact HL).
    specialize (IH _ HL').
    destruct (Nat.eq_dec k i) as [->|Hne].
    + pose proof (gsys_step_rank ginvs s i HL). lia.
    + assert (rank_of (gsys_step ginvs s k) i = rank_of s i) as R
        by (unfold rank_of; rewrite gsys_step_other by congruence; reflexivity).
      lia.
Qed.

Lemma grun_length : forall ginvs sched s, length (s_procs (fold_left (gsys_step ginvs) sched s)) = length (s_procs s).
Proof.
  intros ginvs. induction sched; simpl; intros; auto. rewrite IHsched. apply gsys_step_length.
Qed.

(* nobody blocks anybody, whatever the commands: run, -compile, -clean, -init *)
Lemma gno_blocking : forall ginvs fs0 sched i, i < length ginvs -> fuel <= count_occ Nat.eq_dec sched i ->
  exists r, result_of (grun ginvs fs0 sched) i = Some r.
Proof.
  intros ginvs fs0 sched i Hi Hc.
  assert (length (s_procs (ginit ginvs fs0)) = length ginvs) as HL by (simpl; apply map_length).
  pose proof (grun_from_rank ginvs i sched _ HL) as R.
  assert (rank_of (ginit ginvs fs0) i = fuel) as R0.
  { unfold rank_of, ginit. simpl. destruct (nth_error (map (fun _ => proc0) ginvs) i) eqn:E.
    - apply nth_error_map_const in E. subst. reflexivity.
    - apply nth_error_None in E. rewrite map_length in E. lia. }
  rewrite R0 in R. fold (grun ginvs fs0 sched) in R.
  assert (i < length (s_procs (grun ginvs fs0 sched))) as Hlt
    by (unfold Procs.grun; rewrite grun_length, HL; assumption).
  destruct (nth_error (s_procs (grun ginvs fs0 sched)) i) as [p|] eqn:Ep.
  - exists (p_res p). apply rank0_done; auto. lia.
  - apply nth_error_None in Ep. lia.
Qed.

(* restricted to plain runs the general system IS the run system, so every theorem about [run] is one about [grun] *)
Lemma gsys_step_as_run : forall invs s i, gsys_step (map as_run invs) s i = sys_step name gen compile behave invs s i.
Proof.
  intros invs s i. unfold Procs.gsys_step, Procs.sys_step.
  rewrite nth_error_map. destruct (nth_error invs i) as [iv|]; simpl; [|reflexivity].
  destruct (nth_error (s_procs s) i) as [p|]; [|reflexivity].
  unfold Procs.gstep, remove_sub. simpl. destruct (p_pc p); reflexivity.
Qed.

Lemma grun_as_run : forall invs fs0 sched, grun (map as_run invs) fs0 sched = run invs fs0 sched.
Proof.
  intros invs fs0 sched. unfold Procs.grun, Procs.run, Procs.run_from, Procs.ginit, Procs.init.
  rewrite map_map. generalize ({| s_fs := fs0; s_procs := map (fun _ : inv => proc0) invs |}).
  induction sched as [|k r IH]; intros s; simpl; auto. rewrite gsys_step_as_run. apply IH.
Qed.
End General.

(* mage -clean next to a run (distinct directories, shared cache): the cleaner empties the cache between the
   runner's build and its exec; the runner fails although alone it succeeds *)
Definition w_clean_ginvs : list ginv := [as_run (w_inv 0 false);
  {| g_inv := {| i_dir := 1; i_hashfast := false; i_gocache := true; i_force := false; i_args := "-clean" |}; g_cmd := CClean; g_sub := None |}].
Definition w_clean_sched := repeat 0 10 ++ [1] ++ repeat 0 2.

Lemma clean_refuted_ex :
  exists name gen compile behave ginvs fs0 sched,
    NoDup (map (fun g => i_dir (g_inv g)) ginvs) /\
    result_of (grun name gen compile behave ginvs fs0 sched) 0 = Some fail /\
    galone name gen compile behave ginvs fs0 0 = Some ("env/m", 0%Z).
Proof.
  exists w_name, w_gen, w_compile, w_behave, w_clean_ginvs, w_same_fs, w_clean_sched.
  split.
  - simpl. repeat constructor; simpl; intuition discriminate.
  - vm_compute. split; reflexivity.
Qed.

(* mage -compile in a twin directory (identical magefiles) next to a run: never touches the cache *)
Definition w_compile_ginvs : list ginv := [as_run (w_inv 0 false);
  {| g_inv := {| i_dir := 1; i_hashfast := false; i_gocache := true; i_force := false; i_args := "-compile" |}; g_cmd := CCompile; g_sub := None |}].
Lemma compile_example :
  map (result_of (grun w_name w_gen w_compile w_behave w_compile_ginvs w_same_fs (flat_map (fun _ => [0; 1]) (seq 0 12)))) [0; 1] =
    [Some ("env/m", 0%Z); Some ("", 0%Z)] /\
  map (galone w_name w_gen w_compile w_behave w_compile_ginvs w_same_fs) [0; 1] = [Some ("env/m", 0%Z); Some ("", 0%Z)].
Proof. vm_compute. split; reflexivity. Qed.

(* BEFORE fix 62b109f ([g_sub := Some _]): a run in <dir>/magefiles (directory 1) next to a run in <dir> (directory 0, which
   has tagged magefiles of its own AND that subdirectory): the start-up of the invocation in <dir> removes the generated file of <dir>/magefiles between its Chtimes
   and its build *)
Definition w_sub_ginvs : list ginv := [{| g_inv := w_inv 0 false; g_cmd := CRun; g_sub := Some 1 |}; as_run (w_inv 1 false)].
Definition w_sub_sched := repeat 1 8 ++ repeat 0 12 ++ repeat 1 4.
Lemma magefiles_subdir_before_repair_refuted_ex :
  exists name gen compile behave ginvs fs0 sched,
    NoDup (map (fun g => i_dir (g_inv g)) ginvs) /\
    result_of (grun name gen compile behave ginvs fs0 sched) 1 = Some fail /\
    galone name gen compile behave ginvs fs0 1 = Some ("env/m", 0%Z) /\
    result_of (grun name gen compile behave ginvs fs0 sched) 0 = galone name gen compile behave ginvs fs0 0.
Proof.
  exists w_name, w_gen, w_compile, w_behave, w_sub_ginvs, w_same_fs, w_sub_sched.
  split.
  - simpl. repeat constructor; simpl; intuition discriminate.
  - vm_compute. repeat split; reflexivity.
Qed.
