(* Lemmas about Model/Sh.v (property C15). *)
From Mage Require Import Base.Strs Base.Expand Model.Sh.
From Coq Require Import Permutation.

(* ---------------------------------------------------------------- spec vocabulary *)

Definition nl : string := String (ch 10) EmptyString.

(* a key contains no '=' *)
Definition no_eq (k : string) : Prop := forall c, In c (chars k) -> is_c c 61 = false.

(* an environment / a Go map: distinct keys, no '=' in a key *)
Definition keys_ok (m : envlist) : Prop :=
  NoDup (map fst m) /\ forall k v, In (k, v) m -> no_eq k.

Definition ends_nl (s : string) : Prop := exists p, s = String.append p nl.

(* [res] is [out] with exactly one trailing newline removed (none if there is none) *)
Definition one_newline_removed (out res : string) : Prop :=
  out = String.append res nl \/ (out = res /\ ~ ends_nl out).

Definition or_empty (o : option string) : string := match o with Some v => v | None => EmptyString end.

Definition is_wrapper (f : entry) : Prop := match f with FExec _ _ => False | _ => True end.
Definition is_output (f : entry) : bool := match f with FOutput | FOutputWith => true | _ => false end.

(* the writers an entry point hands to Exec *)
Definition entry_so (penv : envlist) (f : entry) : writer :=
  match f with
  | FRun | FRunWith => if verbose penv then WOsStdout else WNil
  | FRunV | FRunWithV => WOsStdout
  | FOutput | FOutputWith => WBuf
  | FExec so _ => so
  end.
Definition entry_se (f : entry) : writer :=
  match f with FExec _ se => se | _ => WOsStderr end.

(* the property's visibility rule *)
Definition stdout_shown (penv : envlist) (f : entry) : bool :=
  match f with
  | FRunV | FRunWithV => true
  | FRun | FRunWith => verbose penv
  | _ => false
  end.

(* ---------------------------------------------------------------- strings *)

Lemma append_nil_r : forall s, String.append s EmptyString = s.
Proof. induction s; simpl; congruence. Qed.

Lemma str_of_chars : forall s, str_of (chars s) = s.
Proof. induction s; simpl; congruence. Qed.

Lemma chars_str_of : forall l, chars (str_of l) = l.
Proof. induction l; simpl; congruence. Qed.

Lemma chars_app : forall a b, chars (String.append a b) = chars a ++ chars b.
Proof. induction a; simpl; intros; congruence. Qed.

Lemma str_of_app : forall a b, str_of (a ++ b) = String.append (str_of a) (str_of b).
Proof. induction a; simpl; intros; congruence. Qed.

Lemma is_c_true : forall c n, is_c c n = true -> n < 256 -> c = ch n.
Proof.
  unfold is_c, ch. intros c n H Hn. apply Nat.eqb_eq in H. subst n.
  symmetry. apply ascii_nat_embedding.
Qed.

Lemma is_c_ch : forall n, n < 256 -> is_c (ch n) n = true.
Proof. unfold is_c, ch. intros. rewrite nat_ascii_embedding by assumption. apply Nat.eqb_refl. Qed.

(* ---------------------------------------------------------------- TrimSuffix *)

Lemma trim_nl_spec : forall s, one_newline_removed s (trim_nl s).
Proof.
  intros s. unfold trim_nl, one_newline_removed.
  destruct (rev (chars s)) as [|c r] eqn:E.
  - right. split; [reflexivity|].
    intros [p Hp]. apply (f_equal chars) in Hp. rewrite chars_app in Hp.
    apply (f_equal (@rev ascii)) in Hp. rewrite E, rev_app_distr in Hp. discriminate.
  - assert (Hs : chars s = rev r ++ [c]).
    { rewrite <- (rev_involutive (chars s)), E. reflexivity. }
    destruct (is_c c 10) eqn:Ec.
    + left. apply is_c_true in Ec; [|lia]. subst c.
      rewrite <- (str_of_chars s) at 1. rewrite Hs, str_of_app. reflexivity.
    + right. split; [reflexivity|].
      intros [p Hp]. apply (f_equal chars) in Hp. rewrite chars_app in Hp.
      apply (f_equal (@rev ascii)) in Hp. rewrite E, rev_app_distr in Hp. simpl in Hp.
      injection Hp as Hc _. subst c. rewrite is_c_ch in Ec by lia. discriminate.
Qed.

(* the spec determines the result *)
Lemma one_newline_removed_unique : forall out a b,
  one_newline_removed out a -> one_newline_removed out b -> a = b.
Proof.
  unfold one_newline_removed. intros out a b [Ha|[Ha Na]] [Hb|[Hb Nb]].
  - subst out. apply (f_equal chars) in Hb. rewrite !chars_app in Hb.
    apply app_inv_tail in Hb. rewrite <- (str_of_chars a), <- (str_of_chars b). congruence.
  - exfalso. apply Nb. exists a. exact Ha.
  - exfalso. apply Na. exists b. exact Hb.
  - congruence.
Qed.

(* ---------------------------------------------------------------- environments *)

Lemma cut_eq_entry : forall k v, no_eq k -> cut_eq (entry_str (k, v)) = Some (k, v).
Proof.
  unfold entry_str; simpl. induction k as [|c k IH]; intros v H; simpl.
  - reflexivity.
  - rewrite (H c) by (simpl; auto).
    rewrite IH; [reflexivity|]. intros c' Hc'. apply H. simpl; auto.
Qed.

Lemma first_get_app : forall a b k,
  first_get (a ++ b) k = match first_get a k with Some v => Some v | None => first_get b k end.
Proof.
  induction a as [|kv a IH]; intros; simpl; [reflexivity|].
  destruct (cut_eq kv) as [[k' v]|]; [destruct (String.eqb k k')|]; auto.
Qed.

Lemma first_get_entries : forall m k,
  (forall k' v, In (k', v) m -> no_eq k') -> first_get (map entry_str m) k = map_get m k.
Proof.
  induction m as [|[k0 v0] m IH]; intros k H; simpl; [reflexivity|].
  rewrite cut_eq_entry by (eapply H; left; reflexivity).
  destruct (String.eqb k k0); [reflexivity|]. apply IH. intros; eapply H; right; eauto.
Qed.

Lemma map_get_In : forall m k v, NoDup (map fst m) -> (map_get m k = Some v <-> In (k, v) m).
Proof.
  induction m as [|[k0 v0] m IH]; intros k v ND; simpl.
  - split; [discriminate|tauto].
  - inversion ND as [|? ? Hn ND']; subst.
    destruct (String.eqb k k0) eqn:E.
    + apply String.eqb_eq in E. subst k0. split.
      * intros H; inversion H; auto.
      * intros [H|H]; [inversion H; reflexivity|].
        exfalso. apply Hn. apply (in_map fst) in H. exact H.
    + apply String.eqb_neq in E. rewrite IH by assumption. split; [auto|].
      intros [H|H]; [inversion H; congruence|exact H].
Qed.

Lemma map_get_perm : forall m m' k,
  NoDup (map fst m) -> Permutation m m' -> map_get m k = map_get m' k.
Proof.
  intros m m' k ND P.
  assert (ND' : NoDup (map fst m')) by (eapply Permutation_NoDup; [apply Permutation_map; exact P|exact ND]).
  destruct (map_get m k) as [v|] eqn:E.
  - apply map_get_In in E; [|assumption]. symmetry. apply map_get_In; [assumption|].
    eapply Permutation_in; eauto.
  - destruct (map_get m' k) as [v'|] eqn:E'; [|reflexivity].
    apply map_get_In in E'; [|assumption].
    apply Permutation_sym in P. eapply Permutation_in in E'; [|exact P].
    apply map_get_In in E'; [|assumption]. congruence.
Qed.

Lemma keys_ok_perm : forall m m', keys_ok m -> Permutation m m' -> keys_ok m'.
Proof.
  intros m m' [ND H] P. split.
  - eapply Permutation_NoDup; [apply Permutation_map; exact P|exact ND].
  - intros k v Hin. apply (H k v). eapply Permutation_in; [apply Permutation_sym; exact P|exact Hin].
Qed.

Lemma keys_ok_rev : forall m, keys_ok m -> keys_ok (rev m).
Proof. intros. eapply keys_ok_perm; [eassumption|apply Permutation_rev]. Qed.

Lemma mem_str_cons : forall k k0 saw, mem_str k (k0 :: saw) = String.eqb k k0 || mem_str k saw.
Proof. reflexivity. Qed.

(* os/exec's de-duplication keeps, for every key, the LAST entry of the list *)
Lemma dedup_first_get : forall l saw out k,
  (forall k', mem_str k' saw = false -> first_get out k' = None) ->
  first_get (dedup_from_end l saw out) k = if mem_str k saw then first_get out k else first_get l k.
Proof.
  induction l as [|kv l IH]; intros saw out k Inv; simpl.
  - destruct (mem_str k saw) eqn:E; [reflexivity|]. apply Inv; assumption.
  - destruct (cut_eq kv) as [[k0 v0]|] eqn:C.
    + destruct (mem_str k0 saw) eqn:M0.
      * rewrite IH by assumption. destruct (mem_str k saw) eqn:M; [reflexivity|].
        destruct (String.eqb k k0) eqn:E; [|reflexivity].
        apply String.eqb_eq in E. congruence.
      * rewrite IH.
        -- rewrite mem_str_cons. simpl. rewrite C.
           destruct (String.eqb k k0) eqn:E; simpl.
           ++ apply String.eqb_eq in E. subst k0. rewrite M0. reflexivity.
           ++ reflexivity.
        -- intros k' Hk'. rewrite mem_str_cons in Hk'. apply orb_false_iff in Hk' as [E M].
           simpl. rewrite C, E. apply Inv; assumption.
    + destruct (String.eqb kv EmptyString).
      * apply IH; assumption.
      * rewrite IH.
        -- simpl. rewrite C. reflexivity.
        -- intros k' Hk'. simpl. rewrite C. apply Inv; assumption.
Qed.

Lemma child_getenv_dedup : forall env k, child_getenv (dedup_env env) k = first_get (rev env) k.
Proof.
  intros. unfold child_getenv, dedup_env. rewrite dedup_first_get; [reflexivity|reflexivity].
Qed.

(* the child's view of a variable: the map entry if there is one, else the inherited value *)
Lemma child_env_lookup : forall penv envm k, keys_ok penv -> keys_ok envm ->
  child_getenv (dedup_env (environ penv ++ map entry_str envm)) k =
  match map_get envm k with Some v => Some v | None => map_get penv k end.
Proof.
  intros penv envm k Hp Hm. rewrite child_getenv_dedup. unfold environ.
  rewrite rev_app_distr, <- !map_rev, first_get_app.
  pose proof (keys_ok_rev _ Hp) as [_ Hp'].
  pose proof (keys_ok_rev _ Hm) as [_ Hm'].
  rewrite !first_get_entries by assumption.
  destruct Hp as [NDp _], Hm as [NDm _].
  rewrite <- (map_get_perm envm (rev envm) k NDm (Permutation_rev envm)).
  rewrite <- (map_get_perm penv (rev penv) k NDp (Permutation_rev penv)).
  reflexivity.
Qed.

(* ---------------------------------------------------------------- expansion *)

Lemma expand_go_ext : forall (f g : string -> string), (forall k, f k = g k) ->
  forall fuel s, expand_go f fuel s = expand_go g fuel s.
Proof.
  intros f g H. induction fuel as [|n IH]; intros s; simpl; [reflexivity|].
  destruct s as [|c r]; [reflexivity|].
  destruct (is_c c 36).
  - destruct r as [|c1 r1]; [reflexivity|].
    destruct (getShellName (c1 :: r1)) as [name w].
    destruct name as [|a name'].
    + destruct (Nat.ltb 0 w); rewrite IH; reflexivity.
    + rewrite H, IH. reflexivity.
  - rewrite IH. reflexivity.
Qed.

Lemma expand_ext : forall (f g : string -> string), (forall k, f k = g k) ->
  forall s, expand f s = expand g s.
Proof. intros. unfold expand. erewrite expand_go_ext; eauto. Qed.

(* ---------------------------------------------------------------- CmdRan / ExitStatus on raw errors *)

Lemma raw_statuses : forall r,
  let e := cmd_run_err r in
  (forall k o eo, r = Started k o eo -> sh_CmdRan e = true /\ sh_ExitStatus e = k) /\
  (r = NotStarted -> sh_CmdRan e = false /\ sh_ExitStatus e = 1%Z) /\
  (forall s o eo, r = Signaled s o eo -> sh_CmdRan e = false /\ sh_ExitStatus e = (-1)%Z).
Proof.
  intros r e. subst e. repeat split; intros; subst r; simpl; auto.
  - destruct (Z.eqb k 0); reflexivity.
  - destruct (Z.eqb k 0) eqn:E; simpl; [apply Z.eqb_eq in E; congruence|reflexivity].
Qed.

(* error values that are not os/exec's: CmdRan says false, ExitStatus follows the method *)
Lemma raw_other_shapes : forall c,
  sh_CmdRan (EFatal c) = false /\ sh_ExitStatus (EFatal c) = c /\ mg_ExitStatus (EFatal c) = c /\
  sh_CmdRan EOther = false /\ sh_ExitStatus EOther = 1%Z /\ mg_ExitStatus EOther = 1%Z /\
  sh_CmdRan ENil = true /\ sh_ExitStatus ENil = 0%Z /\ mg_ExitStatus ENil = 0%Z.
Proof. intros; repeat split. Qed.

(* ---------------------------------------------------------------- Exec and the wrappers *)

Section W.
Variable penv : envlist.
Variable child : list string -> list string -> child_result.

(* the outcome part of Exec's result as a function of what the child did *)
Definition outcome (r : child_result) : bool * err :=
  match r with
  | Started k _ _ => if Z.eqb k 0 then (true, ENil) else (true, EFatal k)
  | Signaled _ _ _ => (false, EOther)
  | NotStarted => (false, EOther)
  end.

Lemma exec_core : forall envm so se cmd args,
  let x := exec_ penv child envm so se cmd args in
  let r := child (k_argv x) (k_envp x) in
  k_child x = r /\
  k_argv x = map (expand (exec_mapping penv envm)) (cmd :: args) /\
  k_envp x = dedup_env (environ penv ++ map entry_str envm) /\
  k_stdin x = OsStdin /\
  (k_ran x, k_err x) = outcome r /\
  k_text x = EmptyString /\
  k_os_stdout x = String.append (reaches WOsStdout so (child_out r)) (reaches WOsStdout se (child_err r)) /\
  k_os_stderr x = String.append (reaches WOsStderr so (child_out r)) (reaches WOsStderr se (child_err r)) /\
  k_buf_out x = reaches WBuf so (child_out r) /\
  k_buf_err x = reaches WBuf se (child_err r).
Proof.
  intros envm so se cmd args. unfold exec_, run_. simpl.
  set (argv := expand (exec_mapping penv envm) cmd :: map (expand (exec_mapping penv envm)) args).
  set (envp := dedup_env (environ penv ++ map entry_str envm)).
  destruct (child argv envp) as [k o eo|s o eo|] eqn:R; simpl.
  - destruct (Z.eqb k 0) eqn:E; simpl; rewrite R; simpl; rewrite ?E; repeat split; reflexivity.
  - rewrite R. repeat split; reflexivity.
  - rewrite R. repeat split; reflexivity.
Qed.

Lemma call_entry_exec : forall f envm cmd args,
  call_entry penv child f envm cmd args =
  (if is_output f then with_text else (fun x => x))
    (exec_ penv child (entry_env f envm) (entry_so penv f) (entry_se f) cmd args).
Proof. destruct f; reflexivity. Qed.

(* the same facts for every entry point *)
Lemma call_core : forall f envm cmd args,
  let x := call_entry penv child f envm cmd args in
  let r := child (k_argv x) (k_envp x) in
  let m := entry_env f envm in
  k_child x = r /\
  k_argv x = map (expand (exec_mapping penv m)) (cmd :: args) /\
  k_envp x = dedup_env (environ penv ++ map entry_str m) /\
  k_stdin x = OsStdin /\
  (k_ran x, k_err x) = outcome r /\
  k_text x = (if is_output f then trim_nl (child_out r) else EmptyString) /\
  k_os_stdout x = String.append (reaches WOsStdout (entry_so penv f) (child_out r)) (reaches WOsStdout (entry_se f) (child_err r)) /\
  k_os_stderr x = String.append (reaches WOsStderr (entry_so penv f) (child_out r)) (reaches WOsStderr (entry_se f) (child_err r)) /\
  k_buf_out x = reaches WBuf (entry_so penv f) (child_out r) /\
  k_buf_err x = reaches WBuf (entry_se f) (child_err r).
Proof.
  intros f envm cmd args. cbv zeta. rewrite call_entry_exec.
  pose proof (exec_core (entry_env f envm) (entry_so penv f) (entry_se f) cmd args) as H.
  cbv zeta in H.
  set (e := exec_ penv child (entry_env f envm) (entry_so penv f) (entry_se f) cmd args) in *.
  clearbody e.
  destruct H as (H1 & H2 & H3 & H4 & H5 & H6 & H7 & H8 & H9 & H10).
  destruct f; unfold with_text; simpl in *; repeat split; try assumption;
    rewrite H9; reflexivity.
Qed.

Ltac core f envm cmd args :=
  let H := fresh "H" in
  pose proof (call_core f envm cmd args) as H; cbv zeta in H;
  destruct H as (Hchild & Hargv & Henvp & Hstdin & Hout & Htext & Hso & Hse & Hbo & Hbe).

Ltac outc := match goal with Hout : (_, _) = (_, _) |- _ =>
  let Hr := fresh "Hr" in let He := fresh "He" in injection Hout as Hr He; rewrite ?Hr, ?He end.

(* err = nil exactly when the child exited 0 *)
Lemma nil_iff_zero : forall f envm cmd args,
  let x := call_entry penv child f envm cmd args in
  k_err x = ENil <-> exists o eo, child (k_argv x) (k_envp x) = Started 0 o eo.
Proof.
  intros f envm cmd args x. subst x. core f envm cmd args.
  destruct (child _ _) as [k o eo|s o eo|] eqn:R; simpl in Hout.
  - destruct (Z.eqb k 0) eqn:E; outc; split.
    + intros _. apply Z.eqb_eq in E. subst k. eauto.
    + reflexivity.
    + discriminate.
    + intros (o' & eo' & H). inversion H; subst. discriminate.
  - outc. split; [discriminate|]. intros (o' & eo' & H); discriminate.
  - outc. split; [discriminate|]. intros (o' & eo' & H); discriminate.
Qed.

(* exit code k <> 0: both ExitStatus functions give k, Exec's first result is true *)
Lemma status_k : forall f envm cmd args k o eo,
  let x := call_entry penv child f envm cmd args in
  child (k_argv x) (k_envp x) = Started k o eo -> k <> 0%Z ->
  mg_ExitStatus (k_err x) = k /\ sh_ExitStatus (k_err x) = k /\ k_ran x = true /\ k_err x = EFatal k.
Proof.
  intros f envm cmd args k o eo x R Hk. subst x. core f envm cmd args.
  rewrite R in Hout. simpl in Hout.
  destruct (Z.eqb k 0) eqn:E; [apply Z.eqb_eq in E; contradiction|].
  outc. repeat split.
Qed.

Lemma exit_zero : forall f envm cmd args o eo,
  let x := call_entry penv child f envm cmd args in
  child (k_argv x) (k_envp x) = Started 0 o eo ->
  mg_ExitStatus (k_err x) = 0%Z /\ sh_ExitStatus (k_err x) = 0%Z /\ k_ran x = true.
Proof.
  intros f envm cmd args o eo x R. subst x. core f envm cmd args.
  rewrite R in Hout. simpl in Hout. outc. repeat split.
Qed.

Lemma not_started : forall f envm cmd args,
  let x := call_entry penv child f envm cmd args in
  child (k_argv x) (k_envp x) = NotStarted ->
  k_ran x = false /\ mg_ExitStatus (k_err x) = 1%Z /\ sh_ExitStatus (k_err x) = 1%Z /\ k_err x <> ENil.
Proof.
  intros f envm cmd args x R. subst x. core f envm cmd args.
  rewrite R in Hout. simpl in Hout. outc. repeat split. discriminate.
Qed.

(* what the code does for a child killed by a signal (the property sentence is silent here) *)
Lemma signaled : forall f envm cmd args s o eo,
  let x := call_entry penv child f envm cmd args in
  child (k_argv x) (k_envp x) = Signaled s o eo ->
  k_ran x = false /\ mg_ExitStatus (k_err x) = 1%Z /\ sh_ExitStatus (k_err x) = 1%Z /\ k_err x <> ENil.
Proof.
  intros f envm cmd args s o eo x R. subst x. core f envm cmd args.
  rewrite R in Hout. simpl in Hout. outc. repeat split. discriminate.
Qed.

(* CmdRan / ExitStatus of the raw os/exec error agree with Exec's answers (exited or not started) *)
Lemma raw_agrees : forall f envm cmd args,
  let x := call_entry penv child f envm cmd args in
  let r := child (k_argv x) (k_envp x) in
  (forall s o eo, r <> Signaled s o eo) ->
  sh_CmdRan (cmd_run_err r) = k_ran x /\
  sh_ExitStatus (cmd_run_err r) = mg_ExitStatus (k_err x) /\
  sh_ExitStatus (cmd_run_err r) = sh_ExitStatus (k_err x).
Proof.
  intros f envm cmd args x r NS. subst x r. core f envm cmd args.
  destruct (child _ _) as [k o eo|s o eo|] eqn:R; simpl in Hout.
  - simpl. destruct (Z.eqb k 0) eqn:E; outc; simpl; auto.
  - exfalso. eapply NS. reflexivity.
  - outc. simpl. auto.
Qed.

(* Output / OutputWith: stdout with exactly one trailing newline removed *)
Lemma output_trim : forall f envm cmd args, is_output f = true ->
  let x := call_entry penv child f envm cmd args in
  one_newline_removed (child_out (child (k_argv x) (k_envp x))) (k_text x).
Proof.
  intros f envm cmd args Hf x. subst x. core f envm cmd args.
  rewrite Htext, Hf. apply trim_nl_spec.
Qed.

(* env map entries override inherited variables, in the child's environment and in expansion *)
Lemma env_override : forall f envm cmd args, keys_ok penv -> keys_ok envm ->
  let x := call_entry penv child f envm cmd args in
  let m := entry_env f envm in
  let sees := child_getenv (k_envp x) in
  (forall key, sees key = match map_get m key with Some v => Some v | None => map_get penv key end) /\
  k_argv x = map (expand (fun name => or_empty (sees name))) (cmd :: args).
Proof.
  intros f envm cmd args Hp Hm x m sees. subst x sees. core f envm cmd args.
  assert (Hm' : keys_ok m).
  { subst m. destruct f; simpl; try assumption; (split; [constructor|intros ? ? []]). }
  assert (L : forall key, child_getenv (k_envp (call_entry penv child f envm cmd args)) key =
                          match map_get m key with Some v => Some v | None => map_get penv key end).
  { intros key. rewrite Henvp. apply child_env_lookup; assumption. }
  split; [exact L|].
  rewrite Hargv. apply map_ext. intros s. apply expand_ext. intros name.
  rewrite L. unfold exec_mapping, getenv. fold m.
  destruct (map_get m name); [reflexivity|]. destruct (map_get penv name); reflexivity.
Qed.

(* ... whatever order the map is iterated in *)
Lemma map_order_irrelevant : forall f envm envm' cmd args, keys_ok penv -> keys_ok envm ->
  Permutation envm envm' ->
  let x := call_entry penv child f envm cmd args in
  let x' := call_entry penv child f envm' cmd args in
  k_argv x = k_argv x' /\ forall key, child_getenv (k_envp x) key = child_getenv (k_envp x') key.
Proof.
  intros f envm envm' cmd args Hp Hm P x x'.
  pose proof (keys_ok_perm _ _ Hm P) as Hm'.
  destruct (env_override f envm cmd args Hp Hm) as [L A].
  destruct (env_override f envm' cmd args Hp Hm') as [L' A'].
  assert (E : forall key, map_get (entry_env f envm) key = map_get (entry_env f envm') key).
  { intros key. destruct f; simpl; try reflexivity; apply map_get_perm; try assumption; apply Hm. }
  assert (S : forall key, child_getenv (k_envp x) key = child_getenv (k_envp x') key).
  { intros key. subst x x'. rewrite L, L', E. reflexivity. }
  split; [|exact S].
  subst x x'. rewrite A, A'. apply map_ext. intros s. apply expand_ext. intros name.
  f_equal. apply S.
Qed.

(* routing of the three standard streams by the six wrappers *)
Lemma routing : forall f envm cmd args, is_wrapper f ->
  let x := call_entry penv child f envm cmd args in
  let r := child (k_argv x) (k_envp x) in
  k_os_stdout x = (if stdout_shown penv f then child_out r else EmptyString) /\
  k_os_stderr x = child_err r /\
  k_stdin x = OsStdin.
Proof.
  intros f envm cmd args Hf x r. subst x r. core f envm cmd args.
  rewrite Hso, Hse. split; [|split; [|assumption]];
    destruct f; simpl; try contradiction; unfold reaches; simpl;
    try destruct (verbose penv); simpl; rewrite ?append_nil_r; reflexivity.
Qed.

Lemma stdout_shown_iff : forall f,
  stdout_shown penv f = true <->
  (f = FRunV \/ f = FRunWithV \/ ((f = FRun \/ f = FRunWith) /\ verbose penv = true)).
Proof.
  intros f. destruct f; simpl; split; intros H; auto;
    try discriminate;
    try (destruct H as [H|[H|[[H|H] _]]]; discriminate);
    try (destruct H as [H|[H|[_ H]]]; [discriminate|discriminate|assumption]).
Qed.

(* Exec with caller-supplied writers: each stream reaches exactly the writer it was wired to *)
Lemma exec_writers : forall so se envm cmd args,
  let x := call_entry penv child (FExec so se) envm cmd args in
  let r := child (k_argv x) (k_envp x) in
  k_buf_out x = (if writer_eqb WBuf so then child_out r else EmptyString) /\
  k_buf_err x = (if writer_eqb WBuf se then child_err r else EmptyString).
Proof.
  intros so se envm cmd args x r. subst x r. core (FExec so se) envm cmd args.
  rewrite Hbo, Hbe. split; reflexivity.
Qed.
End W.

(* ---------------------------------------------------------------- non-vacuity *)

Definition nv_penv : envlist := [("PATH", "/bin"); ("A", "inherited"); ("B", "b=1$A"); ("MAGEFILE_VERBOSE", "0")].
Definition nv_envm : envlist := [("A", "from map"); ("C", "")].
Definition nv_child (argv envp : list string) : child_result :=
  match argv with
  | cmd :: _ => if String.eqb cmd "/bin/tool" then Started 3 (String.append "out" (String.append nl nl)) "err" else NotStarted
  | [] => NotStarted
  end.

Lemma nonvacuous_c15 :
  keys_ok nv_penv /\ keys_ok nv_envm /\
  let x := call_entry nv_penv nv_child FOutputWith nv_envm "$PATH/tool" ["$A"; "${B}"; "$C$$"; "x$"] in
  k_argv x = ["/bin/tool"; "from map"; "b=1$A"; ""; "x$"] /\
  child_getenv (k_envp x) "A" = Some "from map" /\ child_getenv (k_envp x) "B" = Some "b=1$A" /\
  child_getenv (k_envp x) "C" = Some "" /\ child_getenv (k_envp x) "D" = None /\
  k_err x = EFatal 3 /\ k_ran x = true /\ k_text x = String.append "out" nl /\
  k_os_stdout x = "" /\ k_os_stderr x = "err" /\
  k_err (call_entry nv_penv nv_child FRun nv_envm "tool" []) = EOther /\
  k_os_stdout (call_entry nv_penv nv_child FRunV nv_envm "/bin/tool" []) = String.append "out" (String.append nl nl) /\
  k_os_stdout (call_entry nv_penv nv_child FRun nv_envm "/bin/tool" []) = "".
Proof.
  split; [|split].
  - split.
    + simpl. repeat constructor; simpl; intuition discriminate.
    + intros k v H c Hc. simpl in H.
      repeat (destruct H as [H|H]; [inversion H; subst; simpl in Hc;
        repeat (destruct Hc as [Hc|Hc]; [subst c; reflexivity|]); contradiction|]). contradiction.
  - split.
    + simpl. repeat constructor; simpl; intuition discriminate.
    + intros k v H c Hc. simpl in H.
      repeat (destruct H as [H|H]; [inversion H; subst; simpl in Hc;
        repeat (destruct Hc as [Hc|Hc]; [subst c; reflexivity|]); contradiction|]). contradiction.
  - vm_compute. repeat split.
Qed.

(* ---------------------------------------------------------------- Exec with writers that fail (exec_x) *)

Lemma length_chars : forall s, length (chars s) = String.length s.
Proof. induction s; simpl; congruence. Qed.
Lemma length_str_of : forall l, String.length (str_of l) = length l.
Proof. induction l; simpl; congruence. Qed.

(* a buffer accepts the whole stream; a writer that fails after n bytes has accepted exactly the first
   min(n, length) bytes and reports a failure exactly when the stream is longer than n *)
Lemma accepted_spec : forall w d,
  match w with
  | XW WBuf => accepted w d = d /\ write_fails w d = false
  | XW _ => accepted w d = EmptyString /\ write_fails w d = false
  | XFail n => (exists rest, d = String.append (accepted w d) rest) /\
               String.length (accepted w d) = Nat.min n (String.length d) /\
               (write_fails w d = true <-> n < String.length d)
  end.
Proof.
  intros [[| | |]|n] d; simpl; try (split; reflexivity).
  split; [|split].
  - exists (str_of (skipn n (chars d))). rewrite <- str_of_app, firstn_skipn, str_of_chars. reflexivity.
  - rewrite length_str_of, firstn_length, length_chars. reflexivity.
  - apply Nat.ltb_lt.
Qed.

Lemma run_err_no_copy_error : forall r, run_err r false = cmd_run_err r.
Proof. intros r. unfold run_err. destruct (cmd_run_err r); reflexivity. Qed.

Section X.
Variable penv : envlist.
Variable child : list string -> list string -> child_result.

(* copying the child's output into the writers reported an error *)
Definition copy_failed (so se : xwriter) (r : child_result) : bool :=
  write_fails so (child_out r) || write_fails se (child_err r).

(* the outcome part of Exec's result as a function of what the child did and of the copy error *)
Definition outcome_x (r : child_result) (copy_err : bool) : bool * err :=
  match r with
  | Started k _ _ => if Z.eqb k 0 then (if copy_err then (false, EOther) else (true, ENil)) else (true, EFatal k)
  | Signaled _ _ _ => (false, EOther)
  | NotStarted => (false, EOther)
  end.

(* conservative: with writers that never fail exec_x IS exec_ *)
Lemma exec_x_conservative : forall envm so se cmd args,
  exec_x penv child envm (XW so) (XW se) cmd args = exec_ penv child envm so se cmd args.
Proof.
  intros. unfold exec_x, exec_, run_x, run_. simpl. rewrite run_err_no_copy_error. reflexivity.
Qed.

Lemma exec_x_core : forall envm so se cmd args,
  let x := exec_x penv child envm so se cmd args in
  let r := child (k_argv x) (k_envp x) in
  k_child x = r /\
  k_argv x = map (expand (exec_mapping penv envm)) (cmd :: args) /\
  k_envp x = dedup_env (environ penv ++ map entry_str envm) /\
  k_stdin x = OsStdin /\
  (k_ran x, k_err x) = outcome_x r (copy_failed so se r) /\
  k_buf_out x = accepted so (child_out r) /\
  k_buf_err x = accepted se (child_err r).
Proof.
  intros envm so se cmd args. unfold exec_x, run_x, run_err, copy_failed. simpl.
  set (argv := expand (exec_mapping penv envm) cmd :: map (expand (exec_mapping penv envm)) args).
  set (envp := dedup_env (environ penv ++ map entry_str envm)).
  destruct (child argv envp) as [k o eo|s o eo|] eqn:R; simpl.
  - destruct (Z.eqb k 0) eqn:E; simpl;
      [destruct (write_fails so o || write_fails se eo) eqn:C; simpl|];
      rewrite R; simpl; rewrite ?E, ?C; repeat split; reflexivity.
  - rewrite R. repeat split; reflexivity.
  - rewrite R. repeat split; reflexivity.
Qed.

Ltac xcore envm so se cmd args :=
  let H := fresh "H" in
  pose proof (exec_x_core envm so se cmd args) as H; cbv zeta in H;
  destruct H as (Hchild & Hargv & Henvp & Hstdin & Hout & Hbo & Hbe).
Ltac xoutc := match goal with Hout : (_, _) = (_, _) |- _ =>
  let Hr := fresh "Hr" in let He := fresh "He" in injection Hout as Hr He; rewrite ?Hr, ?He end.

(* err = nil exactly when the child exited 0 and copying its output did not fail *)
Lemma x_nil_iff : forall envm so se cmd args,
  let x := exec_x penv child envm so se cmd args in
  let r := child (k_argv x) (k_envp x) in
  k_err x = ENil <-> (exists o eo, r = Started 0 o eo) /\ copy_failed so se r = false.
Proof.
  intros envm so se cmd args x r. subst x r. xcore envm so se cmd args.
  destruct (child _ _) as [k o eo|s o eo|] eqn:R; simpl in Hout.
  - destruct (Z.eqb k 0) eqn:E;
      [destruct (copy_failed so se (Started k o eo)) eqn:C|]; xoutc; split.
    + discriminate.
    + intros [_ H]; discriminate.
    + intros _. apply Z.eqb_eq in E. subst k. split; [eauto|reflexivity].
    + reflexivity.
    + discriminate.
    + intros [(o' & eo' & H) _]. inversion H; subst. discriminate.
  - xoutc. split; [discriminate|]. intros [(o' & eo' & H) _]; discriminate.
  - xoutc. split; [discriminate|]. intros [(o' & eo' & H) _]; discriminate.
Qed.

(* whatever the writers do: exit k <> 0 is reported as k, a signaled or not started child as a plain error *)
Lemma x_status : forall envm so se cmd args,
  let x := exec_x penv child envm so se cmd args in
  let r := child (k_argv x) (k_envp x) in
  (forall k o eo, r = Started k o eo -> k <> 0%Z ->
     k_ran x = true /\ k_err x = EFatal k /\ mg_ExitStatus (k_err x) = k /\ sh_ExitStatus (k_err x) = k) /\
  ((r = NotStarted \/ exists s o eo, r = Signaled s o eo) ->
     k_ran x = false /\ k_err x = EOther /\ mg_ExitStatus (k_err x) = 1%Z /\ sh_ExitStatus (k_err x) = 1%Z).
Proof.
  intros envm so se cmd args x r. subst x r. xcore envm so se cmd args.
  destruct (child _ _) as [k o eo|s o eo|] eqn:R; simpl in Hout; split.
  - intros k' o' eo' H Hk. inversion H; subst k' o' eo'.
    destruct (Z.eqb k 0) eqn:E; [apply Z.eqb_eq in E; contradiction|]. xoutc. repeat split.
  - intros [H|(s & o' & eo' & H)]; discriminate.
  - intros k' o' eo' H; discriminate.
  - intros _. xoutc. repeat split.
  - intros k' o' eo' H; discriminate.
  - intros _. xoutc. repeat split.
Qed.

(* the command exits 0 but a writer fails: reported like a command that did not run *)
Lemma x_failing_writer : forall envm so se cmd args o eo,
  let x := exec_x penv child envm so se cmd args in
  child (k_argv x) (k_envp x) = Started 0 o eo -> copy_failed so se (Started 0 o eo) = true ->
  k_ran x = false /\ k_err x = EOther /\ mg_ExitStatus (k_err x) = 1%Z /\ sh_ExitStatus (k_err x) = 1%Z.
Proof.
  intros envm so se cmd args o eo x R C. subst x. xcore envm so se cmd args.
  rewrite R in Hout. simpl in Hout. rewrite C in Hout. xoutc. repeat split.
Qed.

(* a non-nil error never carries status 0 *)
Lemma x_nonnil_status_nonzero : forall envm so se cmd args,
  let x := exec_x penv child envm so se cmd args in
  k_err x <> ENil -> mg_ExitStatus (k_err x) <> 0%Z /\ sh_ExitStatus (k_err x) <> 0%Z.
Proof.
  intros envm so se cmd args x. subst x. xcore envm so se cmd args.
  destruct (child _ _) as [k o eo|s o eo|] eqn:R; simpl in Hout.
  - destruct (Z.eqb k 0) eqn:E;
      [destruct (copy_failed so se (Started k o eo)) eqn:C|]; xoutc; simpl; intros H.
    + split; discriminate.
    + contradiction.
    + apply Z.eqb_neq in E. split; assumption.
  - xoutc. simpl. intros _. split; discriminate.
  - xoutc. simpl. intros _. split; discriminate.
Qed.

Lemma x_writers : forall envm so se cmd args,
  let x := exec_x penv child envm so se cmd args in
  let r := child (k_argv x) (k_envp x) in
  k_buf_out x = accepted so (child_out r) /\ k_buf_err x = accepted se (child_err r) /\
  k_argv x = map (expand (exec_mapping penv envm)) (cmd :: args) /\
  k_envp x = dedup_env (environ penv ++ map entry_str envm) /\ k_stdin x = OsStdin.
Proof.
  intros envm so se cmd args x r. subst x r. xcore envm so se cmd args. repeat split; assumption.
Qed.
End X.

Lemma nonvacuous_x :
  let x := exec_x nv_penv nv_child nv_envm (XFail 2) (XW WBuf) "/bin/tool" [] in
  let y := exec_x nv_penv (fun _ _ => Started 0 "abc" "") nv_envm (XFail 2) (XW WBuf) "/bin/tool" [] in
  k_err x = EFatal 3 /\ k_buf_out x = "ou" /\ k_buf_err x = "err" /\
  k_err y = EOther /\ k_ran y = false /\ k_buf_out y = "ab" /\
  k_err (exec_x nv_penv (fun _ _ => Started 0 "ab" "") nv_envm (XFail 2) (XW WBuf) "/bin/tool" []) = ENil.
Proof. vm_compute. repeat split. Qed.

(* ---------------------------------------------------------------- overlapping calls *)

(* what a call started alone in environment pe hands to the OS *)
Definition alone_argv (pe : envlist) (c : pcall) : list string :=
  map (expand (exec_mapping pe (pc_envm c))) (pc_cmd c :: pc_args c).
Definition alone_envp (pe : envlist) (c : pcall) : list string :=
  dedup_env (environ pe ++ map entry_str (pc_envm c)).
Definition obs_of_alone (pe : envlist) (c : pcall) (o : pobs) : Prop :=
  (forall v, po_argv o = Some v -> v = alone_argv pe c) /\ (forall e, po_envp o = Some e -> e = alone_envp pe c).

Lemma alone_is_exec : forall pe child c so se,
  let x := exec_ pe child (pc_envm c) so se (pc_cmd c) (pc_args c) in
  k_argv x = alone_argv pe c /\ k_envp x = alone_envp pe c.
Proof.
  intros pe child c so se. pose proof (exec_core pe child (pc_envm c) so se (pc_cmd c) (pc_args c)) as H.
  cbv zeta in H. destruct H as (_ & H2 & H3 & _). split; assumption.
Qed.

Lemma step_call_inv : forall pe c o s, obs_of_alone pe c o ->
  fst (step_call pe c o s) = pe /\ obs_of_alone pe c (snd (step_call pe c o s)).
Proof.
  intros pe c o s [Ha He]. destruct s; simpl; split; try reflexivity; split; simpl; intros v H;
    try (inversion H; reflexivity); auto.
Qed.

(* every interleaving of the steps of two calls: the process environment is never changed, and whatever
   each call has handed to the OS is exactly what it hands over when it runs alone *)
Lemma par_calls_independent : forall sched a b pe oa ob,
  obs_of_alone pe a oa -> obs_of_alone pe b ob ->
  let '(pe', (oa', ob')) := par_calls sched a b pe oa ob in
  pe' = pe /\ obs_of_alone pe a oa' /\ obs_of_alone pe b ob'.
Proof.
  induction sched as [|[w s] r IH]; intros a b pe oa ob Ha Hb; simpl.
  - auto.
  - destruct w.
    + destruct (step_call_inv pe a oa s Ha) as [E1 E2].
      destruct (step_call pe a oa s) as [pe' oa'] eqn:S. simpl in E1, E2. subst pe'. apply IH; assumption.
    + destruct (step_call_inv pe b ob s Hb) as [E1 E2].
      destruct (step_call pe b ob s) as [pe' ob'] eqn:S. simpl in E1, E2. subst pe'. apply IH; assumption.
Qed.

Lemma obs0_alone : forall pe c, obs_of_alone pe c pobs0.
Proof. intros; split; intros v H; discriminate. Qed.

(* the t.Setenv-style design is not independent: B, which has no map, expands $A to A's value, its child
   inherits it, and after "start A, start B, end A, end B" the process environment has changed *)
Definition sx_a : pcall := {| pc_envm := [("A", "from a")]; pc_cmd := "tool"; pc_args := ["$A"] |}.
Definition sx_b : pcall := {| pc_envm := []; pc_cmd := "tool"; pc_args := ["$A"] |}.
Definition sx_pe : envlist := [("A", "inherited")].
Definition sx_sched : list (bool * pstep) :=
  [(true, PExpand); (true, PStart); (false, PExpand); (false, PStart); (true, PEnd); (false, PEnd)].
Definition pobs_s0 : pobs_s := {| ps_obs := pobs0; ps_prev := [] |}.

Lemma setenv_design_not_independent :
  let '(pe', (_, ob)) := par_calls_setenv sx_sched sx_a sx_b sx_pe pobs_s0 pobs_s0 in
  po_argv (ps_obs ob) = Some ["tool"; "from a"] /\ alone_argv sx_pe sx_b = ["tool"; "inherited"] /\
  po_envp (ps_obs ob) = Some ["A=from a"] /\ alone_envp sx_pe sx_b = ["A=inherited"] /\
  (* while the code that exists gives, on the same schedule: *)
  (let '(pe2, (_, ob2)) := par_calls sx_sched sx_a sx_b sx_pe pobs0 pobs0 in
   pe2 = sx_pe /\ po_argv ob2 = Some ["tool"; "inherited"] /\ po_envp ob2 = Some ["A=inherited"]).
Proof. vm_compute. repeat split. Qed.
