(* Lemmas for C16 over Model/Slices.v.
   The argument is a disjoint-footprint argument, organised as a small weakest-precondition calculus:
   a goroutine's view of memory is the SHARED arrays (those that existed before the call; nobody
   writes them) plus a PRIVATE heap of the arrays it allocated itself.  [wp] says a program is correct
   in that view and only ever writes private arrays; [step_preserves] shows one atomic action keeps
   the real heap in agreement with both goroutines' views, whoever moves; induction over the
   interleaving gives the concurrent theorem, and the sequential history theorems are the special
   case of a second goroutine that does nothing. *)
From Mage Require Import Base.Strs Base.Expand Model.Slices.

(* ------------------------------------------------------------------ lists *)
Lemma upd_length {A} : forall i (v : A) l, length (upd i v l) = length l.
Proof. intros i v l; revert i; induction l; destruct i; simpl; auto. Qed.

Lemma nth_upd_same {A} : forall i (v d : A) l, i < length l -> nth i (upd i v l) d = v.
Proof. intros i v d l; revert i; induction l; destruct i; simpl; intros; try lia; auto. apply IHl; lia. Qed.

Lemma nth_upd_other {A} : forall i j (v d : A) l, i <> j -> nth j (upd i v l) d = nth j l d.
Proof. intros i j v d l; revert i j; induction l; destruct i, j; simpl; intros; try lia; auto. Qed.

Lemma firstn_upd {A} : forall n i (v : A) l, n <= i -> firstn n (upd i v l) = firstn n l.
Proof.
  intros n i v l; revert n i; induction l; destruct n, i; simpl; intros; try lia; auto.
  f_equal; apply IHl; lia.
Qed.

Lemma nth_firstn {A} : forall n i (l : list A) d, i < n -> nth i (firstn n l) d = nth i l d.
Proof. intros n i l d; revert n i; induction l; destruct n, i; simpl; intros; try lia; auto. apply IHl; lia. Qed.

(* consecutive stores *)
Fixpoint upd_list (c : list string) (pos : nat) (vs : list string) : list string :=
  match vs with
  | [] => c
  | v :: r => upd_list (upd pos v c) (S pos) r
  end.

Lemma upd_app_exact {A} : forall (pre : list A) x rest v, upd (length pre) v (pre ++ x :: rest) = pre ++ v :: rest.
Proof. induction pre; simpl; intros; auto. f_equal; auto. Qed.

Lemma upd_list_app_exact : forall vs pre xs rest, length xs = length vs ->
  upd_list (pre ++ xs ++ rest) (length pre) vs = pre ++ vs ++ rest.
Proof.
  induction vs as [|v vs IH]; intros pre xs rest H; destruct xs as [|x xs]; simpl in *; try lia; auto.
  rewrite upd_app_exact.
  replace (pre ++ v :: xs ++ rest) with ((pre ++ [v]) ++ xs ++ rest) by (rewrite <- app_assoc; reflexivity).
  replace (S (length pre)) with (length (pre ++ [v])) by (rewrite app_length; simpl; lia).
  rewrite IH by lia. rewrite <- app_assoc; reflexivity.
Qed.

Lemma cells_length : forall a off j n, length (cells a off j n) = n.
Proof. intros; unfold cells; rewrite map_length, seq_length; reflexivity. Qed.

Lemma cells_S : forall a off j n, cells a off j (S n) = nth (off + j) a "" :: cells a off (S j) n.
Proof. reflexivity. Qed.

Lemma cells_all_from : forall l pre, cells (pre ++ l) (length pre) 0 (length l) = l.
Proof.
  unfold cells; induction l as [|x l IH]; intros pre; simpl; auto.
  f_equal.
  - rewrite Nat.add_0_r, app_nth2, Nat.sub_diag by lia; reflexivity.
  - rewrite <- seq_shift, map_map.
    specialize (IH (pre ++ [x])). rewrite <- app_assoc in IH; simpl in IH.
    rewrite <- IH at 2. apply map_ext; intros t. rewrite app_length; simpl. f_equal; lia.
Qed.

Lemma cells_all : forall l, cells l 0 0 (length l) = l.
Proof. intros; apply (cells_all_from l []). Qed.

Lemma cells_prefix : forall l rest, cells (l ++ rest) 0 0 (length l) = l.
Proof.
  intros. unfold cells. rewrite <- (cells_all l) at 2. unfold cells.
  apply map_ext_in; intros t Ht; apply in_seq in Ht. simpl. apply app_nth1; lia.
Qed.

(* ------------------------------------------------------------------ private heaps *)
Definition pheap := list (aid * list string).

Fixpoint plookup (own : pheap) (id : aid) : option (list string) :=
  match own with
  | [] => None
  | (id', c) :: r => if Nat.eqb id id' then Some c else plookup r id
  end.

Fixpoint pupd (own : pheap) (id : aid) (c : list string) : pheap :=
  match own with
  | [] => []
  | (id', c') :: r => if Nat.eqb id id' then (id', c) :: r else (id', c') :: pupd r id c
  end.

Lemma plookup_pupd_same : forall own id c c0, plookup own id = Some c0 -> plookup (pupd own id c) id = Some c.
Proof.
  induction own as [|[i x] r IH]; simpl; intros; try discriminate.
  destruct (Nat.eqb id i) eqn:E; simpl; rewrite E; eauto.
Qed.

Lemma plookup_pupd_other : forall own id id' c, id' <> id -> plookup (pupd own id c) id' = plookup own id'.
Proof.
  induction own as [|[i x] r IH]; simpl; intros; auto.
  destruct (Nat.eqb id i) eqn:E; simpl.
  - apply Nat.eqb_eq in E; subst. destruct (Nat.eqb id' i) eqn:E'; auto. apply Nat.eqb_eq in E'; lia.
  - destruct (Nat.eqb id' i); auto.
Qed.

Lemma pupd_same : forall own id c, plookup own id = Some c -> pupd own id c = own.
Proof.
  induction own as [|[i x] r IH]; simpl; intros; auto.
  destruct (Nat.eqb id i) eqn:E.
  - inversion H; subst; reflexivity.
  - f_equal; auto.
Qed.

Lemma pupd_pupd : forall own id c1 c2, pupd (pupd own id c1) id c2 = pupd own id c2.
Proof.
  induction own as [|[i x] r IH]; simpl; intros; auto.
  destruct (Nat.eqb id i) eqn:E; simpl; rewrite E; auto. f_equal; auto.
Qed.

Lemma plookup_pupd_none : forall own id id' c, plookup own id' = None -> plookup (pupd own id c) id' = None.
Proof.
  intros. destruct (Nat.eq_dec id' id) as [->|N].
  - destruct (plookup (pupd own id c) id) eqn:E; auto.
    clear -H E. induction own as [|[i x] r IH]; simpl in *; try discriminate.
    destruct (Nat.eqb id i) eqn:E'; simpl in *; try discriminate. rewrite E' in E. auto.
  - rewrite plookup_pupd_other; auto.
Qed.

(* ------------------------------------------------------------------ wp *)
(* [sh]: the shared arrays (ids below [length sh]); [own]: the goroutine's private arrays *)
Fixpoint wp {R} (sh : heap) (p : prog R) (own : pheap) (Q : pheap -> R -> Prop) : Prop :=
  match p with
  | Ret r => Q own r
  | Alloc n k => forall id, length sh <= id -> plookup own id = None -> wp sh (k id) ((id, repeat "" n) :: own) Q
  | Read id i k =>
      if Nat.ltb id (length sh) then wp sh (k (nth i (arr sh id) "")) own Q
      else match plookup own id with
           | Some c => wp sh (k (nth i c "")) own Q
           | None => False
           end
  | Write id i v k =>
      match plookup own id with                       (* only private arrays are ever stored to *)
      | Some c => wp sh k (pupd own id (upd i v c)) Q
      | None => False
      end
  end.

Lemma wp_mono {R} : forall sh (p : prog R) own (Q Q' : pheap -> R -> Prop),
  (forall o r, Q o r -> Q' o r) -> wp sh p own Q -> wp sh p own Q'.
Proof.
  intros sh p; induction p as [r|n k IH|id i k IH|id i v k IH]; simpl; intros own Q Q' HQ H.
  - auto.
  - intros nid Hid Hn. eapply IH; eauto.
  - destruct (Nat.ltb id (length sh)); [eapply IH; eauto|].
    destruct (plookup own id); auto. eapply IH; eauto.
  - destruct (plookup own id); auto. eapply IH; eauto.
Qed.

Lemma wp_bind {A B} : forall sh (p : prog A) (f : A -> prog B) own Q,
  wp sh p own (fun o a => wp sh (f a) o Q) -> wp sh (bind p f) own Q.
Proof.
  intros sh p; induction p as [r|n k IH|id i k IH|id i v k IH]; simpl; intros f own Q H.
  - exact H.
  - intros nid Hid Hn. apply IH; auto.
  - destruct (Nat.ltb id (length sh)); [apply IH; auto|].
    destruct (plookup own id); auto.
  - destruct (plookup own id); auto.
Qed.

(* what a goroutine sees of array [id] *)
Definition view (sh : heap) (own : pheap) (id : aid) : list string :=
  if Nat.ltb id (length sh) then arr sh id
  else match plookup own id with Some c => c | None => [] end.
Definition readable (sh : heap) (own : pheap) (id : aid) : Prop :=
  id < length sh \/ plookup own id <> None.

Lemma wp_read {R} : forall sh id i (k : string -> prog R) own Q, readable sh own id ->
  wp sh (k (nth i (view sh own id) "")) own Q -> wp sh (Read id i k) own Q.
Proof.
  intros sh id i k own Q Hr H; simpl; unfold view in H.
  destruct (Nat.ltb id (length sh)) eqn:E; auto.
  apply Nat.ltb_ge in E. destruct Hr as [Hr|Hr]; [lia|].
  destruct (plookup own id); auto.
Qed.

Lemma view_pupd_other : forall sh own dst c id, id <> dst -> view sh (pupd own dst c) id = view sh own id.
Proof. intros; unfold view. rewrite plookup_pupd_other; auto. Qed.

Lemma readable_pupd : forall sh own dst c id, readable sh own id -> readable sh (pupd own dst c) id.
Proof.
  intros sh own dst c id [H|H]; [left; auto|right].
  destruct (Nat.eq_dec id dst) as [->|N].
  - destruct (plookup own dst) eqn:E; try congruence. erewrite plookup_pupd_same; eauto. discriminate.
  - rewrite plookup_pupd_other; auto.
Qed.

(* the copying loop: reads [src] (shared or private), stores to the private [dst] only *)
Lemma wp_copy_cells : forall sh f src soff dst doff n j own c (Q : pheap -> unit -> Prop),
  readable sh own src -> src <> dst -> plookup own dst = Some c ->
  Q (pupd own dst (upd_list c (doff + j) (map f (cells (view sh own src) soff j n)))) tt ->
  wp sh (copy_cells f src soff dst doff j n) own Q.
Proof.
  intros sh f src soff dst doff n; induction n as [|n IH]; intros j own c Q Hr Hne Hd HQ.
  - simpl in *. rewrite pupd_same in HQ; auto.
  - simpl copy_cells. apply wp_read; auto. simpl. rewrite Hd.
    eapply IH.
    + apply readable_pupd; auto.
    + auto.
    + eapply plookup_pupd_same; eauto.
    + rewrite pupd_pupd, view_pupd_other by auto.
      rewrite cells_S in HQ. simpl in HQ.
      replace (doff + S j) with (S (doff + j)) by lia. exact HQ.
Qed.

Lemma wp_read_cells : forall sh id off n j own (Q : pheap -> list string -> Prop),
  readable sh own id -> Q own (cells (view sh own id) off j n) -> wp sh (read_cells id off j n) own Q.
Proof.
  intros sh id off n; induction n as [|n IH]; intros j own Q Hr HQ; simpl; auto.
  change (wp sh (Read id (off + j) (fun v => bind (read_cells id off (S j) n) (fun r => Ret (v :: r)))) own Q).
  apply wp_read; auto. apply wp_bind. apply IH; auto.
Qed.

(* ------------------------------------------------------------------ the real heap against two views *)
Definition owned (sh : heap) (own : pheap) (h : heap) : Prop :=
  forall id c, plookup own id = Some c -> length sh <= id /\ id < length h /\ arr h id = c.

Definition agrees (sh : heap) (A B : pheap) (h : heap) : Prop :=
  firstn (length sh) h = sh /\ owned sh A h /\ owned sh B h /\
  (forall id, plookup A id <> None -> plookup B id = None).

Lemma agrees_sym : forall sh A B h, agrees sh A B h -> agrees sh B A h.
Proof.
  intros sh A B h (H1 & H2 & H3 & H4); split; [auto|split; [auto|split; [auto|]]].
  intros x Hb. destruct (plookup A x) eqn:E; auto. exfalso; apply Hb, H4; congruence.
Qed.

Lemma prefix_len : forall (sh h : heap), firstn (length sh) h = sh -> length sh <= length h.
Proof. intros sh h H. rewrite <- H at 1. rewrite firstn_length. lia. Qed.

Lemma shared_arr : forall (sh h : heap) id, firstn (length sh) h = sh -> id < length sh -> arr h id = arr sh id.
Proof.
  intros sh h id H Hid; unfold arr.
  transitivity (nth id (firstn (length sh) h) []); [symmetry; apply nth_firstn; auto|rewrite H; reflexivity].
Qed.

Lemma agrees_nil : forall sh h, firstn (length sh) h = sh -> agrees sh [] [] h.
Proof. intros; split; [auto|split; [|split]]; try (intros x c Hc; discriminate). intros x Hx; reflexivity. Qed.

Lemma step_preserves {R} : forall sh (p : prog R) A B h Q p' h',
  wp sh p A Q -> agrees sh A B h -> step p h = Some (p', h') ->
  exists A', wp sh p' A' Q /\ agrees sh A' B h'.
Proof.
  intros sh p A B h Q p' h' Hwp (Hpre & HA & HB & Hdis) Hstep.
  pose proof (prefix_len _ _ Hpre) as Hlen.
  destruct p as [r|n k|aid0 i k|aid0 i v k]; simpl in Hstep; inversion Hstep; subst; clear Hstep; simpl in Hwp.
  - (* Alloc *)
    assert (HnA : plookup A (length h) = None).
    { destruct (plookup A (length h)) eqn:E; auto. apply HA in E. lia. }
    assert (HnB : plookup B (length h) = None).
    { destruct (plookup B (length h)) eqn:E; auto. apply HB in E. lia. }
    exists ((length h, repeat "" n) :: A). split; [apply Hwp; auto|].
    assert (Harr : forall x, x < length h -> arr (h ++ [repeat "" n]) x = arr h x).
    { intros; unfold arr; apply app_nth1; auto. }
    split; [|split; [|split]].
    + rewrite firstn_app. replace (length sh - length h) with 0 by lia. simpl. rewrite app_nil_r; auto.
    + intros x c Hx. rewrite app_length; simpl. simpl in Hx. destruct (Nat.eqb x (length h)) eqn:E.
      * apply Nat.eqb_eq in E; subst. inversion Hx; subst. split; [lia|split; [lia|]].
        unfold arr. rewrite app_nth2, Nat.sub_diag by lia. reflexivity.
      * apply HA in Hx. destruct Hx as (H1 & H2 & H3). rewrite Harr by lia. split; [lia|split; [lia|auto]].
    + intros x c Hx. rewrite app_length; simpl. apply HB in Hx. destruct Hx as (H1 & H2 & H3).
      rewrite Harr by lia. split; [lia|split; [lia|auto]].
    + intros x Hx. simpl in Hx. destruct (Nat.eqb x (length h)) eqn:E.
      * apply Nat.eqb_eq in E; subst; auto.
      * auto.
  - (* Read *)
    exists A. split; [|split; [|split; [|split]]; auto].
    destruct (Nat.ltb aid0 (length sh)) eqn:E.
    + apply Nat.ltb_lt in E. rewrite (shared_arr sh h' aid0) by auto. exact Hwp.
    + destruct (plookup A aid0) eqn:EA; [|contradiction].
      apply HA in EA. destruct EA as (_ & _ & ->). exact Hwp.
  - (* Write *)
    destruct (plookup A aid0) as [c|] eqn:EA; [|contradiction].
    pose proof (HA _ _ EA) as (Hge & Hlt & Hc). rewrite Hc.
    exists (pupd A aid0 (upd i v c)). split; [exact Hwp|].
    assert (Harr : forall x, x <> aid0 -> arr (upd aid0 (upd i v c) h) x = arr h x).
    { intros; unfold arr; apply nth_upd_other; auto. }
    split; [|split; [|split]].
    + rewrite firstn_upd by lia. auto.
    + intros x c' Hx. rewrite upd_length. destruct (Nat.eq_dec x aid0) as [->|N].
      * erewrite plookup_pupd_same in Hx by eauto. inversion Hx; subst.
        split; [lia|split; [lia|]]. unfold arr. apply nth_upd_same; auto.
      * rewrite plookup_pupd_other in Hx by auto. rewrite Harr by auto. apply HA in Hx; auto.
    + intros x c' Hx. rewrite upd_length.
      assert (x <> aid0).
      { intros ->. rewrite Hdis in Hx; [discriminate|congruence]. }
      rewrite Harr by auto. apply HB in Hx; auto.
    + intros x Hx. apply Hdis. intros Hn. apply Hx. apply plookup_pupd_none; auto.
Qed.

(* every interleaving: both goroutines reach their postconditions and the shared arrays are untouched *)
Lemma par_sound {RA RB} : forall (p : prog RA) (q : prog RB) h a b hf, par_run p q h a b hf ->
  forall sh A B QA QB, wp sh p A QA -> wp sh q B QB -> agrees sh A B h ->
  exists A' B', QA A' a /\ QB B' b /\ agrees sh A' B' hf.
Proof.
  intros p q h a b hf H; induction H; intros sh A B QA QB HA HB Hag.
  - exists A, B; auto.
  - destruct (step_preserves _ _ _ _ _ _ _ _ HA Hag H) as (A' & HA' & Hag').
    eapply IHpar_run; eauto.
  - apply agrees_sym in Hag.
    destruct (step_preserves _ _ _ _ _ _ _ _ HB Hag H) as (B' & HB' & Hag').
    apply agrees_sym in Hag'. eapply IHpar_run; eauto.
Qed.

(* a goroutine running alone is one of the interleavings with a goroutine that does nothing *)
Lemma run_seq_par {R} : forall (p : prog R) h, par_run p (Ret tt) h (snd (run_seq p h)) tt (fst (run_seq p h)).
Proof.
  induction p as [r|n k IH|id i k IH|id i v k IH]; intros h; simpl.
  - constructor.
  - eapply par_left; [reflexivity|apply IH].
  - eapply par_left; [reflexivity|apply IH].
  - eapply par_left; [reflexivity|apply IH].
Qed.

Lemma seq_sound {R} : forall sh (p : prog R) h (Q : R -> Prop),
  wp sh p [] (fun _ r => Q r) -> firstn (length sh) h = sh ->
  Q (snd (run_seq p h)) /\ firstn (length sh) (fst (run_seq p h)) = sh.
Proof.
  intros sh p h Q Hwp Hpre.
  destruct (par_sound _ _ _ _ _ _ (run_seq_par p h) sh [] [] (fun _ r => Q r) (fun _ _ => True) Hwp I (agrees_nil _ _ Hpre))
    as (A' & B' & HQ & _ & Hag & _).
  auto.
Qed.

(* schedules *)
Lemma par_seq_seq {RA RB} : forall (p : prog RA) (q : prog RB) h,
  par_run p q h (snd (run_seq p h)) (snd (run_seq q (fst (run_seq p h)))) (fst (run_seq q (fst (run_seq p h)))).
Proof.
  induction p as [r|n k IH|id i k IH|id i v k IH]; intros q h; simpl;
    try (eapply par_left; [reflexivity|]; auto; fail).
  revert h; induction q as [r'|n k IH|id i k IH|id i v k IH]; intros h; simpl;
    try (eapply par_right; [reflexivity|]; auto; fail).
  constructor.
Qed.

Lemma par_exec_sound {RA RB} : forall sched (p : prog RA) (q : prog RB) h,
  par_run p q h (fst (fst (par_exec sched p q h))) (snd (fst (par_exec sched p q h))) (snd (par_exec sched p q h)).
Proof.
  induction sched as [|[|] r IH]; intros p q h; simpl.
  - pose proof (par_seq_seq p q h) as H.
    destruct (run_seq p h) as [h1 a]; simpl in *. destruct (run_seq q h1) as [h2 b]; simpl in *. exact H.
  - destruct (step p h) as [[p' h']|] eqn:E; [eapply par_left; eauto|apply IH].
  - destruct (step q h) as [[q' h']|] eqn:E; [eapply par_right; eauto|apply IH].
Qed.

(* ------------------------------------------------------------------ the current code of sh/cmd.go *)
Lemma map_same : forall l, map same l = l.
Proof. induction l; simpl; unfold same in *; congruence. Qed.

Lemma view_shared : forall sh own id, id < length sh -> view sh own id = arr sh id.
Proof. intros; unfold view. apply Nat.ltb_lt in H; rewrite H; reflexivity. Qed.

Lemma view_cons_other : forall sh own e c id, id <> e -> view sh ((e, c) :: own) id = view sh own id.
Proof. intros; unfold view; simpl. destruct (Nat.eqb id e) eqn:E; auto. apply Nat.eqb_eq in E; lia. Qed.

Lemma view_cons_same : forall sh own e c, length sh <= e -> view sh ((e, c) :: own) e = c.
Proof. intros; unfold view; simpl. apply Nat.ltb_ge in H; rewrite H, Nat.eqb_refl; reflexivity. Qed.

Lemma readable_cons : forall sh own e c id, readable sh own id -> readable sh ((e, c) :: own) id.
Proof.
  intros sh own e c id [H|H]; [left; auto|right]. simpl. destruct (Nat.eqb id e); auto; discriminate.
Qed.

Lemma readable_fresh : forall sh own e id, readable sh own id -> length sh <= e -> plookup own e = None -> id <> e.
Proof. intros sh own e id [H|H] He Hn Heq; subst; [lia|congruence]. Qed.

Lemma upd_list_repeat : forall vs n, length vs = n -> upd_list (repeat "" n) 0 vs = vs.
Proof.
  intros vs n H.
  pose proof (upd_list_app_exact vs [] (repeat "" n) []) as E. simpl in E.
  rewrite !app_nil_r in E. apply E. rewrite repeat_length; auto.
Qed.

Lemma upd_list_repeat2 : forall A B, 
  upd_list (upd_list (repeat "" (length A + length B)) 0 A) (length A) B = A ++ B.
Proof.
  intros A B. rewrite repeat_app.
  pose proof (upd_list_app_exact A [] (repeat "" (length A)) (repeat "" (length B))) as E. simpl in E.
  rewrite E by (rewrite repeat_length; auto).
  pose proof (upd_list_app_exact B A (repeat "" (length B)) []) as E2.
  rewrite !app_nil_r in E2. apply E2. rewrite repeat_length; auto.
Qed.

(* joinArgs on two slices of shared arrays: one fresh private array holding a's elements then b's *)
Lemma wp_joinArgs : forall sh own a b (Q : pheap -> slice -> Prop),
  s_id a < length sh -> s_id b < length sh ->
  (forall o, length sh <= o -> plookup own o = None ->
     Q ((o, contents sh a ++ contents sh b) :: own)
       {| s_id := o; s_off := 0; s_len := s_len a + s_len b; s_cap := s_len a + s_len b |}) ->
  wp sh (joinArgs a b) own Q.
Proof.
  intros sh own a b Q Ha Hb HQ. unfold joinArgs, make_. simpl. intros o Ho Hn.
  apply wp_bind. unfold append_ at 1. simpl.
  replace (Nat.leb (s_len a) (s_len a + s_len b)) with true by (symmetry; apply Nat.leb_le; lia).
  apply wp_bind.
  eapply wp_copy_cells with (c := repeat "" (s_len a + s_len b)).
  - left; auto.
  - lia.
  - simpl. rewrite Nat.eqb_refl; reflexivity.
  - simpl. rewrite Nat.eqb_refl.
    unfold append_. simpl.
    replace (Nat.leb (s_len a + s_len b) (s_len a + s_len b)) with true by (symmetry; apply Nat.leb_le; lia).
    apply wp_bind.
    eapply wp_copy_cells.
    + left; auto.
    + lia.
    + simpl. rewrite Nat.eqb_refl; reflexivity.
    + simpl. rewrite Nat.eqb_refl.
      rewrite !view_shared by auto. rewrite !map_same. rewrite Nat.add_0_r.
      specialize (HQ o Ho Hn). unfold contents in HQ.
      set (A := cells (arr sh (s_id a)) (s_off a) 0 (s_len a)) in *.
      set (B := cells (arr sh (s_id b)) (s_off b) 0 (s_len b)) in *.
      assert (EA : s_len a = length A) by (unfold A; rewrite cells_length; auto).
      assert (EB : s_len b = length B) by (unfold B; rewrite cells_length; auto).
      rewrite EA, EB. rewrite upd_list_repeat2. rewrite <- EA, <- EB. exact HQ.
Qed.

Definition ex_of (emap penv : list (string * string)) : string -> string := expand (mapping emap penv).

(* Exec on any readable slice: one fresh private array; the child gets the expansions *)
Lemma wp_exec_fixed : forall sh own emap penv cmd args (Q : pheap -> list string -> Prop),
  readable sh own (s_id args) ->
  (forall own', Q own' (map (ex_of emap penv) (cmd :: cells (view sh own (s_id args)) (s_off args) 0 (s_len args)))) ->
  wp sh (exec_ true emap penv cmd args) own Q.
Proof.
  intros sh own emap penv cmd args Q Hr HQ. unfold exec_, make_. simpl. intros e He Hn.
  pose proof (readable_fresh _ _ _ _ Hr He Hn) as Hne.
  apply wp_bind.
  eapply wp_copy_cells with (c := repeat "" (s_len args)).
  - apply readable_cons; auto.
  - auto.
  - simpl. rewrite Nat.eqb_refl; reflexivity.
  - simpl. rewrite Nat.eqb_refl. unfold run_. apply wp_bind.
    apply wp_read_cells.
    + right. simpl. rewrite Nat.eqb_refl. discriminate.
    + simpl. rewrite view_cons_same by auto. rewrite view_cons_other by auto.
      set (vs := map (expand (mapping emap penv)) (cells (view sh own (s_id args)) (s_off args) 0 (s_len args))).
      assert (E : length vs = s_len args) by (unfold vs; rewrite map_length, cells_length; auto).
      rewrite upd_list_repeat by auto. rewrite <- E, cells_all. apply HQ.
Qed.

Definition slice_ok (n0 : nat) (s : slice) : Prop := s_id s < n0.

Lemma wp_closure_fixed : forall sh cl penv extra,
  slice_ok (length sh) (cl_baked cl) -> slice_ok (length sh) extra ->
  wp sh (closure_call true cl penv extra) []
     (fun _ argv => argv = map (expand_env penv) (cl_cmd cl :: contents sh (cl_baked cl) ++ contents sh extra)).
Proof.
  intros sh cl penv extra Hb He. unfold closure_call. apply wp_bind.
  apply wp_joinArgs; auto. intros o Ho Hn.
  apply wp_exec_fixed.
  - right. simpl. rewrite Nat.eqb_refl. discriminate.
  - intros own'. simpl s_id. simpl s_off. simpl s_len. rewrite view_cons_same by auto.
    set (L := contents sh (cl_baked cl) ++ contents sh extra).
    assert (E : s_len (cl_baked cl) + s_len extra = length L).
    { unfold L, contents. rewrite app_length, !cells_length. reflexivity. }
    rewrite E, cells_all. reflexivity.
Qed.

Lemma wp_direct_fixed : forall sh f emap penv cmd args,
  slice_ok (length sh) args ->
  wp sh (direct_call true f emap penv cmd args) []
     (fun _ argv => argv = map (ex_of (if uses_map f then emap else []) penv) (cmd :: contents sh args)).
Proof.
  intros sh f emap penv cmd args Ha. unfold direct_call.
  apply wp_exec_fixed.
  - left; auto.
  - intros own'. rewrite view_shared by auto. reflexivity.
Qed.

(* ------------------------------------------------------------------ histories *)
Definition env_step (penv : list (string * string)) (o : op) : list (string * string) :=
  match o with SetEnv k v => (k, v) :: penv | _ => penv end.
(* the process environment after the operations [pre] *)
Definition env_at (penv : list (string * string)) (pre : list op) : list (string * string) :=
  fold_left env_step pre penv.
Definition cls_step (cls : list closure) (o : op) : list closure :=
  match o with
  | MkClosure k cmd baked => cls ++ [{| cl_kind := k; cl_cmd := cmd; cl_baked := baked |}]
  | _ => cls
  end.
(* the closures that exist after the operations [pre] *)
Definition cls_at (cls : list closure) (pre : list op) : list closure := fold_left cls_step pre cls.

Section Hist.
Variable child_out : list (string * string) -> list (string * string) -> list string -> string.
Variable child_exit : list (string * string) -> list (string * string) -> list string -> nat.
Variable h0 : heap.                       (* the arrays the caller can see: everything that exists before *)

Definition op_ok (o : op) : Prop :=
  match o with
  | SetEnv _ _ => True
  | MkClosure _ _ b => slice_ok (length h0) b
  | CallClosure _ e => slice_ok (length h0) e
  | CallDirect _ _ _ a => slice_ok (length h0) a
  end.
Definition cls_ok (cls : list closure) : Prop := Forall (fun cl => slice_ok (length h0) (cl_baked cl)) cls.

(* the property sentence: what a call must start, read off the caller's ORIGINAL contents *)
Definition spec_argv (cls : list closure) (penv : list (string * string)) (o : op) : list string :=
  match o with
  | SetEnv _ _ => []
  | MkClosure _ _ _ => []
  | CallClosure c extra =>
      match nth_error cls c with
      | Some cl => map (expand_env penv) (cl_cmd cl :: contents h0 (cl_baked cl) ++ contents h0 extra)
      | None => []
      end
  | CallDirect f emap cmd args => map (ex_of (if uses_map f then emap else []) penv) (cmd :: contents h0 args)
  end.

Definition spec_obs (cls : list closure) (penv : list (string * string)) (o : op) : obs :=
  match o with
  | SetEnv _ _ => OSet
  | MkClosure _ _ _ => OMk
  | CallClosure c _ =>
      match nth_error cls c with
      | Some cl => finish_closure child_out child_exit (cl_kind cl) penv (spec_argv cls penv o)
      | None => OBad
      end
  | CallDirect f emap _ _ => finish_direct child_out child_exit f emap penv (spec_argv cls penv o)
  end.

Lemma cls_ok_step : forall cls o, cls_ok cls -> op_ok o -> cls_ok (cls_step cls o).
Proof.
  intros cls o Hc Ho. destruct o; simpl; auto.
  unfold cls_ok. apply Forall_app. split; auto.
Qed.

Lemma call_prog_wp : forall cls penv o p fin, cls_ok cls -> op_ok o ->
  call_prog child_out child_exit true cls penv o = Some (p, fin) ->
  wp h0 p [] (fun _ argv => argv = spec_argv cls penv o).
Proof.
  intros cls penv o p fin Hcls Hok H. destruct o as [k v|k cmd b|c extra|f emap cmd args]; simpl in *.
  - discriminate.
  - discriminate.
  - destruct (nth_error cls c) as [cl|] eqn:E; [|discriminate]. inversion H; subst.
    apply wp_closure_fixed; auto.
    unfold cls_ok in Hcls. rewrite Forall_forall in Hcls. apply Hcls. eapply nth_error_In; eauto.
  - inversion H; subst. apply wp_direct_fixed; auto.
Qed.

Lemma step_op_spec : forall penv cls h o penv' cls' h' ob, cls_ok cls -> op_ok o -> firstn (length h0) h = h0 ->
  step_op child_out child_exit true penv cls h o = (penv', cls', h', ob) ->
  penv' = env_step penv o /\ cls' = cls_step cls o /\ ob = spec_obs cls penv o /\ firstn (length h0) h' = h0.
Proof.
  intros penv cls h o penv' cls' h' ob Hcls Hok Hpre Hstep.
  assert (Hcall : forall p fin, call_prog child_out child_exit true cls penv o = Some (p, fin) ->
            snd (run_seq p h) = spec_argv cls penv o /\ firstn (length h0) (fst (run_seq p h)) = h0).
  { intros p fin Hp. apply (seq_sound h0 p h (fun r => r = spec_argv cls penv o)); auto.
    eapply call_prog_wp; eauto. }
  destruct o as [k v|k cmd b|c extra|f emap cmd args].
  - simpl in Hstep. inversion Hstep; subst. simpl; auto.
  - simpl in Hstep. inversion Hstep; subst. simpl; auto.
  - unfold step_op in Hstep. simpl env_step. simpl cls_step.
    destruct (call_prog child_out child_exit true cls penv (CallClosure c extra)) as [[p fin]|] eqn:E.
    + destruct (Hcall _ _ eq_refl) as (Ha & Hh). destruct (run_seq p h) as [h1 argv]; simpl in *.
      assert (Hp : penv' = penv /\ cls' = cls /\ h' = h1 /\ ob = fin argv) by (inversion Hstep; auto).
      destruct Hp as (-> & -> & -> & ->). subst argv.
      split; [auto|split; [auto|split; [|auto]]].
      destruct (nth_error cls c) as [cl|]; [|discriminate]. inversion E; subst. reflexivity.
    + assert (Hp : penv' = penv /\ cls' = cls /\ h' = h /\ ob = OBad) by (inversion Hstep; auto).
      destruct Hp as (-> & -> & -> & ->). simpl in *. destruct (nth_error cls c); [discriminate|auto].
  - unfold step_op in Hstep. simpl env_step. simpl cls_step.
    destruct (call_prog child_out child_exit true cls penv (CallDirect f emap cmd args)) as [[p fin]|] eqn:E; [|discriminate].
    destruct (Hcall _ _ eq_refl) as (Ha & Hh). destruct (run_seq p h) as [h1 argv]; simpl in *.
    assert (Hp : penv' = penv /\ cls' = cls /\ h' = h1 /\ ob = fin argv) by (inversion Hstep; auto).
    destruct Hp as (-> & -> & -> & ->). subst argv. inversion E; subst. auto.
Qed.

Lemma history_unchanged : forall ops penv cls h, cls_ok cls -> firstn (length h0) h = h0 -> Forall op_ok ops ->
  Forall (fun x => firstn (length h0) (snd x) = h0) (run_history child_out child_exit true penv cls h ops).
Proof.
  induction ops as [|o r IH]; intros penv cls h Hcls Hpre Hok; simpl; [constructor|].
  inversion Hok; subst.
  destruct (step_op child_out child_exit true penv cls h o) as [[[penv' cls'] h'] ob] eqn:E.
  destruct (step_op_spec _ _ _ _ _ _ _ _ Hcls H1 Hpre E) as (He & Hc & Ho & Hh).
  constructor; simpl; auto. subst cls'. apply IH; auto. apply cls_ok_step; auto.
Qed.

Lemma history_nth : forall pre penv cls h o post, cls_ok cls -> firstn (length h0) h = h0 -> Forall op_ok (pre ++ o :: post) ->
  exists h', nth_error (run_history child_out child_exit true penv cls h (pre ++ o :: post)) (length pre)
             = Some (spec_obs (cls_at cls pre) (env_at penv pre) o, h') /\ firstn (length h0) h' = h0.
Proof.
  induction pre as [|x pre IH]; intros penv cls h o post Hcls Hpre Hok; simpl app in *.
  - inversion Hok; subst. simpl.
    destruct (step_op child_out child_exit true penv cls h o) as [[[penv' cls'] h'] ob] eqn:E.
    destruct (step_op_spec _ _ _ _ _ _ _ _ Hcls H1 Hpre E) as (He & Hc & Ho & Hh).
    exists h'; subst; auto.
  - inversion Hok; subst. simpl.
    destruct (step_op child_out child_exit true penv cls h x) as [[[penv' cls'] h'] ob] eqn:E.
    destruct (step_op_spec _ _ _ _ _ _ _ _ Hcls H1 Hpre E) as (He & Hc & Ho & Hh). subst penv' cls'.
    apply IH; auto. apply cls_ok_step; auto.
Qed.

(* two calls at once *)
Lemma concurrent_calls : forall cls penv oA oB pA fA pB fB, cls_ok cls -> op_ok oA -> op_ok oB ->
  call_prog child_out child_exit true cls penv oA = Some (pA, fA) ->
  call_prog child_out child_exit true cls penv oB = Some (pB, fB) ->
  forall h a b hf, firstn (length h0) h = h0 -> par_run pA pB h a b hf ->
  a = spec_argv cls penv oA /\ b = spec_argv cls penv oB /\ firstn (length h0) hf = h0.
Proof.
  intros cls penv oA oB pA fA pB fB Hcls HokA HokB HA HB h a b hf Hpre Hrun.
  destruct (par_sound _ _ _ _ _ _ Hrun h0 [] [] _ _ (call_prog_wp _ _ _ _ _ Hcls HokA HA) (call_prog_wp _ _ _ _ _ Hcls HokB HB)
              (agrees_nil _ _ Hpre)) as (A' & B' & Ha & Hb & Hag & _).
  auto.
Qed.

(* ---- the statements of Props/C16.v ---- *)
Lemma thm_inputs_unchanged : forall penv cls ops, cls_ok cls -> Forall op_ok ops ->
  Forall (fun x => firstn (length h0) (snd x) = h0) (run_history child_out child_exit true penv cls h0 ops).
Proof. intros. apply history_unchanged; auto. apply firstn_all. Qed.

Lemma thm_closure_is_run : forall penv cls pre c extra post cl,
  cls_ok cls -> Forall op_ok (pre ++ CallClosure c extra :: post) -> nth_error (cls_at cls pre) c = Some cl ->
  let env_i := env_at penv pre in
  let argv := map (expand_env env_i) (cl_cmd cl :: contents h0 (cl_baked cl) ++ contents h0 extra) in
  exists h', nth_error (run_history child_out child_exit true penv cls h0 (pre ++ CallClosure c extra :: post)) (length pre)
             = Some (OCall argv
                           (match cl_kind cl with KRun => None | KOut => Some (trim_nl (child_out env_i [] argv)) end)
                           (match cl_kind cl with KRun => if verbose env_i then child_out env_i [] argv else "" | KOut => "" end)
                           (child_exit env_i [] argv), h').
Proof.
  intros penv cls pre c extra post cl Hcls Hok Hc env_i argv.
  destruct (history_nth pre penv cls h0 (CallClosure c extra) post Hcls (firstn_all h0) Hok) as (h' & H & _).
  exists h'. rewrite H. simpl. rewrite Hc. destruct (cl_kind cl); reflexivity.
Qed.

Lemma thm_direct_call : forall penv cls pre f emap cmd args post,
  cls_ok cls -> Forall op_ok (pre ++ CallDirect f emap cmd args :: post) ->
  let env_i := env_at penv pre in
  let argv := map (expand (mapping (if uses_map f then emap else []) env_i)) (cmd :: contents h0 args) in
  exists h', nth_error (run_history child_out child_exit true penv cls h0 (pre ++ CallDirect f emap cmd args :: post)) (length pre)
             = Some (finish_direct child_out child_exit f emap env_i argv, h').
Proof.
  intros penv cls pre f emap cmd args post Hcls Hok env_i argv.
  destruct (history_nth pre penv cls h0 (CallDirect f emap cmd args) post Hcls (firstn_all h0) Hok) as (h' & H & _).
  exists h'. exact H.
Qed.

Lemma thm_closure_like_direct : forall penv cls pre c extra post post' cl args,
  cls_ok cls ->
  Forall op_ok (pre ++ CallClosure c extra :: post) ->
  Forall op_ok (pre ++ CallDirect (match cl_kind cl with KRun => FRun | KOut => FOutput end) [] (cl_cmd cl) args :: post') ->
  nth_error (cls_at cls pre) c = Some cl ->
  contents h0 args = contents h0 (cl_baked cl) ++ contents h0 extra ->
  option_map fst (nth_error (run_history child_out child_exit true penv cls h0 (pre ++ CallClosure c extra :: post)) (length pre)) =
  option_map fst (nth_error (run_history child_out child_exit true penv cls h0
       (pre ++ CallDirect (match cl_kind cl with KRun => FRun | KOut => FOutput end) [] (cl_cmd cl) args :: post')) (length pre)).
Proof.
  intros penv cls pre c extra post post' cl args Hcls H1 H2 Hc Hcont.
  destruct (history_nth pre penv cls h0 _ post Hcls (firstn_all h0) H1) as (h1 & E1 & _).
  destruct (history_nth pre penv cls h0 _ post' Hcls (firstn_all h0) H2) as (h2 & E2 & _).
  rewrite E1, E2. simpl. rewrite Hc, Hcont. destruct (cl_kind cl); reflexivity.
Qed.

Lemma thm_concurrent_schedules : forall cls penv oA oB pA fA pB fB sched,
  cls_ok cls -> op_ok oA -> op_ok oB ->
  call_prog child_out child_exit true cls penv oA = Some (pA, fA) ->
  call_prog child_out child_exit true cls penv oB = Some (pB, fB) ->
  par_exec sched pA pB h0 =
    (spec_argv cls penv oA, spec_argv cls penv oB, snd (par_exec sched pA pB h0)) /\
  firstn (length h0) (snd (par_exec sched pA pB h0)) = h0.
Proof.
  intros cls penv oA oB pA fA pB fB sched Hcls HA HB EA EB.
  destruct (concurrent_calls cls penv oA oB pA fA pB fB Hcls HA HB EA EB h0 _ _ _ (firstn_all h0)
              (par_exec_sound sched pA pB h0)) as (Ha & Hb & Hh).
  split; auto. destruct (par_exec sched pA pB h0) as [[a b] hf]; simpl in *. subst; reflexivity.
Qed.
End Hist.

(* ------------------------------------------------------------------ the code before the repair *)
Definition sl (id off len cap : nat) : slice := {| s_id := id; s_off := off; s_len := len; s_cap := cap |}.

(* 1. a closure called without extra arguments overwrites its baked-in "$V" with the first expansion *)
Definition w1_h0 : heap := [ ["$V"] ].
Definition w1_env : list (string * string) := [("V", "one")].
Definition w1_pre : list op := [MkClosure KOut "echo" (sl 0 0 1 1); CallClosure 0 nil_slice; SetEnv "V" "two"].

Lemma thm_closure_is_run_before_repair_refuted : forall child_out child_exit,
  exists h0 penv pre c extra post,
    Forall (op_ok h0) (pre ++ CallClosure c extra :: post) /\
    exists ob h', nth_error (run_history child_out child_exit false penv [] h0 (pre ++ CallClosure c extra :: post)) (length pre) = Some (ob, h') /\
                  ob = OCall ["echo"; "one"] (Some (trim_nl (child_out (env_at penv pre) [] ["echo"; "one"]))) "" (child_exit (env_at penv pre) [] ["echo"; "one"]) /\
                  spec_argv h0 (cls_at [] pre) (env_at penv pre) (CallClosure c extra) = ["echo"; "two"] /\
                  firstn (length h0) h' <> h0.
Proof.
  intros child_out child_exit.
  exists w1_h0, w1_env, w1_pre, 0, nil_slice, []. split; [repeat constructor|].
  eexists; eexists. split; [vm_compute; reflexivity|]. split; [reflexivity|]. split; [vm_compute; reflexivity|]. vm_compute. discriminate.
Qed.

(* 2. sh.Output rewrites the caller's slice *)
Definition w2_h0 : heap := [ ["-n"; "$V"; "tail"] ].
Definition w2_ops : list op := [CallDirect FOutput [] "echo" (sl 0 0 2 3)].

Lemma thm_inputs_unchanged_before_repair_refuted : forall child_out child_exit,
  exists h0 penv ops, Forall (op_ok h0) ops /\
    exists ob h', In (ob, h') (run_history child_out child_exit false penv [] h0 ops) /\ firstn (length h0) h' <> h0.
Proof.
  intros child_out child_exit.
  exists w2_h0, w1_env, w2_ops. split; [repeat constructor|].
  eexists; eexists. split; [left; vm_compute; reflexivity|]. vm_compute. discriminate.
Qed.

(* 3. two overlapping calls of a closure whose baked-in slice has spare capacity *)
Definition w3_cl : closure := {| cl_kind := KRun; cl_cmd := "echo"; cl_baked := sl 0 0 1 2 |}.
Definition w3_cls : list closure := [ w3_cl ].
Definition w3_h0 : heap := [ ["x"; ""]; ["a"]; ["b"] ].
Definition w3_A : op := CallClosure 0 (sl 1 0 1 1).
Definition w3_B : op := CallClosure 0 (sl 2 0 1 1).
Definition w3_sched : list bool := [true; true; false; false].   (* A stores "a" behind "x", then B stores "b" there *)

Lemma thm_concurrent_before_repair_refuted : forall child_out child_exit,
  exists cls h0 penv oA oB pA fA pB fB a b hf,
    cls_ok h0 cls /\ op_ok h0 oA /\ op_ok h0 oB /\
    call_prog child_out child_exit false cls penv oA = Some (pA, fA) /\
    call_prog child_out child_exit false cls penv oB = Some (pB, fB) /\
    par_run pA pB h0 a b hf /\
    a <> spec_argv h0 cls penv oA /\ firstn (length h0) hf <> h0.
Proof.
  intros child_out child_exit.
  pose proof (par_exec_sound w3_sched (closure_call false w3_cl [] (sl 1 0 1 1)) (closure_call false w3_cl [] (sl 2 0 1 1)) w3_h0) as H.
  exists w3_cls, w3_h0, [], w3_A, w3_B. do 7 eexists.
  split; [repeat constructor|split; [repeat constructor|split; [repeat constructor|]]].
  split; [reflexivity|split; [reflexivity|split; [exact H|]]].
  split; vm_compute; discriminate.
Qed.

(* ------------------------------------------------------------------ non-vacuity (current code) *)
Definition nv_h0 : heap := [ ["pad"; "-n"; "$V"; "spare"]; ["${V}x"; "y"; "--exit=3"] ].
Definition nv_env : list (string * string) := [("C", "echo"); ("V", "one")].
(* a RunCmd closure made while not verbose and called while verbose; an OutCmd closure whose child fails
   (prints, exits 3) and is then called again: the second text is its own *)
Definition nv_ops : list op :=
  [MkClosure KOut "$C" (sl 0 1 2 3); MkClosure KRun "$C" (sl 0 1 1 1);
   CallClosure 0 nil_slice; SetEnv "V" "two"; CallClosure 0 (sl 1 0 3 3); CallClosure 0 (sl 1 0 2 3);
   CallClosure 1 nil_slice; SetEnv "MAGEFILE_VERBOSE" "1"; CallClosure 1 nil_slice;
   CallDirect FOutput [] "echo" (sl 0 1 2 3); CallDirect FRunWith [("V", "m")] "$C" (sl 1 0 1 1)].
Definition nl : string := String (ascii_of_nat 10) EmptyString.
Definition nv_out (_ _ : list (string * string)) (argv : list string) : string := String.concat " " (tl argv) ++ nl.
Definition nv_exit (_ _ : list (string * string)) (argv : list string) : nat := if existsb (String.eqb "--exit=3") argv then 3 else 0.

Lemma nonvacuous_c16 :
  Forall (op_ok nv_h0) nv_ops /\
  map fst (run_history nv_out nv_exit true nv_env [] nv_h0 nv_ops) =
    [OMk; OMk; OCall ["echo"; "-n"; "one"] (Some "-n one") "" 0; OSet;
     OCall ["echo"; "-n"; "two"; "twox"; "y"; "--exit=3"] (Some "-n two twox y --exit=3") "" 3;
     OCall ["echo"; "-n"; "two"; "twox"; "y"] (Some "-n two twox y") "" 0;
     OCall ["echo"; "-n"] None "" 0; OSet; OCall ["echo"; "-n"] None ("-n" ++ nl) 0;
     OCall ["echo"; "-n"; "two"] (Some "-n two") "" 0; OCall ["echo"; "mx"] None ("mx" ++ nl) 0] /\
  Forall (fun x => firstn 2 (snd x) = nv_h0) (run_history nv_out nv_exit true nv_env [] nv_h0 nv_ops) /\
  (* the interleaving that breaks the old code leaves the current code unimpressed *)
  par_exec w3_sched (closure_call true w3_cl [] (sl 1 0 1 1)) (closure_call true w3_cl [] (sl 2 0 1 1)) w3_h0
  = (["echo"; "x"; "a"], ["echo"; "x"; "b"], w3_h0 ++ [["x"; "a"]; ["x"; "b"]; ["x"; "a"]; ["x"; "b"]]).
Proof.
  split; [repeat constructor|split; [vm_compute; reflexivity|split]].
  - vm_compute. repeat constructor.
  - vm_compute. reflexivity.
Qed.

(* ------------------------------------------------------------------ overlapped calls are among the interleavings *)
(* [par_run] does not serialise the two calls: on the current code the second call of one closure performs
   actions while the first call is in flight (started, not finished), and from there both run to their ends
   with their own arguments.  (The model has no lock: a closure that made its calls take turns would
   not be this model - the harness requires all children of concurrent calls to be alive together.) *)
Lemma overlap_admitted :
  let pA := closure_call true w3_cl [] (sl 1 0 1 1) in
  let pB := closure_call true w3_cl [] (sl 2 0 1 1) in
  exists p1 h1 p2 h2 q1 h3 q2 h4 a b hf,
    step pA w3_h0 = Some (p1, h1) /\ step p1 h1 = Some (p2, h2) /\       (* the first call has started *)
    step pB h2 = Some (q1, h3) /\ step q1 h3 = Some (q2, h4) /\          (* the second call starts while it is in flight *)
    step p2 h4 <> None /\ step q2 h4 <> None /\                          (* neither has finished *)
    par_run p2 q2 h4 a b hf /\ par_run pA pB w3_h0 a b hf /\
    a = ["echo"; "x"; "a"] /\ b = ["echo"; "x"; "b"] /\ firstn (length w3_h0) hf = w3_h0.
Proof.
  intros pA pB.
  do 8 eexists.
  pose proof (fun p2 q2 h4 => par_exec_sound (RA := list string) (RB := list string) [] p2 q2 h4) as Hs.
  eexists; eexists; eexists.
  split; [reflexivity|]. split; [reflexivity|]. split; [reflexivity|]. split; [reflexivity|].
  split; [discriminate|]. split; [discriminate|].
  split; [apply Hs|].
  split.
  - eapply par_left; [reflexivity|]. eapply par_left; [reflexivity|].
    eapply par_right; [reflexivity|]. eapply par_right; [reflexivity|]. apply Hs.
  - split; [vm_compute; reflexivity|split; [vm_compute; reflexivity|vm_compute; reflexivity]].
Qed.
