(* Sorting is canonical: under a total order on DISTINCT keys two sorted permutations of each
   other are equal.  Used by C18: whatever order a hash map hands its entries out in, the list
   after sort.Strings / sort.Sort / the template engine's key sort is the same. *)
From Mage Require Import Base.Strs Model.Gen.
From Coq Require Import Sorting.Permutation Sorting.Sorted.

(* ---------------------------------------------------------------- String.leb is a total order *)
Lemma acmp_refl x : Ascii.compare x x = Eq.
Proof. unfold Ascii.compare. apply N.compare_refl. Qed.

Lemma scmp_refl s : String.compare s s = Eq.
Proof. induction s as [|c s IH]; simpl; auto. now rewrite acmp_refl. Qed.

Lemma acmp_lt_trans x y z : Ascii.compare x y = Lt -> Ascii.compare y z = Lt -> Ascii.compare x z = Lt.
Proof. unfold Ascii.compare. rewrite !N.compare_lt_iff. apply N.lt_trans. Qed.

Lemma scmp_lt_trans : forall a b c, String.compare a b = Lt -> String.compare b c = Lt -> String.compare a c = Lt.
Proof.
  induction a as [|x a IH]; intros [|y b] [|z c]; simpl; try discriminate; auto.
  destruct (Ascii.compare x y) eqn:Hxy; try discriminate;
  destruct (Ascii.compare y z) eqn:Hyz; try discriminate; intros H1 H2.
  - apply Ascii.compare_eq_iff in Hxy. apply Ascii.compare_eq_iff in Hyz. subst.
    rewrite acmp_refl. eauto.
  - apply Ascii.compare_eq_iff in Hxy. subst. now rewrite Hyz.
  - apply Ascii.compare_eq_iff in Hyz. subst. now rewrite Hxy.
  - now rewrite (acmp_lt_trans _ _ _ Hxy Hyz).
Qed.

Lemma sleb_refl s : String.leb s s = true.
Proof. unfold String.leb. now rewrite scmp_refl. Qed.

Lemma sleb_trans a b c : String.leb a b = true -> String.leb b c = true -> String.leb a c = true.
Proof.
  unfold String.leb.
  destruct (String.compare a b) eqn:Hab; try discriminate;
  destruct (String.compare b c) eqn:Hbc; try discriminate; intros _ _.
  - apply String.compare_eq_iff in Hab. subst. now rewrite Hbc.
  - apply String.compare_eq_iff in Hab. subst. now rewrite Hbc.
  - apply String.compare_eq_iff in Hbc. subst. now rewrite Hab.
  - now rewrite (scmp_lt_trans _ _ _ Hab Hbc).
Qed.

(* ---------------------------------------------------------------- lists *)
Lemma nodup_map_inj {A B} (f : A -> B) : forall l x y,
  NoDup (map f l) -> In x l -> In y l -> f x = f y -> x = y.
Proof.
  induction l as [|a l IH]; simpl; intros x y Hnd Hx Hy E; [tauto|].
  inversion Hnd as [|? ? Hn Hnd']; subst.
  destruct Hx as [->|Hx], Hy as [->|Hy]; auto.
  - exfalso. apply Hn. rewrite E. now apply in_map.
  - exfalso. apply Hn. rewrite <- E. now apply in_map.
Qed.

Lemma perm_nodup_map {A B} (f : A -> B) l l' :
  Permutation l l' -> NoDup (map f l) -> NoDup (map f l').
Proof. intros P. apply Permutation_NoDup. now apply Permutation_map. Qed.

(* ---------------------------------------------------------------- any total preorder *)
Section CanonLe.
Context {A : Type} (le : A -> A -> bool).
Hypothesis le_total : forall x y, le x y = true \/ le y x = true.
Hypothesis le_trans : forall x y z, le x y = true -> le y z = true -> le x z = true.

(* the postcondition of a sort in Go: for i < j not Less(j, i) *)
Definition lle (x y : A) : Prop := le x y = true.
Definition sorted_le (l : list A) : Prop := StronglySorted lle l.

Lemma le_refl x : le x x = true.
Proof. destruct (le_total x x); auto. Qed.

Lemma insert_perm x : forall l, Permutation (insert_le le x l) (x :: l).
Proof.
  induction l as [|y l IH]; simpl; auto.
  destruct (le x y); auto.
  rewrite IH. apply perm_swap.
Qed.

Lemma sort_perm : forall l, Permutation (sort_le le l) l.
Proof.
  induction l as [|x l IH]; simpl; auto.
  unfold sort_le in IH. rewrite insert_perm. now constructor.
Qed.

Lemma insert_sorted x : forall l, sorted_le l -> sorted_le (insert_le le x l).
Proof.
  induction l as [|y l IH]; simpl; intros Hs.
  - constructor; constructor.
  - destruct (le x y) eqn:E.
    + constructor; auto. constructor; auto.
      inversion Hs as [|? ? _ Hall]; subst.
      eapply Forall_impl; [|exact Hall]. intros z Hz. unfold lle in *. eapply le_trans; eauto.
    + inversion Hs as [|? ? Hs' Hall]; subst.
      assert (Hyx : lle y x).
      { unfold lle. destruct (le_total x y) as [H|H]; congruence. }
      constructor; [exact (IH Hs')|].
      eapply Permutation_Forall; [symmetry; apply insert_perm|].
      constructor; auto.
Qed.

Lemma sort_sorted : forall l, sorted_le (sort_le le l).
Proof.
  induction l as [|x l IH]; simpl.
  - constructor.
  - now apply insert_sorted.
Qed.

(* two sorted permutations of each other are equal when the order is antisymmetric on their members *)
Lemma sorted_unique_le : forall l1 l2,
  sorted_le l1 -> sorted_le l2 -> Permutation l1 l2 ->
  (forall x y, In x l1 -> In y l1 -> le x y = true -> le y x = true -> x = y) -> l1 = l2.
Proof.
  induction l1 as [|x r1 IH]; intros l2 S1 S2 P Anti.
  - apply Permutation_nil in P. now subst.
  - destruct l2 as [|y r2]; [symmetry in P; now apply Permutation_nil_cons in P|].
    assert (Hx : In x (y :: r2)) by (eapply Permutation_in; [exact P|now left]).
    assert (Hy : In y (x :: r1)) by (eapply Permutation_in; [symmetry; exact P|now left]).
    inversion S1 as [|? ? S1' F1]; subst. inversion S2 as [|? ? S2' F2]; subst.
    assert (Lyx : lle y x).
    { destruct Hx as [->|Hx]; [apply le_refl|]. rewrite Forall_forall in F2. auto. }
    assert (Lxy : lle x y).
    { destruct Hy as [->|Hy]; [apply le_refl|]. rewrite Forall_forall in F1. auto. }
    assert (E : x = y) by (apply Anti; auto; now left).
    subst y. f_equal. apply IH; auto.
    + eapply Permutation_cons_inv; exact P.
    + intros a b Ha Hb. apply Anti; now right.
Qed.

Lemma sort_canonical_le l l' :
  Permutation l l' ->
  (forall x y, In x l -> In y l -> le x y = true -> le y x = true -> x = y) ->
  sort_le le l = sort_le le l'.
Proof.
  intros P Anti. apply sorted_unique_le; try apply sort_sorted.
  - rewrite !sort_perm. exact P.
  - intros x y Hx Hy. apply Anti; eapply Permutation_in; try apply sort_perm; auto.
Qed.
End CanonLe.

(* ---------------------------------------------------------------- a string key *)
Section Canon.
Context {A : Type} (key : A -> string).

Lemma key_leb_total (x y : A) : key_leb key x y = true \/ key_leb key y x = true.
Proof. apply String.leb_total. Qed.
Lemma key_leb_trans (x y z : A) : key_leb key x y = true -> key_leb key y z = true -> key_leb key x z = true.
Proof. apply sleb_trans. Qed.

Definition sorted (l : list A) : Prop := sorted_le (key_leb key) l.

Lemma key_antisym l : NoDup (map key l) ->
  forall x y, In x l -> In y l -> key_leb key x y = true -> key_leb key y x = true -> x = y.
Proof.
  intros Hnd x y Hx Hy L1 L2. apply (nodup_map_inj key l); auto. now apply String.leb_antisym.
Qed.

Lemma sort_by_perm l : Permutation (sort_by key l) l.
Proof. apply sort_perm. Qed.

Lemma sort_by_sorted l : sorted (sort_by key l).
Proof. apply sort_sorted; [apply key_leb_total|apply key_leb_trans]. Qed.

Lemma sorted_unique : forall l1 l2,
  sorted l1 -> sorted l2 -> Permutation l1 l2 -> NoDup (map key l1) -> l1 = l2.
Proof.
  intros l1 l2 S1 S2 P Hnd.
  apply (sorted_unique_le (key_leb key) key_leb_total l1 l2 S1 S2 P). now apply key_antisym.
Qed.

Lemma sort_canonical l l' :
  Permutation l l' -> NoDup (map key l) -> sort_by key l = sort_by key l'.
Proof.
  intros P Hnd. apply (sort_canonical_le (key_leb key) key_leb_total key_leb_trans l l' P). now apply key_antisym.
Qed.

(* every function that returns a sorted permutation of its argument (sort.Sort's pdqsort,
   sort.Strings, the template engine's key sort) is [sort_by] on lists with distinct keys *)
Lemma any_sort_agrees (srt : list A -> list A) :
  (forall l, Permutation (srt l) l /\ sorted (srt l)) ->
  forall l, NoDup (map key l) -> srt l = sort_by key l.
Proof.
  intros H l Hnd. destruct (H l) as [P S].
  apply sorted_unique; auto using sort_by_sorted.
  - rewrite P. symmetry. apply sort_by_perm.
  - eapply perm_nodup_map; [symmetry; exact P|exact Hnd].
Qed.
End Canon.

(* ---------------------------------------------------------------- (path, alias) pairs *)
Lemma pair_leb_total x y : pair_leb x y = true \/ pair_leb y x = true.
Proof.
  unfold pair_leb. rewrite (String.eqb_sym (fst y) (fst x)).
  destruct (String.eqb (fst x) (fst y)); apply String.leb_total.
Qed.

Lemma pair_leb_antisym x y : pair_leb x y = true -> pair_leb y x = true -> x = y.
Proof.
  unfold pair_leb. rewrite (String.eqb_sym (fst y) (fst x)).
  destruct x as [a b], y as [c d]; simpl.
  destruct (String.eqb a c) eqn:E; intros H1 H2.
  - apply String.eqb_eq in E. subst. f_equal. now apply String.leb_antisym.
  - apply String.eqb_neq in E. exfalso. apply E. now apply String.leb_antisym.
Qed.

Lemma pair_leb_trans x y z : pair_leb x y = true -> pair_leb y z = true -> pair_leb x z = true.
Proof.
  unfold pair_leb. destruct x as [a b], y as [c d], z as [e f]; simpl.
  destruct (String.eqb a c) eqn:E1; destruct (String.eqb c e) eqn:E2; intros H1 H2.
  - apply String.eqb_eq in E1, E2. subst. rewrite String.eqb_refl. eapply sleb_trans; eauto.
  - apply String.eqb_eq in E1. subst. now rewrite E2.
  - apply String.eqb_eq in E2. subst. now rewrite E1.
  - destruct (String.eqb a e) eqn:E3.
    + apply String.eqb_eq in E3. subst. apply String.eqb_neq in E1. exfalso. apply E1. now apply String.leb_antisym.
    + eapply sleb_trans; eauto.
Qed.

Lemma sort_pairs_canonical l l' : Permutation l l' -> sort_le pair_leb l = sort_le pair_leb l'.
Proof.
  intros P. apply (sort_canonical_le pair_leb pair_leb_total pair_leb_trans l l' P).
  intros x y _ _. apply pair_leb_antisym.
Qed.
