(* The expected tables of Model/Tables.v are exactly what the models' decision functions use. *)
From Mage Require Import Base.Strs Model.Tables.
From Mage Require Model.FnCheck Model.Classify.

(* every entry of parse.argTypes denotes a parameter type the classifier accepts, and every
   accepted parameter type is an entry *)
Lemma parse_table_sound : forall k v, In (k, v) expected_parse_argTypes ->
  exists t, classify_of_key k = Some t /\ Classify.argType t <> None.
Proof.
  intros k v H. cbn in H.
  repeat (destruct H as [H|H]; [inversion H; subst; cbn; eexists; split; [reflexivity|discriminate]|]).
  contradiction.
Qed.

Lemma parse_table_complete : forall t, Classify.argType t <> None ->
  exists k v, In (k, v) expected_parse_argTypes /\ classify_of_key k = Some t.
Proof.
  intros t H. destruct t; cbn in H; try congruence.
  - exists "string", "string". split; [cbn; auto 6|reflexivity].
  - exists "int", "int". split; [cbn; auto 6|reflexivity].
  - exists "bool", "bool". split; [cbn; auto 6|reflexivity].
  - exists "&{time Duration}", "time.Duration". split; [cbn; auto 6|reflexivity].
Qed.

(* mg.argTypes: the supported argument types of mg.F are exactly the table's keys *)
Lemma mg_table_sound : forall k v, In (k, v) expected_mg_argTypes ->
  exists t, fncheck_of_ident k = Some t /\ FnCheck.supported t = true.
Proof.
  intros k v H. cbn in H.
  repeat (destruct H as [H|H]; [inversion H; subst; cbn; eexists; split; reflexivity|]).
  contradiction.
Qed.

Lemma mg_table_complete : forall t, FnCheck.supported t = true ->
  exists k v, In (k, v) expected_mg_argTypes /\ fncheck_of_ident k = Some t.
Proof.
  intros t H. destruct t; cbn in H; try discriminate.
  - exists "intType", "true". split; [cbn; auto 6|reflexivity].
  - exists "boolType", "true". split; [cbn; auto 6|reflexivity].
  - exists "stringType", "true". split; [cbn; auto 6|reflexivity].
  - exists "durType", "true". split; [cbn; auto 6|reflexivity].
Qed.
