(* C12 - propagation of contexts through the dependency engine (Model/Deps.v): which context the
   body of a dependency receives, for every program, every schedule, every reachable trace.
   CtxDeps/SerialCtxDeps forward the caller's context (c_ctx = Fwd), Deps/SerialDeps hand out
   context.Background() (c_ctx = Bg); because of the once-only rule a dependency named by several
   calls gets the context of the call whose goroutine wins the once. *)
From Mage Require Import Base.Strs Model.Deps Proof.Deps_defs Proof.Deps_inv Proof.Deps_invB Proof.Deps_c01.

(* ------------------------------------------------------------------ one step *)
Lemma updt_some f t v t' tk' :
  updt f t (Some v) t' = Some tk' -> (t' = t /\ tk' = v) \/ (t' <> t /\ f t' = Some tk').
Proof.
  unfold updt. destruct (tid_eqb t' t) eqn:E.
  - apply B_tid_eqb_true in E. intros H. inversion H. auto.
  - intros H. right. split; auto. intros ->. rewrite B_tid_eqb_refl in E. discriminate.
Qed.

(* only the goroutine that wins once.Do emits BodyStart; the context is the one its runDeps was given *)
Lemma start_ctx : forall fixed p s a s' ev k c,
  step fixed p s a = Some (s', ev) -> In (BodyStart k c) ev ->
  exists t j tk r st cl,
    a = AGo t j /\ tasks s t = Some tk /\ t_phase tk = PRound r st /\
    nth_error (calls_of p t) (t_pc tk) = Some cl /\ nth_error (rd_members st) j = Some k /\
    c = child_ctx cl (t_ctx tk).
Proof.
  intros fixed p s a s' ev k c Hs Hin.
  destruct a as [t|t j]; simpl in Hs.
  - exfalso. exact (step_task_no_start _ _ _ _ _ _ _ Hs Hin).
  - unfold step_go in Hs.
    destruct (tasks s t) as [tk|] eqn:Et; [|discriminate].
    destruct (t_phase tk) as [|r st|o|] eqn:Ep; try discriminate.
    destruct (nth_error (calls_of p t) (t_pc tk)) as [cl|] eqn:Ec; [|discriminate].
    destruct (nth_error (rd_members st) j) as [k0|] eqn:Em; [|discriminate].
    destruct (nth_error (rd_gs st) j) as [g|]; [|discriminate].
    destruct g as [| |r0|].
    + destruct (cells s k0) as [| |r0] eqn:Hck.
      * inversion Hs; subst; clear Hs.
        apply in_app_or in Hin. destruct Hin as [Hin|Hin].
        -- destruct (verbose p); simpl in Hin; [destruct Hin as [Hin|[]]; discriminate | destruct Hin].
        -- simpl in Hin. destruct Hin as [Hin|[]]. inversion Hin; subst.
           exists t, j, tk, r, st, cl. repeat split; auto.
      * discriminate.
      * inversion Hs; subst. destruct Hin.
    + destruct (cells s k0); try discriminate. inversion Hs; subst. destruct Hin.
    + destruct (is_nil r0); inversion Hs; subst; destruct Hin.
    + discriminate.
Qed.

(* a step never changes the context of an existing task; a new task is a body that just started *)
Lemma task_ctx_step : forall fixed p s a s' ev t' tk',
  step fixed p s a = Some (s', ev) -> tasks s' t' = Some tk' ->
  (exists tk0, tasks s t' = Some tk0 /\ t_ctx tk0 = t_ctx tk') \/
  (exists k, t' = TBody k /\ In (BodyStart k (t_ctx tk')) ev).
Proof.
  intros fixed p s a s' ev t' tk' H Ht.
  destruct a as [t|t j]; simpl in H.
  - unfold step_task, finish, set_phase in H. break H; inversion H; subst; clear H; simpl in Ht;
      (apply updt_some in Ht; destruct Ht as [[-> ->]|[_ Ht]];
       [left; eexists; split; [eassumption|reflexivity] | left; eauto]).
  - unfold step_go, set_phase in H. break H; inversion H; subst; clear H; simpl in Ht;
      try (apply updt_some in Ht; destruct Ht as [[-> ->]|[_ Ht]];
           [left; eexists; split; [eassumption|reflexivity] | left; eauto]; fail).
    (* the once is won: a new body task *)
    all: apply updt_some in Ht; destruct Ht as [[-> ->]|[_ Ht]];
      [ right; eexists; split; [reflexivity|]; simpl; auto
      | apply updt_some in Ht; destruct Ht as [[-> ->]|[_ Ht]];
        [left; eexists; split; [eassumption|reflexivity] | left; eauto] ].
Qed.

Section Ctx.
Variable fixed : bool.
Variable p : prog.

(* c reached task t from a root whose own context is c through forwarding calls only *)
Inductive fwd_chain (tr : list event) (c : ctx) : tid -> Prop :=
| fc_root n cs : nth_error (roots p) n = Some (cs, c) -> fwd_chain tr c (TRoot n)
| fc_body t pc cl k :
    fwd_chain tr c t -> In (CallEnter t pc) tr -> nth_error (calls_of p t) pc = Some cl ->
    c_ctx cl = Fwd -> In k (c_deps cl) -> In (BodyStart k c) tr -> fwd_chain tr c (TBody k).

(* the context task t runs with, read off the program (roots) and the trace (bodies) *)
Definition task_ctx (tr : list event) (t : tid) (c : ctx) : Prop :=
  match t with
  | TRoot n => exists cs, nth_error (roots p) n = Some (cs, c)
  | TBody k => In (BodyStart k c) tr
  end.

(* the call whose goroutine won the once of k, and what it handed over *)
Definition won_by (tr : list event) (k : key) (c : ctx) : Prop :=
  exists t pc cl ct,
    In (CallEnter t pc) tr /\ nth_error (calls_of p t) pc = Some cl /\ In k (c_deps cl) /\
    task_ctx tr t ct /\ c = child_ctx cl ct.

Lemma fwd_chain_mono tr tr' c t : (forall e, In e tr -> In e tr') -> fwd_chain tr c t -> fwd_chain tr' c t.
Proof.
  intros Hsub H. induction H.
  - econstructor; eauto.
  - econstructor; eauto.
Qed.

Lemma task_ctx_mono tr tr' t c : (forall e, In e tr -> In e tr') -> task_ctx tr t c -> task_ctx tr' t c.
Proof. intros Hsub. destruct t; simpl; auto. Qed.

Lemma won_by_mono tr tr' k c : (forall e, In e tr -> In e tr') -> won_by tr k c -> won_by tr' k c.
Proof.
  intros Hsub (t & pc & cl & ct & H1 & H2 & H3 & H4 & H5).
  exists t, pc, cl, ct. repeat split; auto. eapply task_ctx_mono; eauto.
Qed.

Definition origin (tr : list event) (c : ctx) (t : tid) : Prop := c = CBg \/ fwd_chain tr c t.

Record J (s : cfg) (tr : list event) : Prop := {
  j_task : forall t tk, tasks s t = Some tk -> origin tr (t_ctx tk) t /\ task_ctx tr t (t_ctx tk);
  j_start : forall k c, In (BodyStart k c) tr -> origin tr c (TBody k) /\ won_by tr k c;
}.

Lemma J_init : J (init p) [].
Proof.
  split.
  - intros t tk H. destruct t as [n|k]; simpl in H; [|discriminate].
    destruct (nth_error (roots p) n) as [[cs c]|] eqn:E; [|discriminate].
    inversion H; subst; simpl. split.
    + right. econstructor; eauto.
    + eauto.
  - intros k c [].
Qed.

Lemma J_step : forall s tr a s' ev,
  reach fixed p s tr -> J s tr -> step fixed p s a = Some (s', ev) -> J s' (tr ++ ev).
Proof.
  intros s tr a s' ev HR HJ Hs.
  assert (Hsub : forall e, In e tr -> In e (tr ++ ev)) by (intros; apply in_or_app; auto).
  assert (Hnew : forall k c, In (BodyStart k c) ev -> origin (tr ++ ev) c (TBody k) /\ won_by (tr ++ ev) k c).
  { intros k c Hin.
    destruct (start_ctx _ _ _ _ _ _ _ _ Hs Hin) as (t & j & tk & r & st & cl & Ha & Ht & Hp & Hc & Hm & Hcc).
    destruct (j_task _ _ HJ t tk Ht) as [Ho Htc].
    pose proof (reach_inv _ _ _ _ HR) as [_ [HB _]].
    destruct (b_rd _ _ _ _ _ _ _ _ (b_round _ _ _ _ HB t tk r st Ht Hp)) as (c0 & Hc0 & Hr0 & _ & Hent).
    rewrite Hc in Hc0. inversion Hc0; subst c0.
    assert (Hk : In k (c_deps cl)).
    { eapply B_round_member; eauto. eapply nth_error_In; eauto. }
    split.
    - unfold child_ctx in Hcc. destruct (c_ctx cl) eqn:Ecl.
      + left. auto.
      + subst c. destruct Ho as [Ho|Ho]; [left; auto|right].
        eapply fc_body with (t := t) (pc := t_pc tk) (cl := cl); eauto.
        * eapply fwd_chain_mono; eauto.
        * apply in_or_app. right. auto.
    - exists t, (t_pc tk), cl, (t_ctx tk). repeat split; auto.
      eapply task_ctx_mono; eauto. }
  split.
  - intros t' tk' Ht'.
    destruct (task_ctx_step _ _ _ _ _ _ _ _ Hs Ht') as [(tk0 & H0 & Hc)|(k & -> & Hin)].
    + destruct (j_task _ _ HJ t' tk0 H0) as [Ho Htc]. rewrite Hc in *. split.
      * destruct Ho as [Ho|Ho]; [left; auto|right; eapply fwd_chain_mono; eauto].
      * eapply task_ctx_mono; eauto.
    + split.
      * apply Hnew. auto.
      * simpl. apply in_or_app. right. auto.
  - intros k c Hin. apply in_app_or in Hin. destruct Hin as [Hin|Hin].
    + destruct (j_start _ _ HJ k c Hin) as [Ho Hw]. split.
      * destruct Ho as [Ho|Ho]; [left; auto|right; eapply fwd_chain_mono; eauto].
      * eapply won_by_mono; eauto.
    + apply Hnew. auto.
Qed.

Lemma reach_J : forall s tr, reach fixed p s tr -> J s tr.
Proof.
  intros s tr R. induction R.
  - apply J_init.
  - eapply J_step; eauto.
Qed.

(* C12_ctx_propagation *)
Lemma ctx_propagation : forall s tr k c,
  reach fixed p s tr -> In (BodyStart k c) tr -> c = CBg \/ fwd_chain tr c (TBody k).
Proof. intros s tr k c R Hin. exact (proj1 (j_start _ _ (reach_J _ _ R) k c Hin)). Qed.

Lemma ctx_winner : forall s tr k c,
  reach fixed p s tr -> In (BodyStart k c) tr -> won_by tr k c.
Proof. intros s tr k c R Hin. exact (proj2 (j_start _ _ (reach_J _ _ R) k c Hin)). Qed.

Lemma fwd_chain_root tr c t : fwd_chain tr c t -> exists n cs, nth_error (roots p) n = Some (cs, c).
Proof. induction 1; eauto. Qed.

(* Deps / SerialDeps only: never the cancellable context *)
Lemma ctx_bg_only : forall s tr k c,
  (forall t pc cl, nth_error (calls_of p t) pc = Some cl -> In k (c_deps cl) -> c_ctx cl = Bg) ->
  reach fixed p s tr -> In (BodyStart k c) tr -> c = CBg.
Proof.
  intros s tr k c Hbg R Hin.
  destruct (ctx_winner _ _ _ _ R Hin) as (t & pc & cl & ct & _ & H2 & H3 & _ & H5).
  subst c. unfold child_ctx. rewrite (Hbg t pc cl H2 H3). reflexivity.
Qed.

(* one context for the invocation (mage: the one of getContext): a body gets that one or Background *)
Lemma ctx_one_root_ctx : forall c0 s tr k c,
  (forall n cs c', nth_error (roots p) n = Some (cs, c') -> c' = c0) ->
  reach fixed p s tr -> In (BodyStart k c) tr -> c = CBg \/ c = c0.
Proof.
  intros c0 s tr k c Hr R Hin.
  destruct (ctx_propagation _ _ _ _ R Hin) as [H|H]; [left; auto|right].
  destruct (fwd_chain_root _ _ _ H) as (n & cs & Hn). eapply Hr; eauto.
Qed.

(* CtxDeps / SerialCtxDeps everywhere: every body gets the context of the invocation *)
Lemma ctx_all_fwd : forall c0 s tr k c,
  (forall n cs c', nth_error (roots p) n = Some (cs, c') -> c' = c0) ->
  (forall t pc cl, nth_error (calls_of p t) pc = Some cl -> c_ctx cl = Fwd) ->
  reach fixed p s tr -> In (BodyStart k c) tr -> c = c0.
Proof.
  intros c0 s tr k c Hr Hf R. revert k c.
  assert (K : (forall t tk, tasks s t = Some tk -> t_ctx tk = c0) /\ (forall k c, In (BodyStart k c) tr -> c = c0)).
  { induction R as [|s tr a s' ev R IH Hs].
    - split.
      + intros t tk H. destruct t as [n|k]; simpl in H; [|discriminate].
        destruct (nth_error (roots p) n) as [[cs c]|] eqn:E; [|discriminate].
        inversion H; subst; simpl. eapply Hr; eauto.
      + intros k c [].
    - destruct IH as [IH1 IH2].
      assert (Hnew : forall k c, In (BodyStart k c) ev -> c = c0).
      { intros k c Hin.
        destruct (start_ctx _ _ _ _ _ _ _ _ Hs Hin) as (t & j & tk & r & st & cl & Ha & Ht & Hp & Hc & Hm & Hcc).
        subst c. unfold child_ctx. rewrite (Hf _ _ _ Hc). eauto. }
      split.
      + intros t' tk' Ht'.
        destruct (task_ctx_step _ _ _ _ _ _ _ _ Hs Ht') as [(tk0 & H0 & Hc)|(k & -> & Hin)].
        * rewrite <- Hc. eauto.
        * eauto.
      + intros k c Hin. apply in_app_or in Hin. destruct Hin; eauto. }
  intros k c Hin. exact (proj2 K k c Hin).
Qed.
End Ctx.

(* what a Bg call and a Fwd call hand over, at the step that starts the body *)
Lemma ctx_handover : forall fixed p s a s' ev k c,
  step fixed p s a = Some (s', ev) -> In (BodyStart k c) ev ->
  exists t j tk cl,
    a = AGo t j /\ tasks s t = Some tk /\ nth_error (calls_of p t) (t_pc tk) = Some cl /\
    (c_ctx cl = Bg -> c = CBg) /\ (c_ctx cl = Fwd -> c = t_ctx tk).
Proof.
  intros fixed p s a s' ev k c Hs Hin.
  destruct (start_ctx _ _ _ _ _ _ _ _ Hs Hin) as (t & j & tk & r & st & cl & Ha & Ht & Hp & Hc & Hm & Hcc).
  exists t, j, tk, cl. repeat split; auto; intros E; subst c; unfold child_ctx; rewrite E; reflexivity.
Qed.

(* the once-only rule decides: the same dependency named by a CtxDeps call and by a Deps call gets the
   context of whichever call's goroutine enters the once first *)
Definition diamond : prog :=
  {| nodes := [ {| b_calls := []; b_result := Ok; b_name := 0 |};
                {| b_calls := [ {| c_style := Par; c_ctx := Fwd; c_deps := [0]; c_guarded := false |} ]; b_result := Ok; b_name := 1 |};
                {| b_calls := [ {| c_style := Par; c_ctx := Bg; c_deps := [0]; c_guarded := false |} ]; b_result := Ok; b_name := 2 |} ];
     roots := [ ([ {| c_style := Par; c_ctx := Fwd; c_deps := [1; 2]; c_guarded := false |} ], CTag 1) ];
     verbose := false |}.

Lemma winner_decides :
  exists acts1 acts2 s1 tr1 s2 tr2,
    run true diamond (init diamond) acts1 = Some (s1, tr1) /\ In (BodyStart 0 (CTag 1)) tr1 /\
    run true diamond (init diamond) acts2 = Some (s2, tr2) /\ In (BodyStart 0 CBg) tr2.
Proof.
  exists [ATask (TRoot 0); ATask (TRoot 0); ATask (TRoot 0); AGo (TRoot 0) 0; ATask (TBody 1); ATask (TBody 1); AGo (TBody 1) 0].
  exists [ATask (TRoot 0); ATask (TRoot 0); ATask (TRoot 0); AGo (TRoot 0) 1; ATask (TBody 2); ATask (TBody 2); AGo (TBody 2) 0].
  do 4 eexists. split; [vm_compute; reflexivity|]. split; [simpl; tauto|]. split; [vm_compute; reflexivity|]. simpl; tauto.
Qed.
