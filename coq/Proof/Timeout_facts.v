(* C12 - proofs about Model/Timeout.v (the discrete-event model of getContext/runTarget) and about the
   propagation of contexts through the dependency engine (Model/Deps.v).
   Part 1: an inductive reading [Run] of [run_from] (one constructor per way a `select` can resolve);
           every result the executable model lists has a [Run] derivation ([run_sound]).
   Part 2: the statements of Props/C12.v about deadlines and SIGINT, by induction on [Run].
   Part 3: context propagation over every reachable trace of the engine. *)
From Mage Require Import Base.Strs Model.Timeout.
From Coq Require Import Lia.
Open Scope Z_scope.

(* ------------------------------------------------------------------ select *)
Definition le_opt (t : Z) (o : option Z) : Prop := forall x, o = Some x -> t <= x.

Lemma earliest_spec {B} (l : list (Z * B)) t b :
  In (t, b) (earliest l) <-> In (t, b) l /\ forall y, In y l -> t <= fst y.
Proof.
  unfold earliest. rewrite filter_In. split; intros [H1 H2]; split; auto.
  - intros y Hy. rewrite forallb_forall in H2. specialize (H2 y Hy). simpl in H2. lia.
  - rewrite forallb_forall. intros y Hy. specialize (H2 y Hy). simpl. lia.
Qed.

Lemma in_opt_ev {B} (o : option Z) (b b' : B) t : In (t, b') (opt_ev o b) <-> o = Some t /\ b' = b.
Proof.
  destruct o; simpl; split.
  - intros [H|[]]. inversion H; auto.
  - intros [H1 H2]. inversion H1; subst; auto.
  - intros [].
  - intros [H _]. discriminate.
Qed.

Lemma outer_first f0 D S t b :
  In (t, b) (earliest (outer_events f0 D S)) ->
  t <= f0 /\ le_opt t D /\ le_opt t S /\
  match b with BComplete => t = f0 | BDone => D = Some t | BSig => S = Some t end.
Proof.
  rewrite earliest_spec. unfold outer_events. intros [Hin Hmin].
  assert (H0 : t <= f0) by (apply (Hmin (f0, BComplete)); left; reflexivity).
  assert (HD : le_opt t D).
  { intros x Hx. apply (Hmin (x, BDone)). right. apply in_or_app. left. apply in_opt_ev. auto. }
  assert (HS : le_opt t S).
  { intros x Hx. apply (Hmin (x, BSig)). right. apply in_or_app. right. apply in_opt_ev. auto. }
  repeat split; auto.
  destruct Hin as [Hin|Hin].
  - inversion Hin; subst. reflexivity.
  - apply in_app_or in Hin. destruct Hin as [Hin|Hin]; apply in_opt_ev in Hin; destruct Hin; subst; auto.
Qed.

Lemma inner_first f1 w S t b :
  In (t, b) (earliest (inner_events f1 w S)) ->
  t <= f1 /\ t <= w /\ le_opt t S /\
  match b with IComplete => t = f1 | ICleanup => t = w | IForce => S = Some t end.
Proof.
  rewrite earliest_spec. unfold inner_events. intros [Hin Hmin].
  assert (H0 : t <= f1) by (apply (Hmin (f1, IComplete)); left; reflexivity).
  assert (H1 : t <= w) by (apply (Hmin (w, ICleanup)); right; left; reflexivity).
  assert (HS : le_opt t S).
  { intros x Hx. apply (Hmin (x, IForce)). right. right. apply in_opt_ev. auto. }
  repeat split; auto.
  destruct Hin as [Hin|[Hin|Hin]].
  - inversion Hin; subst. reflexivity.
  - inversion Hin; subst. reflexivity.
  - apply in_opt_ev in Hin. destruct Hin; subst; auto.
Qed.

(* ------------------------------------------------------------------ the relational reading *)
Section Rel.
Variable d : Z.

Inductive Run : list target -> Z -> option cxs -> list Z -> list tobs -> result -> Prop :=
| R_nil now cx sigs acc :
    Run [] now cx sigs acc {| r_exit := 0; r_time := now; r_cls := KOk; r_obs := rev acc |}
| R_complete_err tg rest now cx sigs acc sg c dn f0 code :
    In sg (sig_views now sigs) -> c = get_context d now cx -> dn = done_at c -> f0 = fin_of tg now dn ->
    le_opt f0 (option_map (Z.max now) dn) -> le_opt f0 (hd_error sg) ->
    err_of tg now dn = Some code ->
    Run (tg :: rest) now cx sigs acc (exit_with code f0 KTarget (mk_obs now c (seen_cancel now dn f0) (Some f0)) acc)
| R_complete_next tg rest now cx sigs acc sg c dn f0 r :
    In sg (sig_views now sigs) -> c = get_context d now cx -> dn = done_at c -> f0 = fin_of tg now dn ->
    le_opt f0 (option_map (Z.max now) dn) -> le_opt f0 (hd_error sg) ->
    err_of tg now dn = None ->
    Run rest f0 (Some c) sg (mk_obs now c (seen_cancel now dn f0) (Some f0) :: acc) r ->
    Run (tg :: rest) now cx sigs acc r
| R_done tg rest now cx sigs acc sg c dn f0 tau k :
    In sg (sig_views now sigs) -> c = get_context d now cx -> dn = done_at c -> f0 = fin_of tg now dn ->
    option_map (Z.max now) dn = Some tau -> tau <= f0 -> le_opt tau (hd_error sg) ->
    In k (err_classes c) ->
    Run (tg :: rest) now cx sigs acc (exit_with 1 tau k (mk_obs now c (Some tau) None) acc)
| R_sig_complete_err tg rest now cx sigs acc sg c dn f0 tau c' dn' f1 code :
    In sg (sig_views now sigs) -> c = get_context d now cx -> dn = done_at c -> f0 = fin_of tg now dn ->
    hd_error sg = Some tau -> tau <= f0 -> le_opt tau (option_map (Z.max now) dn) ->
    c' = cancel_at c tau -> dn' = done_at c' -> f1 = fin_of tg now dn' ->
    f1 <= tau + cleanup_window -> le_opt f1 (hd_error (tl sg)) ->
    err_of tg now dn' = Some code ->
    Run (tg :: rest) now cx sigs acc (exit_with code f1 KTarget (mk_obs now c (seen_cancel now dn' f1) (Some f1)) acc)
| R_sig_complete_next tg rest now cx sigs acc sg c dn f0 tau c' dn' f1 r :
    In sg (sig_views now sigs) -> c = get_context d now cx -> dn = done_at c -> f0 = fin_of tg now dn ->
    hd_error sg = Some tau -> tau <= f0 -> le_opt tau (option_map (Z.max now) dn) ->
    c' = cancel_at c tau -> dn' = done_at c' -> f1 = fin_of tg now dn' ->
    f1 <= tau + cleanup_window -> le_opt f1 (hd_error (tl sg)) ->
    err_of tg now dn' = None ->
    Run rest f1 (Some c') (tl sg) (mk_obs now c (seen_cancel now dn' f1) (Some f1) :: acc) r ->
    Run (tg :: rest) now cx sigs acc r
| R_sig_cleanup tg rest now cx sigs acc sg c dn f0 tau c' dn' f1 w :
    In sg (sig_views now sigs) -> c = get_context d now cx -> dn = done_at c -> f0 = fin_of tg now dn ->
    hd_error sg = Some tau -> tau <= f0 -> le_opt tau (option_map (Z.max now) dn) ->
    c' = cancel_at c tau -> dn' = done_at c' -> f1 = fin_of tg now dn' ->
    w = tau + cleanup_window -> w <= f1 -> le_opt w (hd_error (tl sg)) ->
    Run (tg :: rest) now cx sigs acc (exit_with 1 w KCleanup (mk_obs now c (seen_cancel now dn' w) None) acc)
| R_sig_forced tg rest now cx sigs acc sg c dn f0 tau c' dn' f1 t2 :
    In sg (sig_views now sigs) -> c = get_context d now cx -> dn = done_at c -> f0 = fin_of tg now dn ->
    hd_error sg = Some tau -> tau <= f0 -> le_opt tau (option_map (Z.max now) dn) ->
    c' = cancel_at c tau -> dn' = done_at c' -> f1 = fin_of tg now dn' ->
    hd_error (tl sg) = Some t2 -> t2 <= f1 -> t2 <= tau + cleanup_window ->
    Run (tg :: rest) now cx sigs acc (exit_with 1 t2 KForced (mk_obs now c (seen_cancel now dn' t2) None) acc).

Lemma run_sound : forall tgs now cx sigs acc r,
  In r (run_from d tgs now cx sigs acc) -> Run tgs now cx sigs acc r.
Proof.
  induction tgs as [|tg rest IH]; intros now cx sigs acc r H.
  - simpl in H. destruct H as [H|[]]. subst r. constructor.
  - cbn [run_from] in H.
    apply in_flat_map in H. destruct H as [sg [Hsg H]].
    apply in_flat_map in H. destruct H as [[tau br] [Hev H]].
    apply outer_first in Hev. destruct Hev as (Hf0 & HD & HS & Hbr).
    cbn [fst snd] in H.
    destruct br.
    + (* completion *)
      subst tau.
      destruct (err_of tg now (done_at (get_context d now cx))) as [code|] eqn:Eerr.
      * destruct H as [H|[]]. subst r. eapply R_complete_err; eauto.
      * eapply R_complete_next; eauto.
    + (* ctx.Done() *)
      apply in_map_iff in H. destruct H as [k [Hr Hk]]. subst r.
      eapply R_done; eauto.
    + (* SIGINT *)
      apply in_flat_map in H. destruct H as [[tau2 ib] [Hiev H]].
      apply inner_first in Hiev. destruct Hiev as (Hf1 & Hw & HS2 & Hib).
      cbn [fst snd] in H.
      destruct ib.
      * subst tau2.
        destruct (err_of tg now (done_at (cancel_at (get_context d now cx) tau))) as [code|] eqn:Eerr.
        -- destruct H as [H|[]]. subst r. eapply R_sig_complete_err; eauto.
        -- eapply R_sig_complete_next; eauto.
      * destruct H as [H|[]]. subst r tau2. eapply R_sig_cleanup; eauto.
      * destruct H as [H|[]]. subst r. eapply R_sig_forced; eauto.
Qed.
End Rel.

(* ------------------------------------------------------------------ small facts *)
Lemma sig_views_nil now : sig_views now [] = [[]].
Proof. reflexivity. Qed.

Lemma list_eqb_Z_refl : forall l : list Z, list_eqb Z.eqb l l = true.
Proof. induction l; simpl; auto. rewrite Z.eqb_refl. auto. Qed.

Lemma sig_views_sub now sigs sg : In sg (sig_views now sigs) -> forall x, In x sg -> In x sigs /\ now <= x.
Proof.
  unfold sig_views. intros H x Hx.
  destruct (list_eqb Z.eqb _ _); simpl in H.
  - destruct H as [H|[]]. subst sg. apply filter_In in Hx. destruct Hx. split; auto. lia.
  - destruct H as [H|[H|[]]]; subst sg; apply filter_In in Hx; destruct Hx; split; auto; lia.
Qed.

Lemma sig_views_later now sigs : Forall (fun x => now < x) sigs -> sig_views now sigs = [sigs].
Proof.
  intros H. unfold sig_views.
  assert (E1 : filter (fun x => now <=? x) sigs = sigs).
  { induction H; simpl; auto. destruct (Z.leb_spec now x); [|lia]. f_equal. auto. }
  assert (E2 : filter (fun x => now <? x) sigs = sigs).
  { clear E1. induction H; cbn [filter]; auto. destruct (Z.ltb_spec now x); [|lia]. f_equal. auto. }
  rewrite E1, E2, list_eqb_Z_refl. reflexivity.
Qed.

Lemma in_tl {A} (l : list A) x : In x (tl l) -> In x l.
Proof. destruct l; simpl; auto. Qed.
Lemma in_hd {A} (l : list A) x : hd_error l = Some x -> In x l.
Proof. destruct l; simpl; intros H; inversion H; auto. Qed.

Lemma omin_none_r a : omin a None = a.
Proof. destruct a; reflexivity. Qed.

(* the target, case by case *)
Lemma target_none tg s : noticed tg s None = None /\ fin_of tg s None = s + work tg /\ err_of tg s None = rc tg.
Proof. unfold fin_of, err_of, noticed. destruct (honours tg); auto. Qed.

Lemma target_cases tg s x :
  (noticed tg s (Some x) = None /\ fin_of tg s (Some x) = s + work tg /\ err_of tg s (Some x) = rc tg /\
   (honours tg = None \/ s + work tg <= Z.max s x)) \/
  (exists k, honours tg = Some k /\ Z.max s x < s + work tg /\ noticed tg s (Some x) = Some (Z.max s x) /\
             fin_of tg s (Some x) = Z.max s x + k /\ err_of tg s (Some x) = crc tg).
Proof.
  unfold fin_of, err_of, noticed. destruct (honours tg) as [k|].
  - destruct (Z.max s x <? s + work tg) eqn:E.
    + right. exists k. repeat split; auto. lia.
    + left. repeat split; auto. right. lia.
  - left. auto.
Qed.

(* ------------------------------------------------------------------ C12_prompt_exit *)
Definition ctx_T (d now T : Z) (cx : option cxs) : Prop :=
  (cx = None /\ T = now + d /\ d <> 0) \/ cx = Some {| deadline := Some T; cancelled := None |}.

Lemma get_context_T d now T cx : ctx_T d now T cx -> get_context d now cx = {| deadline := Some T; cancelled := None |}.
Proof.
  intros [[H1 [H2 H3]]|H]; subst; simpl; auto.
  destruct (Z.eqb d 0) eqn:E; [lia|reflexivity].
Qed.

Definition exceeding_ok (tg : target) : Prop :=
  0 <= work tg /\ rc tg = None /\ forall k, honours tg = Some k -> 0 < k.

Lemma prompt_gen d : forall tgs now cx sigs acc r,
  Run d tgs now cx sigs acc r -> sigs = [] ->
  forall T, ctx_T d now T cx -> now <= T -> T - now < total_work tgs -> Forall exceeding_ok tgs ->
  r_exit r = 1 /\ r_cls r = KDeadline /\ r_time r = T.
Proof.
  induction 1; intros Hs T HT Hle Htot Hok; subst sigs.
  - simpl in Htot. lia.
  - (* completes with an error: impossible *)
    exfalso. rewrite (get_context_T _ _ _ _ HT) in *. subst c dn. unfold done_at in *. simpl in *.
    inversion Hok as [|? ? [Hw [Hres Hk]] _]; subst.
    destruct (target_cases tg now T) as [(_ & _ & He & _)|(k & Hh & Hlt & _ & Hf & _)].
    + congruence.
    + specialize (H3 _ eq_refl). specialize (Hk _ Hh). lia.
  - rewrite (get_context_T _ _ _ _ HT) in *. subst c dn. unfold done_at in *. simpl in *.
    inversion Hok as [|? ? [Hw [Hres Hk]] Hok']; subst.
    destruct H as [H|[]]. subst sg.
    destruct (target_cases tg now T) as [(_ & Hf & _ & _)|(k & Hh & Hlt & _ & Hf & _)].
    + specialize (H3 _ eq_refl).
      eapply IHRun; eauto.
      * right. reflexivity.
      * rewrite Hf in *. lia.
      * rewrite Hf in *. lia.
    + specialize (H3 _ eq_refl). specialize (Hk _ Hh). lia.
  - rewrite (get_context_T _ _ _ _ HT) in *. subst c dn. unfold done_at in *. simpl in *.
    inversion H3; subst. destruct H6 as [H6|[]]. subst k. simpl. repeat split; auto. lia.
  - rewrite sig_views_nil in H. destruct H as [H|[]]. subst sg. discriminate.
  - rewrite sig_views_nil in H. destruct H as [H|[]]. subst sg. discriminate.
  - rewrite sig_views_nil in H. destruct H as [H|[]]. subst sg. discriminate.
  - rewrite sig_views_nil in H. destruct H as [H|[]]. subst sg. discriminate.
Qed.

Lemma prompt_exit : forall d tgs t0 r,
  0 < d -> Forall exceeding_ok tgs -> d < total_work tgs ->
  In r (run_targets d tgs t0 []) ->
  r_exit r = 1 /\ r_cls r = KDeadline /\ r_time r = t0 + d.
Proof.
  intros d tgs t0 r Hd Hok Htot Hin. apply run_sound in Hin.
  eapply prompt_gen; eauto.
  - left. repeat split; auto. lia.
  - lia.
  - lia.
Qed.

(* ------------------------------------------------------------------ C12_unaffected *)
Lemma earliest_complete_only f0 D :
  (forall x, D = Some x -> f0 < x) -> earliest (outer_events f0 D None) = [(f0, BComplete)].
Proof.
  intros H. unfold earliest, outer_events. destruct D as [x|]; simpl.
  - specialize (H x eq_refl). rewrite Z.leb_refl.
    destruct (Z.leb_spec f0 x); [|lia]. destruct (Z.leb_spec x f0); [lia|]. reflexivity.
  - rewrite Z.leb_refl. reflexivity.
Qed.

Lemma total_work_nonneg tgs : Forall (fun tg => 0 <= work tg) tgs -> 0 <= total_work tgs.
Proof. induction 1; simpl; lia. Qed.

(* the context has deadline dl (None when d = 0) and has not been cancelled *)
Definition ctx_plain (d now : Z) (dl : option Z) (cx : option cxs) : Prop :=
  get_context d now cx = {| deadline := dl; cancelled := None |}.

Lemma plain_gen d dl : forall tgs now cx acc,
  ctx_plain d now dl cx -> Forall (fun tg => 0 <= work tg) tgs ->
  (forall T, dl = Some T -> now + total_work tgs < T) ->
  run_from d tgs now cx [] acc = [plain_run dl tgs now acc].
Proof.
  induction tgs as [|tg rest IH]; intros now cx acc Hc Hw HT.
  - reflexivity.
  - cbn [run_from plain_run]. rewrite sig_views_nil. cbn [flat_map]. rewrite app_nil_r.
    unfold ctx_plain in Hc. rewrite Hc. unfold done_at. cbn [deadline cancelled]. rewrite omin_none_r.
    inversion Hw as [|? ? Hw1 Hw2]; subst.
    pose proof (total_work_nonneg _ Hw2) as Hnn. simpl in HT.
    assert (Hfe : fin_of tg now dl = now + work tg /\ err_of tg now dl = rc tg).
    { destruct dl as [T|].
      - specialize (HT T eq_refl).
        destruct (target_cases tg now T) as [(_ & Hf & He & _)|(k & _ & Hlt & _)]; [auto|lia].
      - destruct (target_none tg now) as (_ & Hf & He). auto. }
    destruct Hfe as [Hf He]. rewrite Hf, He.
    cbn [hd_error].
    rewrite earliest_complete_only.
    2:{ intros x Hx. destruct dl as [T|]; simpl in Hx; inversion Hx; subst. specialize (HT T eq_refl). lia. }
    cbn [flat_map fst snd]. rewrite app_nil_r.
    assert (Hseen : seen_cancel now dl (now + work tg) = None).
    { unfold seen_cancel. destruct dl as [T|]; auto. specialize (HT T eq_refl).
      destruct (Z.leb_spec (Z.max now T) (now + work tg)); [lia|reflexivity]. }
    rewrite Hseen. unfold mk_obs. cbn [deadline].
    destruct (rc tg) as [code|].
    + reflexivity.
    + apply IH; auto.
      * reflexivity.
      * intros T HTe. specialize (HT T HTe). lia.
Qed.

Lemma plain_run_deadline dl : forall tgs now acc,
  plain_run dl tgs now (map (set_deadline dl) acc) = with_deadline dl (plain_run None tgs now acc).
Proof.
  induction tgs as [|tg rest IH]; intros now acc; simpl.
  - unfold with_deadline. simpl. rewrite map_rev. reflexivity.
  - destruct (rc tg).
    + unfold with_deadline. simpl. rewrite map_app, map_rev. reflexivity.
    + rewrite <- IH. reflexivity.
Qed.

Lemma no_timeout_no_signal : forall tgs t0,
  Forall (fun tg => 0 <= work tg) tgs -> run_targets 0 tgs t0 [] = [plain_run None tgs t0 []].
Proof.
  intros. unfold run_targets. apply plain_gen; auto.
  - reflexivity.
  - intros T HT. discriminate.
Qed.

Lemma unaffected : forall d tgs t0,
  Forall (fun tg => 0 <= work tg) tgs -> total_work tgs < d ->
  run_targets d tgs t0 [] = map (with_deadline (Some (t0 + d))) (run_targets 0 tgs t0 []).
Proof.
  intros d tgs t0 Hw Htot.
  rewrite no_timeout_no_signal by auto. simpl.
  rewrite <- (plain_run_deadline (Some (t0 + d)) tgs t0 []). simpl.
  unfold run_targets. apply plain_gen; auto.
  - unfold ctx_plain. simpl. pose proof (total_work_nonneg _ Hw).
    destruct (Z.eqb_spec d 0); [lia|reflexivity].
  - intros T HT. inversion HT; subst. lia.
Qed.

(* ------------------------------------------------------------------ C12_deadline_shared *)
(* the context of the invocation has deadline T (whatever was cancelled meanwhile) *)
Definition ctx_dl (d now T : Z) (cx : option cxs) : Prop :=
  (cx = None /\ T = now + d /\ d <> 0) \/ exists cn, cx = Some {| deadline := Some T; cancelled := cn |}.

Lemma get_context_dl d now T cx : ctx_dl d now T cx -> deadline (get_context d now cx) = Some T.
Proof.
  intros [[H1 [H2 H3]]|[cn H]]; subst; simpl; auto.
  destruct (Z.eqb_spec d 0); [lia|reflexivity].
Qed.

Lemma Forall_rev_cons {A} (P : A -> Prop) o acc : P o -> Forall P acc -> Forall P (rev (o :: acc)).
Proof. intros. apply Forall_rev. constructor; auto. Qed.

Lemma deadline_gen d : forall tgs now cx sigs acc r,
  Run d tgs now cx sigs acc r ->
  forall T, ctx_dl d now T cx -> Forall (fun o => ts_deadline o = Some T) acc ->
  Forall (fun o => ts_deadline o = Some T) (r_obs r).
Proof.
  induction 1; intros T HT Hacc;
    try (pose proof (get_context_dl _ _ _ _ HT) as Hdl; subst c);
    try (simpl; apply Forall_rev_cons; auto; fail).
  - simpl. apply Forall_rev. auto.
  - eapply IHRun.
    + right. destruct (get_context d now cx) as [dl cn]. simpl in Hdl. subst dl. eauto.
    + constructor; auto.
  - eapply IHRun.
    + right. subst c'. unfold cancel_at. rewrite Hdl. eauto.
    + constructor; auto.
Qed.

Lemma deadline_all : forall d tgs t0 sigs r o,
  d <> 0 -> In r (run_targets d tgs t0 sigs) -> In o (r_obs r) -> ts_deadline o = Some (t0 + d).
Proof.
  intros d tgs t0 sigs r o Hd Hin Ho. apply run_sound in Hin.
  assert (H : Forall (fun o => ts_deadline o = Some (t0 + d)) (r_obs r)).
  { eapply deadline_gen; eauto. left. auto. }
  rewrite Forall_forall in H. apply H; auto.
Qed.

(* without signals: a target sees the cancellation at T exactly, or had ended by then *)
Definition sees_T (T : Z) (o : tobs) : Prop :=
  ts_start o <= T /\ (forall x, ts_cancel o = Some x -> x = T) /\
  (ts_cancel o = None -> exists e, ts_end o = Some e /\ e < T).

Lemma seen_cancel_T now T upto : now <= T ->
  seen_cancel now (Some T) upto = if T <=? upto then Some T else None.
Proof. intros. unfold seen_cancel. rewrite Z.max_r by lia. reflexivity. Qed.

Lemma shared_gen d : forall tgs now cx sigs acc r,
  Run d tgs now cx sigs acc r -> sigs = [] ->
  forall T, ctx_T d now T cx -> now <= T -> Forall (sees_T T) acc -> Forall (sees_T T) (r_obs r).
Proof.
  induction 1; intros Hs T HT Hle Hacc; subst sigs;
    try (rewrite sig_views_nil in H; destruct H as [H|[]]; subst sg);
    try discriminate;
    try (rewrite (get_context_T _ _ _ _ HT) in *; subst c dn; subst f0); unfold done_at, exit_with in *;
    cbn [deadline cancelled omin option_map r_obs hd_error] in *.
  - apply Forall_rev. auto.
  - apply Forall_rev_cons; auto.
    specialize (H3 _ eq_refl). rewrite Z.max_r in H3 by lia.
    rewrite seen_cancel_T by lia. unfold sees_T. simpl. split; [lia|].
    destruct (Z.leb_spec T (fin_of tg now (Some T))); split; intros; try discriminate; try congruence.
    eexists; split; eauto.
  - specialize (H3 _ eq_refl). rewrite Z.max_r in H3 by lia.
    eapply IHRun; eauto.
    + right. reflexivity.
    + constructor; auto.
      rewrite seen_cancel_T by lia. unfold sees_T. simpl. split; [lia|].
      destruct (Z.leb_spec T (fin_of tg now (Some T))); split; intros; try discriminate; try congruence.
      eexists; split; eauto.
  - apply Forall_rev_cons; auto.
    inversion H3; subst. unfold sees_T. simpl. rewrite Z.max_r by lia.
    split; [lia|]. split; intros; congruence.
Qed.

Lemma deadline_shared : forall d tgs t0 r o,
  0 < d -> In r (run_targets d tgs t0 []) -> In o (r_obs r) ->
  ts_deadline o = Some (t0 + d) /\ sees_T (t0 + d) o.
Proof.
  intros d tgs t0 r o Hd Hin Ho. split.
  - eapply deadline_all; eauto. lia.
  - apply run_sound in Hin.
    assert (H : Forall (sees_T (t0 + d)) (r_obs r)).
    { eapply shared_gen; eauto.
      - left. repeat split; auto. lia.
      - lia. }
    rewrite Forall_forall in H. apply H; auto.
Qed.

(* ------------------------------------------------------------------ C12_sigint *)
(* no -t: the context has no deadline; it was cancelled (if at all) no earlier than lb *)
Definition ctx_nodl (lb : Z) (cx : option cxs) : Prop :=
  cx = None \/ exists cn, cx = Some {| deadline := None; cancelled := cn |} /\ le_opt lb cn.

Lemma get_context_nodl lb now cx : ctx_nodl lb cx ->
  exists cn, get_context 0 now cx = {| deadline := None; cancelled := cn |} /\ le_opt lb cn.
Proof.
  intros [H|[cn [H1 H2]]]; subst; simpl.
  - exists None. split; auto. intros x Hx. discriminate.
  - exists cn. auto.
Qed.

Definition cancel_ge (lb : Z) (o : tobs) : Prop := forall x, ts_cancel o = Some x -> lb <= x.

Lemma seen_cancel_ge lb s cn upto x : le_opt lb cn -> seen_cancel s cn upto = Some x -> lb <= x.
Proof.
  unfold seen_cancel. intros H. destruct cn as [y|]; [|discriminate].
  specialize (H y eq_refl). destruct (Z.max s y <=? upto); intros E; inversion E. lia.
Qed.

Lemma sigint_lb lb : forall tgs now cx sigs acc r,
  Run 0 tgs now cx sigs acc r ->
  ctx_nodl lb cx -> Forall (fun x => lb <= x) sigs -> Forall (cancel_ge lb) acc ->
  Forall (cancel_ge lb) (r_obs r).
Proof.
  induction 1; intros Hc Hs Hacc;
    try (destruct (get_context_nodl lb now cx Hc) as [cn [Hg Hcn]]; rewrite Hg in *; subst c dn;
         unfold done_at in *; cbn [deadline cancelled omin] in *);
    try (assert (Hsg : Forall (fun x => lb <= x) sg)
           by (rewrite Forall_forall in *; intros y Hy; apply Hs; eapply sig_views_sub; eauto)).
  - apply Forall_rev. auto.
  - apply Forall_rev_cons; auto. intros x Hx. simpl in Hx. eapply seen_cancel_ge; eauto.
  - apply IHRun; auto.
    + right. eexists. split; eauto.
    + constructor; auto. intros x Hx. simpl in Hx. eapply seen_cancel_ge; eauto.
  - apply Forall_rev_cons; auto. intros x Hx. simpl in Hx. inversion Hx; subst.
    destruct cn as [y|]; [|discriminate]. simpl in H3. inversion H3; subst.
    specialize (Hcn y eq_refl). lia.
  - assert (Htau : lb <= tau) by (rewrite Forall_forall in Hsg; apply Hsg; apply in_hd; auto).
    apply Forall_rev_cons; auto. intros x Hx. simpl in Hx. subst dn' c'. unfold cancel_at in Hx. cbn [deadline cancelled omin] in Hx.
    eapply seen_cancel_ge; [|exact Hx].
    intros y Hy. destruct cn as [z|]; simpl in Hy; inversion Hy; subst; auto.
    specialize (Hcn z eq_refl). lia.
  - assert (Htau : lb <= tau) by (rewrite Forall_forall in Hsg; apply Hsg; apply in_hd; auto).
    assert (Hcn' : le_opt lb (omin cn (Some tau))).
    { intros y Hy. destruct cn as [z|]; simpl in Hy; inversion Hy; subst; auto.
      specialize (Hcn z eq_refl). lia. }
    apply IHRun.
    + right. subst c'. unfold cancel_at. cbn [deadline cancelled]. eexists. split; eauto.
    + rewrite Forall_forall in *. intros y Hy. apply Hsg. apply in_tl. auto.
    + constructor; auto. intros x Hx. simpl in Hx. subst dn' c'. unfold cancel_at in Hx. cbn [deadline cancelled omin] in Hx.
      eapply seen_cancel_ge; eauto.
  - assert (Htau : lb <= tau) by (rewrite Forall_forall in Hsg; apply Hsg; apply in_hd; auto).
    apply Forall_rev_cons; auto. intros x Hx. simpl in Hx. subst dn' c'. unfold cancel_at in Hx. cbn [deadline cancelled omin] in Hx.
    eapply seen_cancel_ge; [|exact Hx].
    intros y Hy. destruct cn as [z|]; simpl in Hy; inversion Hy; subst; auto.
    specialize (Hcn z eq_refl). lia.
  - assert (Htau : lb <= tau) by (rewrite Forall_forall in Hsg; apply Hsg; apply in_hd; auto).
    apply Forall_rev_cons; auto. intros x Hx. simpl in Hx. subst dn' c'. unfold cancel_at in Hx. cbn [deadline cancelled omin] in Hx.
    eapply seen_cancel_ge; [|exact Hx].
    intros y Hy. destruct cn as [z|]; simpl in Hy; inversion Hy; subst; auto.
    specialize (Hcn z eq_refl). lia.
Qed.

Lemma sigint_only : forall tgs t0 sigs lb r o x,
  Forall (fun s => lb <= s) sigs ->
  In r (run_targets 0 tgs t0 sigs) -> In o (r_obs r) -> ts_cancel o = Some x -> lb <= x.
Proof.
  intros tgs t0 sigs lb r o x Hs Hin Ho Hx. apply run_sound in Hin.
  assert (H : Forall (cancel_ge lb) (r_obs r)).
  { eapply sigint_lb; eauto. left. reflexivity. }
  rewrite Forall_forall in H. exact (H o Ho x Hx).
Qed.

(* targets that complete before the first SIGINT arrives *)
Definition pre_ok (tg : target) : Prop := 0 <= work tg /\ rc tg = None.

Fixpoint plain_acc (tgs : list target) (now : Z) (acc : list tobs) : list tobs :=
  match tgs with
  | [] => acc
  | tg :: r => plain_acc r (now + work tg)
                 ({| ts_start := now; ts_deadline := None; ts_cancel := None; ts_end := Some (now + work tg) |} :: acc)
  end.

Definition ctx0 (cx : option cxs) : Prop := cx = None \/ cx = Some {| deadline := None; cancelled := None |}.

Lemma get_context_0 now cx : ctx0 cx -> get_context 0 now cx = {| deadline := None; cancelled := None |}.
Proof. intros [H|H]; subst; reflexivity. Qed.

Lemma pre_ok_total pre : Forall pre_ok pre -> 0 <= total_work pre.
Proof. induction 1 as [|tg l [H1 H2] _ IH]; simpl; lia. Qed.

Lemma pre_run : forall pre rest now cx sigs acc r,
  Run 0 (pre ++ rest) now cx sigs acc r -> ctx0 cx -> Forall pre_ok pre ->
  Forall (fun x => now + total_work pre < x) sigs ->
  exists cx', ctx0 cx' /\ Run 0 rest (now + total_work pre) cx' sigs (plain_acc pre now acc) r.
Proof.
  induction pre as [|tg pre IH]; intros rest now cx sigs acc r HR Hc Hok Hs.
  - simpl. rewrite Z.add_0_r. exists cx. auto.
  - inversion Hok as [|? ? [Hw Hres] Hok']; subst.
    pose proof (pre_ok_total _ Hok') as Hnn.
    simpl in Hs.
    assert (Hv : sig_views now sigs = [sigs]).
    { apply sig_views_later. rewrite Forall_forall in *. intros x Hx. specialize (Hs x Hx). lia. }
    destruct (target_none tg now) as (_ & Hf & He).
    simpl in HR. inversion HR; subst;
      match goal with H : In ?sg (sig_views _ _) |- _ => rewrite Hv in H; destruct H as [H|[]]; subst sg end;
      rewrite (get_context_0 _ _ Hc) in *; unfold done_at in *; cbn [deadline cancelled omin option_map] in *;
      try discriminate;
      try (exfalso; match goal with H : hd_error sigs = Some ?tau |- _ =>
             apply in_hd in H; rewrite Forall_forall in Hs; specialize (Hs _ H); lia end).
    + congruence.
    + match goal with H : Run 0 (pre ++ rest) _ _ _ _ _ |- _ => rename H into HR2 end.
      apply IH in HR2; auto.
      * destruct HR2 as [cx' [Hc' HR']]. exists cx'. split; auto.
        simpl. rewrite Hf in HR'. rewrite Z.add_assoc. exact HR'.
      * right. reflexivity.
      * rewrite Hf. rewrite Forall_forall in *. intros x Hx. specialize (Hs x Hx). lia.
Qed.

Lemma acc_kept d : forall tgs now cx sigs acc r,
  Run d tgs now cx sigs acc r -> forall o, In o acc -> In o (r_obs r).
Proof.
  induction 1; intros o' Ho; simpl;
    try (apply in_or_app; left; apply in_rev; rewrite rev_involutive; auto; fail);
    try (apply IHRun; right; auto; fail).
  apply in_rev. rewrite rev_involutive. auto.
Qed.

Definition at_sigint (s s1 : Z) (o : tobs) : Prop :=
  ts_start o = s /\ ts_deadline o = None /\ ts_cancel o = Some s1.

Lemma seen_cancel_sig s s1 upto : s < s1 -> s1 <= upto -> seen_cancel s (Some s1) upto = Some s1.
Proof. intros. unfold seen_cancel. rewrite Z.max_r by lia. destruct (Z.leb_spec s1 upto); [reflexivity|lia]. Qed.

Lemma sigint_resolution : forall pre tg post t0 s1 more r,
  Forall pre_ok pre ->
  t0 + total_work pre < s1 -> s1 < t0 + total_work pre + work tg ->
  Forall (fun x => s1 <= x) more -> (forall k, honours tg = Some k -> 0 <= k) ->
  In r (run_targets 0 (pre ++ tg :: post) t0 (s1 :: more)) ->
  let s := t0 + total_work pre in
  let F := fin_of tg s (Some s1) in
  let W := s1 + cleanup_window in
  let s2 := hd_error more in
  (exists o, In o (r_obs r) /\ at_sigint s s1 o) /\
  ( (F <= W /\ le_opt F s2 /\
     match err_of tg s (Some s1) with
     | Some code => r_exit r = code /\ r_time r = F /\ r_cls r = KTarget
     | None => post = [] -> r_exit r = 0 /\ r_time r = F /\ r_cls r = KOk
     end)
    \/ (W <= F /\ le_opt W s2 /\ r_exit r = 1 /\ r_time r = W /\ r_cls r = KCleanup)
    \/ (exists t2, s2 = Some t2 /\ t2 <= F /\ t2 <= W /\ r_exit r = 1 /\ r_time r = t2 /\ r_cls r = KForced) ).
Proof.
  intros pre tg post t0 s1 more r Hok Hlo Hhi Hmore Hk Hin s F W s2.
  apply run_sound in Hin.
  apply pre_run in Hin; auto.
  2:{ left. reflexivity. }
  2:{ constructor; [lia|]. rewrite Forall_forall in *. intros x Hx. specialize (Hmore x Hx). lia. }
  destruct Hin as [cx' [Hc HR]]. fold s in HR.
  assert (Hv : sig_views s (s1 :: more) = [s1 :: more]).
  { apply sig_views_later. constructor; [lia|]. rewrite Forall_forall in *. intros x Hx. specialize (Hmore x Hx). lia. }
  destruct (target_none tg s) as (_ & Hf & He).
  assert (HF : s1 <= F).
  { unfold F. destruct (target_cases tg s s1) as [(_ & Hf1 & _ & _)|(k & Hh & _ & _ & Hf1 & _)]; rewrite Hf1.
    - lia.
    - specialize (Hk k Hh). lia. }
  assert (HW : s1 <= W) by (unfold W, cleanup_window; lia).
  inversion HR; subst;
    match goal with H : In ?sg (sig_views _ _) |- _ => rewrite Hv in H; destruct H as [H|[]]; subst sg end;
    rewrite (get_context_0 _ _ Hc) in *; unfold done_at, cancel_at in *;
    cbn [deadline cancelled omin option_map hd_error tl] in *;
    try discriminate;
    try (exfalso; match goal with H : le_opt _ (Some s1) |- _ => specialize (H _ eq_refl); fold s in H; lia end);
    match goal with H : Some s1 = Some _ |- _ => inversion H; subst; clear H end.
  - (* completes with an error within the window *)
    split.
    + eexists. split; [unfold exit_with; cbn [r_obs rev]; apply in_or_app; right; left; reflexivity|].
      unfold at_sigint, mk_obs; cbn [ts_start ts_deadline ts_cancel deadline]; rewrite seen_cancel_sig; [auto | subst s; lia | first [exact HF | exact HW | lia]].
    + left. fold s F W s2. repeat split; auto.
      match goal with H : err_of _ _ _ = Some _ |- _ => fold s in H; rewrite H end. auto.
  - (* completes successfully: the next target runs with the cancelled context *)
    split.
    + exists (mk_obs s {| deadline := None; cancelled := None |} (seen_cancel s (Some tau) (fin_of tg s (Some tau))) (Some (fin_of tg s (Some tau)))).
      split.
      * eapply acc_kept; eauto. left. reflexivity.
      * unfold at_sigint, mk_obs; cbn [ts_start ts_deadline ts_cancel deadline]; rewrite seen_cancel_sig; [auto | subst s; lia | first [exact HF | exact HW | lia]].
    + left. fold s F W s2. repeat split; auto.
      match goal with H : err_of _ _ _ = None |- _ => fold s in H; rewrite H end.
      intros Hp. subst post.
      match goal with H : Run 0 [] _ _ _ _ _ |- _ => inversion H; subst end. simpl. auto.
  - (* cleanup window exceeded *)
    split.
    + eexists. split; [unfold exit_with; cbn [r_obs rev]; apply in_or_app; right; left; reflexivity|].
      unfold at_sigint, mk_obs; cbn [ts_start ts_deadline ts_cancel deadline]; rewrite seen_cancel_sig; [auto | subst s; lia | first [exact HF | exact HW | lia]].
    + right. left. fold s F W s2. repeat split; auto.
  - (* second SIGINT *)
    assert (Ht2 : tau <= t2).
    { rewrite Forall_forall in Hmore. apply Hmore. apply in_hd. auto. }
    split.
    + eexists. split; [unfold exit_with; cbn [r_obs rev]; apply in_or_app; right; left; reflexivity|].
      unfold at_sigint, mk_obs; cbn [ts_start ts_deadline ts_cancel deadline]; rewrite seen_cancel_sig; [auto | subst s; lia | first [exact HF | exact HW | lia]].
    + right. right. exists t2. fold s F W s2. repeat split; auto.
Qed.

Lemma sigint_exit_time : forall pre tg t0 s1 more r,
  Forall pre_ok pre ->
  t0 + total_work pre < s1 -> s1 < t0 + total_work pre + work tg ->
  Forall (fun x => s1 <= x) more -> (forall k, honours tg = Some k -> 0 <= k) ->
  In r (run_targets 0 (pre ++ [tg]) t0 (s1 :: more)) ->
  let F := fin_of tg (t0 + total_work pre) (Some s1) in
  let W := s1 + cleanup_window in
  r_time r = Z.min F (Z.min W (match hd_error more with Some t2 => t2 | None => W end)).
Proof.
  intros pre tg t0 s1 more r Hok Hlo Hhi Hmore Hk Hin F W.
  destruct (sigint_resolution pre tg [] t0 s1 more r Hok Hlo Hhi Hmore Hk Hin) as [_ H].
  fold F W in H.
  destruct H as [(H1 & H2 & H3)|[(H1 & H2 & _ & H3 & _)|(t2 & H1 & H2 & H3 & _ & H4 & _)]].
  - assert (Ht : r_time r = F).
    { destruct (err_of tg (t0 + total_work pre) (Some s1)); [tauto|]. destruct (H3 eq_refl) as (_ & ? & _). auto. }
    rewrite Ht. destruct (hd_error more) as [t2|]; [specialize (H2 t2 eq_refl)|]; lia.
  - rewrite H3. destruct (hd_error more) as [t2|]; [specialize (H2 t2 eq_refl)|]; lia.
  - rewrite H4, H1. lia.
Qed.

(* ------------------------------------------------------------------ non-vacuity *)
Definition ex_A : target := {| work := 300; honours := Some 50; rc := None; crc := Some 1 |}.
Definition ex_B : target := {| work := 500; honours := None; rc := None; crc := None |}.
Definition ex_long : target := {| work := 8000000000; honours := None; rc := None; crc := None |}.
Definition ex_polite : target := {| work := 2000; honours := Some 100; rc := None; crc := Some 1 |}.

Lemma nonvacuous_c12 :
  (* beyond the deadline: the second (context-ignoring) target is cut at t0 + d, not at its own start + d *)
  run_targets 600 [ex_A; ex_B] 0 [] =
    [ {| r_exit := 1; r_time := 600; r_cls := KDeadline;
         r_obs := [ {| ts_start := 0; ts_deadline := Some 600; ts_cancel := None; ts_end := Some 300 |};
                    {| ts_start := 300; ts_deadline := Some 600; ts_cancel := Some 600; ts_end := None |} ] |} ] /\
  (* before the deadline: unaffected *)
  run_targets 1000 [ex_A; ex_B] 0 [] =
    [ {| r_exit := 0; r_time := 800; r_cls := KOk;
         r_obs := [ {| ts_start := 0; ts_deadline := Some 1000; ts_cancel := None; ts_end := Some 300 |};
                    {| ts_start := 300; ts_deadline := Some 1000; ts_cancel := None; ts_end := Some 800 |} ] |} ] /\
  (* exactly at the deadline both outcomes of the select are possible *)
  map (fun r => (r_exit r, r_cls r)) (run_targets 300 [ex_A] 0 []) = [(0, KOk); (1, KDeadline)] /\
  (* SIGINT: the three ways the cleanup select resolves *)
  map (fun r => (r_exit r, r_time r, r_cls r)) (run_targets 0 [ex_polite] 0 [300]) = [(1, 400, KTarget)] /\
  map (fun r => (r_exit r, r_time r, r_cls r)) (run_targets 0 [ex_long] 0 [300]) = [(1, 300 + cleanup_window, KCleanup)] /\
  map (fun r => (r_exit r, r_time r, r_cls r)) (run_targets 0 [ex_long] 0 [300; 700]) = [(1, 700, KForced)] /\
  (* the hypotheses of the theorems are satisfiable *)
  Forall exceeding_ok [ex_A; ex_B] /\ 600 < total_work [ex_A; ex_B] /\ total_work [ex_A; ex_B] < 1000 /\
  Forall pre_ok [ex_B] /\ 0 + total_work [ex_B] < 700 /\ 700 < 0 + total_work [ex_B] + work ex_polite.
Proof.
  repeat split; try (vm_compute; reflexivity); try (vm_compute; congruence);
    repeat constructor; vm_compute; try congruence; intros k H; inversion H; reflexivity.
Qed.

(* the bound of C12_prompt_exit does not survive a SIGINT: after the first SIGINT runTarget waits for the
   target / the 5 s timer / a second SIGINT only - ctx.Done() is no longer selected on - so a run with
   -t d can end after t0 + d, and with status 0 *)
Lemma prompt_exit_sigint_refuted :
  exists d tgs t0 sigs r,
    0 < d /\ Forall exceeding_ok tgs /\ d < total_work tgs /\ Forall (fun s => t0 <= s) sigs /\
    In r (run_targets d tgs t0 sigs) /\ t0 + d < r_time r /\ r_exit r = 0 /\ r_cls r = KOk.
Proof.
  exists 1000, [ {| work := 2000; honours := None; rc := None; crc := None |} ], 0, [400].
  eexists. split; [lia|]. split.
  { repeat constructor; simpl; try lia. intros k H; discriminate. }
  split; [simpl; lia|]. split; [repeat constructor; lia|].
  split; [vm_compute; left; reflexivity|]. simpl. repeat split; lia.
Qed.
