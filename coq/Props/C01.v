From Mage Require Import Base.Strs Model.Deps.
Example C01_smoke : changeExit 0 3 = 3%Z.
Proof. reflexivity. Qed.
Print Assumptions C01_smoke.
