(* C01 - a dependency's body runs exactly once per mage execution.
   Statements only; proofs in Proof/Deps_c01.v.  [reach fixed p s tr] ranges over EVERY program p
   (any graph, fan-in, repeated mentions, call styles), EVERY schedule (list of actions) and every
   prefix of every execution.  fixed = true is the current tree. *)
From Mage Require Import Base.Strs Model.Deps Proof.Deps_defs Proof.Deps_c01.

Theorem C01_at_most_once : forall fixed p s tr k,
  reach fixed p s tr -> nstart k tr <= 1.
Proof. exact at_most_once. Qed.
Print Assumptions C01_at_most_once.

Theorem C01_started_iff : forall fixed p s tr k,
  reach fixed p s tr -> (nstart k tr = 1 <-> cells s k <> NotStarted).
Proof. exact started_iff. Qed.
Print Assumptions C01_started_iff.

(* exactly once if an executed call names it (gets to it, for the serial forms) *)
Theorem C01_named_runs : forall p s tr t pc c k,
  reach true p s tr -> final s ->
  In (CallEnter t pc) tr -> nth_error (calls_of p t) pc = Some c -> reached_by tr c k ->
  nstart k tr = 1 /\ nend k tr = 1.
Proof. exact named_runs. Qed.
Print Assumptions C01_named_runs.

(* ... and never otherwise *)
Theorem C01_unnamed_never_runs : forall fixed p s tr k,
  reach fixed p s tr -> nstart k tr = 1 ->
  exists t pc c, In (CallEnter t pc) tr /\ nth_error (calls_of p t) pc = Some c /\ In k (c_deps c).
Proof. exact unnamed_never_runs. Qed.
Print Assumptions C01_unnamed_never_runs.

(* two different keys are never treated as the same dependency: starting one leaves the other's cell alone *)
Theorem C01_distinct_keys : forall fixed p s a s' ev k1 k2 cx,
  step fixed p s a = Some (s', ev) -> In (BodyStart k1 cx) ev -> k2 <> k1 -> cells s' k2 = cells s k2.
Proof. exact distinct_keys. Qed.
Print Assumptions C01_distinct_keys.

(* 'Running dependency: <name>' appears once per executed dependency of that name with -v, never without *)
Theorem C01_log_once : forall fixed p s tr n,
  reach fixed p s tr -> nlog n tr = if verbose p then nstart_named p n tr else 0.
Proof. exact log_once. Qed.
Print Assumptions C01_log_once.

(* non-vacuity: a program with fan-in 3 on one key, run to a final configuration *)
Example C01_nonvacuous : exists p acts s tr,
  run true p (init p) acts = Some (s, tr) /\ reach true p s tr /\ final s /\ nstart 0 tr = 1 /\
  length (filter (fun e => match e with CallEnter _ _ => true | _ => false end) tr) >= 3.
Proof. exact nonvacuous_c01. Qed.
Print Assumptions C01_nonvacuous.
