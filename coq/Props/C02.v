(* C02 - Deps calls return only after all their dependencies have finished.
   Statements only; proofs in Proof/Deps_c02.v.  Positions in the trace are real-time order. *)
From Mage Require Import Base.Strs Model.Deps Proof.Deps_defs Proof.Deps_c02.

(* when a call returns OR panics, every dependency it got to has ended strictly before - whoever started it *)
Theorem C02_barrier : forall p s tr pre e post t pc c k,
  reach true p s tr -> tr = pre ++ e :: post -> call_end e t pc ->
  nth_error (calls_of p t) pc = Some c -> reached_by tr c k ->
  exists r, In (BodyEnd k r) pre.
Proof. exact barrier. Qed.
Print Assumptions C02_barrier.

(* for a normal return this holds for every named dependency and for the code before the repair too *)
Theorem C02_barrier_return : forall fixed p s tr pre post t pc c k,
  reach fixed p s tr -> tr = pre ++ CallReturn t pc :: post ->
  nth_error (calls_of p t) pc = Some c -> In k (c_deps c) ->
  exists r, In (BodyEnd k r) pre.
Proof. exact barrier_return. Qed.
Print Assumptions C02_barrier_return.

(* a body ends only after every call it entered has ended *)
Theorem C02_body_waits_for_its_calls : forall fixed p s tr pre k r post pc,
  reach fixed p s tr -> tr = pre ++ BodyEnd k r :: post -> In (CallEnter (TBody k) pc) tr ->
  In (CallEnter (TBody k) pc) pre /\
  (In (CallReturn (TBody k) pc) pre \/ exists x m, In (CallPanic (TBody k) pc x m) pre).
Proof. exact body_waits_for_its_calls. Qed.
Print Assumptions C02_body_waits_for_its_calls.

(* ... together with everything that dependency itself waited on *)
Theorem C02_transitive : forall p s tr pre e post t pc c k k',
  reach true p s tr -> tr = pre ++ e :: post -> call_end e t pc ->
  nth_error (calls_of p t) pc = Some c -> reached_by tr c k -> below p tr k k' ->
  exists r, In (BodyEnd k' r) pre.
Proof. exact transitive. Qed.
Print Assumptions C02_transitive.

(* nothing of a dependency happens after its end *)
Theorem C02_no_event_after_end : forall fixed p s tr pre k r post e,
  reach fixed p s tr -> tr = pre ++ BodyEnd k r :: post -> In e post -> ~ event_of k e.
Proof. exact no_event_after_end. Qed.
Print Assumptions C02_no_event_after_end.

(* so code after a Deps call never overlaps with any dependency named in it, also when one failed *)
Theorem C02_no_overlap : forall p s tr pre e post t pc c k k' e',
  reach true p s tr -> tr = pre ++ e :: post -> call_end e t pc ->
  nth_error (calls_of p t) pc = Some c -> reached_by tr c k -> below p tr k k' ->
  In e' post -> ~ event_of k' e'.
Proof. exact no_overlap. Qed.
Print Assumptions C02_no_overlap.

(* non-vacuity: a dependency held in flight while a second requester arrives; both calls end after it *)
Example C02_nonvacuous : exists p acts s tr pre post,
  run true p (init p) acts = Some (s, tr) /\ final s /\
  tr = pre ++ CallReturn (TRoot 1) 0 :: post /\ In (BodyEnd 0 RNil) pre /\ In (CallEnter (TRoot 1) 0) pre /\
  exists pre0 post0 cx, pre = pre0 ++ BodyStart 0 cx :: post0 /\ In (CallEnter (TRoot 1) 0) post0.
Proof. exact nonvacuous_c02. Qed.
Print Assumptions C02_nonvacuous.
