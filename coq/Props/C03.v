(* C03 - a failed dependency fails every dependent, always.
   Statements only; proofs in Proof/Deps_c03.v (engine) and Proof/Exit_facts.v (status algebra). *)
From Mage Require Import Base.Strs Model.Deps Proof.Deps_defs Proof.Exit_facts Proof.Deps_c03.

(* the exit status combination rule: the common status of the failures, or 1 when they differ *)
Theorem C03_combine_spec : forall cs,
  combine cs = match filter (fun c => negb (Z.eqb c 0)) cs with
               | [] => 0%Z
               | v :: r => if forallb (Z.eqb v) r then v else 1%Z
               end.
Proof. exact combine_spec. Qed.
Print Assumptions C03_combine_spec.

(* the order in which goroutines report is irrelevant *)
Theorem C03_combine_perm : forall a b, Permutation a b -> combine a = combine b.
Proof. exact combine_perm. Qed.
Print Assumptions C03_combine_perm.

(* a call returns normally only if all its dependencies succeeded *)
Theorem C03_returns_only_on_success : forall p s tr t pc c k,
  reach true p s tr -> In (CallReturn t pc) tr -> nth_error (calls_of p t) pc = Some c -> In k (c_deps c) ->
  In (BodyEnd k RNil) tr.
Proof. exact returns_only_on_success. Qed.
Print Assumptions C03_returns_only_on_success.

(* ... transitively: a dependency succeeds only if every call it made returned normally or was
   deliberately recovered by its body (guarded) *)
Theorem C03_success_means_calls_succeeded : forall p s tr k pc c,
  reach true p s tr -> In (BodyEnd k RNil) tr -> nth_error (calls_of p (TBody k)) pc = Some c ->
  In (CallReturn (TBody k) pc) tr \/ (c_guarded c = true /\ exists x m, In (CallPanic (TBody k) pc x m) tr).
Proof. exact success_means_calls_succeeded. Qed.
Print Assumptions C03_success_means_calls_succeeded.

(* every call that gets to a failed dependency panics - made before it started, while it ran or after
   it finished (the statement is about the whole trace, not about an order) - carrying its message *)
Theorem C03_every_requester_fails : forall p s tr k r t pc c,
  reach true p s tr -> final s ->
  In (BodyEnd k r) tr -> r <> RNil ->
  In (CallEnter t pc) tr -> nth_error (calls_of p t) pc = Some c -> reached_by tr c k ->
  ~ In (CallReturn t pc) tr /\ exists x m, In (CallPanic t pc x m) tr /\ incl (message r) m.
Proof. exact every_requester_fails. Qed.
Print Assumptions C03_every_requester_fails.

(* never returns, at any prefix of any execution (no finality needed) *)
Theorem C03_never_returns : forall p s tr k r t pc c,
  reach true p s tr -> In (BodyEnd k r) tr -> r <> RNil ->
  nth_error (calls_of p t) pc = Some c -> In k (c_deps c) -> ~ In (CallReturn t pc) tr.
Proof. exact never_returns. Qed.
Print Assumptions C03_never_returns.

(* no dependent continues past such a call (unless it recovers by itself) and it fails with the same payload *)
Theorem C03_no_dependent_continues : forall p s tr t pc x m c,
  reach true p s tr -> In (CallPanic t pc x m) tr -> nth_error (calls_of p t) pc = Some c -> c_guarded c = false ->
  (forall pc', pc < pc' -> ~ In (CallEnter t pc') tr) /\
  (forall k r, t = TBody k -> In (BodyEnd k r) tr -> r = RPanic x m).
Proof. exact no_dependent_continues. Qed.
Print Assumptions C03_no_dependent_continues.

(* the payload of a parallel call: the message of every failed dependency (one per mention) and the combined status *)
Theorem C03_payload_par : forall p s tr t pc x m c,
  reach true p s tr -> In (CallPanic t pc x m) tr -> nth_error (calls_of p t) pc = Some c -> c_style c = Par ->
  exists rs, Forall2 (fun k rk => In (BodyEnd k rk) tr) (c_deps c) rs /\
             Permutation m (concat (map message rs)) /\ x = combine (map status rs) /\
             exists r, In r rs /\ r <> RNil.
Proof. exact payload_par. Qed.
Print Assumptions C03_payload_par.

(* the payload of a serial call: exactly the failure of the first failed member *)
Theorem C03_payload_ser : forall p s tr t pc x m c,
  reach true p s tr -> In (CallPanic t pc x m) tr -> nth_error (calls_of p t) pc = Some c -> c_style c = Ser ->
  exists i k r, nth_error (c_deps c) i = Some k /\ In (BodyEnd k r) tr /\ r <> RNil /\
                m = message r /\ x = combine [status r] /\
                forall i' k', i' < i -> nth_error (c_deps c) i' = Some k' -> In (BodyEnd k' RNil) tr.
Proof. exact payload_ser. Qed.
Print Assumptions C03_payload_ser.

(* sensitivity: the model of the code BEFORE the repair (panic not remembered) exhibits the failure:
   a dependency that failed, and a later call naming it that returns normally *)
Theorem C03_before_repair_refuted : exists p acts s tr t pc c k r,
  run false p (init p) acts = Some (s, tr) /\ In (BodyEnd k r) tr /\ r <> RNil /\
  nth_error (calls_of p t) pc = Some c /\ In k (c_deps c) /\ In (CallReturn t pc) tr.
Proof. exact before_repair_refuted. Qed.
Print Assumptions C03_before_repair_refuted.

(* non-vacuity: on the same program and schedule the repaired engine makes the second call panic *)
Example C03_nonvacuous : exists p acts s tr,
  run true p (init p) acts = Some (s, tr) /\ final s /\
  In (CallPanic (TRoot 0) 0 1 [0]) tr /\ In (CallPanic (TRoot 0) 1 1 [0]) tr.
Proof. exact nonvacuous_c03. Qed.
Print Assumptions C03_nonvacuous.
