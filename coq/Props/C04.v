(* C04 - command-line words run exactly the named targets with converted arguments.
   Statements only; proofs in Proof/Dispatch_facts.v; the model ([dispatch], a transcription of the
   generated loop of mage/template.go with parse.ExecCode) in Model/Dispatch.v; the declarative
   vocabulary ([resolves], [converts], [first_bad], the grammar [Seg], mentions) in Model/DispatchSpec.v.

   For every template instantiation [i] (any number of local / namespaced / imported / aliased
   targets, any parameter lists over the four types), every conversion behaviour [conv] of
   strconv/time, every body outcome [fails], every word list (no bound on anything).
   Restriction: [lower] is ASCII lower-casing - identifiers, alias names and the words at name
   positions are ASCII (strings.ToLower on other text is not modelled).  [no_collision i] is the
   documented form: no two target / alias names equal up to letter case (C07 is about the rest). *)
From Mage Require Import Base.Strs Model.Dispatch Model.DispatchSpec Proof.Dispatch_facts.

Section W.
Variable conv : argty -> string -> option string.     (* Atoi / ParseBool / ParseDuration: Some printed value | None *)
Variable fails : nat -> list value -> bool.           (* does this body, called with these values, fail *)
Variable i : info.
Variable env : string.                                (* value of MAGEFILE_IGNOREDEFAULT ("" when unset) *)
Notation dispatch := (dispatch conv fails i env).
Notation Seg := (Seg conv fails i).
Notation good := (good conv fails i).

(* the dispatcher realises the grammar of the property sentence ... *)
Theorem C04_dispatch_is_Seg : forall words, no_collision i -> words <> [] ->
  Seg words (fst (dispatch words)) (snd (dispatch words)).
Proof. exact (dispatch_is_Seg conv fails i env). Qed.

(* ... and the grammar determines the bodies run (left to right, once per mention, nothing after a
   failure), the values they receive and how the run ends *)
Theorem C04_Seg_functional : no_collision i -> forall words cs e, Seg words cs e ->
  forall cs' e', Seg words cs' e' -> cs = cs' /\ e = e'.
Proof. exact (Seg_functional conv fails i). Qed.

(* a command line made of mentions that resolve, convert and succeed runs exactly their bodies, in order *)
Theorem C04_runs_left_to_right : forall ms cs, no_collision i -> Forall2 good ms cs -> ms <> [] ->
  dispatch (flatten ms) = (cs, Done).
Proof. exact (runs_left_to_right conv fails i env). Qed.

(* changing the letter case of the words at name positions changes nothing; argument words are verbatim *)
Theorem C04_case_insensitive : forall ms ms' w w' tail, no_collision i ->
  same_up_to_name_case ms ms' -> well_formed i ms -> lower w = lower w' ->
  dispatch (flatten ms ++ w :: tail) = dispatch (flatten ms' ++ w' :: tail).
Proof. exact (case_insensitive conv fails i env). Qed.

(* the values passed are the conversions of exactly the next [arity] words, position by position in
   declaration order; a string parameter receives its word verbatim *)
Theorem C04_args_in_declaration_order : forall w args rest t, no_collision i -> resolves i w t ->
  length args = arity t ->
  (forall k ty a, nth_error (targs t) k = Some ty -> nth_error args k = Some a -> convert conv ty a <> None) ->
  exists vs cs e, dispatch (w :: args ++ rest) = (mkcall t vs :: cs, e) /\
    length vs = arity t /\
    (forall k ty a, nth_error (targs t) k = Some ty -> nth_error args k = Some a -> nth_error vs k = convert conv ty a) /\
    (forall k a, nth_error (targs t) k = Some TString -> nth_error args k = Some a -> nth_error vs k = Some (VStr a)).
Proof. exact (args_in_declaration_order conv fails i env). Qed.

(* unknown name / missing argument / unconvertible argument: exit status 2, the calls made are
   exactly those of the preceding mentions - the body of that target has not started *)
Theorem C04_exit2_before_body : forall ms cs w tail r, no_collision i -> Forall2 good ms cs ->
  stops conv i w tail r ->
  dispatch (flatten ms ++ w :: tail) = (cs, Exit2 r).
Proof. exact (exit2_before_body conv fails i env). Qed.

(* no target after a failed one runs, whatever follows *)
Theorem C04_nothing_after_failure : forall ms cs w args tail t vs, no_collision i -> Forall2 good ms cs ->
  resolves i w t -> converts conv (targs t) args vs -> fails (tdef t) vs = true ->
  dispatch (flatten ms ++ w :: args ++ tail) = (cs ++ [mkcall t vs], Failed).
Proof. exact (nothing_after_failure conv fails i env). Qed.

(* no words: the default target runs (without arguments) unless there is none or
   MAGEFILE_IGNOREDEFAULT parses as true, in which case the targets are listed; a default target
   that declares parameters stops with exit status 2 *)
Theorem C04_default :
  dispatch [] =
    match default i with
    | None => ([], Listed)
    | Some d =>
        if ignore_default conv env then ([], Listed)
        else if (arity d =? 0)%nat then ([mkcall d []], if fails (tdef d) [] then Failed else Done)
        else ([], Exit2 Missing)
    end.
Proof. exact (default_or_list conv fails i env). Qed.

(* the fuel of the model's loop is never exhausted *)
Theorem C04_never_out_of_fuel : forall words, snd (dispatch words) <> OutOfFuel.
Proof. exact (never_out_of_fuel conv fails i env). Qed.
End W.

(* in the documented form the order in which the template writes the switch cases (local targets
   sorted by name, then each import; aliases in key order) does not matter *)
Theorem C04_case_order_irrelevant : forall conv fails i i' env words,
  no_collision i -> no_collision i' ->
  (forall t, In t (targets i) <-> In t (targets i')) -> (forall p, In p (aliases i) <-> In p (aliases i')) ->
  default i = default i' ->
  dispatch conv fails i env words = dispatch conv fails i' env words.
Proof. exact case_order_irrelevant. Qed.

(* how the program was started - its file name / os.Args[0], -v or MAGEFILE_VERBOSE, MAGEFILE_DEBUG,
   -t or MAGEFILE_TIMEOUT - changes neither the bodies run, nor the values they receive, nor how
   the run ends: the outcome of the whole generated main ([main], which also transcribes the
   verbose logging) is [dispatch] of the words, so every theorem above is about it *)
Theorem C04_main_is_dispatch : forall conv fails m i env words,
  fst (main conv fails m i env words) = dispatch conv fails i env words.
Proof. exact main_outcome. Qed.

Theorem C04_mode_flags_irrelevant : forall conv fails m m' i env words,
  fst (main conv fails m i env words) = fst (main conv fails m' i env words).
Proof. exact mode_flags_irrelevant. Qed.

Theorem C04_quiet_without_verbose : forall conv fails m i env words, m_verbose m = false ->
  snd (main conv fails m i env words) = [].
Proof. exact quiet_without_verbose. Qed.

Print Assumptions C04_dispatch_is_Seg.
Print Assumptions C04_Seg_functional.
Print Assumptions C04_runs_left_to_right.
Print Assumptions C04_case_insensitive.
Print Assumptions C04_args_in_declaration_order.
Print Assumptions C04_exit2_before_body.
Print Assumptions C04_nothing_after_failure.
Print Assumptions C04_default.
Print Assumptions C04_never_out_of_fuel.
Print Assumptions C04_case_order_irrelevant.
Print Assumptions C04_main_is_dispatch.
Print Assumptions C04_mode_flags_irrelevant.
Print Assumptions C04_quiet_without_verbose.

(* non-vacuity: a collision-free instance with a plain, a namespaced, two imported (alias:target,
   alias:ns:target) targets, an alias and a default; good mentions, a stopping word, and runs *)
Example C04_nonvacuous :
  no_collision ex_info /\
  Forall2 (good ex_conv ex_fails ex_info)
    [("BUILD", ["-v"; "+5"]); ("bd", ["ns:deploy"; "5"]); ("AL:htmlparser", [])]
    [ex_call 1 [VStr "-v"; VConv TInt "5"]; ex_call 1 [VStr "ns:deploy"; VConv TInt "5"]; ex_call 3 []] /\
  stops ex_conv ex_info "Build" ["x"; "1x"; "ns:deploy"; "T"] (BadArg TInt) /\
  dispatch ex_conv ex_fails ex_info "" ["BUILD"; "-v"; "+5"; "ns:deploy"; "T"; "AL:htmlparser"; "BD"; "build"; "5"] =
    ([ex_call 1 [VStr "-v"; VConv TInt "5"]; ex_call 2 [VConv TBool "true"]; ex_call 3 []; ex_call 1 [VStr "build"; VConv TInt "5"]], Done) /\
  dispatch ex_conv ex_fails ex_info "" ["ns:deploy"; "1"; "build"; "x"; "1x"; "ns:deploy"; "T"] =
    ([ex_call 2 [VConv TBool "true"]], Exit2 (BadArg TInt)) /\
  dispatch ex_conv ex_fails ex_info "" ["NS:DEPLOY"; "1"; "al:q:run"; "1h2m"; "build"; "a"; "5"] =
    ([ex_call 2 [VConv TBool "true"]; ex_call 4 [VConv TDur "1h2m0s"]], Failed) /\
  dispatch ex_conv ex_fails ex_info "" ["bd"; "x"] = ([], Exit2 Missing) /\
  dispatch ex_conv ex_fails ex_info "" ["ns:deploy"; "1"; "deploy"] = ([ex_call 2 [VConv TBool "true"]], Exit2 Unknown) /\
  dispatch ex_conv ex_fails ex_info "" [] = ([ex_call 3 []], Done) /\
  dispatch ex_conv ex_fails ex_info "1" [] = ([], Listed).
Proof. exact nonvacuous_c04. Qed.
Print Assumptions C04_nonvacuous.
