(* C05 - the process exit status reflects the outcome of the targets.
   Statements only; proofs in Proof/ExitChain_facts.v, model in Model/ExitChain.v (a transcription of
   handleError / runTarget / the generated main, mg.Fatal / ExitStatus, sh.Exec / CmdRan / ExitStatus, runDeps + changeExit,
   Parse / ParseAndRun / Invoke / RunCompiled, and the kernel's  n mod 256).
   For all failure kinds, all codes (Z, guarded by 1..255 where the property says so: [wf_body], [wf_prog]), all
   positions of a command line of any length, all dependency sets (nested, Deps and SerialDeps), all front-end
   command lines and build outcomes.  [fixed = true] is the current generated main, [false] the one before 0cc1688;
   [compiled_main_gen _ false] is the one before 836d65c (two failures not reported on stderr). *)
From Mage Require Import Base.Strs Model.Deps Model.ExitChain Proof.Deps_defs Proof.Exit_facts Proof.ExitChain_facts.
Local Open Scope Z_scope.

(* mage exits 0 iff every requested target and all its dependencies completed without error or panic, or it only
   showed help, listed, documented, cleaned, initialised, printed its version or compiled successfully *)
Theorem C05_zero_iff_ok : forall sc, wf_prog (sc_prog sc) -> (mage_status true sc = 0 <-> all_ok sc).
Proof. exact mage_zero_iff_ok. Qed.

(* the same for a compiled binary run directly *)
Theorem C05_compiled_zero_iff_ok : forall cp, wf_prog cp -> (compiled_exit true cp = 0 <-> prog_ok cp).
Proof. exact compiled_zero_iff_ok. Qed.

(* in a multi-target line the first mention that does not complete decides the status (its body's status, or 2 for
   an unknown target / missing / bad argument); exactly the targets before it and (if it is a target) itself ran;
   whatever comes later on the line is irrelevant.  The generated main writes the message itself unless the
   body ended the process (mmsg) *)
Theorem C05_first_failure_decides : forall fixed cp pre m post,
  targets_line cp (pre ++ m :: post) ->
  Forall wf_mention pre -> Forall mention_ok pre -> wf_mention m -> ~ mention_ok m ->
  compiled_exit fixed cp = mstatus m /\ code_ok (mstatus m) /\
  h_ran (compiled_main fixed cp) = (length pre + mstarted m)%nat /\
  h_msg (compiled_main fixed cp) = mmsg m.
Proof. exact first_failure_decides. Qed.

Theorem C05_all_complete : forall fixed cp ms, targets_line cp ms -> Forall wf_mention ms -> Forall mention_ok ms ->
  compiled_exit fixed cp = 0 /\ h_ran (compiled_main fixed cp) = length ms.
Proof. exact all_ok_zero. Qed.

(* otherwise the status is the one carried by the failure: the code of mg.Fatal/mg.Fatalf (returned or panicked),
   the exit code of a failed sh command, os.Exit's argument, the combined status of failed dependencies;
   through the compiled binary and through mage *)
Theorem C05_carried : forall fixed cp pre b post,
  targets_line cp (pre ++ MRun b :: post) -> Forall wf_mention pre -> Forall mention_ok pre -> wf_body b -> ~ completes b ->
  compiled_exit fixed cp = status b /\ 1 <= status b <= 255 /\
  (forall sc, sc_prog sc = cp -> runs_program sc -> mage_status fixed sc = status b) /\
  (forall c, status (BFatal c) = c) /\ (forall c, status (BPanicFatal c) = c) /\
  (forall k, status (BSh (CExit k)) = k) /\ (forall c, status (BOsExit c) = c) /\
  (forall ds, status (BDeps false ds) = combine (map status ds)).
Proof. exact carried. Qed.

(* 1 for a plain error or a non-error panic; 2 for command-line misuse (unknown target, missing or bad argument,
   -h for an unknown target, the front end's own bad flags and flag combinations); 1 when the magefiles cannot be
   found, parsed or compiled *)
Theorem C05_classes :
  (forall fixed cp pre b post, targets_line cp (pre ++ MRun b :: post) -> Forall wf_mention pre -> Forall mention_ok pre ->
     plain_failure b -> compiled_exit fixed cp = 1) /\
  (forall fixed cp pre m post, targets_line cp (pre ++ m :: post) -> Forall wf_mention pre -> Forall mention_ok pre ->
     word_misuse m -> compiled_exit fixed cp = 2 /\ h_ran (compiled_main fixed cp) = length pre) /\
  (forall fixed cp ms, cp_flags cp = FlagsOk -> cp_list cp = false -> cp_help cp = true -> cp_mentions cp = MUnknown :: ms ->
     compiled_exit fixed cp = 2) /\
  (forall fixed cp, cp_flags cp = FlagsOk -> cp_list cp = false -> cp_help cp = false -> cp_mentions cp = [] ->
     cp_default cp = DefaultArgs -> cp_ignore_default cp = false -> compiled_exit fixed cp = 2) /\
  (forall fixed sc, misuse (sc_args sc) -> mage_status fixed sc = 2 /\ f_child (mage_run fixed sc) = false) /\
  (forall fixed sc, ~ shows_help (sc_args sc) -> ~ misuse (sc_args sc) ->
     (selected (sc_args sc) = CmdNone \/ selected (sc_args sc) = CmdCompileStatic) ->
     cannot_build (sc_args sc) (sc_build sc) ->
     mage_status fixed sc = 1 /\ f_child (mage_run fixed sc) = false /\ f_msg (mage_run fixed sc) = true).
Proof. exact classes. Qed.

(* a flag error anywhere on mage's command line - whatever valid options (-w, -d, -v, -f, ...), commands and words
   stand before or after it: status 2, a message on stderr, nothing is built or run *)
Theorem C05_flag_error_anywhere : forall fixed sc, fa_parse (sc_args sc) = FlagsBad ->
  mage_status fixed sc = 2 /\ f_child (mage_run fixed sc) = false /\ f_msg (mage_run fixed sc) = true.
Proof. exact flag_error_anywhere. Qed.
Print Assumptions C05_flag_error_anywhere.

(* a failed sh command without an exit code of its own (killed by a signal; not startable; exited 0 while c.Run()
   failed with an error that is not an *exec.ExitError, e.g. the copy into the caller's io.Writer) is a plain error:
   with C05_classes the process status is 1 - not the child's 0, not the wait status' -1 (255) *)
Theorem C05_sh_without_exit_code : forall b, b = BSh CSignaled \/ b = BSh CNotStarted \/ b = BShCopyErr ->
  run_body b = Returned VPlain /\ status b = 1 /\ wf_body b /\ ~ completes b /\ plain_failure b.
Proof. exact sh_without_exit_code. Qed.
Print Assumptions C05_sh_without_exit_code.

(* a -clean that cannot remove a cache entry: status 1, nothing runs, and (since 158c196) the error is on stderr *)
Theorem C05_clean_failure_reported : forall fixed sc, ~ shows_help (sc_args sc) -> ~ misuse (sc_args sc) ->
  selected (sc_args sc) = CmdClean -> sc_clean_err sc = true ->
  mage_status fixed sc = 1 /\ f_msg (mage_run fixed sc) = true /\ f_child (mage_run fixed sc) = false.
Proof. exact clean_failure_reported. Qed.
Print Assumptions C05_clean_failure_reported.

(* before that repair (ParseAndRun_gen false): status 1 with nothing on stderr *)
Theorem C05_clean_failure_before_repair_refuted : exists a bd ch,
  f_code (ParseAndRun_gen false a false true bd ch) = 1 /\ f_msg (ParseAndRun_gen false a false true bd ch) = false.
Proof. exact clean_failure_silent_before_repair. Qed.
Print Assumptions C05_clean_failure_before_repair_refuted.

(* what Parse accepts, as a readable description: usage / misuse / the selected command *)
Theorem C05_parse : forall a,
  (snd (Parse a) = PErrHelp <-> shows_help a) /\
  (snd (Parse a) = PErr <-> misuse a) /\
  (snd (Parse a) = PNoErr -> fst (Parse a) = selected a).
Proof. exact Parse_spec. Qed.

(* the mage front end returns exactly the status of the compiled program it ran: for every program, no guard on codes *)
Theorem C05_front_end_transparent : forall fixed sc, runs_program sc ->
  mage_status fixed sc = compiled_exit fixed (sc_prog sc).
Proof. exact transparent. Qed.

(* a binary in the cache that cannot be started: 1 and a message *)
Theorem C05_not_started : forall fixed sc, ~ shows_help (sc_args sc) -> ~ misuse (sc_args sc) -> selected (sc_args sc) = CmdNone ->
  ~ cannot_build (sc_args sc) (sc_build sc) -> sc_start sc = false ->
  mage_status fixed sc = 1 /\ f_msg (mage_run fixed sc) = true.
Proof. exact not_started_one. Qed.

(* a target failed through mg.Deps: it panics with mg.Fatal(combine of the failed dependencies' statuses), whatever
   the order in which the goroutines finish *)
Theorem C05_deps_status : forall ds, Forall (fun d => wf_body d /\ exit_free d) ds -> ~ Forall completes ds ->
  run_body (BDeps false ds) = Panicked (VFatal (combine (map status ds))) /\
  code_ok (combine (map status ds)) /\
  (forall ds', Permutation ds ds' ->
     run_body (BDeps false ds') = run_body (BDeps false ds) /\ combine (map status ds') = combine (map status ds)).
Proof. exact deps_status. Qed.

(* combine: the common code if all failed dependencies carry the same one, 1 otherwise (Proof/Exit_facts.v) *)
Theorem C05_combine : forall cs,
  combine cs = match filter (fun c => negb (Z.eqb c 0)) cs with
               | [] => 0
               | v :: r => if forallb (Z.eqb v) r then v else 1
               end.
Proof. exact combine_spec. Qed.

(* mg.SerialDeps: the first failing dependency's status; those after it are not started *)
Theorem C05_serial_deps_status : forall pre d post,
  Forall (fun d => wf_body d /\ exit_free d) pre -> Forall completes pre ->
  wf_body d -> exit_free d -> ~ completes d ->
  run_body (BDeps true (pre ++ d :: post)) = Panicked (VFatal (status d)) /\ code_ok (status d) /\
  status (BDeps true (pre ++ d :: post)) = status d.
Proof. exact serial_deps_status. Qed.

(* a compiled binary given a bad flag exits 2; before the repair (0cc1688) it returned from main: 0 *)
Theorem C05_compiled_bad_flag : forall cp, cp_flags cp = FlagsBad -> compiled_exit true cp = 2.
Proof. exact compiled_bad_flag. Qed.

Theorem C05_compiled_bad_flag_before_fix_refuted : exists cp, cp_flags cp = FlagsBad /\ compiled_exit false cp = 0.
Proof. exact compiled_bad_flag_before_fix. Qed.

(* the failure message is written to stderr: whenever the generated main ends with os.Exit(n) it has itself written
   a diagnostic to stderr, unless a requested body (or the default target's) ended the process with os.Exit *)
Theorem C05_failure_reported : forall cp n,
  h_exit (compiled_main true cp) = Some n -> h_msg (compiled_main true cp) = false ->
  exists b c, run_body b = Exited c /\ (In (MRun b) (cp_mentions cp) \/ cp_default cp = DefaultBody b).
Proof. exact failure_reported. Qed.

(* in particular (since 836d65c) a bad flag to the compiled program and a listing that cannot be written *)
Theorem C05_bad_flag_reported : forall cp, cp_flags cp = FlagsBad ->
  h_exit (compiled_main true cp) = Some 2 /\ h_msg (compiled_main true cp) = true.
Proof. exact bad_flag_reported. Qed.

Theorem C05_list_failure_reported : forall cp, cp_flags cp = FlagsOk -> cp_help cp && no_words cp = false ->
  cp_list cp = true -> cp_list_err cp = true ->
  h_exit (compiled_main true cp) = Some 1 /\ h_msg (compiled_main true cp) = true.
Proof. exact list_failure_reported. Qed.

(* before 836d65c (reports = false) both ended non-zero with nothing on stderr *)
Theorem C05_reported_before_repair_refuted :
  (exists cp, cp_flags cp = FlagsBad /\ h_exit (compiled_main_gen true false cp) = Some 2 /\ h_msg (compiled_main_gen true false cp) = false) /\
  (exists cp, cp_list cp = true /\ cp_list_err cp = true /\
              h_exit (compiled_main_gen true false cp) = Some 1 /\ h_msg (compiled_main_gen true false cp) = false).
Proof. exact silent_before_repair. Qed.

Print Assumptions C05_zero_iff_ok.
Print Assumptions C05_failure_reported.
Print Assumptions C05_bad_flag_reported.
Print Assumptions C05_list_failure_reported.
Print Assumptions C05_reported_before_repair_refuted.
Print Assumptions C05_compiled_zero_iff_ok.
Print Assumptions C05_first_failure_decides.
Print Assumptions C05_all_complete.
Print Assumptions C05_carried.
Print Assumptions C05_classes.
Print Assumptions C05_parse.
Print Assumptions C05_front_end_transparent.
Print Assumptions C05_not_started.
Print Assumptions C05_deps_status.
Print Assumptions C05_combine.
Print Assumptions C05_serial_deps_status.
Print Assumptions C05_compiled_bad_flag.
Print Assumptions C05_compiled_bad_flag_before_fix_refuted.

(* non-vacuity: well-formed programs that fail / succeed; equal codes combine to the code, different ones to 1;
   the first failure decides; and mg.Fatal(256) is visibly outside the quantifier *)
Example C05_nonvacuous :
  let same := line [MRun BOk; MRun (BDeps false [BFatal 5; BOk; BPanicFatal 5]); MRun (BFatal 9)] in
  let diff := line [MRun (BDeps false [BFatal 5; BSh (CExit 7)]); MRun BOk] in
  let good := line [MRun BOk; MRun (BDeps true [BOk; BSh (CExit 0)])] in
  wf_prog same /\ wf_prog diff /\ wf_prog good /\
  mage_status true (via_mage same) = 5 /\ h_ran (compiled_main true same) = 2%nat /\ ~ prog_ok same /\
  mage_status true (via_mage diff) = 1 /\ compiled_exit true diff = 1 /\
  mage_status true (via_mage good) = 0 /\ prog_ok good /\ all_ok (via_mage good) /\
  compiled_exit true (line [MRun (BFatal 200); MRun (BFatal 3)]) = 200 /\
  compiled_exit true (line [MRun (BFatal 256)]) = 0.
Proof. exact nonvacuous_c05. Qed.
Print Assumptions C05_nonvacuous.
