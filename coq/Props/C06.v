(* C06 - targets are exactly the exported functions with a valid target signature.
   Statements only; proofs in Proof/Classify_facts.v.  For every abstract package (any number of
   declarations, any grouping / naming of parameters and results, any receivers, any var
   declarations).  go/doc's view of the package is part of the model (Model/Classify.v) and is
   compared with the real go/doc on every generated package by the check; "the generated program
   compiles whenever the package does" is CHECKED on every generated package, what is proved here
   is the model-level sufficient condition (C06_call_well_typed, C06_arity). *)
From Mage Require Import Base.Strs Model.Classify Proof.Classify_facts.

(* the property's sentence:
     valid_sig pk d  :=  exported (fname d)                                      exported
                      /\ tparams d = false                                        not generic
                      /\ recv_ok pk d        no receiver, or a receiver of an exported, non-generic type declared as mg.Namespace
                      /\ params_ok (params d)   optional leading single context.Context, then only string/int/bool/time.Duration
                      /\ res_ok (res d)         nothing or a single error
   is_target pk d := some Function collected by setNamespaces/setFuncs was made from d *)
Theorem C06_exact : forall pk d, In d (decls pk) -> (is_target pk d <-> valid_sig pk d).
Proof. exact exact. Qed.

(* the call the generated program makes: the declared function or (&Recv{}).method, exactly one
   argument per declared parameter in order (a group `a, b string` is two parameters, an unnamed
   group one), ctx first iff declared, argument i converted to the declared type of parameter i,
   every arg<i> defined exactly once, `return` iff the function has a result *)
Theorem C06_call_well_typed : forall pk d f, In (d, f) (targets pk) -> call_matches_decl (exec_call f) f d.
Proof. exact call_well_typed. Qed.

(* as many words are consumed as the declaration has non-context parameters *)
Theorem C06_arity : forall pk d f, In (d, f) (targets pk) ->
  List.length (f_args f) = List.length (filter (fun t => negb (is_ctx t)) (flat_params (params d))).
Proof. exact arity. Qed.

(* ... which was false before c50893e ([funcType_ false] is the old loop): func Unnamed(string, int) *)
Theorem C06_arity_before_repair_refuted : exists d f,
  funcType_ false d = Some f /\
  List.length (f_args f) <> List.length (filter (fun t => negb (is_ctx t)) (flat_params (params d))).
Proof. exact arity_before_repair_refuted. Qed.

(* a name as listed (lowerFirst) is the same word for the dispatcher as the target's key (ASCII) *)
Theorem C06_listed_runnable : forall f, lower (lowerFirst (targetName f)) = dispatch_key f.
Proof. exact listed_runnable. Qed.

(* the default target, unrestricted: wherever Default is first declared - any var declaration, any
   spec of it, any position among the names of that spec - the default is the function named by
   the value at Default's position in that spec (own_value: Go's pairing, one value per name),
   iff getFunction resolves it to a target; otherwise there is none *)
Theorem C06_default_declared : forall pk pre s1 spec s2 post n1 n2,
  vars pk = pre ++ (s1 ++ spec :: s2) :: post ->
  (forall v, In v pre -> ~ In "Default" (value_names v)) ->
  (forall s, In s s1 -> ~ In "Default" (vnames s)) ->
  vnames spec = n1 ++ "Default" :: n2 -> ~ In "Default" n1 ->
  setDefault pk = dflt_of (own_value spec (List.length n1)) (funcs pk).
Proof. exact setDefault_declared. Qed.

Theorem C06_default_no_panic : forall vs fs, setDefault_new vs fs <> DPanic.
Proof. exact setDefault_no_panic. Qed.

Theorem C06_default_resolves : forall e fs f, getFunction e fs = Some f ->
  In f fs /\ match e with
             | FIdent n => f_name f = n /\ f_recv f = ""
             | FSel x n => f_name f = n /\ f_recv f = x
             | FOther => False
             end.
Proof. exact getFunction_sound. Qed.

(* exactly the default target's entry is marked in the listing *)
Theorem C06_default_marked : forall def f,
  (fst (list_entry def f) = (lowerFirst (targetName f) ++ "*")%string <-> f_name f = f_name def /\ f_recv f = f_recv def) /\
  (fst (list_entry def f) = lowerFirst (targetName f) <-> ~ (f_name f = f_name def /\ f_recv f = f_recv def)).
Proof. exact default_marked. Qed.

(* before 3720af9 ([setDefault_ false]) the statement was false: setDefault indexed the specs of a
   var declaration with an index into its flattened names.
   var ( A, B = 1, 2; Default = Build; Q = Other ) made Other the default;
   var X, Default = Other, Build panicked.  The repaired code answers Build in both. *)
Theorem C06_default_wrong_spec_before_repair_refuted :
  exists pk v f, In v (vars pk) /\ In (spec1 "Default" (FIdent "Build")) v /\
                 setDefault_ false pk = DSome f /\ f_name f = "Other" /\
                 exists g, setDefault pk = DSome g /\ f_name g = "Build".
Proof. exact default_wrong_spec_before_repair_refuted. Qed.
Theorem C06_default_panic_before_repair_refuted :
  exists pk, setDefault_ false pk = DPanic /\ exists g, setDefault pk = DSome g /\ f_name g = "Build".
Proof. exact default_panic_before_repair_refuted. Qed.

(* before f02d247 ([targets_ false]) the method of a generic namespace type was a target whose
   generated call (&NS{}).Build() names a generic type without instantiating it *)
Theorem C06_generic_namespace_before_repair_refuted :
  exists pk d f t, In (d, f) (targets_ false pk) /\ In t (types pk) /\ tgeneric t = true /\
                   c_recv (exec_call f) = Some (tname t) /\ targets pk = [].
Proof. exact generic_namespace_before_repair_refuted. Qed.

(* -h: the usage line lists the declared parameter names in order (arg<i> for an unnamed parameter
   in position i), the comment is the doc comment on one line, the key is the lower-cased name;
   the aliases shown are those declared for a function of the same name and receiver *)
Theorem C06_help : forall pk d f al, In (d, f) (targets pk) ->
  h_args (help_of al f) = arg_names_spec 0 (flat_names (nonctx_params d)) /\
  h_comment (help_of al f) = toOneLine (fdoc d) /\
  h_key (help_of al f) = lower (targetName f).
Proof. exact help_shows. Qed.

Theorem C06_help_aliases : forall kvs fs f a,
  In a (h_aliases (help_of (alias_entries kvs fs) f)) <->
  exists e g, In (a, e) kvs /\ getFunction e fs = Some g /\ f_name f = f_name g /\ f_recv f = f_recv g.
Proof. exact help_aliases_declared. Qed.

Print Assumptions C06_exact.
Print Assumptions C06_call_well_typed.
Print Assumptions C06_arity.
Print Assumptions C06_arity_before_repair_refuted.
Print Assumptions C06_listed_runnable.
Print Assumptions C06_default_declared.
Print Assumptions C06_default_resolves.
Print Assumptions C06_default_marked.
Print Assumptions C06_default_no_panic.
Print Assumptions C06_default_wrong_spec_before_repair_refuted.
Print Assumptions C06_default_panic_before_repair_refuted.
Print Assumptions C06_generic_namespace_before_repair_refuted.
Print Assumptions C06_help.
Print Assumptions C06_help_aliases.

(* non-vacuity: a package with a context + grouped + unnamed parameters and a named error result,
   a pointer-receiver namespace method that is the default, and five declarations that are not
   targets (late context, two named results, generic, method of a non-namespace type, unexported) *)
Example C06_nonvacuous :
  listing example_pk = [("ns:ptr*", ""); ("buildAll", "builds it all.")] /\
  map (fun p => (c_recv (exec_call (snd p)), c_fn (exec_call (snd p)), c_args (exec_call (snd p)), map fst (f_args (snd p))))
      (targets example_pk)
    = [ (Some "NS", "Ptr", [CArg 0], ["_"]);
        (None, "BuildAll", [CCtx; CArg 0; CArg 1; CArg 2], ["a"; "b"; "arg2"]) ] /\
  List.length (decls example_pk) = 7.
Proof. exact nonvacuous. Qed.
Print Assumptions C06_nonvacuous.
