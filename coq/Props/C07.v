(* C07 - ambiguous target names are rejected, never silently resolved.
   Statements only; proofs in Proof/Dupes_facts.v.  Model/Dupes.v transcribes parse.PrimaryPackage's
   checks (checkDupeTargets per package, checkDupes over locals, imports and the sorted alias keys)
   and the two switches of the generated main.  For every package: any number of local targets and
   namespace methods, any imports under any aliases (shared or not, bare tag included), any alias
   entries, arbitrary byte strings as names (ASCII lower-casing). *)
From Mage Require Import Base.Strs Model.Dupes Proof.Dupes_facts.
From Coq Require Import Permutation.

(* the property sentence: mage builds the package exactly when no two runnable names - targets,
   namespace targets, imported targets (alias:receiver:name; a package imported under several aliases has one
   name per alias, the same (path, alias) pair - or the same bare-tag path - written twice is one import), alias
   keys - are equal ignoring case.
   [wf_pkg]: function names are not empty (Go identifiers). *)
Theorem C07_rejects_iff_collision : forall pk, wf_pkg pk ->
  (mage_accepts pk = true <-> NoDup (map lower (runnable_names pk))).
Proof. exact rejects_iff_collision. Qed.

(* a collision of any kind is rejected (no hypothesis) ... *)
Theorem C07_collision_rejected : forall pk, mage_accepts pk = true -> NoDup (map lower (runnable_names pk)).
Proof. exact accepted_nodup. Qed.

(* ... and a package without a collision is never rejected for ambiguity: neither the per-package
   check (which ignores the alias) nor the cross-package check fires *)
Theorem C07_no_false_rejection : forall pk, wf_pkg pk ->
  NoDup (map lower (runnable_names pk)) -> mage_accepts pk = true.
Proof. exact nodup_accepted. Qed.

(* [alias_keys] are the keys of the Go map built from the literal; a literal without repeated keys
   (Go rejects repeated constant keys) contributes exactly the keys written *)
Theorem C07_alias_keys : forall pk, NoDup (map fst (aliases pk)) -> Permutation (alias_keys pk) (map fst (aliases pk)).
Proof. exact alias_keys_literal. Qed.

(* when mage refuses, the message names colliding definitions:
   - "Build targets must be case insensitive": every listed group consists of the Names of ALL functions of one
     package (the magefile or one import) having one lower-cased receiver:name, at least two of them;
   - "alias %q duplicates existing target(s)": %q is the lower-cased key of an alias entry, at least one id is
     listed, and every id is a target whose lower-cased runnable name is that key or the function of another
     (earlier in key order) alias entry whose key is equal ignoring case;
   - "%q target has multiple definitions": every group lists at least two targets, each with that lower-cased name. *)
Theorem C07_names_the_colliders : forall pk e, mage_check true pk = Some e -> names_colliders pk e.
Proof. exact names_the_colliders. Qed.

(* accepted => no shadowing in the generated dispatcher: a word equal (ignoring case) to a target's name runs
   that target - no alias and no other target takes it; a word equal to an alias key runs that alias's
   function; and no word matches two runnable names.  (This is C04's no_collision.) *)
Theorem C07_no_shadowing : forall pk, mage_accepts pk = true -> forall w,
  (forall f, In f (all_funcs pk) -> lower (target_name f) = lower w -> resolve pk w = Some f) /\
  (forall k f, In (k, f) (alias_map (aliases pk)) -> lower k = lower w -> In f (all_funcs pk) -> resolve pk w = Some f) /\
  count (lower w) (map lower (runnable_names pk)) <= 1.
Proof. exact no_shadowing. Qed.

(* the code before commit 1f96f80 (checkDupes inside setImports, alias map still empty) violated the
   property: alias "say" next to target Say was accepted and `mage say` did not run Say *)
Theorem C07_before_repair_refuted :
  exists pk, wf_pkg pk /\ mage_check false pk = None /\ ~ NoDup (map lower (runnable_names pk)) /\
             exists f, In f (all_funcs pk) /\ lower (target_name f) = lower "say" /\ resolve pk "say" <> Some f.
Proof. exact before_repair_refuted. Qed.

Print Assumptions C07_rejects_iff_collision.
Print Assumptions C07_collision_rejected.
Print Assumptions C07_no_false_rejection.
Print Assumptions C07_alias_keys.
Print Assumptions C07_names_the_colliders.
Print Assumptions C07_no_shadowing.
Print Assumptions C07_before_repair_refuted.

(* non-vacuity, both directions: an accepted package with near-misses of every kind (NsX next to Ns.X, two
   imports under one alias without a shared name, aliases) resolving every name to its own definition, and
   one rejected package per message *)
Example C07_nonvacuous :
  wf_pkg ex_ok /\ mage_accepts ex_ok = true /\
  map (fun w => option_map fid (resolve ex_ok w)) ["BUILD"; "nsx"; "NS:x"; "lib:build"; "Lib:Ns:X"; "lx"; "B"; "clean"; "lib:deploy"; "x"] =
    [Some "<current>.Build"; Some "<current>.NsX"; Some "<current>.Ns.X"; Some "e/liba.Build"; Some "e/liba.Ns.X";
     Some "e/liba.Ns.X"; Some "<current>.Build"; Some "e/root.Clean"; Some "e/libb.Deploy"; None] /\
  mage_check true ex_alias = Some (EAlias "say" [LF "" "Say"]) /\
  mage_check true ex_cross = Some (EMulti [("ns:x", [LF "Ns" "X"; {| f_alias := "ns"; f_path := "e/lib"; f_recv := ""; f_name := "X" |}])]) /\
  mage_check true ex_alias2 = Some (EAlias "st" [LF "" "Test"]) /\
  mage_check true ex_imp = Some (ECase [["Go"; "GO"]]).
Proof. exact nonvacuous_c07. Qed.
Print Assumptions C07_nonvacuous.

(* one package imported under two aliases, as a root import and with one pair written twice is accepted and every
   name runs the package's definition; the same package as a bare-tag import twice is one import too (commit
   4a102aa); before that commit it was rejected, the one definition named twice *)
Example C07_nonvacuous_repeated_imports :
  mage_accepts ex_multi = true /\ runnable_names ex_multi = ["Hello"; "dev:Build"; "ci:Build"; "Build"; "x"] /\
  map (fun w => option_map fid (resolve ex_multi w)) ["ci:build"; "DEV:build"; "build"; "X"] =
    [Some "e/tools.Build"; Some "e/tools.Build"; Some "e/tools.Build"; Some "e/tools.Build"] /\
  mage_accepts ex_root2 = true /\ runnable_names ex_root2 = ["Build"] /\
  mage_check_before_4a102aa ex_root2 =
    Some (EMulti [("build", [{| f_alias := ""; f_path := "e/tools"; f_recv := ""; f_name := "Build" |};
                             {| f_alias := ""; f_path := "e/tools"; f_recv := ""; f_name := "Build" |}])]).
Proof. exact nonvacuous_repeated_imports. Qed.
Print Assumptions C07_nonvacuous_repeated_imports.
