(* C08 - mage always runs code built from the current magefile contents.
   Statements only; proofs in Proof/Cache_facts.v.  Models: Model/Cache.v (ExeName, the reuse
   decision of Invoke, edit/run histories), Model/Paths.v (where the cache directory is).

   SHA-1 ([H]), the go tool ([compile]) and the main-file template ([tpl]) are parameters.
   Hypotheses of the theorems that need them (never axioms):
     [forall x, digest_ok (H x)]  a digest is 40 hex characters - true of fmt.Sprintf("%x", sha1.Sum(..));
     [collision_free H D]         no two different strings of D have the same hash, where D is
                                  required to contain only the strings that are hashed in the
                                  situation at hand (file contents, the template, the strings
                                  the names are hashes of).  Global injectivity would be
                                  unsatisfiable for fixed-width digests and make the theorems
                                  vacuous; C08_nonvacuous exhibits H, D and a history meeting all hypotheses. *)
From Mage Require Import Base.Strs Base.Expand Model.Cache Model.Paths Proof.Cache_facts.

Section W.
Variable H : string -> string.
Variable program : Type.
Variable compile : string -> string -> fileset -> program.   (* toolchain, imported packages, magefiles *)
Variable tpl : string.
Variable D : string -> Prop.          (* the strings among which SHA-1 is assumed collision free *)

Notation state := (state program).
Notation step := (step H program compile tpl).
Notation invoke := (invoke H program compile tpl).
Notation run_ops := (run_ops H program compile tpl).
Notation Inv := (Inv H program compile tpl D).
Notation hashed_in := (hashed_in H program compile tpl D).
Notation hashed_now := (hashed_now H program tpl).
Notation tainted := (tainted H program compile tpl).
Notation dir := (dir program).
Notation ver := (ver program).
Notation dep := (dep program).

(* ---- the name of the cached binary ---- *)

(* it depends only on the multiset of file contents: not on the order of the file list, not on
   the file names *)
Theorem C08_name_perm : forall ver fs fs',
  Permutation (contents fs) (contents fs') -> exe_name H tpl ver fs = exe_name H tpl ver fs'.
Proof. exact (name_perm H magicRebuildKey tpl). Qed.

(* and it differs whenever the contents, the template or the toolchain version differ: the name
   determines the multiset of contents, the template and the version (unique parsing: the sorted
   40-character file digests, then the template digest, then the key, which starts with the
   non-hex character 'v', then the version) *)
Theorem C08_name_inj :
  (forall x, digest_ok (H x)) -> collision_free H D ->
  forall tpl ver fs tpl' ver' fs',
  Forall D (hashed H tpl ver fs) -> Forall D (hashed H tpl' ver' fs') ->
  exe_name H tpl ver fs = exe_name H tpl' ver' fs' ->
  Permutation (contents fs) (contents fs') /\ tpl = tpl' /\ ver = ver'.
Proof. exact (name_inj H D). Qed.

(* the tree before commit db4aa20 ([exe_name_old]: the template hash sorted into the same list as
   the file hashes) did not tell template and contents apart: a magefile whose bytes are another
   mage's template, under that mage's template being this file's bytes, got the same name *)
Theorem C08_name_tpl_confusable_before_repair_refuted : forall ver f a b,
  exe_name_old H a ver [(f, b)] = exe_name_old H b ver [(f, a)].
Proof. exact (name_tpl_swap_old H). Qed.

Theorem C08_name_inj_before_repair_refuted : exists tpl tpl' ver fs fs',
  exe_name_old H tpl ver fs = exe_name_old H tpl' ver fs' /\ tpl <> tpl' /\ ~ Permutation (contents fs) (contents fs').
Proof. exact (name_inj_old_refuted H). Qed.

(* ---- histories ---- *)

(* After any history of edits, additions, removals, renames, toolchain changes and invocations
   (in any mode), started with a cache that is content addressed (e.g. empty), with no SHA-1
   collision among the strings hashed at the invocations ([hashed_in], [hashed_now]), the next
   invocation - hash mode or not, -f or not - runs a program compiled by the current toolchain
   from a file set with exactly the current multiset of contents ("for the magefiles
   themselves": the imported packages [d] it was compiled with may be older when a binary is
   reused); if it compiled, from the current files and the current imported packages. *)
Theorem C08_fresh :
  (forall x, digest_ok (H x)) -> collision_free H D ->
  forall ops st, Inv st -> hashed_in ops st -> forall hashfast force gocache,
  let cur := run_ops ops st in
  ~ In (exe_name H tpl (ver cur) (dir cur)) (tainted ops st) ->
  Forall D (hashed_now cur) -> dir cur <> [] ->
  exists c d fs, snd (step cur (Run hashfast force gocache)) = Ran program c (compile (ver cur) d fs) /\
               Permutation (contents fs) (contents (dir cur)) /\
               (c = true -> fs = dir cur /\ d = dep cur).
Proof. exact (fresh H program compile tpl D). Qed.

(* The hypothesis on [tainted]: histories may contain invocations RACED by an edit ([RunRaced]: a
   magefile or an imported package changes after mage hashed the magefiles and before it runs the
   binary; the go tool read the old or the new sources - both outcomes are in the model).  A raced
   build that saw EDITED MAGEFILES leaves their program under the name of the contents that were
   hashed: that name is [tainted] (a TOCTOU window the design has; an invocation of exactly those
   old contents in hash mode would get the other program).  Every other name is unaffected; without
   such a build nothing is tainted ... *)
Theorem C08_no_race_no_taint : forall ops st, (forall o, In o ops -> taints o = false) -> tainted ops st = [].
Proof. exact (tainted_nil H program compile tpl). Qed.

(* ... and the invocation right after a raced one - of the NEW contents - is fresh whatever the
   compiler of the raced build saw: the program was filed under the OLD name *)
Theorem C08_next_after_raced_edit_fresh :
  (forall x, digest_ok (H x)) -> collision_free H D ->
  forall st, Inv st -> forall hf force gc f b seen_new hf' force' gc',
  let st1 := fst (step st (RunRaced hf force gc (REdit f b) seen_new)) in
  Forall D (hashed_now st) -> Forall D (hashed_now st1) -> dir st1 <> [] ->
  ~ Permutation (contents (dir st1)) (contents (dir st)) ->
  exists c d fs, snd (step st1 (Run hf' force' gc')) = Ran program c (compile (ver st1) d fs) /\
               Permutation (contents fs) (contents (dir st1)) /\
               (c = true -> fs = dir st1 /\ d = dep st1).
Proof. exact (next_after_raced_edit_fresh H program compile tpl D). Qed.

(* a design that files a raced build under the name of the contents found on disk AFTER the build
   ([invoke_raced_f true], seeded change C08-8A) breaks exactly that: the compiler had read the old
   magefiles, the next hash-mode invocation of the new contents runs the old program *)
Theorem C08_rename_after_build_refuted : forall (st : state) force gc f b gc', dir st <> [] ->
  Cache.lookup program (exe_name H tpl (ver st) (dir st)) (cache program st) = None ->
  let st1 := fst (invoke_raced_f H program compile tpl true st true force gc (REdit f b) false) in
  dir st1 = set_file f b (dir st) /\
  snd (invoke st1 true false gc') = Ran program false (compile (ver st) (dep st) (dir st)).
Proof. exact (settle_refuted H program compile tpl). Qed.

(* if the go tool's output depends on the file contents only (file names matter to go build only
   through build constraints in names and initialisation order), it is the program of the current files *)
Theorem C08_fresh_exact :
  (forall x, digest_ok (H x)) -> collision_free H D ->
  (forall v d a b, Permutation (contents a) (contents b) -> compile v d a = compile v d b) ->
  forall ops st, Inv st -> hashed_in ops st -> forall hashfast force gocache,
  let cur := run_ops ops st in
  ~ In (exe_name H tpl (ver cur) (dir cur)) (tainted ops st) ->
  Forall D (hashed_now cur) -> dir cur <> [] ->
  exists c d, snd (step cur (Run hashfast force gocache)) = Ran program c (compile (ver cur) d (dir cur)) /\
              (c = true -> d = dep cur).
Proof. exact (fresh_exact H program compile tpl D). Qed.

(* D may be taken to be exactly the strings hashed in some state of the history *)
Theorem C08_hashed_in_history : forall ops st,
  (forall x, In x (all_hashed H program compile tpl ops st) -> D x) ->
  hashed_in ops st /\ Forall D (hashed_now (run_ops ops st)).
Proof. exact (all_hashed_covers H program compile tpl D). Qed.

Theorem C08_inv_empty_cache : forall d b v, Inv {| Cache.dir := d; Cache.dep := b; Cache.ver := v; cache := [] |}.
Proof. exact (Inv_empty H program compile tpl D). Qed.

(* -f always recompiles (no hypothesis on H: no cache entry is consulted) *)
Theorem C08_force : forall st hashfast gocache, dir st <> [] ->
  snd (invoke st hashfast true gocache) = Ran program true (compile (ver st) (dep st) (dir st)).
Proof. exact (force_compiles H program compile tpl). Qed.

(* so does every invocation without MAGEFILE_HASHFAST, given a go tool with a build cache:
   the default mode also follows edits of imported packages *)
Theorem C08_default_mode_always_compiles : forall st force, dir st <> [] ->
  snd (invoke st false force true) = Ran program true (compile (ver st) (dep st) (dir st)).
Proof. exact (default_mode_compiles H program compile tpl). Qed.

(* -compile <path>: the output path is not a cache entry.  After any history, whatever lies at the
   path (nothing, an unrelated file, the binary of an earlier -compile), in every mode, with or
   without -f: the CURRENT files are compiled with the current toolchain and imported packages,
   NOTHING is run, directory and cache stay as they are *)
Theorem C08_compile_always_current : forall ops st o hashfast force gocache,
  let cur := run_ops ops st in
  dir cur <> [] ->
  snd (step cur (CompileOut o hashfast force gocache)) = Built program (compile (ver cur) (dep cur) (dir cur)) /\
  fst (step cur (CompileOut o hashfast force gocache)) = cur.
Proof. exact (compile_after_history H program compile tpl). Qed.

(* that rests on Parse setting inv.Force for -compile: without it ([invoke_compile_f false]) hash
   mode RUNS what lies at the output path instead of building *)
Theorem C08_compile_without_parse_force_refuted : forall st, dir st <> [] ->
  invoke_compile_f program compile false st OOld true false true = RanOutput program /\
  invoke_compile_f program compile false st OOther true false true = RanOutput program.
Proof. exact (compile_without_parse_force_refuted program compile). Qed.

(* freshness is not obtained by never reusing: in hash mode the invocation after any
   invocation, nothing changed, runs the same binary without compiling *)
Theorem C08_hash_mode_reuses : forall st hashfast force gocache gocache', dir st <> [] ->
  exists c p, snd (invoke st hashfast force gocache) = Ran program c p /\
              snd (invoke (fst (invoke st hashfast force gocache)) true false gocache') = Ran program false p.
Proof. exact (hash_mode_reuses H program compile tpl). Qed.
End W.

(* ---- one cache directory ---- *)

(* Started in an absolute directory, whatever -d, -w, a magefiles directory, HOME, TMPDIR and
   MAGEFILE_CACHE (relative or absolute, unset or empty) are: the path mage stats, the path `go build -o`
   writes (go runs in the magefile directory) and the path that is exec'ed (in the -w directory)
   are one absolute path, beneath MAGEFILE_CACHE resolved against the start directory. *)
Theorem C08_one_cache_dir : forall l name, p_abs (l_start l) = true ->
  let e := exe_path true l name in
  e = join2 (abs_path (l_start l) (cache_dir_env l)) (parse_path name) /\
  p_abs e = true /\
  stat_path true l name = clean e /\ build_path true l name = clean e /\ exec_path true l name = clean e.
Proof. exact one_cache_dir. Qed.

Theorem C08_one_cache_dir_indep : forall l l' name,
  p_abs (l_start l) = true -> l_start l = l_start l' -> l_cache_env l = l_cache_env l' -> l_home l = l_home l' -> l_tmp l = l_tmp l' ->
  build_path true l name = exec_path true l' name /\ stat_path true l name = stat_path true l' name.
Proof. exact one_cache_dir_indep. Qed.

(* the default directory: with MAGEFILE_CACHE unset or empty the binaries are in $HOME/.magefile,
   whatever directory mage is started in and whatever -d, -w say *)
Theorem C08_default_cache_dir : forall l, l_cache_env l = "" -> l_home l <> "" -> p_abs (parse_path (l_home l)) = true ->
  cache_dir true l = clean (join2 (parse_path (l_home l)) (parse_path ".magefile")) /\
  p_abs (cache_dir true l) = true.
Proof. exact default_cache_dir. Qed.

(* the tree before commit b55412e ([fixed = false]: no filepath.Abs): with -d/-w, and with a
   magefiles directory and no flag at all, the binary was built in one place and exec'ed in another *)
Theorem C08_relative_cache_prefix_refuted :
  (exists l name, p_abs (l_start l) = true /\ l_mfdir l = false /\ build_path false l name <> exec_path false l name) /\
  (exists l name, p_abs (l_start l) = true /\ l_d l = "" /\ l_w l = "" /\ build_path false l name <> exec_path false l name).
Proof. exact relative_cache_prefix_refuted. Qed.

Print Assumptions C08_name_perm.
Print Assumptions C08_name_inj.
Print Assumptions C08_name_tpl_confusable_before_repair_refuted.
Print Assumptions C08_name_inj_before_repair_refuted.
Print Assumptions C08_fresh.
Print Assumptions C08_no_race_no_taint.
Print Assumptions C08_next_after_raced_edit_fresh.
Print Assumptions C08_rename_after_build_refuted.
Print Assumptions C08_fresh_exact.
Print Assumptions C08_hashed_in_history.
Print Assumptions C08_inv_empty_cache.
Print Assumptions C08_force.
Print Assumptions C08_default_mode_always_compiles.
Print Assumptions C08_compile_always_current.
Print Assumptions C08_compile_without_parse_force_refuted.
Print Assumptions C08_hash_mode_reuses.
Print Assumptions C08_one_cache_dir.
Print Assumptions C08_one_cache_dir_indep.
Print Assumptions C08_default_cache_dir.
Print Assumptions C08_relative_cache_prefix_refuted.

(* non-vacuity: a hash with the shape of a digest that is collision free on everything hashed
   in a history with an edit, a revert, a rename and all three ways of running (every hypothesis
   of C08_fresh holds); the outcomes (the seventh step REUSES the binary of the first - current
   magefile contents, the imported package as it was then; the default-mode run after it has the
   new one) and the equality pattern of names are as expected;
   the path functions on the two layouts of the refutation *)
Example C08_nonvacuous :
  let H := toy_hash in
  let st0 := {| Cache.dir := [("a.go", "A1"); ("b.go", "B1")]; Cache.dep := "d1"; Cache.ver := "go1"; cache := @nil (string * (string * string * list string)) |} in
  let ops := [Run true false true; Edit "a.go" "A2"; Run true false true; Edit "a.go" "A1"; Rename "b.go" "c.go"; EditDep "d2";
              Run true false true; Run false false true; Run true true true] in
  let D := fun x => In x (all_hashed H _ ex_compile "T" ops st0) in
  (forall x, digest_ok (H x)) /\ collision_free H D /\
  Inv H _ ex_compile "T" D st0 /\ hashed_in H _ ex_compile "T" D ops st0 /\
  Forall D (hashed_now H _ "T" (run_ops H _ ex_compile "T" ops st0)) /\
  Cache.dir _ (run_ops H _ ex_compile "T" ops st0) <> [] /\
  outcomes H _ ex_compile "T" ops st0 =
    [Ran _ true ("go1", "d1", ["A1"; "B1"]); NoRun _; Ran _ true ("go1", "d1", ["A2"; "B1"]); NoRun _; NoRun _; NoRun _;
     Ran _ false ("go1", "d1", ["A1"; "B1"]); Ran _ true ("go1", "d2", ["A1"; "B1"]); Ran _ true ("go1", "d2", ["A1"; "B1"])] /\
  classes (names_along H _ ex_compile "T" ops st0) = [0; 0; 2; 2; 0; 0; 0; 0; 0; 0]%nat /\
  show (stat_path true layout_dw "n") = "/s/relcache/n" /\ show (exec_path true layout_mfdir "n") = "/s/relcache/n" /\
  show (build_path false layout_dw "n") = "/s/proj/relcache/n" /\ show (exec_path false layout_dw "n") = "/s/work/relcache/n".
Proof. exact nonvacuous_c08. Qed.
Print Assumptions C08_nonvacuous.
