(* C09 - mage leaves the magefile directory as it found it.
   Statements only; proofs in Proof/Lifecycle_facts.v.  Model: Model/Lifecycle.v.

   Quantifiers: [faults : step -> bool] is ANY assignment of failures to the external steps of
   Invoke (listing, hashing, go version, go env, stat, parsing, go list, duplicate detection,
   create/write/close/chtimes of the generated file, go build, starting the binary, the target);
   [d] is ANY directory content; [junk] ANY bytes; [k] ANY number of steps after which the
   process is killed; [w] carries the measured external behaviour (what go/build says about a
   leftover, what the template writes, what a failed write leaves, the binary's exit status). *)
From Mage Require Import Base.Strs Model.Lifecycle Proof.Lifecycle_facts.

Section W.
Variable w : world.
Variable faults : step -> bool.
Variable fl : flags.
Hypothesis repaired : w_fixed w = true.          (* removeStaleMainfile: the code since commit d5ea0c0 *)
Hypothesis repaired2 : w_cleanup w = true.       (* GenerateMainfile removes the file on its error paths: since 1372a21 *)

(* THE FULL STATEMENT: whatever fails - every assignment of failures to the 24 steps, the write,
   close and chtimes of the generated file included - without -keep the directory afterwards is
   the directory before minus a leftover generated file *)
Theorem C09_clean : forall d, f_keep fl = false -> nolink d ->
  fst (invoke_dir w faults fl d) = remove_stale d.
Proof. exact (p_clean w faults fl repaired repaired2). Qed.

(* without a leftover: the directory afterwards IS the directory before *)
Theorem C09_clean_noleftover : forall d, f_keep fl = false -> lookup d mainfile = None ->
  fst (invoke_dir w faults fl d) = d.
Proof. exact (p_clean_noleftover w faults fl repaired repaired2). Qed.

(* every other name keeps its entry: with or without -keep, whatever fails (write faults
   included, repaired or not), for the complete run ... *)
Theorem C09_user_files_untouched : forall d name, nolink d -> name <> mainfile ->
  lookup (fst (invoke_dir w faults fl d)) name = lookup d name.
Proof. exact (invoke_untouched w faults fl). Qed.

(* ... and when the process is killed after any number of steps *)
Theorem C09_user_files_untouched_interrupted : forall k d name, nolink d -> name <> mainfile ->
  lookup (crash_dir w faults fl k d) name = lookup d name.
Proof. exact (crash_untouched w faults fl). Qed.

(* -keep: exactly the generated file is added, and only when generation completed (whatever fails) *)
Theorem C09_keep : forall d, f_keep fl = true -> nolink d ->
  fst (invoke_dir w faults fl d) =
    if o_generated (invoke_dir_full w faults fl d)
    then set mainfile (File (w_gen w)) (remove_stale d) else remove_stale d.
Proof. exact (p_keep w faults fl repaired repaired2). Qed.

(* a leftover regular file of ANY content changes nothing: not the exit status, not the
   directory afterwards, not the step at which the run ends, not the go commands started *)
Theorem C09_leftover_irrelevant : forall d junk, plain d ->
  invoke_dir_full w faults fl (set mainfile (File junk) d) = invoke_dir_full w faults fl d.
Proof. exact (p_leftover w faults fl repaired). Qed.

(* a run killed after any number of steps (under any faults, flags and world of its own),
   followed by a complete run: as if the killed run had not happened *)
Theorem C09_crash_then_run : forall w1 f1 fl1 k d, plain d ->
  invoke_dir_full w faults fl (crash_dir w1 f1 fl1 k d) = invoke_dir_full w faults fl d.
Proof. exact (p_crash_then_run w faults fl repaired). Qed.

(* Invoke from its first line ([invoke_named]: [tn] = the directory given is itself called
   magefiles, [ohf] = "." has magefiles of its own next to a magefiles/ directory): leftovers in
   "." and in magefiles/ *)
Theorem C09_leftover_irrelevant_top : forall tn ohf d junk, plain d ->
  invoke_named w faults fl tn ohf (set mainfile (File junk) d) = invoke_named w faults fl tn ohf d.
Proof. exact (p_leftover_top w faults fl repaired). Qed.

(* a leftover in magefiles/ when magefiles/ is the directory that is used *)
Theorem C09_leftover_irrelevant_magefilesdir : forall tn d sub junk,
  lookup d magefilesDir = Some (Dir sub) -> plain sub ->
  invoke_named w faults fl tn false (set magefilesDir (Dir (set mainfile (File junk) sub)) d) = invoke_named w faults fl tn false d.
Proof. exact (p_leftover_sub w faults fl repaired). Qed.

(* [remove_stale_top ohf]: a stale file is removed in "." and - since 62b109f - in magefiles/ only
   when that is the directory used *)
Theorem C09_clean_top : forall tn ohf d, f_keep fl = false ->
  nolink d -> (forall sub, lookup d magefilesDir = Some (Dir sub) -> nolink sub) ->
  fst (invoke_named w faults fl tn ohf d) = remove_stale_top ohf d.
Proof. exact (p_clean_top w faults fl repaired repaired2). Qed.

(* -compile <out> with the output path inside the magefile directory ([invoke_compile]; for a
   path elsewhere the directory theorems above apply as they are and [output_after] describes the
   path).  Whatever fails - every fault assignment: if the run does not get to the `return 0`
   after a successful build NOTHING that existed changes, the entry at the output path included;
   if it does, exactly that entry is (re)written (a directory gets the binary inside) and mage exits 0 *)
Theorem C09_compile_exactly_the_output : forall out bin inner d,
  f_keep fl = false -> nolink d -> out <> mainfile ->
  invoke_compile w faults fl out bin inner d =
    if compiled fl (invoke_dir_full w faults fl d)
    then (set out (install bin inner (lookup d out)) (remove_stale d), 0)
    else (remove_stale d, snd (invoke_dir w faults fl d)).
Proof. exact (p_compile_exact w faults fl repaired repaired2). Qed.

Theorem C09_compile_failure_changes_nothing : forall out bin inner d,
  f_keep fl = false -> lookup d mainfile = None -> out <> mainfile ->
  compiled fl (invoke_dir_full w faults fl d) = false ->
  fst (invoke_compile w faults fl out bin inner d) = d.
Proof. exact (p_compile_failure w faults fl repaired repaired2). Qed.

Theorem C09_compile_other_entries_untouched : forall out bin inner d n,
  f_keep fl = false -> nolink d -> out <> mainfile -> n <> out -> n <> mainfile ->
  lookup (fst (invoke_compile w faults fl out bin inner d)) n = lookup d n.
Proof. exact (p_compile_others w faults fl repaired repaired2). Qed.
End W.

(* an output path outside the magefile directory: untouched unless the build succeeded *)
Theorem C09_compile_output_elsewhere : forall fl o bin inner e, compiled fl o = false -> output_after fl o bin inner e = e.
Proof. exact output_elsewhere. Qed.

(* where the "files without the mage tag" listing pass does not exist (a directory called magefiles,
   the magefiles/ sub-directory: [f_mfdir]) a failure assigned to it changes nothing at all *)
Theorem C09_no_nonmage_listing_in_magefiles_dir : forall w faults faults' fl d, f_mfdir fl = true ->
  (forall st, st <> ListNonMage -> faults' st = faults st) ->
  invoke_dir_full w faults' fl d = invoke_dir_full w faults fl d.
Proof. exact listnonmage_absent. Qed.

(* without a magefiles/ directory inside: Invoke runs in the directory it was given, as a
   magefiles directory iff it is called so *)
Theorem C09_directory_choice : forall w faults fl tn ohf d,
  (forall sub, lookup (rs w d) magefilesDir <> Some (Dir sub)) ->
  invoke_named w faults fl tn ohf d = invoke_dir w faults (with_mfdir fl tn) (rs w d).
Proof. exact invoke_named_top. Qed.

(* "." has magefiles of its own, so magefiles/ is NOT the directory used: it is left exactly as
   it is, whatever is in it - a file called mage_output_file.go (perhaps another mage's, running
   there) included; any world, any faults *)
Theorem C09_unchosen_magefiles_dir_untouched : forall w faults fl tn d e, nolink d ->
  lookup d magefilesDir = Some e ->
  lookup (fst (invoke_named w faults fl tn true d)) magefilesDir = Some e.
Proof. exact unchosen_magefiles_untouched. Qed.

(* before commit 62b109f that file was removed all the same *)
Theorem C09_before_62b109f_refuted : exists w faults fl d sub,
  lookup d magefilesDir = Some (Dir sub) /\ lookup sub mainfile = Some (File "in use by another mage") /\
  lookup (fst (invoke_named w faults fl false true d)) magefilesDir = Some (Dir sub) /\
  lookup (fst (invoke_named_before_62b109f w faults fl false true d)) magefilesDir <> Some (Dir sub).
Proof. exact before_62b109f_refuted. Qed.

(* before commit 1372a21 ([w_cleanup] = false) C09_clean was FALSE: when the template write
   failed the truncated generated file stayed in the directory (GenerateMainfile's error return
   comes before the defer is registered).  Found by this check on a full tmpfs, since repaired. *)
Theorem C09_clean_before_repair_refuted : exists w faults fl d,
  w_fixed w = true /\ w_cleanup w = false /\ f_keep fl = false /\ lookup d mainfile = None /\
  snd (invoke_dir w faults fl d) = 1 /\
  lookup (fst (invoke_dir w faults fl d)) mainfile = Some (File (w_partial w)).
Proof. exact clean_before_repair_refuted. Qed.

(* what did hold then (any [w_cleanup]): the statement restricted to runs in which write, close
   and chtimes do not fail *)
Theorem C09_clean_before_repair_partial : forall w faults fl, w_fixed w = true ->
  forall d, f_keep fl = false -> nolink d -> write_ok faults ->
  fst (invoke_dir w faults fl d) = remove_stale d.
Proof. exact p_clean_old_partial. Qed.

(* before commit d5ea0c0 an empty leftover changed the result of the next run *)
Theorem C09_leftover_before_repair_refuted : exists w faults fl d junk,
  w_fixed w = false /\ lookup d mainfile = None /\
  snd (invoke_dir w faults fl (set mainfile (File junk) d)) <> snd (invoke_dir w faults fl d).
Proof. exact before_repair_refuted. Qed.

(* why the theorems say [nolink]: a symbolic link named mage_output_file.go is written through *)
Theorem C09_symlink_written_through : exists w faults fl d,
  w_fixed w = true /\ lookup d mainfile = Some (Link "helper.go") /\
  lookup (fst (invoke_dir w faults fl d)) "helper.go" = Some (File (w_gen w)) /\
  lookup (fst (invoke_dir w faults fl d)) mainfile = None.
Proof. exact symlink_written_through. Qed.

(* -init only ever creates magefile.go *)
Theorem C09_init_existing_untouched : forall open_fault write_fault tpl partial d e,
  lookup d initFile = Some e -> init_cmd open_fault write_fault tpl partial d = (d, 1).
Proof. exact init_existing. Qed.

Theorem C09_init_creates : forall tpl partial d, lookup d initFile = None ->
  init_cmd false false tpl partial d = (set initFile (File tpl) d, 0).
Proof. exact init_absent. Qed.

Theorem C09_init_only_creates : forall open_fault write_fault tpl partial d,
  (forall n e, lookup d n = Some e -> lookup (fst (init_cmd open_fault write_fault tpl partial d)) n = Some e) /\
  (forall n, n <> initFile -> lookup (fst (init_cmd open_fault write_fault tpl partial d)) n = lookup d n).
Proof. exact p_init_only_creates. Qed.

(* -clean: whatever fails, only non-directory entries directly inside the cache directory can
   change; every other path (the directory itself, its sub-directories, everything beneath
   them, everything outside) looks the same to Lstat *)
Theorem C09_clean_shallow : forall readfault rmfault cache root p,
  wf_cache cache root -> ~ cache_file cache root p ->
  stat_path (fst (clean_cmd readfault rmfault cache root)) p = stat_path root p.
Proof. exact clean_shallow. Qed.

Theorem C09_clean_removes_files : forall cache root es, lookup root cache = Some (Dir es) ->
  clean_cmd false (fun _ => false) cache root = (set cache (Dir (filter (fun p => is_dir (snd p)) es)) root, 0).
Proof. exact clean_complete. Qed.

Print Assumptions C09_clean.
Print Assumptions C09_clean_noleftover.
Print Assumptions C09_user_files_untouched.
Print Assumptions C09_user_files_untouched_interrupted.
Print Assumptions C09_keep.
Print Assumptions C09_leftover_irrelevant.
Print Assumptions C09_crash_then_run.
Print Assumptions C09_leftover_irrelevant_top.
Print Assumptions C09_leftover_irrelevant_magefilesdir.
Print Assumptions C09_clean_top.
Print Assumptions C09_unchosen_magefiles_dir_untouched.
Print Assumptions C09_before_62b109f_refuted.
Print Assumptions C09_compile_exactly_the_output.
Print Assumptions C09_compile_failure_changes_nothing.
Print Assumptions C09_compile_other_entries_untouched.
Print Assumptions C09_compile_output_elsewhere.
Print Assumptions C09_no_nonmage_listing_in_magefiles_dir.
Print Assumptions C09_directory_choice.
Print Assumptions C09_clean_before_repair_refuted.
Print Assumptions C09_clean_before_repair_partial.
Print Assumptions C09_leftover_before_repair_refuted.
Print Assumptions C09_symlink_written_through.
Print Assumptions C09_init_existing_untouched.
Print Assumptions C09_init_creates.
Print Assumptions C09_init_only_creates.
Print Assumptions C09_clean_shallow.
Print Assumptions C09_clean_removes_files.

(* non-vacuity *)
Example C09_nonvacuous :
  let d := d_ex in
  let dj := set mainfile (File "pack") d in
  invoke_dir (w_ex true true) no_faults (fl_ex false) d = (d, 0) /\
  invoke_dir (w_ex true true) (only TargetOutcome) (fl_ex false) d = (d, 7) /\
  invoke_dir (w_ex true true) (only GoBuild) (fl_ex false) dj = (d, 1) /\
  invoke_dir (w_ex true true) (only GoListFiles) (fl_ex false) dj = (d, 1) /\
  invoke_dir (w_ex true true) (only WriteMain) (fl_ex false) dj = (d, 1) /\
  invoke_dir (w_ex true true) (only Chtimes) (fl_ex true) d = (d, 1) /\
  invoke_dir (w_ex true true) no_faults (fl_ex true) dj = (set mainfile (File "GENERATED") d, 0) /\
  invoke_dir (w_ex true true) (only Parse) (fl_ex true) dj = (d, 1) /\
  crash_dir (w_ex true true) no_faults (fl_ex false) 19 d = set mainfile (File "GENERATED") d /\
  invoke_dir (w_ex true true) no_faults (fl_ex false) (crash_dir (w_ex true true) no_faults (fl_ex false) 19 d) = (d, 0) /\
  crash_dir (w_ex true true) no_faults (fl_ex false) 13 d = set mainfile (File "") d /\
  o_calls (invoke_dir_full (w_ex true true) no_faults (fl_ex false) d) = [GVersion; GEnvGocache; GList; GList; GBuild] /\
  init_cmd false false "tpl" "t" d = (d, 1) /\
  init_cmd false false "tpl" "t" [("a", File "1")] = ([("a", File "1"); (initFile, File "tpl")], 0) /\
  clean_cmd false (fun _ => false) "cache"
    [("keep", File "k"); ("cache", Dir [("bin1", File "b"); ("sub", Dir [("y", File "2")]); ("l", Link "sub")])]
  = ([("keep", File "k"); ("cache", Dir [("sub", Dir [("y", File "2")])])], 0).
Proof. exact nonvacuous_c09. Qed.
Print Assumptions C09_nonvacuous.
