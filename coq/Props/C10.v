(* C10 - only files that require the mage build tag are compiled as magefiles.
   Statements only; proofs in Proof/Constraints_facts.v.  For every directory (list of files with
   distinct names, any constraint expressions, any names, any package names), every start-up
   ([su]: process environment, host platform, what go/build computed at start), every -goos/-goarch.

   Vocabulary (Model/Constraints.v, last section):
     platform_os su goos     = goos when given, else the host's           (same for arch)
     ctx_for su os arch tag  = build.Default of the process with GOOS, GOARCH and the tag list replaced
     candidate f             = a .go file, not hidden (_ or . prefix), not a _test.go file
                               (and not in the pseudo package "documentation", which go/build ignores)
     satisfied c f           = name suffix rule and header constraint both hold in context c
     requires_mage su os arch f = candidate, satisfied with tag list [mage], not satisfied with [""] *)
From Mage Require Import Base.Strs Model.Constraints Proof.Constraints_facts.
From Coq Require Import Permutation.

(* In an ordinary directory the magefiles are exactly the candidate files whose constraints are
   satisfied with the mage tag and not without it, for the platform given by the flags or the host;
   the result is even the same list, in directory order. *)
Theorem C10_exact : forall su goos goarch files res,
  NoDup (map f_name files) ->
  magefiles su goos goarch false files = Some res ->
  res = map f_name (filter (requires_mage su (platform_os su goos) (platform_arch su goarch)) files) /\
  forall f, In f files ->
    (In (f_name f) res <->
     candidate f = true
     /\ satisfied (ctx_for su (platform_os su goos) (platform_arch su goarch) "mage") f = true
     /\ satisfied (ctx_for su (platform_os su goos) (platform_arch su goarch) "") f = false).
Proof. exact exact_iff. Qed.

(* Magefiles fails only if the environment holds an entry without "=" or some file has an
   unparsable //go:build line or a syntax error; mixed package names never make it fail. *)
Theorem C10_total : forall su goos goarch isdir files,
  env_ok (su_environ su) -> (forall f, In f files -> file_ok f) ->
  magefiles su goos goarch isdir files <> None.
Proof. exact magefiles_total. Qed.

(* A constraint that does not mention the tag mage evaluates the same with and without it ... *)
Theorem C10_requires_mage_positively : forall su os arch e,
  mentions "mage" e = false -> mentions "" e = false ->      (* parsed tags are never empty *)
  eval (matchTag (ctx_for su os arch "mage")) e = eval (matchTag (ctx_for su os arch "")) e.
Proof. exact mage_tag_irrelevant_when_absent. Qed.

(* ... hence a file without a constraint, or whose constraint does not mention mage, is never a magefile. *)
Theorem C10_untagged_never : forall su goos goarch files res f,
  NoDup (map f_name files) -> In f files ->
  magefiles su goos goarch false files = Some res ->
  header_mentions "mage" (f_header f) = false -> header_mentions "" (f_header f) = false ->
  ~ In (f_name f) res.
Proof. exact positively_listed. Qed.

(* Test files, hidden files, non-.go files, files whose name suffix names another platform and files
   whose constraint fails even with the mage tag are never included - in an ordinary directory or in
   a magefiles directory, whatever else they contain. *)
Theorem C10_never : forall su goos goarch isdir files res f,
  NoDup (map f_name files) -> In f files ->
  magefiles su goos goarch isdir files = Some res ->
  hidden (f_name f) = true \/ is_go (f_name f) = false \/ is_test (f_name f) = true
  \/ goodOSArchFile (ctx_for su (platform_os su goos) (platform_arch su goarch) "mage") (f_name f) = false
  \/ shouldBuild (ctx_for su (platform_os su goos) (platform_arch su goarch) "mage") (f_header f) = false ->
  ~ In (f_name f) res.
Proof. exact never_listed. Qed.

(* The platform: whatever GOOS/GOARCH the process environment holds, every reader of the environment
   EnvWithGOOS builds - listGoFiles and the `go build` child of Compile (compile_env is the same
   function) - sees GOOS/GOARCH = the flag when given, else the host; and this holds for every order
   in which Go's map iteration may emit the variables. *)
Theorem C10_flags_decide : forall su goos goarch env,
  envWithGOOS su goos goarch = Some env ->
  compile_env su goos goarch = Some env /\
  forall p, Permutation p env ->
    (exists m, splitEnv p = Some m /\ mget "GOOS" m = Some (platform_os su goos)
               /\ mget "GOARCH" m = Some (platform_arch su goarch)) /\
    forall tag files, listGoFiles su tag p files
                      = import_gofiles (ctx_for su (platform_os su goos) (platform_arch su goarch) tag) files.
Proof. exact flags_decide. Qed.

(* The caller's environment.  FULL STATEMENT (false of the code, see C10_env_irrelevant_refuted):
     forall su env', env_ok (su_environ su) -> env_ok env' ->
       (env' differs from su_environ su only in GOOS and GOARCH) ->
       magefiles (set_environ su env') goos goarch isdir files = magefiles su goos goarch isdir files.
   What holds: the environment (and everything else fixed at process start) reaches the result only
   through [startup_tag] - the truth of `cgo`, of the compiler tag and of tool/release tags - on the
   tags the directory actually consults. *)
Theorem C10_env_irrelevant_partial : forall su su' goos goarch isdir files,
  su_hostos su = su_hostos su' -> su_hostarch su = su_hostarch su' ->
  env_ok (su_environ su) -> env_ok (su_environ su') ->
  (forall t, consulted files t -> startup_tag su t = startup_tag su' t) ->
  magefiles su goos goarch isdir files = magefiles su' goos goarch isdir files.
Proof. exact magefiles_env. Qed.

(* two readable instances: CGO_ENABLED pinned to 0 or 1; no file mentions cgo (tool tags equal) *)
Theorem C10_env_irrelevant_cgo_pinned : forall su env' x goos goarch isdir files,
  env_ok (su_environ su) -> env_ok env' ->
  getenv (su_environ su) "CGO_ENABLED" = x -> getenv env' "CGO_ENABLED" = x -> x = "0" \/ x = "1" ->
  magefiles (set_environ su env') goos goarch isdir files = magefiles su goos goarch isdir files.
Proof. exact magefiles_env_cgo_fixed. Qed.

Theorem C10_env_irrelevant_without_cgo : forall su env' goos goarch isdir files,
  env_ok (su_environ su) -> env_ok env' ->
  (forall f, In f files -> header_mentions "cgo" (f_header f) = false) ->
  magefiles (set_environ su env') goos goarch isdir files = magefiles su goos goarch isdir files.
Proof. exact magefiles_env_no_cgo. Qed.

(* F24: on linux/amd64 a file `//go:build mage && (linux || darwin) && !cgo` is not a magefile, but it
   becomes one when the caller's environment holds GOOS=windows GOARCH=arm64 (go/build derives
   CgoEnabled from the start-up platform; listGoFiles overrides only GOOS and GOARCH). *)
Theorem C10_env_irrelevant_refuted :
  magefiles (su_linux ["HOME=/root"]) "" "" false f24_files = Some []
  /\ magefiles (su_linux ["HOME=/root"; "GOOS=windows"; "GOARCH=arm64"]) "" "" false f24_files = Some ["m.go"].
Proof. exact env_irrelevant_refuted. Qed.

(* In a magefiles directory every candidate file satisfied with the mage tag is used, tagged or not. *)
Theorem C10_magefiles_dir : forall su goos goarch files res,
  magefiles su goos goarch true files = Some res ->
  res = map f_name (filter (fun f => candidate f
          && satisfied (ctx_for su (platform_os su goos) (platform_arch su goarch) "mage") f) files).
Proof. exact magefiles_dir_exact. Qed.

(* The magefiles subdirectory is used exactly when it exists and the directory itself has no
   magefiles (or cannot be listed). *)
Theorem C10_dir_choice : forall su goos goarch has_sub top,
  NoDup (map f_name top) ->
  (choose_dir su goos goarch has_sub top = Sub <->
   has_sub = true /\ (magefiles su goos goarch false top = None \/
                      forall f, In f top -> requires_mage su (platform_os su goos) (platform_arch su goarch) f = false)).
Proof. exact choose_dir_spec. Qed.

Print Assumptions C10_exact.
Print Assumptions C10_total.
Print Assumptions C10_requires_mage_positively.
Print Assumptions C10_untagged_never.
Print Assumptions C10_never.
Print Assumptions C10_flags_decide.
Print Assumptions C10_env_irrelevant_partial.
Print Assumptions C10_env_irrelevant_cgo_pinned.
Print Assumptions C10_env_irrelevant_without_cgo.
Print Assumptions C10_env_irrelevant_refuted.
Print Assumptions C10_magefiles_dir.
Print Assumptions C10_dir_choice.

(* non-vacuity: a directory with hidden, test, untagged, negatively tagged, platform-suffixed and
   ignored files, a process started with GOOS=plan9 in its environment on a linux/amd64 host *)
Example C10_nonvacuous :
  NoDup (map f_name demo_files) /\ env_ok ["HOME=/root"; "GOOS=plan9"] /\ (forall f, In f demo_files -> file_ok f) /\
  magefiles (su_linux ["HOME=/root"; "GOOS=plan9"]) "" "" false demo_files
    = Some ["magefile.go"; "tasks_linux.go"; "tools.go"; "unixonly.go"] /\
  magefiles (su_linux ["HOME=/root"; "GOOS=plan9"]) "windows" "" false demo_files
    = Some ["magefile.go"; "tasks_windows_amd64.go"; "tools.go"] /\
  magefiles (su_linux ["HOME=/root"; "GOOS=plan9"]) "" "" true demo_files
    = Some ["helper.go"; "magefile.go"; "tasks_linux.go"; "tools.go"; "unixonly.go"] /\
  magefiles (su_linux ["NOEQUALS"]) "" "" false demo_files = None /\
  choose_dir (su_linux []) "" "" true [mk "helper.go" HNone] = Sub /\
  choose_dir (su_linux []) "" "" true demo_files = Top.
Proof. exact nonvacuous_c10. Qed.
Print Assumptions C10_nonvacuous.
