(* C11 - flags, environment and standard streams reach the targets unchanged.
   Statements only; proofs in Proof/Flags_facts.v, model in Model/Flags.v.

   Quantifiers: every setting of the front-end flags (given / not given, explicit false included),
   every environment LIST (any length, duplicate keys, empty values, values containing '=',
   garbage in the MAGEFILE_* variables), every -d / -w string, every disk layout, and every
   behaviour of time.ParseDuration / time.Duration.String / filepath.Join (Section variables; the
   only thing asked of them is the round trip of the one duration that was given with -t).

   The declarative side is written out here, independently of the model's functions. *)
From Mage Require Import Base.Strs Model.Flags Proof.FlagPkg_facts Proof.Flags_facts.
From Mage Require Model.Constraints Proof.Flags_build.   (* C10's model of file selection and Compile; names qualified *)

(* ---- the property sentence, said directly ------------------------------------------------- *)
(* "the variable is set to a true value" *)
Definition is_true_value (v : string) : bool := in_strs v ["1"; "t"; "T"; "true"; "TRUE"; "True"].
Definition variable_true (k : string) (e : env) : bool :=
  match lookup k e with Some v => is_true_value v | None => false end.
Definition variable_or_empty (k : string) (e : env) : string :=
  match lookup k e with Some v => v | None => "" end.
Definition or_go (s : string) : string := if String.eqb s "" then "go" else s.

(* effective values: the flag when given, else the variable *)
Definition effective_verbose (f : flags) (e : env) : bool :=
  match f_v f with Some b => b | None => variable_true "MAGEFILE_VERBOSE" e end.
Definition effective_debug (f : flags) (e : env) : bool :=
  match f_debug f with Some b => b | None => variable_true "MAGEFILE_DEBUG" e end.
Definition effective_gocmd (f : flags) (e : env) : string :=
  or_go (match f_gocmd f with Some s => s | None => variable_or_empty "MAGEFILE_GOCMD" e end).

Definition is_magefile_variable (k : string) : bool := String.prefix "MAGEFILE_" k.
Definition is_forwarded_variable (k : string) : bool :=
  in_strs k ["MAGEFILE_VERBOSE"; "MAGEFILE_LIST"; "MAGEFILE_HELP"; "MAGEFILE_DEBUG"; "MAGEFILE_GOCMD"; "MAGEFILE_TIMEOUT"].

Definition given_nonempty (o : option string) : option string :=
  match o with Some s => if String.eqb s "" then None else Some s | None => None end.

Section Ext.
Variable parse_dur : string -> option Z.       (* time.ParseDuration *)
Variable dur_string : Z -> string.             (* time.Duration.String *)
Variable join : string -> string -> string.    (* filepath.Join *)

(* what the generated main ends up with, through mage / started directly *)
(* [f]: the flags on mage's command line; [cf]: the flags the COMPILED PROGRAM finds among the words it is handed -
   only possible behind a "--" that the front end consumed (C11_dashdash); no_cflags otherwise *)
Notation through_mage lay f cf e := (eff_of (mage_args parse_dur dur_string join true lay f cf e)).
Notation directly cf e := (eff_of (bin_args parse_dur cf e)).
Notation target_env lay f cf e := (mage_target_env parse_dur dur_string join true lay f cf e).

(* the duration given with -t survives String() / ParseDuration (asked only of that one value) *)
Definition duration_round_trip (f : flags) : Prop :=
  forall d, f_t f = Some d -> (0 < d)%Z -> dur_string d <> "" /\ parse_dur (dur_string d) = Some d.

(* no switch other than -v / -debug is explicitly turned off on the front end *)
Definition nothing_explicitly_off (f : flags) : Prop :=
  f_l f <> Some false /\ f_h f <> Some false /\ (forall d, f_t f = Some d -> (0 < d)%Z).

(* the options the compiled binary also has, as its flags ... *)
(* the binary's own flag where it has one, else the front end's (on one command line the later flag wins) *)
Definition same_flags (f : flags) (cf : cflags) : cflags :=
  {| c_v := match c_v cf with Some b => Some b | None => f_v f end;
     c_l := match c_l cf with Some b => Some b | None => f_l f end;
     c_h := match c_h cf with Some b => Some b | None => f_h f end;
     c_t := match c_t cf with Some d => Some d | None => f_t f end |}.
(* ... and as variables *)
Definition as_variables (f : flags) : env :=
  match f_v f with Some b => [("MAGEFILE_VERBOSE", if b then "1" else "0")] | None => [] end ++
  match f_l f with Some true => [("MAGEFILE_LIST", "1")] | _ => [] end ++
  match f_h f with Some true => [("MAGEFILE_HELP", "1")] | _ => [] end ++
  match f_t f with Some d => if (0 <? d)%Z then [("MAGEFILE_TIMEOUT", dur_string d)] else [] | None => [] end.

(* -v, -t, -l, -h given to mage have the effect they have as flags of the compiled binary
   (verbose, list, help, timeout of the generated main are equal) - for every environment,
   -v=false included.  LIMIT (see C11_same_effect_explicit_off_refuted): an explicit -l=false,
   -h=false, -t 0 or a negative -t. *)
Theorem C11_same_effect : forall lay f cf e, duration_round_trip f -> nothing_explicitly_off f ->
  through_mage lay f cf e = directly (same_flags f cf) e.
Proof. exact (same_effect_flags parse_dur dur_string join). Qed.

(* ... and the effect they have as MAGEFILE_* variables of the compiled binary: no limit. *)
Theorem C11_same_effect_variables : forall lay f cf e, duration_round_trip f ->
  through_mage lay f cf e = directly cf (e ++ as_variables f).
Proof. exact (same_effect_vars parse_dur dur_string join). Qed.

(* inside a target started through mage the accessors report the effective values: for every
   inherited value of the variables (garbage included) and every flag value (-v=false, -debug=false,
   -gocmd "" included).  -debug and -gocmd exist only on the front end; they reach targets this way. *)
Theorem C11_accessors : forall lay f cf e,
  mg_verbose (target_env lay f cf e) = (match c_v cf with Some b => b | None => effective_verbose f e end) /\
  mg_debug (target_env lay f cf e) = effective_debug f e /\
  mg_gocmd (target_env lay f cf e) = effective_gocmd f e.
Proof. exact (accessors_mage parse_dur dur_string join). Qed.

(* inside a target of a compiled binary started directly *)
Theorem C11_accessors_compiled : forall cf e,
  mg_verbose (bin_target_env parse_dur cf e) = (match c_v cf with Some b => b | None => variable_true "MAGEFILE_VERBOSE" e end) /\
  mg_debug (bin_target_env parse_dur cf e) = variable_true "MAGEFILE_DEBUG" e /\
  mg_gocmd (bin_target_env parse_dur cf e) = or_go (variable_or_empty "MAGEFILE_GOCMD" e).
Proof. exact (accessors_bin parse_dur). Qed.

(* every variable that is not a MAGEFILE_* variable reaches the target unchanged: GOOS, GOARCH,
   empty values, values with '=', absent stays absent; also for the code before the repair *)
Theorem C11_env_passthrough : forall fixed lay f cf e k, is_magefile_variable k = false ->
  lookup k (mage_target_env parse_dur dur_string join fixed lay f cf e) = lookup k e.
Proof. exact (env_passthrough parse_dur dur_string join). Qed.

(* which MAGEFILE_* variables may differ, and how: only the six forwarded ones *)
Theorem C11_magefile_vars_only_added : forall lay f cf e,
  (forall k, is_forwarded_variable k = false -> lookup k (target_env lay f cf e) = lookup k e) /\
  lookup "MAGEFILE_VERBOSE" (target_env lay f cf e) =
    Some (if (match c_v cf with Some b => b | None => effective_verbose f e end) then "1" else "0") /\
  lookup "MAGEFILE_DEBUG" (target_env lay f cf e) = Some (if effective_debug f e then "1" else "0") /\
  lookup "MAGEFILE_GOCMD" (target_env lay f cf e) = Some (effective_gocmd f e) /\
  lookup "MAGEFILE_LIST" (target_env lay f cf e) = (if flag_or (f_l f) false then Some "1" else lookup "MAGEFILE_LIST" e) /\
  lookup "MAGEFILE_HELP" (target_env lay f cf e) = (if flag_or (f_h f) false then Some "1" else lookup "MAGEFILE_HELP" e) /\
  lookup "MAGEFILE_TIMEOUT" (target_env lay f cf e) =
    (if (0 <? flag_or (f_t f) 0)%Z then Some (dur_string (flag_or (f_t f) 0%Z)) else lookup "MAGEFILE_TIMEOUT" e).
Proof. exact (magefile_vars parse_dur dur_string join). Qed.

(* targets run in the -w directory, default the -d directory, default "." - whatever the layout *)
Theorem C11_cwd : forall lay f e,
  mage_cwd dur_string join lay f e =
  match given_nonempty (f_w f) with
  | Some w => w
  | None => match given_nonempty (f_d f) with Some d => d | None => "." end
  end.
Proof. exact (cwd_rule dur_string join). Qed.

(* with a magefiles directory the program is built from <d>/magefiles and runs in its parent *)
Theorem C11_cwd_magefiles_directory : forall lay f e,
  has_magefiles_dir lay = true -> top_has_magefiles lay = false -> given_nonempty (f_w f) = None ->
  let d := match given_nonempty (f_d f) with Some d => d | None => "." end in
  mage_build_dir dur_string join lay f e = join d "magefiles" /\ mage_cwd dur_string join lay f e = d.
Proof. exact (cwd_magefiles_dir dur_string join). Qed.

(* ---- whole command lines (Model/FlagPkg.v transcribes Go's flag package; [consumed sp pre a]: the parser eats pre
   wholly as flags and flag values, making the assignments a) ------------------------------------------------- *)
(* the first plain word ends the flags: without "--" the compiled program gets no flag, only words - flag-like ones
   behind the first target included *)
Theorem C11_command_line : forall lay pre a t post e,
  consumed parse_dur front_spec pre a -> classify t = WNonFlag ->
  mage_cmdline parse_dur dur_string join true lay (pre ++ t :: post) e =
    Runs (mage_args parse_dur dur_string join true lay (flags_of a) no_cflags e)
         (mage_target_env parse_dur dur_string join true lay (flags_of a) no_cflags e) (t :: post).
Proof. exact (mage_cmdline_words parse_dur dur_string join). Qed.

(* what stands behind a "--" is the compiled program's own command line, in the environment RunCompiled built:
   `mage F -- B words` = the compiled binary given `B words` there *)
Theorem C11_dashdash : forall fixed lay pre a post e,
  consumed parse_dur front_spec pre a -> flag_or (get_bool "h" a) false = false ->
  mage_cmdline parse_dur dur_string join fixed lay (pre ++ "--" :: post) e =
    binary_cmdline parse_dur post (child_env dur_string join fixed lay (flags_of a) e).
Proof. exact (mage_cmdline_dashdash parse_dur dur_string join). Qed.

(* ... so the record-level theorems above apply with cf = the flags found there (C11_same_effect: the same effect as
   the compiled binary given those flags), the last -t / -v / -l / -h given wins ... *)
Theorem C11_dashdash_runs : forall lay pre a post e a' ws,
  consumed parse_dur front_spec pre a -> flag_or (get_bool "h" a) false = false ->
  cl_parse parse_dur gen_spec post = POk a' ws ->
  mage_cmdline parse_dur dur_string join true lay (pre ++ "--" :: post) e =
    Runs (mage_args parse_dur dur_string join true lay (flags_of a) (cflags_of_assigns a') e)
         (mage_target_env parse_dur dur_string join true lay (flags_of a) (cflags_of_assigns a') e) ws.
Proof. exact (mage_cmdline_dashdash_runs parse_dur dur_string join). Qed.

Theorem C11_last_flag_wins : forall a (b : bool) (d : Z),
  c_v (cflags_of_assigns (a ++ [("v", VB b)])) = Some b /\ c_l (cflags_of_assigns (a ++ [("l", VB b)])) = Some b /\
  c_h (cflags_of_assigns (a ++ [("h", VB b)])) = Some b /\ c_t (cflags_of_assigns (a ++ [("t", VD d)])) = Some d.
Proof. exact cflags_last_wins. Qed.

(* ... `-- -x` (any flag error there) is rejected with status 2 and nothing runs, as on mage's own command line ... *)
Theorem C11_dashdash_rejected : forall lay pre a post e a',
  consumed parse_dur front_spec pre a -> flag_or (get_bool "h" a) false = false ->
  cl_parse parse_dur gen_spec post = PBad a' ->
  mage_cmdline parse_dur dur_string join true lay (pre ++ "--" :: post) e = Rejected 2.
Proof. exact (mage_cmdline_dashdash_rejected parse_dur dur_string join). Qed.

Theorem C11_command_line_rejected : forall lay ws e a,
  cl_parse parse_dur front_spec ws = PBad a -> mage_cmdline parse_dur dur_string join true lay ws e = Rejected 2.
Proof. exact (mage_cmdline_rejected parse_dur dur_string join). Qed.

(* ... and `-- -l` lists *)
Theorem C11_list_mode : forall a nargs d e, a_list a = true -> (a_help a && Nat.eqb nargs 0) = false ->
  gm_mode a nargs d e = MList.
Proof. exact list_mode. Qed.
End Ext.

(* PARTIAL (streams): "read the caller's stdin; stdout and stderr bytes arrive unaltered and in
   order".  The model can only say which stream is connected to which (c.Stdin = inv.Stdin ...);
   that bytes survive os/exec and the kernel's pipes is carried by the correspondence run only. *)
(* for EVERY invocation (any flags, listing or help or running) and any number of words - none: the
   default target runs - the compiled magefile's stdin is the caller's, its stdout the caller's
   stdout, its stderr the caller's stderr *)
Theorem C11_streams_wiring_partial : forall inv nargs,
  w_stdin (run_compiled_wiring inv nargs) = CallerStdin /\
  w_stdout (run_compiled_wiring inv nargs) = CallerStdout /\
  w_stderr (run_compiled_wiring inv nargs) = CallerStderr.
Proof. exact streams_wired_each. Qed.

(* the code before a52b92f / 3a2321a (value appended only when true) violates C11_accessors *)
Theorem C11_before_repair_refuted : forall parse_dur dur_string join,
  exists lay f e,
    mg_verbose (mage_target_env parse_dur dur_string join false lay f no_cflags e) <> effective_verbose f e /\
    mg_debug (mage_target_env parse_dur dur_string join false lay f no_cflags e) <> effective_debug f e.
Proof. exact before_repair_refuted. Qed.

(* CANDIDATE FINDING on the current tree: C11_same_effect without [nothing_explicitly_off] is false.
   MAGEFILE_LIST=1 mage -l=false t  lists (the binary with -l=false runs t); likewise -h=false;
   MAGEFILE_TIMEOUT=1m30s mage -t 0 t  runs with a 90 s deadline (the binary: none);
   mage -t -5s t  runs without deadline (the binary: an already expired one). *)
Theorem C11_same_effect_explicit_off_refuted :
  let eff_mage f e := eff_of (mage_args toy_parse_dur toy_dur_string jn true lay0 f no_cflags e) in
  let eff_bin f e := eff_of (bin_args toy_parse_dur (cflags_of f) e) in
  (exists f e, f_l f = Some false /\ e_list (eff_mage f e) = true /\ e_list (eff_bin f e) = false) /\
  (exists f e, f_h f = Some false /\ e_help (eff_mage f e) = true /\ e_help (eff_bin f e) = false) /\
  (exists f e, f_t f = Some 0%Z /\ e_timeout (eff_mage f e) = 90000000000%Z /\ e_timeout (eff_bin f e) = 0%Z) /\
  (exists f e, f_t f = Some (-5000000000)%Z /\ e_timeout (eff_mage f e) = 0%Z /\ e_timeout (eff_bin f e) = (-5000000000)%Z).
Proof. exact explicit_off_refuted. Qed.

(* "GOOS and GOARCH ... never influence how the magefile itself is built."  Stated over C10's model
   (Model/Constraints.v: defaultContext read from the start-up environment, EnvWithGOOS, listGoFiles,
   Compile's environment); Model/Flags.v has no build component.  When mage runs targets -goos/-goarch
   are empty, and then for EVERY start-up environment [su_environ su] (any GOOS / GOARCH in it):
   the `go build` child and the file selection both see GOOS/GOARCH = the host's, and the magefiles are
   selected with a context whose platform fields are the host's.  (What else of the start-up
   environment reaches the selection - cgo, tool tags - is C10_env_irrelevant_partial.) *)
Theorem C11_build_isolated : forall su env,
  Constraints.envWithGOOS su "" "" = Some env ->
  Constraints.compile_env su "" "" = Some env /\
  (exists m, Constraints.splitEnv env = Some m /\
             Constraints.mget "GOOS" m = Some (Constraints.su_hostos su) /\
             Constraints.mget "GOARCH" m = Some (Constraints.su_hostarch su)) /\
  forall tag files,
    Constraints.listGoFiles su tag env files =
    Constraints.import_gofiles (Constraints.ctx_for su (Constraints.su_hostos su) (Constraints.su_hostarch su) tag) files.
Proof. exact Flags_build.build_isolated. Qed.

Theorem C11_build_context_platform : forall su tag,
  Constraints.b_goos (Constraints.ctx_for su (Constraints.su_hostos su) (Constraints.su_hostarch su) tag) = Constraints.su_hostos su /\
  Constraints.b_goarch (Constraints.ctx_for su (Constraints.su_hostos su) (Constraints.su_hostarch su) tag) = Constraints.su_hostarch su.
Proof. exact Flags_build.build_ctx_platform. Qed.

Print Assumptions C11_same_effect.
Print Assumptions C11_command_line.
Print Assumptions C11_dashdash.
Print Assumptions C11_dashdash_runs.
Print Assumptions C11_last_flag_wins.
Print Assumptions C11_dashdash_rejected.
Print Assumptions C11_command_line_rejected.
Print Assumptions C11_list_mode.
Print Assumptions C11_same_effect_variables.
Print Assumptions C11_accessors.
Print Assumptions C11_accessors_compiled.
Print Assumptions C11_env_passthrough.
Print Assumptions C11_magefile_vars_only_added.
Print Assumptions C11_cwd.
Print Assumptions C11_cwd_magefiles_directory.
Print Assumptions C11_streams_wiring_partial.
Print Assumptions C11_before_repair_refuted.
Print Assumptions C11_same_effect_explicit_off_refuted.
Print Assumptions C11_build_isolated.
Print Assumptions C11_build_context_platform.

(* non-vacuity: -v -debug=false -t 90s -gocmd /x/gowrap -d proj with a magefiles directory, in an
   environment with GOOS=plan9, EQ=a=b=c, EMPTY=, a duplicate FOO, MAGEFILE_VERBOSE=garbage,
   MAGEFILE_DEBUG=1: the hypotheses of C11_same_effect hold and every conclusion is a non-trivial value *)
Example C11_nonvacuous :
  roundtrip toy_parse_dur toy_dur_string ex_flags /\ no_explicit_off ex_flags /\
  let te := mage_target_env toy_parse_dur toy_dur_string jn true ex_lay ex_flags ex_cf ex_env in
  eff_of (mage_args toy_parse_dur toy_dur_string jn true ex_lay ex_flags ex_cf ex_env) =
    {| e_verbose := true; e_list := false; e_help := false; e_timeout := 90000000000%Z |} /\
  eff_of (bin_args toy_parse_dur (cflags_of ex_flags) ex_env) =
    {| e_verbose := true; e_list := false; e_help := false; e_timeout := 90000000000%Z |} /\
  mg_verbose te = true /\ mg_debug te = false /\ mg_gocmd te = "/x/gowrap" /\
  lookup "GOOS" te = Some "plan9" /\ lookup "EQ" te = Some "a=b=c" /\ lookup "EMPTY" te = Some "" /\
  lookup "FOO" te = Some "bar" /\ lookup "NOSUCH" te = None /\ lookup "MAGEFILE_CACHE" te = Some "/c" /\
  lookup "MAGEFILE_TIMEOUT" te = Some "1m30s" /\
  mage_cwd toy_dur_string jn ex_lay ex_flags ex_env = "proj" /\
  mage_build_dir toy_dur_string jn ex_lay ex_flags ex_env = "proj/magefiles".
Proof. exact nonvacuous_c11. Qed.
Print Assumptions C11_nonvacuous.

(* command lines with "--", each replayed on the real mage: mage -v=false -t 5m -- -v -t 1h probe is verbose with a
   1 h deadline; -- -l lists; -- -x is rejected with status 2; -- -t -5s gives an expired deadline; -- -h probe is
   help; a malformed -t behind "--" is rejected; "--" as last word runs the default target; "--" behind a target word
   is a word; a second "--" is consumed by the compiled program *)
Example C11_dashdash_nonvacuous :
  let run ws := mage_cmdline toy_pd2 toy_ds2 jn true lay0 ws [] in
  (exists a te, run ["-v=false"; "-t"; "5m"; "--"; "-v"; "-t"; "1h"; "probe"] = Runs a te ["probe"] /\
                a_verbose a = true /\ a_timeout a = 3600000000000%Z /\ mg_verbose te = true) /\
  mode_of (run ["--"; "-l"]) true = Some MList /\
  run ["--"; "-x"] = Rejected 2 /\
  (exists a te, run ["--"; "-t"; "-5s"; "probe"] = Runs a te ["probe"] /\ a_timeout a = (-5000000000)%Z) /\
  mode_of (run ["--"; "-h"; "probe"]) true = Some MHelp /\
  run ["--"; "-t"; "xyz"; "probe"] = Rejected 2 /\
  (exists a te, run ["-v"; "--"] = Runs a te [] /\ a_verbose a = true) /\ mode_of (run ["-v"; "--"]) true = Some MRun /\
  (exists a te, run ["probearg"; "--"] = Runs a te ["probearg"; "--"]) /\
  (exists a te, run ["--"; "--"; "-l"] = Runs a te ["-l"] /\ a_list a = false) /\
  (exists a te, run ["-t"; "5m"; "probe"] = Runs a te ["probe"] /\ a_timeout a = 300000000000%Z) /\
  run ["--"; "--help"] = UsageShown /\ run ["-h"] = UsageShown /\
  binary_cmdline toy_pd2 ["-v"; "-t"; "1h"; "probe"] [] =
    Runs (bin_args toy_pd2 {| c_v := Some true; c_l := None; c_h := None; c_t := Some 3600000000000%Z |} [])
         (bin_target_env toy_pd2 {| c_v := Some true; c_l := None; c_h := None; c_t := Some 3600000000000%Z |} []) ["probe"].
Proof. exact dashdash_rows. Qed.
Print Assumptions C11_dashdash_nonvacuous.
