(* C12 - `-t d` bounds the run and cancels the context given to targets; without -t only SIGINT
   cancels it (5 s of cleanup after the first, immediate exit at the second); Deps/SerialDeps hand
   out a context that is never cancelled, CtxDeps/SerialCtxDeps the caller's.
   Statements only; proofs in Proof/Timeout_facts.v (Model/Timeout.v: getContext/runTarget of
   mage/template.go in LOGICAL time, all results of every `select` whose channels become ready at the
   same instant) and Proof/Timeout_ctx.v (Model/Deps.v: every program, every schedule).

   PARTIAL: the theorems are about logical time.  That the real process exits "promptly" is a property
   of the Go runtime's timers, scheduler and signal delivery; the correspondence run (checks/c12.py)
   measures the real binary with margins.  SIGINTs that arrive before the first target has started
   (no handler installed yet) are outside the model. *)
From Mage Require Import Base.Strs Model.Timeout Proof.Timeout_facts.
From Mage Require Import Model.Deps Proof.Deps_defs Proof.Timeout_ctx.
Open Scope Z_scope.

(* ---- the deadline: created when the FIRST target starts (t0), shared by all targets ---- *)

(* without signals: every target received the context with deadline t0 + d (a later target does not
   get a fresh one), started no later than that, and either saw the cancellation exactly at t0 + d or
   had returned before *)
Theorem C12_deadline_shared : forall d tgs t0 r o,
  0 < d -> In r (run_targets d tgs t0 []) -> In o (r_obs r) ->
  ts_deadline o = Some (t0 + d) /\ ts_start o <= t0 + d /\
  (forall x, ts_cancel o = Some x -> x = t0 + d) /\
  (ts_cancel o = None -> exists e, ts_end o = Some e /\ e < t0 + d).
Proof. exact deadline_shared. Qed.
Print Assumptions C12_deadline_shared.

(* whatever signals arrive, the deadline every target is given is t0 + d *)
Theorem C12_deadline_shared_signals : forall d tgs t0 sigs r o,
  d <> 0 -> In r (run_targets d tgs t0 sigs) -> In o (r_obs r) -> ts_deadline o = Some (t0 + d).
Proof. exact deadline_all. Qed.
Print Assumptions C12_deadline_shared_signals.

(* targets that would take longer than d altogether (none of them failing on its own, rc = None): exit
   status 1, reported as the deadline, at t0 + d exactly - whether the running target honours its
   context (honours = Some k: it would need k > 0 more to clean up) or ignores it (honours = None).
   No SIGINT (see C12_prompt_exit_sigint_refuted). *)
Theorem C12_prompt_exit : forall d tgs t0 r,
  0 < d ->
  Forall (fun tg => 0 <= work tg /\ rc tg = None /\ forall k, honours tg = Some k -> 0 < k) tgs ->
  d < total_work tgs ->
  In r (run_targets d tgs t0 []) ->
  r_exit r = 1 /\ r_cls r = KDeadline /\ r_time r = t0 + d.
Proof. exact prompt_exit. Qed.
Print Assumptions C12_prompt_exit.

(* the hypothesis "no SIGINT" is needed: after a SIGINT runTarget no longer selects on ctx.Done(), so
   the run may outlive t0 + d (up to 5 s after the signal) and even end with status 0.
   Reported as a candidate finding (the property sentence speaks of SIGINT only "without -t"). *)
Theorem C12_prompt_exit_sigint_refuted :
  exists d tgs t0 sigs r,
    0 < d /\ Forall exceeding_ok tgs /\ d < total_work tgs /\ Forall (fun s => t0 <= s) sigs /\
    In r (run_targets d tgs t0 sigs) /\ t0 + d < r_time r /\ r_exit r = 0 /\ r_cls r = KOk.
Proof. exact prompt_exit_sigint_refuted. Qed.
Print Assumptions C12_prompt_exit_sigint_refuted.

(* a run that finishes before d is unaffected: the same single result as without -t (same targets
   started, same start and end times, same exit), except for what ctx.Deadline() reports *)
Theorem C12_unaffected : forall d tgs t0,
  Forall (fun tg => 0 <= work tg) tgs -> total_work tgs < d ->
  run_targets d tgs t0 [] = map (with_deadline (Some (t0 + d))) (run_targets 0 tgs t0 []).
Proof. exact unaffected. Qed.
Print Assumptions C12_unaffected.

(* ... and without -t and without SIGINT that result is the plain sequential run: nothing is ever
   cancelled ([plain_run] sets ts_cancel = None, ts_deadline = None for every target) *)
Theorem C12_no_timeout_no_signal : forall tgs t0,
  Forall (fun tg => 0 <= work tg) tgs -> run_targets 0 tgs t0 [] = [plain_run None tgs t0 []].
Proof. exact no_timeout_no_signal. Qed.
Print Assumptions C12_no_timeout_no_signal.

(* ---- without -t: only SIGINT cancels ---- *)

(* no target sees its context cancelled before the first SIGINT (lb = any lower bound of all arrivals) *)
Theorem C12_sigint_only : forall tgs t0 sigs lb r o x,
  Forall (fun s => lb <= s) sigs ->
  In r (run_targets 0 tgs t0 sigs) -> In o (r_obs r) -> ts_cancel o = Some x -> lb <= x.
Proof. exact sigint_only. Qed.
Print Assumptions C12_sigint_only.

(* the first SIGINT (s1) arrives while target tg runs (the targets before it, pre, have completed):
   tg's context is cancelled at s1; then, with F = when tg finishes given that cancellation,
   W = s1 + 5 s and s2 = the second SIGINT, the process ends by whichever comes first:
   the target's own result at F / "cleanup timeout exceeded" at W / "exit forced" at s2
   (at equal instants either) *)
Theorem C12_sigint : forall pre tg post t0 s1 more r,
  Forall (fun tg => 0 <= work tg /\ rc tg = None) pre ->
  t0 + total_work pre < s1 -> s1 < t0 + total_work pre + work tg ->
  Forall (fun x => s1 <= x) more -> (forall k, honours tg = Some k -> 0 <= k) ->
  In r (run_targets 0 (pre ++ tg :: post) t0 (s1 :: more)) ->
  let s := t0 + total_work pre in
  let F := fin_of tg s (Some s1) in
  let W := s1 + cleanup_window in
  let s2 := hd_error more in
  (exists o, In o (r_obs r) /\ ts_start o = s /\ ts_deadline o = None /\ ts_cancel o = Some s1) /\
  ( (F <= W /\ (forall x, s2 = Some x -> F <= x) /\
     match err_of tg s (Some s1) with
     | Some code => r_exit r = code /\ r_time r = F /\ r_cls r = KTarget
     | None => post = [] -> r_exit r = 0 /\ r_time r = F /\ r_cls r = KOk
     end)
    \/ (W <= F /\ (forall x, s2 = Some x -> W <= x) /\ r_exit r = 1 /\ r_time r = W /\ r_cls r = KCleanup)
    \/ (exists t2, s2 = Some t2 /\ t2 <= F /\ t2 <= W /\ r_exit r = 1 /\ r_time r = t2 /\ r_cls r = KForced) ).
Proof. exact sigint_resolution. Qed.
Print Assumptions C12_sigint.

Theorem C12_sigint_exit_time : forall pre tg t0 s1 more r,
  Forall (fun tg => 0 <= work tg /\ rc tg = None) pre ->
  t0 + total_work pre < s1 -> s1 < t0 + total_work pre + work tg ->
  Forall (fun x => s1 <= x) more -> (forall k, honours tg = Some k -> 0 <= k) ->
  In r (run_targets 0 (pre ++ [tg]) t0 (s1 :: more)) ->
  let F := fin_of tg (t0 + total_work pre) (Some s1) in
  let W := s1 + cleanup_window in
  r_time r = Z.min F (Z.min W (match hd_error more with Some t2 => t2 | None => W end)).
Proof. exact sigint_exit_time. Qed.
Print Assumptions C12_sigint_exit_time.

Close Scope Z_scope.

(* ---- which context a dependency receives (Model/Deps.v; c_ctx = Fwd: CtxDeps/SerialCtxDeps,
        c_ctx = Bg: Deps/SerialDeps).  [reach fixed p s tr]: every program, schedule, prefix. ---- *)

(* a body runs with Background, or with the context of a root that reached it through forwarding
   calls only (each link: an executed Fwd call naming the next body, which started with that context) *)
Theorem C12_ctx_propagation : forall fixed p s tr k c,
  reach fixed p s tr -> In (BodyStart k c) tr -> c = CBg \/ fwd_chain p tr c (TBody k).
Proof. exact ctx_propagation. Qed.
Print Assumptions C12_ctx_propagation.

(* stated honestly for the once-only rule: the context is the one handed over by THE call whose
   goroutine won the once - child_ctx of that call applied to its caller's context *)
Theorem C12_ctx_winner : forall fixed p s tr k c,
  reach fixed p s tr -> In (BodyStart k c) tr ->
  exists t pc cl ct,
    In (CallEnter t pc) tr /\ nth_error (calls_of p t) pc = Some cl /\ In k (c_deps cl) /\
    task_ctx p tr t ct /\ c = child_ctx cl ct.
Proof. exact ctx_winner. Qed.
Print Assumptions C12_ctx_winner.

(* at the step that starts a body: a goroutine of a Bg call hands over Background (never the
   cancellable context), a goroutine of a Fwd call the context of its caller *)
Theorem C12_ctx_handover : forall fixed p s a s' ev k c,
  step fixed p s a = Some (s', ev) -> In (BodyStart k c) ev ->
  exists t j tk cl,
    a = AGo t j /\ tasks s t = Some tk /\ nth_error (calls_of p t) (t_pc tk) = Some cl /\
    (c_ctx cl = Bg -> c = CBg) /\ (c_ctx cl = Fwd -> c = t_ctx tk).
Proof. exact ctx_handover. Qed.
Print Assumptions C12_ctx_handover.

(* a dependency that is only ever named by Deps/SerialDeps calls gets Background *)
Theorem C12_ctx_deps_background : forall fixed p s tr k c,
  (forall t pc cl, nth_error (calls_of p t) pc = Some cl -> In k (c_deps cl) -> c_ctx cl = Bg) ->
  reach fixed p s tr -> In (BodyStart k c) tr -> c = CBg.
Proof. exact ctx_bg_only. Qed.
Print Assumptions C12_ctx_deps_background.

(* one context per invocation (getContext): every body gets that one or Background *)
Theorem C12_ctx_one_context : forall fixed p c0 s tr k c,
  (forall n cs c', nth_error (roots p) n = Some (cs, c') -> c' = c0) ->
  reach fixed p s tr -> In (BodyStart k c) tr -> c = CBg \/ c = c0.
Proof. exact ctx_one_root_ctx. Qed.
Print Assumptions C12_ctx_one_context.

(* CtxDeps/SerialCtxDeps everywhere: every body gets the context of the invocation *)
Theorem C12_ctx_all_forwarded : forall fixed p c0 s tr k c,
  (forall n cs c', nth_error (roots p) n = Some (cs, c') -> c' = c0) ->
  (forall t pc cl, nth_error (calls_of p t) pc = Some cl -> c_ctx cl = Fwd) ->
  reach fixed p s tr -> In (BodyStart k c) tr -> c = c0.
Proof. exact ctx_all_fwd. Qed.
Print Assumptions C12_ctx_all_forwarded.

(* the same dependency named by a CtxDeps call and by a Deps call: the schedule (who enters the once
   first) decides which context it sees - both happen *)
Theorem C12_ctx_winner_decides :
  exists acts1 acts2 s1 tr1 s2 tr2,
    run true diamond (init diamond) acts1 = Some (s1, tr1) /\ In (BodyStart 0 (CTag 1)) tr1 /\
    run true diamond (init diamond) acts2 = Some (s2, tr2) /\ In (BodyStart 0 CBg) tr2.
Proof. exact winner_decides. Qed.
Print Assumptions C12_ctx_winner_decides.

Open Scope Z_scope.
(* non-vacuity: concrete runs on both sides of the deadline, exactly at it (two outcomes), the three
   SIGINT resolutions; the hypotheses of C12_prompt_exit / C12_unaffected / C12_sigint are met *)
Example C12_nonvacuous :
  run_targets 600 [ex_A; ex_B] 0 [] =
    [ {| r_exit := 1; r_time := 600; r_cls := KDeadline;
         r_obs := [ {| ts_start := 0; ts_deadline := Some 600; ts_cancel := None; ts_end := Some 300 |};
                    {| ts_start := 300; ts_deadline := Some 600; ts_cancel := Some 600; ts_end := None |} ] |} ] /\
  run_targets 1000 [ex_A; ex_B] 0 [] =
    [ {| r_exit := 0; r_time := 800; r_cls := KOk;
         r_obs := [ {| ts_start := 0; ts_deadline := Some 1000; ts_cancel := None; ts_end := Some 300 |};
                    {| ts_start := 300; ts_deadline := Some 1000; ts_cancel := None; ts_end := Some 800 |} ] |} ] /\
  map (fun r => (r_exit r, r_cls r)) (run_targets 300 [ex_A] 0 []) = [(0, KOk); (1, KDeadline)] /\
  map (fun r => (r_exit r, r_time r, r_cls r)) (run_targets 0 [ex_polite] 0 [300]) = [(1, 400, KTarget)] /\
  map (fun r => (r_exit r, r_time r, r_cls r)) (run_targets 0 [ex_long] 0 [300]) = [(1, 300 + cleanup_window, KCleanup)] /\
  map (fun r => (r_exit r, r_time r, r_cls r)) (run_targets 0 [ex_long] 0 [300; 700]) = [(1, 700, KForced)] /\
  Forall exceeding_ok [ex_A; ex_B] /\ 600 < total_work [ex_A; ex_B] /\ total_work [ex_A; ex_B] < 1000 /\
  Forall pre_ok [ex_B] /\ 0 + total_work [ex_B] < 700 /\ 700 < 0 + total_work [ex_B] + work ex_polite.
Proof. exact nonvacuous_c12. Qed.
Print Assumptions C12_nonvacuous.
