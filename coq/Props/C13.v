(* C13 - SerialDeps runs dependencies one at a time in the order given.
   Statements only; proofs in Proof/Deps_c13.v. *)
From Mage Require Import Base.Strs Model.Deps Proof.Deps_defs Proof.Deps_c13.

(* whenever a goroutine of a serial call starts a dependency, it is the member at some position i of
   the list and every earlier member has already finished successfully - whoever ran it: a member
   in flight elsewhere is waited for, one that already finished is skipped, none is started after a failure *)
Theorem C13_order : forall p s tr t j s' ev k cx tk c,
  reach true p s tr -> step true p s (AGo t j) = Some (s', ev) -> In (BodyStart k cx) ev ->
  tasks s t = Some tk -> nth_error (calls_of p t) (t_pc tk) = Some c -> c_style c = Ser ->
  exists i, nth_error (c_deps c) i = Some k /\
            forall i' k', i' < i -> nth_error (c_deps c) i' = Some k' -> In (BodyEnd k' RNil) tr.
Proof. exact order. Qed.
Print Assumptions C13_order.

(* one at a time: a serial call never has more than one goroutine *)
Theorem C13_one_at_a_time : forall fixed p s tr t tk r st c,
  reach fixed p s tr -> tasks s t = Some tk -> t_phase tk = PRound r st ->
  nth_error (calls_of p t) (t_pc tk) = Some c -> c_style c = Ser ->
  length (rd_gs st) <= 1 /\ length (rd_members st) <= 1.
Proof. exact one_at_a_time. Qed.
Print Assumptions C13_one_at_a_time.

(* the call ends at the first failure, with that failure only *)
Theorem C13_stop_at_failure : forall p s tr t pc x m c,
  reach true p s tr -> In (CallPanic t pc x m) tr -> nth_error (calls_of p t) pc = Some c -> c_style c = Ser ->
  exists i k r, nth_error (c_deps c) i = Some k /\ In (BodyEnd k r) tr /\ r <> RNil /\
                m = message r /\ x = changeExit 0 (status r) /\
                forall i' k', i' < i -> nth_error (c_deps c) i' = Some k' -> In (BodyEnd k' RNil) tr.
Proof. exact stop_at_failure. Qed.
Print Assumptions C13_stop_at_failure.

(* in trace order: each member a returning serial call got to ended before the call ended, in list order *)
Theorem C13_members_end_in_order : forall p s tr pre post t pc c i j ki kj,
  reach true p s tr -> tr = pre ++ CallReturn t pc :: post ->
  nth_error (calls_of p t) pc = Some c -> c_style c = Ser ->
  i < j -> nth_error (c_deps c) i = Some ki -> nth_error (c_deps c) j = Some kj ->
  In (BodyEnd ki RNil) pre /\ In (BodyEnd kj RNil) pre.
Proof. exact members_end_in_order. Qed.
Print Assumptions C13_members_end_in_order.

(* the once-only rule still applies *)
Theorem C13_once_still_applies : forall fixed p s tr k,
  reach fixed p s tr -> nstart k tr <= 1.
Proof. exact once_still_applies. Qed.
Print Assumptions C13_once_still_applies.

(* non-vacuity: a serial list whose middle member is shared with a parallel call that holds it in flight *)
Example C13_nonvacuous : exists p acts s tr,
  run true p (init p) acts = Some (s, tr) /\ final s /\
  exists a b c0, tr = a ++ BodyEnd 1 RNil :: b ++ BodyStart 2 CBg :: c0.
Proof. exact nonvacuous_c13. Qed.
Print Assumptions C13_nonvacuous.
