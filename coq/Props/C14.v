(* C14 - mg.F accepts exactly well-typed argument lists and calls faithfully.
   Statements only; proofs are in Proof/FnCheck_facts.v and Proof/FnId_facts.v. *)
From Mage Require Import Base.Strs Model.FnCheck Model.FnSpec Model.FnId Proof.FnCheck_facts Proof.FnId_facts.

(* mg.F succeeds exactly on the well-typed (signature, argument list) pairs - for every signature
   and every argument list, of any length. *)
Theorem C14_accepts_iff : forall t args,
  (exists hc ns, checkF t args = Good hc ns) <-> well_typed t args = true.
Proof. exact accepts_iff. Qed.
Print Assumptions C14_accepts_iff.

(* the two flags it hands to Run are the signature's *)
Theorem C14_flags : forall s args hc ns,
  checkF (Func s) args = Good hc ns -> hc = has_ctx s /\ ns = has_receiver s.
Proof. exact flags. Qed.
Print Assumptions C14_flags.

(* "never later": the vector given to reflect.Call is the expected binding, it fits the function's
   parameters one by one (so Call cannot panic), and all passed values are of supported types *)
Theorem C14_faithful_call : forall s args hc ns,
  forallb wf_value args = true ->
  checkF (Func s) args = Good hc ns ->
  call_args hc ns args = expected_binding s args /\
  fits (ins s) (vtail s) (call_args hc ns args) = true /\
  forallb supported_value args = true.
Proof. exact faithful_call. Qed.
Print Assumptions C14_faithful_call.

(* the function's error comes back unchanged, nil stays nil *)
Theorem C14_error_unchanged : forall r,
  run_result r = match r with RetErr => RunSameErr | _ => RunNil end.
Proof. exact error_unchanged. Qed.
Print Assumptions C14_error_unchanged.

(* two accepted mg.F values of one function have the same id iff their argument lists are equal *)
Theorem C14_identity : forall s a b hc ns hc' ns',
  forallb wf_value a = true -> forallb wf_value b = true ->
  checkF (Func s) a = Good hc ns -> checkF (Func s) b = Good hc' ns' ->
  (fn_id a = fn_id b <-> a = b).
Proof. exact identity. Qed.
Print Assumptions C14_identity.

(* ... and the registry key separates functions by name *)
Theorem C14_key : forall s f g a b hc ns hc' ns',
  forallb wf_value a = true -> forallb wf_value b = true ->
  checkF (Func s) a = Good hc ns -> checkF (Func s) b = Good hc' ns' ->
  (once_key f a = once_key g b <-> f = g /\ a = b).
Proof. exact key_iff. Qed.
Print Assumptions C14_key.

(* the hypotheses are satisfiable: a namespaced, context-taking, variadic signature *)
Example C14_nonvacuous :
  checkF (Func {| ins := [TNs 0; TCtx; TInt; TString]; vtail := Some TDur; outs := [TErr] |})
         [VInt 5; VStr "x"; VDur 1; VDur 2] = Good true true
  /\ fn_id [VInt 5; VStr "x"; VDur 1; VDur 2] = "[5,""78"",1,2]"
  /\ fn_id [VStr (bs [255])] <> fn_id [VStr (bs [254])].
Proof. exact nonvacuous. Qed.
Print Assumptions C14_nonvacuous.
