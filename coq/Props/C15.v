(* C15 - sh reports a command's outcome exactly.
   Statements only; proofs in Proof/Sh_facts.v.  For every entry point f (Run, RunV, RunWith,
   RunWithV, Output, OutputWith, Exec with any writers), every process environment, every env
   map, every command string and argument list, every child behaviour (a function of the argument
   vector and environment the call hands to the OS), every exit code (Z), every byte string. *)
From Mage Require Import Base.Strs Base.Expand Model.Sh Proof.Sh_facts.
From Coq Require Import Permutation.

Section W.
Variable penv : envlist.                                       (* the caller's environment *)
Variable child : list string -> list string -> child_result.   (* argv -> envp -> what happens *)
Notation call_ := (call_entry penv child).

(* the returned error is nil exactly when the command exited 0 *)
Theorem C15_nil_iff_zero : forall f envm cmd args,
  let x := call_ f envm cmd args in
  k_err x = ENil <-> exists out errout, child (k_argv x) (k_envp x) = Started 0 out errout.
Proof. exact (nil_iff_zero penv child). Qed.

(* exited with k <> 0: mg.ExitStatus and sh.ExitStatus of the error are k, Exec's first result is true *)
Theorem C15_status : forall f envm cmd args k out errout,
  let x := call_ f envm cmd args in
  child (k_argv x) (k_envp x) = Started k out errout -> k <> 0%Z ->
  mg_ExitStatus (k_err x) = k /\ sh_ExitStatus (k_err x) = k /\ k_ran x = true /\ k_err x = EFatal k.
Proof. exact (status_k penv child). Qed.

(* could not be started: Exec's first result is false, the status is 1 *)
Theorem C15_not_started : forall f envm cmd args,
  let x := call_ f envm cmd args in
  child (k_argv x) (k_envp x) = NotStarted ->
  k_ran x = false /\ mg_ExitStatus (k_err x) = 1%Z /\ sh_ExitStatus (k_err x) = 1%Z /\ k_err x <> ENil.
Proof. exact (not_started penv child). Qed.

(* NOT part of the property sentence, recorded because it is what the code does: a child killed
   by a signal is reported like one that could not be started *)
Theorem C15_signaled_as_not_run : forall f envm cmd args s out errout,
  let x := call_ f envm cmd args in
  child (k_argv x) (k_envp x) = Signaled s out errout ->
  k_ran x = false /\ mg_ExitStatus (k_err x) = 1%Z /\ sh_ExitStatus (k_err x) = 1%Z /\ k_err x <> ENil.
Proof. exact (signaled penv child). Qed.

(* sh.CmdRan / sh.ExitStatus applied to the raw error of an os/exec command *)
Theorem C15_raw : forall r,
  let e := cmd_run_err r in
  (forall k out errout, r = Started k out errout -> sh_CmdRan e = true /\ sh_ExitStatus e = k) /\
  (r = NotStarted -> sh_CmdRan e = false /\ sh_ExitStatus e = 1%Z) /\
  (forall s out errout, r = Signaled s out errout -> sh_CmdRan e = false /\ sh_ExitStatus e = (-1)%Z).
Proof. exact raw_statuses. Qed.

(* ... the same two answers as Exec gives *)
Theorem C15_raw_agrees : forall f envm cmd args,
  let x := call_ f envm cmd args in
  let r := child (k_argv x) (k_envp x) in
  (forall s out errout, r <> Signaled s out errout) ->
  sh_CmdRan (cmd_run_err r) = k_ran x /\
  sh_ExitStatus (cmd_run_err r) = mg_ExitStatus (k_err x) /\
  sh_ExitStatus (cmd_run_err r) = sh_ExitStatus (k_err x).
Proof. exact (raw_agrees penv child). Qed.

(* Output / OutputWith return stdout with exactly one trailing newline removed:
   out = res ++ "\n", or out = res and out does not end in "\n" *)
Theorem C15_output_trim : forall f envm cmd args, is_output f = true ->
  let x := call_ f envm cmd args in
  one_newline_removed (child_out (child (k_argv x) (k_envp x))) (k_text x).
Proof. exact (output_trim penv child). Qed.

(* entries of the env map override inherited variables: in the environment the child is given
   (for EVERY variable name) and in the expansion of the command and its arguments, which uses
   exactly the value the child will see (empty if unset) *)
Theorem C15_env_override : forall f envm cmd args, keys_ok penv -> keys_ok envm ->
  let x := call_ f envm cmd args in
  let m := entry_env f envm in              (* [] for Run / RunV / Output, envm otherwise *)
  let sees := child_getenv (k_envp x) in
  (forall key, sees key = match map_get m key with Some v => Some v | None => map_get penv key end) /\
  k_argv x = map (expand (fun name => or_empty (sees name))) (cmd :: args).
Proof. exact (env_override penv child). Qed.

(* ... in whatever order the map is iterated *)
Theorem C15_map_order_irrelevant : forall f envm envm' cmd args, keys_ok penv -> keys_ok envm ->
  Permutation envm envm' ->
  let x := call_ f envm cmd args in
  let x' := call_ f envm' cmd args in
  k_argv x = k_argv x' /\ forall key, child_getenv (k_envp x) key = child_getenv (k_envp x') key.
Proof. exact (map_order_irrelevant penv child). Qed.

(* stdout reaches the caller's stdout only in verbose mode (always for the V variants, never for
   the Output functions), stderr always, stdin is the caller's *)
Theorem C15_routing : forall f envm cmd args, is_wrapper f ->
  let x := call_ f envm cmd args in
  let r := child (k_argv x) (k_envp x) in
  k_os_stdout x = (if stdout_shown penv f then child_out r else EmptyString) /\
  k_os_stderr x = child_err r /\
  k_stdin x = OsStdin.
Proof. exact (routing penv child). Qed.

Theorem C15_shown_iff : forall f,
  stdout_shown penv f = true <->
  (f = FRunV \/ f = FRunWithV \/ ((f = FRun \/ f = FRunWith) /\ verbose penv = true)).
Proof. exact (stdout_shown_iff penv). Qed.

(* Exec with caller-supplied writers *)
Theorem C15_exec_writers : forall so se envm cmd args,
  let x := call_ (FExec so se) envm cmd args in
  let r := child (k_argv x) (k_envp x) in
  k_buf_out x = (if writer_eqb WBuf so then child_out r else EmptyString) /\
  k_buf_err x = (if writer_eqb WBuf se then child_err r else EmptyString).
Proof. exact (exec_writers penv child). Qed.
End W.

(* the trimming spec determines its result (so "exactly one" is meant) *)
Theorem C15_trim_unique : forall out a b,
  one_newline_removed out a -> one_newline_removed out b -> a = b.
Proof. exact one_newline_removed_unique. Qed.

Print Assumptions C15_nil_iff_zero.
Print Assumptions C15_status.
Print Assumptions C15_not_started.
Print Assumptions C15_signaled_as_not_run.
Print Assumptions C15_raw.
Print Assumptions C15_raw_agrees.
Print Assumptions C15_output_trim.
Print Assumptions C15_env_override.
Print Assumptions C15_map_order_irrelevant.
Print Assumptions C15_routing.
Print Assumptions C15_shown_iff.
Print Assumptions C15_exec_writers.
Print Assumptions C15_trim_unique.

(* ---- Exec handed caller-supplied writers that may fail (Model/Sh.v, exec_x): XW w never fails, XFail n accepts
   n bytes and then fails every Write.  Outside the property sentence's quantifier; recorded and checked because
   Exec is public API and C05 rests on the statuses it produces. ---- *)
Section X.
Variable penv : envlist.
Variable child : list string -> list string -> child_result.
Notation exec_x_ := (exec_x penv child).

(* with writers that never fail, exec_x is the Exec of the theorems above *)
Theorem C15x_conservative : forall envm so se cmd args,
  exec_x_ envm (XW so) (XW se) cmd args = call_entry penv child (FExec so se) envm cmd args.
Proof. exact (exec_x_conservative penv child). Qed.

(* nil exactly when the command exited 0 and copying its output into the writers did not fail *)
Theorem C15x_nil_iff_zero : forall envm so se cmd args,
  let x := exec_x_ envm so se cmd args in
  let r := child (k_argv x) (k_envp x) in
  k_err x = ENil <-> (exists out errout, r = Started 0 out errout) /\ copy_failed so se r = false.
Proof. exact (x_nil_iff penv child). Qed.

(* whatever the writers do: exit k <> 0 is reported as k; not started / signaled as a plain error with status 1 *)
Theorem C15x_status : forall envm so se cmd args,
  let x := exec_x_ envm so se cmd args in
  let r := child (k_argv x) (k_envp x) in
  (forall k out errout, r = Started k out errout -> k <> 0%Z ->
     k_ran x = true /\ k_err x = EFatal k /\ mg_ExitStatus (k_err x) = k /\ sh_ExitStatus (k_err x) = k) /\
  ((r = NotStarted \/ exists s out errout, r = Signaled s out errout) ->
     k_ran x = false /\ k_err x = EOther /\ mg_ExitStatus (k_err x) = 1%Z /\ sh_ExitStatus (k_err x) = 1%Z).
Proof. exact (x_status penv child). Qed.

(* what the code does: exit 0 but a writer failed - reported like a command that did not run *)
Theorem C15x_failing_writer : forall envm so se cmd args out errout,
  let x := exec_x_ envm so se cmd args in
  child (k_argv x) (k_envp x) = Started 0 out errout -> copy_failed so se (Started 0 out errout) = true ->
  k_ran x = false /\ k_err x = EOther /\ mg_ExitStatus (k_err x) = 1%Z /\ sh_ExitStatus (k_err x) = 1%Z.
Proof. exact (x_failing_writer penv child). Qed.

(* for every child and all writers: a non-nil error never carries status 0 *)
Theorem C15x_nonnil_status_nonzero : forall envm so se cmd args,
  let x := exec_x_ envm so se cmd args in
  k_err x <> ENil -> mg_ExitStatus (k_err x) <> 0%Z /\ sh_ExitStatus (k_err x) <> 0%Z.
Proof. exact (x_nonnil_status_nonzero penv child). Qed.

(* what the writers hold afterwards; argv / environment / stdin as for Exec *)
Theorem C15x_writers : forall envm so se cmd args,
  let x := exec_x_ envm so se cmd args in
  let r := child (k_argv x) (k_envp x) in
  k_buf_out x = accepted so (child_out r) /\ k_buf_err x = accepted se (child_err r) /\
  k_argv x = map (expand (exec_mapping penv envm)) (cmd :: args) /\
  k_envp x = dedup_env (environ penv ++ map entry_str envm) /\ k_stdin x = OsStdin.
Proof. exact (x_writers penv child). Qed.
End X.

(* a buffer accepts the whole stream; a writer failing after n bytes has accepted exactly the first min(n, length)
   bytes and reports a failure exactly when the stream is longer than n *)
Theorem C15x_accepted : forall w d,
  match w with
  | XW WBuf => accepted w d = d /\ write_fails w d = false
  | XW _ => accepted w d = EmptyString /\ write_fails w d = false
  | XFail n => (exists rest, d = String.append (accepted w d) rest) /\
               String.length (accepted w d) = Nat.min n (String.length d) /\
               (write_fails w d = true <-> n < String.length d)
  end.
Proof. exact accepted_spec. Qed.

Print Assumptions C15x_conservative.
Print Assumptions C15x_nil_iff_zero.
Print Assumptions C15x_status.
Print Assumptions C15x_failing_writer.
Print Assumptions C15x_nonnil_status_nonzero.
Print Assumptions C15x_writers.
Print Assumptions C15x_accepted.

(* non-vacuity: a concrete environment and map satisfying keys_ok with overlapping keys, values
   with '$' and '=', a child that exits 3 after writing "out\n\n" *)
Example C15_nonvacuous :
  keys_ok nv_penv /\ keys_ok nv_envm /\
  let x := call_entry nv_penv nv_child FOutputWith nv_envm "$PATH/tool" ["$A"; "${B}"; "$C$$"; "x$"] in
  k_argv x = ["/bin/tool"; "from map"; "b=1$A"; ""; "x$"] /\
  child_getenv (k_envp x) "A" = Some "from map" /\ child_getenv (k_envp x) "B" = Some "b=1$A" /\
  child_getenv (k_envp x) "C" = Some "" /\ child_getenv (k_envp x) "D" = None /\
  k_err x = EFatal 3 /\ k_ran x = true /\ k_text x = String.append "out" nl /\
  k_os_stdout x = "" /\ k_os_stderr x = "err" /\
  k_err (call_entry nv_penv nv_child FRun nv_envm "tool" []) = EOther /\
  k_os_stdout (call_entry nv_penv nv_child FRunV nv_envm "/bin/tool" []) = String.append "out" (String.append nl nl) /\
  k_os_stdout (call_entry nv_penv nv_child FRun nv_envm "/bin/tool" []) = "".
Proof. exact nonvacuous_c15. Qed.
Print Assumptions C15_nonvacuous.

Example C15x_nonvacuous :
  let x := exec_x nv_penv nv_child nv_envm (XFail 2) (XW WBuf) "/bin/tool" [] in
  let y := exec_x nv_penv (fun _ _ => Started 0 "abc" "") nv_envm (XFail 2) (XW WBuf) "/bin/tool" [] in
  k_err x = EFatal 3 /\ k_buf_out x = "ou" /\ k_buf_err x = "err" /\
  k_err y = EOther /\ k_ran y = false /\ k_buf_out y = "ab" /\
  k_err (exec_x nv_penv (fun _ _ => Started 0 "ab" "") nv_envm (XFail 2) (XW WBuf) "/bin/tool" []) = ENil.
Proof. exact nonvacuous_x. Qed.
Print Assumptions C15x_nonvacuous.

(* ---- overlapping calls (targets run in parallel): C15's outcome for a call does not depend on the calls in flight.
   For EVERY schedule of the environment-touching steps of two calls a, b (any entry point's Exec: expansion,
   start, end; any order, any repetition): the process environment afterwards is the one before, and what each call
   handed to the OS - argument vector, child environment - is what it hands over when it runs alone
   ([alone_is_exec]: the k_argv / k_envp of exec_ in that environment), so every theorem above applies to it. ---- *)
Theorem C15_concurrent : forall sched a b pe,
  let '(pe', (oa, ob)) := par_calls sched a b pe pobs0 pobs0 in
  pe' = pe /\ obs_of_alone pe a oa /\ obs_of_alone pe b ob.
Proof. exact (fun sched a b pe => par_calls_independent sched a b pe pobs0 pobs0 (obs0_alone pe a) (obs0_alone pe b)). Qed.

Theorem C15_alone_is_exec : forall pe child c so se,
  let x := exec_ pe child (pc_envm c) so se (pc_cmd c) (pc_args c) in
  k_argv x = alone_argv pe c /\ k_envp x = alone_envp pe c.
Proof. exact alone_is_exec. Qed.

(* the statement has content: a design that writes the map into the process environment for the duration of the
   call (t.Setenv style) violates it - the call without a map expands $A to the other call's value and its child
   inherits it - while the code that exists gives the call-alone answers on the same schedule *)
Theorem C15_concurrent_setenv_design_refuted :
  let '(pe', (_, ob)) := par_calls_setenv sx_sched sx_a sx_b sx_pe pobs_s0 pobs_s0 in
  po_argv (ps_obs ob) = Some ["tool"; "from a"] /\ alone_argv sx_pe sx_b = ["tool"; "inherited"] /\
  po_envp (ps_obs ob) = Some ["A=from a"] /\ alone_envp sx_pe sx_b = ["A=inherited"] /\
  (let '(pe2, (_, ob2)) := par_calls sx_sched sx_a sx_b sx_pe pobs0 pobs0 in
   pe2 = sx_pe /\ po_argv ob2 = Some ["tool"; "inherited"] /\ po_envp ob2 = Some ["A=inherited"]).
Proof. exact setenv_design_not_independent. Qed.

Print Assumptions C15_concurrent.
Print Assumptions C15_alone_is_exec.
Print Assumptions C15_concurrent_setenv_design_refuted.
