(* C16 - sh calls do not modify their inputs and are repeatable.
   Statements only; proofs in Proof/Slices_facts.v over Model/Slices.v (sh/cmd.go in a Go slice memory:
   arrays on a heap, slices (array, off, len, cap), append that stores in place when capacity allows).

   Quantifiers: every heap [h0] of caller-visible arrays (any contents, any lengths), every history of
   operations (os.Setenv - MAGEFILE_VERBOSE included | creation of a RunCmd/OutCmd closure over any slice
   of those arrays, at any point | call of any closure made so far with any extra slice | direct
   Run/RunV/RunWith/RunWithV/Output/OutputWith/Exec with any slice and any env map), every initial
   environment, every child behaviour [child_out] (stdout) and [child_exit] (exit status; not 0 = the call
   fails) as functions of the argv the child is started with - so histories with failing children that
   print are included; for the concurrent part every interleaving of the atomic memory actions (allocate /
   load one cell / store one cell) of two calls.  No size bound anywhere.
   The only hypothesis: the slices handed in lie in arrays that exist ([slice_ok]: array id < length h0).

   The env map of RunWith/RunWithV/OutputWith/Exec is an immutable VALUE in the model (a list of pairs
   passed by value; the model has no operation that stores to a map): "the env map is unchanged" holds
   by construction and has no theorem; the harness still compares the real map before and after. *)
From Mage Require Import Base.Strs Base.Expand Model.Slices Proof.Slices_facts.

Section W.
(* external: the operating system and the child, as functions of the process environment at the time of the
   call, of the env map handed to Exec ([] for closures, Run, RunV, Output) and of the argv handed over (which program the command word names - PATH, the file system of that
   moment -, what it prints, how it exits; not started: "" and 1) *)
Variable child_out : list (string * string) -> list (string * string) -> list string -> string.
Variable child_exit : list (string * string) -> list (string * string) -> list string -> nat.
Variable h0 : heap.
Variable cls0 : list closure.                   (* closures that exist before the history (may be none) *)
Hypothesis closures_in_heap : cls_ok h0 cls0.

(* Calling any sh function leaves the caller's arrays unchanged: after EVERY operation of ANY history
   every array that existed before has its original contents in full - the cells before a slice's
   offset, its elements, the cells between len and cap, and the rest of the array. *)
Theorem C16_inputs_unchanged : forall penv ops, Forall (op_ok h0) ops ->
  Forall (fun x => firstn (length h0) (snd x) = h0) (run_history child_out child_exit true penv cls0 h0 ops).
Proof. exact (fun penv ops => thm_inputs_unchanged child_out child_exit h0 penv cls0 ops closures_in_heap). Qed.

(* The call of a closure at ANY position of ANY history (first or later; whatever ran before - failing
   calls that printed included; with or without extra arguments; the closure made at any earlier point,
   under whatever environment) starts exactly cmd, the baked-in arguments, then the call's arguments, each
   expanded against the environment at the time of THAT call - the COMMAND WORD too, and the program it
   names is the one the operating system finds for it in the environment of THAT call ([child_out env_i],
   [child_exit env_i]: PATH and the file system of that moment, nothing remembered from earlier calls).  An OutCmd closure hands back THIS child's
   stdout with one trailing newline removed (nothing of earlier calls) and writes nothing to os.Stdout; a
   RunCmd closure hands back nothing and the child's stdout reaches os.Stdout exactly when mg.Verbose()
   holds in the environment of THAT call (not of the closure's creation).  The status is this child's. *)
Theorem C16_closure_is_run : forall penv pre c extra post cl,
  Forall (op_ok h0) (pre ++ CallClosure c extra :: post) -> nth_error (cls_at cls0 pre) c = Some cl ->
  let env_i := env_at penv pre in
  let argv := map (expand_env env_i) (cl_cmd cl :: contents h0 (cl_baked cl) ++ contents h0 extra) in
  exists h', nth_error (run_history child_out child_exit true penv cls0 h0 (pre ++ CallClosure c extra :: post)) (length pre)
             = Some (OCall argv
                           (match cl_kind cl with KRun => None | KOut => Some (trim_nl (child_out env_i [] argv)) end)
                           (match cl_kind cl with KRun => if verbose env_i then child_out env_i [] argv else "" | KOut => "" end)
                           (child_exit env_i [] argv), h').
Proof. exact (fun penv pre c extra post cl => thm_closure_is_run child_out child_exit h0 penv cls0 pre c extra post cl closures_in_heap). Qed.

(* The direct functions, at any position of any history: cmd and the caller's elements, expanded with the
   env map first and the process environment second (no map for Run/RunV/Output); text, os.Stdout and status
   as [finish_direct] says, from this call's argv and environment alone. *)
Theorem C16_direct_call : forall penv pre f emap cmd args post,
  Forall (op_ok h0) (pre ++ CallDirect f emap cmd args :: post) ->
  let env_i := env_at penv pre in
  let argv := map (expand (mapping (if uses_map f then emap else []) env_i)) (cmd :: contents h0 args) in
  exists h', nth_error (run_history child_out child_exit true penv cls0 h0 (pre ++ CallDirect f emap cmd args :: post)) (length pre)
             = Some (finish_direct child_out child_exit f emap env_i argv, h').
Proof. exact (fun penv pre f emap cmd args post => thm_direct_call child_out child_exit h0 penv cls0 pre f emap cmd args post closures_in_heap). Qed.

(* "exactly like sh.Run or sh.Output": in the same place of the same history, the closure call and the
   direct call of Run (RunCmd) / Output (OutCmd) on ANY slice whose elements are the baked-in arguments
   followed by the call's arguments are observed identically: argv, text handed back, bytes on os.Stdout, status. *)
Theorem C16_closure_like_direct : forall penv pre c extra post post' cl args,
  Forall (op_ok h0) (pre ++ CallClosure c extra :: post) ->
  Forall (op_ok h0) (pre ++ CallDirect (match cl_kind cl with KRun => FRun | KOut => FOutput end) [] (cl_cmd cl) args :: post') ->
  nth_error (cls_at cls0 pre) c = Some cl ->
  contents h0 args = contents h0 (cl_baked cl) ++ contents h0 extra ->
  option_map fst (nth_error (run_history child_out child_exit true penv cls0 h0 (pre ++ CallClosure c extra :: post)) (length pre)) =
  option_map fst (nth_error (run_history child_out child_exit true penv cls0 h0
       (pre ++ CallDirect (match cl_kind cl with KRun => FRun | KOut => FOutput end) [] (cl_cmd cl) args :: post')) (length pre)).
Proof. exact (fun penv pre c extra post post' cl args => thm_closure_like_direct child_out child_exit h0 penv cls0 pre c extra post post' cl args closures_in_heap). Qed.

(* Concurrent calls: for EVERY interleaving of the atomic memory actions of two calls (two calls of one
   closure, of two closures sharing a baked-in array, of a closure and a direct function, ...) started
   in any reachable heap, each call starts exactly its own argv and the caller's arrays are unchanged.
   (The process environment is constant while the two calls overlap.) *)
Theorem C16_concurrent : forall penv oA oB pA fA pB fB,
  op_ok h0 oA -> op_ok h0 oB ->
  call_prog child_out child_exit true cls0 penv oA = Some (pA, fA) ->
  call_prog child_out child_exit true cls0 penv oB = Some (pB, fB) ->
  forall h a b hf, firstn (length h0) h = h0 -> par_run pA pB h a b hf ->
  a = spec_argv h0 cls0 penv oA /\ b = spec_argv h0 cls0 penv oB /\ firstn (length h0) hf = h0.
Proof. exact (fun penv oA oB pA fA pB fB => concurrent_calls child_out child_exit h0 cls0 penv oA oB pA fA pB fB closures_in_heap). Qed.

(* every schedule is such an interleaving *)
Theorem C16_concurrent_schedules : forall penv oA oB pA fA pB fB sched,
  op_ok h0 oA -> op_ok h0 oB ->
  call_prog child_out child_exit true cls0 penv oA = Some (pA, fA) ->
  call_prog child_out child_exit true cls0 penv oB = Some (pB, fB) ->
  par_exec sched pA pB h0 =
    (spec_argv h0 cls0 penv oA, spec_argv h0 cls0 penv oB, snd (par_exec sched pA pB h0)) /\
  firstn (length h0) (snd (par_exec sched pA pB h0)) = h0.
Proof. exact (fun penv oA oB pA fA pB fB sched => thm_concurrent_schedules child_out child_exit h0 cls0 penv oA oB pA fA pB fB sched closures_in_heap). Qed.
End W.

(* the defect repaired by "fix: sh functions modified the caller's argument slice", in the same model
   with [fixed = false]: the three statements above are FALSE of the earlier code *)
Theorem C16_closure_is_run_before_repair_refuted : forall child_out child_exit,
  exists h0 penv pre c extra post,
    Forall (op_ok h0) (pre ++ CallClosure c extra :: post) /\
    exists ob h', nth_error (run_history child_out child_exit false penv [] h0 (pre ++ CallClosure c extra :: post)) (length pre) = Some (ob, h') /\
                  ob = OCall ["echo"; "one"] (Some (trim_nl (child_out (env_at penv pre) [] ["echo"; "one"]))) "" (child_exit (env_at penv pre) [] ["echo"; "one"]) /\
                  spec_argv h0 (cls_at [] pre) (env_at penv pre) (CallClosure c extra) = ["echo"; "two"] /\
                  firstn (length h0) h' <> h0.
Proof. exact thm_closure_is_run_before_repair_refuted. Qed.

Theorem C16_inputs_unchanged_before_repair_refuted : forall child_out child_exit,
  exists h0 penv ops, Forall (op_ok h0) ops /\
    exists ob h', In (ob, h') (run_history child_out child_exit false penv [] h0 ops) /\ firstn (length h0) h' <> h0.
Proof. exact thm_inputs_unchanged_before_repair_refuted. Qed.

Theorem C16_concurrent_before_repair_refuted : forall child_out child_exit,
  exists cls h0 penv oA oB pA fA pB fB a b hf,
    cls_ok h0 cls /\ op_ok h0 oA /\ op_ok h0 oB /\
    call_prog child_out child_exit false cls penv oA = Some (pA, fA) /\
    call_prog child_out child_exit false cls penv oB = Some (pB, fB) /\
    par_run pA pB h0 a b hf /\
    a <> spec_argv h0 cls penv oA /\ firstn (length h0) hf <> h0.
Proof. exact thm_concurrent_before_repair_refuted. Qed.

Print Assumptions C16_inputs_unchanged.
Print Assumptions C16_closure_is_run.
Print Assumptions C16_direct_call.
Print Assumptions C16_closure_like_direct.
Print Assumptions C16_concurrent.
Print Assumptions C16_concurrent_schedules.
Print Assumptions C16_closure_is_run_before_repair_refuted.
Print Assumptions C16_inputs_unchanged_before_repair_refuted.
Print Assumptions C16_concurrent_before_repair_refuted.

(* the interleavings of C16_concurrent include OVERLAPPED calls: the second call of one closure acts while
   the first is in flight, and both finish with their own arguments *)
Theorem C16_overlap_admitted :
  let pA := closure_call true w3_cl [] (sl 1 0 1 1) in
  let pB := closure_call true w3_cl [] (sl 2 0 1 1) in
  exists p1 h1 p2 h2 q1 h3 q2 h4 a b hf,
    step pA w3_h0 = Some (p1, h1) /\ step p1 h1 = Some (p2, h2) /\
    step pB h2 = Some (q1, h3) /\ step q1 h3 = Some (q2, h4) /\
    step p2 h4 <> None /\ step q2 h4 <> None /\
    par_run p2 q2 h4 a b hf /\ par_run pA pB w3_h0 a b hf /\
    a = ["echo"; "x"; "a"] /\ b = ["echo"; "x"; "b"] /\ firstn (length w3_h0) hf = w3_h0.
Proof. exact overlap_admitted. Qed.
Print Assumptions C16_overlap_admitted.

(* non-vacuity: closures made inside the history (cmd "$C", baked-in slices off 1 of a 4-cell array); an OutCmd
   closure called, called with a FAILING child that prints (status 3, text handed back), called again (its own
   text only); a RunCmd closure made while not verbose, called (os.Stdout silent), MAGEFILE_VERBOSE=1, called
   again (os.Stdout gets the child's stdout); direct Output and RunWith; and the interleaving that breaks the
   old code, run on the current code *)
Example C16_nonvacuous :
  Forall (op_ok nv_h0) nv_ops /\
  map fst (run_history nv_out nv_exit true nv_env [] nv_h0 nv_ops) =
    [OMk; OMk; OCall ["echo"; "-n"; "one"] (Some "-n one") "" 0; OSet;
     OCall ["echo"; "-n"; "two"; "twox"; "y"; "--exit=3"] (Some "-n two twox y --exit=3") "" 3;
     OCall ["echo"; "-n"; "two"; "twox"; "y"] (Some "-n two twox y") "" 0;
     OCall ["echo"; "-n"] None "" 0; OSet; OCall ["echo"; "-n"] None ("-n" ++ nl) 0;
     OCall ["echo"; "-n"; "two"] (Some "-n two") "" 0; OCall ["echo"; "mx"] None ("mx" ++ nl) 0] /\
  Forall (fun x => firstn 2 (snd x) = nv_h0) (run_history nv_out nv_exit true nv_env [] nv_h0 nv_ops) /\
  par_exec w3_sched (closure_call true w3_cl [] (sl 1 0 1 1)) (closure_call true w3_cl [] (sl 2 0 1 1)) w3_h0
  = (["echo"; "x"; "a"], ["echo"; "x"; "b"], w3_h0 ++ [["x"; "a"]; ["x"; "b"]; ["x"; "a"]; ["x"; "b"]]).
Proof. exact nonvacuous_c16. Qed.
Print Assumptions C16_nonvacuous.
