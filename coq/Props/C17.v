(* C17 - target.Path/Glob/Dir report exactly when a rebuild is needed.
   Statements only; proofs in Proof/Newer_facts.v.  For every tree, every assignment of times
   (equal stamps included: the comparison is strict), every destination, every source list. *)
From Mage Require Import Base.Strs Base.Expand Model.Newer Proof.Newer_facts Proof.Newer_more.

Section W.
Variable root : tree.
Variable env : list (string * string).
Variable globf : string -> option (list string).
Notation statx := (statx root env).
Notation stat := (stat root).

Definition all_found (srcs : list string) : Prop := forall s, In s srcs -> exists t, statx s = Found t.

(* the *Newer functions: true exactly when some source is strictly later than the target time *)
Theorem C17_pathNewer : forall target srcs, all_found srcs ->
  (pathNewer root env target srcs = Yes <-> exists s t, In s srcs /\ statx s = Found t /\ (target < mtime_of t)%Z) /\
  (pathNewer root env target srcs <> Error).
Proof. exact (pathNewer_spec root env). Qed.

(* Dir: every file and directory beneath a source counts *)
Theorem C17_dirNewer : forall target srcs, all_found srcs ->
  (dirNewer root env target srcs = Yes <-> exists s t m, In s srcs /\ statx s = Found t /\ In m (nodes t) /\ (target < m)%Z) /\
  (dirNewer root env target srcs <> Error).
Proof. exact (dirNewer_spec root env). Qed.

(* Glob: each match of each pattern *)
Definition globs_ok (globs : list string) : Prop :=
  forall g, In g globs -> exists fs, globf g = Some fs /\ fs <> [] /\ all_found fs.
Theorem C17_globNewer : forall target globs, globs_ok globs ->
  (globNewer root env globf target globs = Yes <->
     exists g fs f t, In g globs /\ globf g = Some fs /\ In f fs /\ statx f = Found t /\ (target < mtime_of t)%Z) /\
  (globNewer root env globf target globs <> Error).
Proof. exact (globNewer_spec root env globf). Qed.

(* the destination: missing -> true; otherwise its own time, or for Dir with a directory
   destination the newest entry beneath it *)
Theorem C17_missing_destination : forall dst srcs, statx dst = Missing ->
  path_ root env dst srcs = Yes /\ glob_ root env globf dst srcs = Yes /\ dir_ root env dst srcs = Yes.
Proof. exact (missing_destination root env globf). Qed.

Theorem C17_path : forall dst d srcs, statx dst = Found d ->
  path_ root env dst srcs = pathNewer root env (mtime_of d) srcs /\
  glob_ root env globf dst srcs = globNewer root env globf (mtime_of d) srcs.
Proof. exact (path_unfold root env globf). Qed.

Theorem C17_dir : forall dst d srcs, statx dst = Found d ->
  dir_ root env dst srcs = dirNewer root env (dest_time d) srcs.
Proof. exact (dir_unfold root env). Qed.

(* dest_time of a directory is the maximum over everything beneath it (times after year 1) *)
Theorem C17_dest_time : forall d, (forall m, In m (nodes d) -> (zero_time < m)%Z) ->
  In (dest_time d) (nodes d) /\ forall m, In m (nodes d) -> (m <= dest_time d)%Z.
Proof. exact dest_time_max. Qed.

(* a missing source yields an error unless an earlier source already proved the destination stale *)
Theorem C17_missing_source : forall target pre s post,
  all_found pre -> (forall t, statx s <> Found t) ->
  pathNewer root env target (pre ++ s :: post) =
    (if existsb (fun x => match statx x with Found t => Z.ltb target (mtime_of t) | _ => false end) pre then Yes else Error).
Proof. exact (missing_source root env). Qed.

(* ... the same for Dir (a source that cannot be walked) ... *)
Theorem C17_missing_source_dir : forall target pre s post,
  all_found pre -> (forall t, statx s <> Found t) ->
  dirNewer root env target (pre ++ s :: post) =
    (if existsb (fun x => match statx x with Found t => walkNewer target t | _ => false end) pre then Yes else Error).
Proof. exact (missing_source_dir root env). Qed.

(* ... and for Glob: a pattern without matches (or a malformed pattern) is an error unless a match of an
   earlier pattern already proved the destination stale *)
Theorem C17_glob_no_match : forall target pre g post,
  globs_ok pre -> (globf g = None \/ globf g = Some []) ->
  globNewer root env globf target (pre ++ g :: post) =
    (if glob_stale root env globf target pre then Yes else Error).
Proof. exact (glob_no_match root env globf). Qed.

(* when all sources exist the answer does not depend on their order *)
Theorem C17_order_irrelevant : forall target a b, all_found a -> Permutation a b ->
  pathNewer root env target a = pathNewer root env target b /\ dirNewer root env target a = dirNewer root env target b.
Proof. exact (order_irrelevant root env). Qed.

Theorem C17_order_irrelevant_glob : forall target a b, globs_ok a -> Permutation a b ->
  globNewer root env globf target a = globNewer root env globf target b.
Proof. exact (order_irrelevant_glob root env globf). Qed.

(* the three entry points follow ONE definition: on plain files a Dir source is a Path source, and a
   pattern matching exactly itself is a Path source *)
Theorem C17_entry_points_agree : forall target srcs,
  (all_files root env srcs -> dirNewer root env target srcs = pathNewer root env target srcs) /\
  (all_found srcs -> (forall s, In s srcs -> globf s = Some [s]) ->
     globNewer root env globf target srcs = pathNewer root env target srcs).
Proof. intros target srcs. split; [exact (dir_is_path_on_files root env target srcs)|exact (glob_is_path_on_literals root env globf target srcs)]. Qed.

(* strictness: an equal stamp is not newer, one nanosecond later is *)
Theorem C17_strict : forall s t, statx s = Found t ->
  pathNewer root env (mtime_of t) [s] = No /\ pathNewer root env (mtime_of t - 1) [s] = Yes.
Proof. exact (strict root env). Qed.

(* the scans: newest = maximum, oldest = minimum over all nodes beneath existing targets *)
Theorem C17_scans : forall targets ts seed,
  Forall2 (fun s t => stat s = Found t) targets ts ->
  let all := flat_map nodes ts in
  newestModTime root targets = (fold_left Z.max all zero_time, false) /\
  oldestModTime root seed targets = (fold_left Z.min all seed, false).
Proof. exact (scans root). Qed.
End W.

Print Assumptions C17_pathNewer.
Print Assumptions C17_dirNewer.
Print Assumptions C17_globNewer.
Print Assumptions C17_missing_destination.
Print Assumptions C17_path.
Print Assumptions C17_dir.
Print Assumptions C17_dest_time.
Print Assumptions C17_missing_source.
Print Assumptions C17_missing_source_dir.
Print Assumptions C17_glob_no_match.
Print Assumptions C17_order_irrelevant.
Print Assumptions C17_order_irrelevant_glob.
Print Assumptions C17_entry_points_agree.
Print Assumptions C17_strict.
Print Assumptions C17_scans.

(* non-vacuity *)
Example C17_nonvacuous :
  let root := Dir 5 [("a", File 7); ("d", Dir 3 [("x", File 9)]); ("out", File 7)] in
  path_ root [] "out" ["a"] = No /\ dir_ root [] "out" ["d"] = Yes /\ path_ root [] "out" ["d"] = No /\
  path_ root [] "nope" ["a"] = Yes /\ path_ root [] "out" ["nope"; "d/x"] = Error /\ path_ root [] "out" ["d/x"; "nope"] = Yes /\
  path_ root [("V", "d")] "out" ["$V/x"] = Yes.
Proof. exact nonvacuous_c17. Qed.
Print Assumptions C17_nonvacuous.
