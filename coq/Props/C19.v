(* C19 - mage:import exposes exactly the imported package's targets under its alias.
   Statements only; proofs in Proof/ImportTag_facts.v; model in Model/ImportTag.v.

   The declarative side (defined at the top of Proof/ImportTag_facts.v, reproduced here):

     line_words text   := fields (to_lower (drop2 text))      the comment without its marker, lower-cased, as words
     is_import_line t  := the first word of t is "mage:import"
     line_shape t      := [tag] -> Some None (root import) | [tag; a] -> Some (Some a) | else None (ignored, with a warning)
     last_line g       := the last comment of the group g (None for no/empty group) - whatever precedes it
     import_line_of g  := last_line g if it is an import line
     tag_rule s        := line_shape of import_line_of (leading group of s), or else of import_line_of (trailing comment of s)
     leading_group gen s := the group above the `import` keyword for a single-line import (no parentheses, one spec),
                            the group directly above the spec otherwise
     specs_of files    := every import spec of the package with leading_group as its leading group, in source order
     tags files        := (path, tag_rule) of every spec
     contrib (p, t)    := [] if t = None; every target of the package `go list` finds for p IN THE MAGEFILE DIRECTORY,
                          stamped with alias (alias_str t) and import path p otherwise
     contributions tags := contrib of every distinct named (path, alias) pair of tags (a pair carried by several
                          specs is ONE import) ++ contrib of every distinct root import (a package imported bare
                          by several specs is ONE import);  all_root_tags tags = the bare-tagged paths, one per spec
     own_name f        := Name or Receiver:Name;   prefixed a n := n for a = "", a:n otherwise *)
From Coq Require Import Permutation.
From Mage Require Import Base.Strs Model.ImportTag Proof.ImportTag_facts.

(* the scanner implements the rule: for every spec, whatever its comment groups are (any length) *)
Theorem C19_tag_exact : forall spec, tagged spec = tag_rule spec.
Proof. exact tagged_is_rule. Qed.

(* the tree before fix 48f17db: an import path written as a raw string literal (import `x`) was
   never scanned, the tag was silently ignored *)
Theorem C19_raw_path_before_repair_refuted :
  exists spec, is_raw spec = true /\ tag_rule spec = Some (Some "one") /\ tagged spec = Some (Some "one") /\
               tagged_before_48f17db spec = None.
Proof. exact raw_path_before_repair_refuted. Qed.

(* whatever and however many comment lines precede the tag line *)
Theorem C19_any_length : forall pre tagline trailing path raw,
  is_import_line tagline = true ->
  tagged {| is_doc := Some (pre ++ [tagline]); is_comment := trailing; is_path := path; is_raw := raw |} = line_shape tagline.
Proof. exact any_length. Qed.

(* ... and a tag anywhere but on the last line is not a tag: the group then counts for nothing *)
Theorem C19_only_last_line : forall pre lastline trailing path raw,
  is_import_line lastline = false ->
  tagged {| is_doc := Some (pre ++ [lastline]); is_comment := trailing; is_path := path; is_raw := raw |} =
  tagged {| is_doc := None; is_comment := trailing; is_path := path; is_raw := raw |}.
Proof. exact any_length_not_last. Qed.

(* the tree before fix 73941a1 (length test == 9): a nine-line group ending in the tag was dropped *)
Theorem C19_before_repair_refuted :
  exists spec, (exists l, is_doc spec = Some l /\ length l = 9) /\ tag_rule spec = Some None /\ tagged_pinned spec = None.
Proof. exact before_repair_refuted. Qed.

(* single-line and grouped imports: which comment group is the leading one *)
Theorem C19_single_line_import : forall doc trailing path raw,
  specs_of [[ {| gd_doc := doc; gd_lparen := false;
                 gd_specs := [ {| is_doc := None; is_comment := trailing; is_path := path; is_raw := raw |} ] |} ]] =
  [ {| is_doc := doc; is_comment := trailing; is_path := path; is_raw := raw |} ].
Proof. exact single_line_import. Qed.

Theorem C19_grouped_import : forall doc specs,
  specs_of [[ {| gd_doc := doc; gd_lparen := true; gd_specs := specs |} ]] = specs.
Proof. exact grouped_import. Qed.

Section W.
Variable golist : string -> string -> option pkginfo.      (* the go tool: directory it runs in -> import path -> package *)
Variable dir : string.                                     (* the magefile directory *)

(* the tagged specs contribute all targets of their packages under their aliases, untagged specs
   nothing, and nothing else is exposed - for every package of files, whatever paths and aliases
   repeat (one package under several aliases, several packages under one alias, raw literals) *)
Theorem C19_exposes_exactly : forall files,
  (forall p t, In (p, Some t) (tags files) -> golist dir p <> None) ->
  exists imps, set_imports golist dir files = Some imps /\
               Permutation (exposed imps) (contributions golist dir (tags files)).
Proof. exact (exposes_exactly golist dir). Qed.

(* no (path, alias) pair and no bare path tagged twice: exactly the sum of what every single spec contributes *)
Theorem C19_exposes_exactly_distinct : forall files,
  NoDup (named_tags (tags files)) -> NoDup (all_root_tags (tags files)) ->
  (forall p t, In (p, Some t) (tags files) -> golist dir p <> None) ->
  exists imps, set_imports golist dir files = Some imps /\
               Permutation (exposed imps) (flat_map (contrib golist dir) (tags files)).
Proof. exact (exposes_exactly_distinct golist dir). Qed.

(* a tagged import whose package cannot be found is an error, never a silent omission *)
Theorem C19_lookup_error : forall files p t,
  In (p, Some t) (tags files) -> golist dir p = None ->
  set_imports golist dir files = None.
Proof. exact (lookup_error golist dir). Qed.

Theorem C19_untagged_nothing : forall files,
  (forall s, In s (specs_of files) -> tag_rule s = None) ->
  set_imports golist dir files = Some [].
Proof. exact (untagged_nothing golist dir). Qed.

(* several packages may share one alias: what is exposed under an alias a (a = "" for root
   imports) is the union of the contributions of all specs tagged with a *)
Theorem C19_shared_alias : forall files a,
  NoDup (named_tags (tags files)) -> NoDup (all_root_tags (tags files)) ->
  (forall p t, In (p, Some t) (tags files) -> golist dir p <> None) ->
  exists imps, set_imports golist dir files = Some imps /\
               Permutation (filter (has_alias a) (exposed imps))
                           (flat_map (contrib golist dir) (filter (tag_has_alias a) (tags files))).
Proof. exact (shared_alias golist dir). Qed.
End W.

(* names: alias:name, alias:namespace:name, own names for a bare tag *)
Theorem C19_names : forall alias path f, f_name f <> EmptyString ->
  target_name (stamp alias path f) = prefixed alias (own_name f).
Proof. exact target_name_prefixed. Qed.

(* alias and default declarations inside imported packages are not inputs of the result *)
Theorem C19_imported_default_aliases_ignored : forall g g' dir files,
  (forall p, option_map pk_core (g dir p) = option_map pk_core (g' dir p)) ->
  set_imports g dir files = set_imports g' dir files.
Proof. exact default_aliases_ignored. Qed.

(* the packages are looked up in the magefile directory: what `go list` would answer anywhere
   else - in particular in the directory mage was started in (golist "") - is irrelevant *)
Theorem C19_lookup_in_magefile_dir : forall g g' dir files,
  (forall p, g dir p = g' dir p) -> set_imports g dir files = set_imports g' dir files.
Proof. exact lookup_in_magefile_dir. Qed.

(* the tree before fix b79c739 (lookup in the start directory) failed where the packages resolve
   from the magefile directory only *)
Theorem C19_start_dir_before_repair_refuted :
  exists g dir files,
    (forall p t, In (p, Some t) (tags files) -> g dir p <> None) /\
    (exists imps, set_imports g dir files = Some imps /\ exposed imps <> []) /\
    set_imports_start_dir g dir files = None.
Proof. exact start_dir_before_repair_refuted. Qed.

(* the tree before fix 5f65f03 (importNames keyed by the path alone): the same package tagged under
   two aliases was exposed under the last one only; the current code exposes it under both *)
Theorem C19_one_package_two_aliases_before_repair_refuted :
  exists g dir files,
    tags files = [("ex/imp/a", Some (Some "one")); ("ex/imp/a", Some (Some "two"))] /\
    g dir "ex/imp/a" <> None /\
    option_map (fun imps => map target_name (exposed imps)) (set_imports g dir files) =
      Some ["one:Docker:Push"; "one:Build"; "two:Docker:Push"; "two:Build"] /\
    option_map (fun imps => map target_name (exposed imps)) (set_imports_path_keyed g dir files) =
      Some ["two:Docker:Push"; "two:Build"].
Proof. exact one_package_two_aliases_before_repair_refuted. Qed.

(* the tree before fix 4a102aa (every bare spec appended to rootImports): the same package imported
   bare by two magefiles was imported twice - every target twice under the same name, which the
   duplicate check rejects as a definition colliding with itself; the current code imports it once *)
Theorem C19_bare_twice_before_repair_refuted :
  exists g dir files,
    tags files = [("ex/imp/a", Some None); ("ex/imp/a", Some None)] /\
    g dir "ex/imp/a" <> None /\
    option_map (fun imps => map target_name (exposed imps)) (set_imports g dir files) =
      Some ["Docker:Push"; "Build"] /\
    option_map (fun imps => map target_name (exposed imps)) (set_imports_roots_appended g dir files) =
      Some ["Docker:Push"; "Build"; "Docker:Push"; "Build"].
Proof. exact bare_twice_before_repair_refuted. Qed.

Print Assumptions C19_tag_exact.
Print Assumptions C19_raw_path_before_repair_refuted.
Print Assumptions C19_any_length.
Print Assumptions C19_only_last_line.
Print Assumptions C19_before_repair_refuted.
Print Assumptions C19_single_line_import.
Print Assumptions C19_grouped_import.
Print Assumptions C19_exposes_exactly.
Print Assumptions C19_exposes_exactly_distinct.
Print Assumptions C19_lookup_error.
Print Assumptions C19_untagged_nothing.
Print Assumptions C19_shared_alias.
Print Assumptions C19_names.
Print Assumptions C19_imported_default_aliases_ignored.
Print Assumptions C19_lookup_in_magefile_dir.
Print Assumptions C19_start_dir_before_repair_refuted.
Print Assumptions C19_one_package_two_aliases_before_repair_refuted.
Print Assumptions C19_bare_twice_before_repair_refuted.

(* non-vacuity: a single-line import with a two-line group, a grouped import whose own group is
   ignored, a tag line preceded by another tag line, a trailing tag on a raw path literal, a tag
   not on the last line; two packages under one alias, one package under two aliases and twice
   under the same one, one package imported bare twice; packages with Default/Aliases of their own *)
Example C19_nonvacuous :
  tags w_files = w_tags /\
  (forall p t, In (p, Some t) (tags w_files) -> w_golist "build" p <> None) /\
  option_map (fun imps => map target_name (exposed imps)) (set_imports w_golist "build" w_files) =
    Some ["ci:Docker:Push"; "ci:Build"; "tools:Docker:Push"; "tools:Build"; "tools:Docker:Push"; "tools:Build"; "Docker:Push"; "Build"].
Proof. exact nonvacuous_c19. Qed.
Print Assumptions C19_nonvacuous.
