(* C20 - concurrent mage invocations do not interfere with each other.
   Statements only; proofs in Proof/Procs_facts.v.  The model (Model/Procs.v) is an arbitrary
   interleaving (schedule = list of process indices) of n invocations, each the list of atomic
   file-system steps of mage.Invoke, over ONE shared file system: for every number of invocations,
   every schedule, both cache modes, -f or not, equal or different magefile contents, cold or warm
   (sound) cache, every behaviour of the external functions name/gen/compile/behave. *)
From Mage Require Import Base.Strs Model.Procs Proof.Procs_facts.

Section W.
Variable name : contents -> ename.                                   (* mage.ExeName *)
Variable gen : contents -> option gentext.                           (* parse + template *)
Variable compile : envid -> contents -> gentext -> option program.   (* go build *)
Variable behave : program -> dir -> args -> result.                  (* the compiled magefile *)
Notation run := (run name gen compile behave).
Notation alone := (alone name gen compile behave).
Notation content_addressed := (content_addressed name gen compile).
Notation cache_sound := (cache_sound name gen compile).

(* Invocations in pairwise DISTINCT directories sharing one cache: whatever the interleaving,
   every invocation that finishes has produced exactly the (stdout, exit status) it produces when
   run alone.  [content_addressed]: invocations that use the same cache entry have the same program
   (C08's naming: Props/C08 under H_inj, plus "the program is a function of the magefile bytes").
   [cache_sound]: entries already in the cache hold the program of the contents they are named after. *)
Theorem C20_distinct_dirs : forall invs fs0 sched i r,
  NoDup (map i_dir invs) -> content_addressed invs fs0 -> cache_sound invs fs0 ->
  result_of (run invs fs0 sched) i = Some r -> alone invs fs0 i = Some r.
Proof. exact (distinct_dirs name gen compile behave). Qed.

(* ... and it does finish, with that result, as soon as the schedule gives it its [fuel] steps *)
Theorem C20_distinct_dirs_total : forall invs fs0 sched i,
  NoDup (map i_dir invs) -> content_addressed invs fs0 -> cache_sound invs fs0 ->
  i < length invs -> fuel <= count_occ Nat.eq_dec sched i ->
  result_of (run invs fs0 sched) i = alone invs fs0 i /\ exists r, alone invs fs0 i = Some r.
Proof. exact (distinct_dirs_total name gen compile behave). Qed.

(* nobody blocks anybody: holds in any directories, without any hypothesis *)
Theorem C20_no_blocking : forall invs fs0 sched i, i < length invs -> fuel <= count_occ Nat.eq_dec sched i ->
  exists r, result_of (run invs fs0 sched) i = Some r.
Proof. exact (no_blocking name gen compile behave). Qed.

(* what "alone" is: the behaviour of the program built from the invocation's own directory *)
Theorem C20_alone_spec : forall invs fs0 i iv, content_addressed invs fs0 -> cache_sound invs fs0 ->
  nth_error invs i = Some iv -> alone invs fs0 i = Some (spec_result gen compile behave fs0 iv).
Proof. exact (alone_spec name gen compile behave). Qed.

(* The general form: directories may be shared as long as invocations sharing one never overlap in
   time (whenever one takes a step the others in that directory have not started or have finished). *)
Theorem C20_no_overlap : forall invs fs0 sched i r,
  content_addressed invs fs0 -> cache_sound invs fs0 ->
  no_overlap name gen compile behave invs (init invs fs0) sched ->
  result_of (run invs fs0 sched) i = Some r -> alone invs fs0 i = Some r.
Proof. exact (no_overlap_alone name gen compile behave). Qed.

(* Same (or different) directories, one invocation after the other in any order: solo results. *)
Theorem C20_same_dir_sequential_ok : forall invs fs0 order i,
  content_addressed invs fs0 -> cache_sound invs fs0 -> In i order -> i < length invs ->
  result_of (run invs fs0 (blocks order)) i = alone invs fs0 i /\ exists r, alone invs fs0 i = Some r.
Proof. exact (sequential_ok name gen compile behave). Qed.

(* invocations in ONE directory satisfy the content-addressing hypothesis trivially *)
Theorem C20_same_dir_content_addressed : forall invs fs0 D,
  (forall iv, In iv invs -> i_dir iv = D) -> content_addressed invs fs0.
Proof. exact (same_dir_content_addressed name gen compile). Qed.
End W.

(* The full property sentence ("... or in the same directory") is FALSE of the faithful model:
   two OVERLAPPING invocations in one directory share the fixed name of the generated file; the
   second one's removeStaleMainfile (or os.Create: truncation) hits the file the first is about to
   compile.  Known finding F22. *)
Theorem C20_same_dir_refuted :
  exists name gen compile behave iv0 iv1 fs0 sched,
    i_dir iv0 = i_dir iv1 /\
    result_of (run name gen compile behave [iv0; iv1] fs0 sched) 0 = Some fail /\
    alone name gen compile behave [iv0; iv1] fs0 0 = Some ("env/m", 0%Z).
Proof. exact same_dir_refuted_ex. Qed.

Theorem C20_same_dir_refuted_truncate :
  exists name gen compile behave iv0 iv1 fs0 sched,
    i_dir iv0 = i_dir iv1 /\
    result_of (run name gen compile behave [iv0; iv1] fs0 sched) 0 = Some fail /\
    result_of (run name gen compile behave [iv0; iv1] fs0 sched) 1 = Some fail /\
    alone name gen compile behave [iv0; iv1] fs0 0 = Some ("env/m", 0%Z).
Proof. exact same_dir_refuted_truncate_ex. Qed.

(* [content_addressed] cannot be dropped from C20_distinct_dirs: distinct directories whose
   magefiles are byte-identical but whose module context differs (an imported package) use ONE
   cache entry for two programs, and an invocation can run the other directory's program. *)
Theorem C20_shared_entry_refuted :
  exists name gen compile behave invs fs0 sched,
    NoDup (map i_dir invs) /\
    result_of (run name gen compile behave invs fs0 sched) 0 = Some ("envB/m", 0%Z) /\
    alone name gen compile behave invs fs0 0 = Some ("envA/m", 0%Z).
Proof. exact shared_entry_refuted_ex. Qed.

(* ---- every command: run, -compile, -clean, -init (the general system [grun] of Model/Procs.v) ---- *)

(* restricted to plain runs (`mage [-f] [-l|-h] words`) the general system IS the system of the theorems above *)
Theorem C20_general_restricts : forall name gen compile behave invs fs0 sched,
  grun name gen compile behave (map as_run invs) fs0 sched = run name gen compile behave invs fs0 sched.
Proof. exact grun_as_run. Qed.

(* nobody blocks anybody, whatever the commands *)
Theorem C20_general_no_blocking : forall name gen compile behave ginvs fs0 sched i,
  i < length ginvs -> fuel <= count_occ Nat.eq_dec sched i ->
  exists r, result_of (grun name gen compile behave ginvs fs0 sched) i = Some r.
Proof. exact gno_blocking. Qed.

(* the non-interference theorems do NOT extend to `mage -clean`: started in another directory with the same cache
   it empties the cache between a run's build and its exec, and the run fails (known finding C20-clean-during-run) *)
Theorem C20_clean_refuted :
  exists name gen compile behave ginvs fs0 sched,
    NoDup (map (fun g => i_dir (g_inv g)) ginvs) /\
    result_of (grun name gen compile behave ginvs fs0 sched) 0 = Some fail /\
    galone name gen compile behave ginvs fs0 0 = Some ("env/m", 0%Z).
Proof. exact clean_refuted_ex. Qed.

(* BEFORE fix 62b109f (switch [g_sub := Some _]; the current tree is [g_sub := None]): Invoke removed a stale generated file in
   <dir>/magefiles before deciding which directory it uses, so an invocation in <dir> (which has magefiles of its own)
   deleted the file a concurrent invocation in <dir>/magefiles was about to compile; the one in <dir> itself was not
   affected.  Found by this unit's gated launches, repaired in /repo. *)
Theorem C20_magefiles_subdir_before_repair_refuted :
  exists name gen compile behave ginvs fs0 sched,
    NoDup (map (fun g => i_dir (g_inv g)) ginvs) /\
    result_of (grun name gen compile behave ginvs fs0 sched) 1 = Some fail /\
    galone name gen compile behave ginvs fs0 1 = Some ("env/m", 0%Z) /\
    result_of (grun name gen compile behave ginvs fs0 sched) 0 = galone name gen compile behave ginvs fs0 0.
Proof. exact magefiles_subdir_before_repair_refuted_ex. Qed.

Print Assumptions C20_distinct_dirs.
Print Assumptions C20_distinct_dirs_total.
Print Assumptions C20_no_blocking.
Print Assumptions C20_alone_spec.
Print Assumptions C20_no_overlap.
Print Assumptions C20_same_dir_sequential_ok.
Print Assumptions C20_same_dir_content_addressed.
Print Assumptions C20_same_dir_refuted.
Print Assumptions C20_same_dir_refuted_truncate.
Print Assumptions C20_shared_entry_refuted.
Print Assumptions C20_general_restricts.
Print Assumptions C20_general_no_blocking.
Print Assumptions C20_clean_refuted.
Print Assumptions C20_magefiles_subdir_before_repair_refuted.

(* non-vacuity: three invocations in three directories, two with identical magefiles (one shared
   cache entry), one of them in hash mode, interleaved round-robin: the hypotheses of
   C20_distinct_dirs hold and every result is the solo result *)
Example C20_nonvacuous :
  NoDup (map i_dir w_nv_invs) /\
  content_addressed w_name w_gen w_compile w_nv_invs w_nv_fs /\
  cache_sound w_name w_gen w_compile w_nv_invs w_nv_fs /\
  map (result_of (run w_name w_gen w_compile w_behave w_nv_invs w_nv_fs w_nv_sched)) [0; 1; 2] =
    [Some ("env/m", 0%Z); Some ("env/m", 0%Z); Some ("env/k", 0%Z)] /\
  map (alone w_name w_gen w_compile w_behave w_nv_invs w_nv_fs) [0; 1; 2] =
    [Some ("env/m", 0%Z); Some ("env/m", 0%Z); Some ("env/k", 0%Z)].
Proof. exact nonvacuous_c20. Qed.
Print Assumptions C20_nonvacuous.

(* `mage -compile` in a twin directory (identical magefiles) next to a run never touches the cache: both get their solo
   results (executable part of the general model; -compile and -init are tied to the code by the correspondence only) *)
Example C20_compile_example :
  map (result_of (grun w_name w_gen w_compile w_behave w_compile_ginvs w_same_fs (flat_map (fun _ => [0; 1]) (seq 0 12)))) [0; 1] =
    [Some ("env/m", 0%Z); Some ("", 0%Z)] /\
  map (galone w_name w_gen w_compile w_behave w_compile_ginvs w_same_fs) [0; 1] = [Some ("env/m", 0%Z); Some ("", 0%Z)].
Proof. exact compile_example. Qed.
Print Assumptions C20_compile_example.
