(* Composition C07 -> C04: the premise [no_collision] that every C04 theorem carries is what mage's
   duplicate check (C07) establishes, proved instead of said.  Statements only; proofs in
   Proof/Bridge_C07_C04_facts.v (they apply the theorems of Props/C07.v and Props/C04.v);
   [info_of] - the template data of a parsed package - in Model/Bridge_C07_C04.v.

   Section variables (what Dupes.pkg does not contain; arbitrary, nothing is assumed about them):
   [args_of] declared parameter types of a function, [def_of] the identifier of its declaration,
   [d] the function `var Default` names if any; and C04's [conv] / [fails] / [env]. *)
From Mage Require Import Base.Strs.
From Coq Require Import Permutation.
From Mage Require Model.Dupes Model.Dispatch Model.DispatchSpec Model.Bridge_C07_C04 Proof.Dupes_facts Proof.Bridge_C07_C04_facts.
Import Bridge_C07_C04 Bridge_C07_C04_facts.

Section W.
Variable args_of : Dupes.func -> list Dispatch.argty.
Variable def_of : Dupes.func -> nat.
Notation target_of := (target_of args_of def_of).
Notation info_of := (info_of args_of def_of).

(* the two models write strings.ToLower (ASCII) separately; it is the same function *)
Theorem Compose_lower_agrees : forall s, Dispatch.lower s = Dupes.lower s.
Proof. exact lower_eq. Qed.

(* C07 discharges C04's premise - for every package, no well-formedness needed *)
Theorem C07_discharges_C04 : forall d pk,
  Dupes.mage_accepts pk = true -> DispatchSpec.no_collision (info_of d pk).
Proof. exact (discharges args_of def_of). Qed.

(* and it is exactly that premise: the data of a package (with non-empty function names) that mage
   rejects is NOT collision-free - the check rejects nothing C04 could have handled *)
Theorem C04_premise_only_if_accepted : forall d pk, Dupes.wf_pkg pk ->
  DispatchSpec.no_collision (info_of d pk) -> Dupes.mage_accepts pk = true.
Proof. exact (discharges_conv args_of def_of). Qed.

(* the name resolution of one loop iteration of C04's dispatcher IS C07's [resolve], for every
   package (accepted or not) and every word *)
Theorem Compose_resolve_agrees : forall d pk w,
  Dispatch.target_switch (Dispatch.switch_cases (info_of d pk))
    (Dispatch.lower (Dispatch.alias_switch (Dispatch.aliases (info_of d pk)) (Dispatch.lower w) w)) =
  option_map target_of (Dupes.resolve pk w).
Proof. exact (resolve_agrees args_of def_of). Qed.

(* a runnable name of C07 (TargetName of a function, or the key of an alias entry pointing to it)
   [resolves] to that function's target in C04's vocabulary *)
Theorem Compose_names_resolve : forall d pk w f, In f (Dupes.all_funcs pk) ->
  (Dupes.lower (Dupes.target_name f) = Dupes.lower w \/
   exists k, In (k, f) (Dupes.alias_map (Dupes.aliases pk)) /\ Dupes.lower k = Dupes.lower w) ->
  DispatchSpec.resolves (info_of d pk) w (target_of f).
Proof. exact (names_resolve args_of def_of). Qed.

Section Run.
Variable conv : Dispatch.argty -> string -> option string.
Variable fails : nat -> list Dispatch.value -> bool.
Variable env : string.
Variable d : option Dupes.func.
Variable pk : Dupes.pkg.
Notation I := (info_of d pk).
Notation dispatch := (Dispatch.dispatch conv fails I env).

(* C04's theorems with the premise replaced by "mage accepted the package" *)
Theorem accepted_package_dispatch_is_Seg : Dupes.mage_accepts pk = true -> forall words, words <> [] ->
  DispatchSpec.Seg conv fails I words (fst (dispatch words)) (snd (dispatch words)).
Proof. exact (acc_dispatch_is_Seg args_of def_of conv fails env d pk). Qed.

Theorem accepted_package_Seg_functional : Dupes.mage_accepts pk = true ->
  forall words cs e, DispatchSpec.Seg conv fails I words cs e ->
  forall cs' e', DispatchSpec.Seg conv fails I words cs' e' -> cs = cs' /\ e = e'.
Proof. exact (acc_Seg_functional args_of def_of conv fails d pk). Qed.

Theorem accepted_package_runs_left_to_right : Dupes.mage_accepts pk = true ->
  forall ms cs, Forall2 (DispatchSpec.good conv fails I) ms cs -> ms <> [] ->
  dispatch (DispatchSpec.flatten ms) = (cs, Dispatch.Done).
Proof. exact (acc_runs_left_to_right args_of def_of conv fails env d pk). Qed.

Theorem accepted_package_case_insensitive : Dupes.mage_accepts pk = true ->
  forall ms ms' w w' tail,
  DispatchSpec.same_up_to_name_case ms ms' -> DispatchSpec.well_formed I ms -> Dispatch.lower w = Dispatch.lower w' ->
  dispatch (DispatchSpec.flatten ms ++ w :: tail) = dispatch (DispatchSpec.flatten ms' ++ w' :: tail).
Proof. exact (acc_case_insensitive args_of def_of conv fails env d pk). Qed.

Theorem accepted_package_args_in_declaration_order : Dupes.mage_accepts pk = true ->
  forall w args rest t, DispatchSpec.resolves I w t -> length args = DispatchSpec.arity t ->
  (forall k ty a, nth_error (Dispatch.targs t) k = Some ty -> nth_error args k = Some a -> Dispatch.convert conv ty a <> None) ->
  exists vs cs e, dispatch (w :: args ++ rest) = (Dispatch.mkcall t vs :: cs, e) /\
    length vs = DispatchSpec.arity t /\
    (forall k ty a, nth_error (Dispatch.targs t) k = Some ty -> nth_error args k = Some a -> nth_error vs k = Dispatch.convert conv ty a) /\
    (forall k a, nth_error (Dispatch.targs t) k = Some Dispatch.TString -> nth_error args k = Some a -> nth_error vs k = Some (Dispatch.VStr a)).
Proof. exact (acc_args_in_declaration_order args_of def_of conv fails env d pk). Qed.

Theorem accepted_package_exit2_before_body : Dupes.mage_accepts pk = true ->
  forall ms cs w tail r, Forall2 (DispatchSpec.good conv fails I) ms cs -> DispatchSpec.stops conv I w tail r ->
  dispatch (DispatchSpec.flatten ms ++ w :: tail) = (cs, Dispatch.Exit2 r).
Proof. exact (acc_exit2_before_body args_of def_of conv fails env d pk). Qed.

Theorem accepted_package_nothing_after_failure : Dupes.mage_accepts pk = true ->
  forall ms cs w args tail t vs, Forall2 (DispatchSpec.good conv fails I) ms cs ->
  DispatchSpec.resolves I w t -> DispatchSpec.converts conv (Dispatch.targs t) args vs -> fails (Dispatch.tdef t) vs = true ->
  dispatch (DispatchSpec.flatten ms ++ w :: args ++ tail) = (cs ++ [Dispatch.mkcall t vs], Dispatch.Failed).
Proof. exact (acc_nothing_after_failure args_of def_of conv fails env d pk). Qed.

(* main.go sorts .Funcs by TargetName and .Imports by UniqueName before generating: whatever order
   the cases are written in (any permutation of targets and of alias entries), the data is
   collision-free and the program behaves as on [info_of] *)
Theorem accepted_package_any_case_order : Dupes.mage_accepts pk = true -> forall i' words,
  Permutation (DispatchSpec.targets i') (DispatchSpec.targets I) ->
  Permutation (Dispatch.aliases i') (Dispatch.aliases I) ->
  Dispatch.default i' = Dispatch.default I ->
  DispatchSpec.no_collision i' /\ Dispatch.dispatch conv fails i' env words = dispatch words.
Proof. intros H i' words. exact (any_case_order args_of def_of conv fails env d pk i' words H). Qed.

(* end to end (what the C07 harness observes with `mage <name>`): in an accepted package, typing a
   runnable name in any letter case - a target's name or an alias key - of a parameterless
   definition whose body succeeds runs exactly that definition's body, once, and exits 0 *)
Theorem accepted_package_name_runs_its_definition : Dupes.mage_accepts pk = true ->
  forall w f, In f (Dupes.all_funcs pk) ->
  (Dupes.lower (Dupes.target_name f) = Dupes.lower w \/
   exists k, In (k, f) (Dupes.alias_map (Dupes.aliases pk)) /\ Dupes.lower k = Dupes.lower w) ->
  args_of f = [] -> fails (def_of f) [] = false ->
  dispatch [w] = ([Dispatch.mkcall (target_of f) []], Dispatch.Done).
Proof. exact (acc_name_runs_its_definition args_of def_of conv fails env d pk). Qed.
End Run.
End W.

Print Assumptions Compose_lower_agrees.
Print Assumptions C07_discharges_C04.
Print Assumptions C04_premise_only_if_accepted.
Print Assumptions Compose_resolve_agrees.
Print Assumptions Compose_names_resolve.
Print Assumptions accepted_package_dispatch_is_Seg.
Print Assumptions accepted_package_Seg_functional.
Print Assumptions accepted_package_runs_left_to_right.
Print Assumptions accepted_package_case_insensitive.
Print Assumptions accepted_package_args_in_declaration_order.
Print Assumptions accepted_package_exit2_before_body.
Print Assumptions accepted_package_nothing_after_failure.
Print Assumptions accepted_package_any_case_order.
Print Assumptions accepted_package_name_runs_its_definition.

(* non-vacuity: C07's accepted example package (aliases, two imports under one alias, a root import,
   a namespace) instantiates to collision-free data on which a six-word command line runs four
   bodies with converted arguments; C07's rejected example (alias "say" vs target Say) does not *)
Example Compose_nonvacuous :
  Dupes.mage_accepts Dupes_facts.ex_ok = true /\
  DispatchSpec.no_collision (Bridge_C07_C04.info_of ex_args ex_def None Dupes_facts.ex_ok) /\
  Dispatch.dispatch ex_conv (fun _ _ => false) (Bridge_C07_C04.info_of ex_args ex_def None Dupes_facts.ex_ok) ""
    ["LX"; "lib:DEPLOY"; "a b"; "7"; "ns:x"; "b"] =
    ([ {| Dispatch.cdef := 11; Dispatch.cvals := [] |};
       {| Dispatch.cdef := 13; Dispatch.cvals := [Dispatch.VStr "a b"; Dispatch.VConv Dispatch.TInt "7"] |};
       {| Dispatch.cdef := 14; Dispatch.cvals := [] |};
       {| Dispatch.cdef := 15; Dispatch.cvals := [] |} ], Dispatch.Done) /\
  ~ DispatchSpec.no_collision (Bridge_C07_C04.info_of ex_args ex_def None Dupes_facts.ex_alias).
Proof. exact nonvacuous_compose. Qed.
Print Assumptions Compose_nonvacuous.
