(* Composition C03 => C05: the status a failed dependency call carries in the ENGINE model (C03's
   payload, proved for every schedule) is the status the EXIT-CHAIN model's own transcription of
   runDeps / SerialDeps computes, and the generated main of that model exits with it (mod 256).
   Statements only; proofs in Proof/Bridge_C03_C05.v.
   [sees r b]: the ExitChain result b (returned value / panic value) describes the engine result r:
   same way of ending and the status runDeps records for it.  [describes tr ks ds]: the ExitChain
   bodies ds evaluate to descriptions of what the members ks ended with in the engine trace tr. *)
From Mage Require Import Base.Strs Model.Deps Model.ExitChain.
From Mage Require Import Proof.Deps_defs Proof.Exit_facts Proof.Bridge_C03_C05.
Local Open Scope Z_scope.

(* the two transcriptions of runDeps agree on every list of member results: ExitChain's fold over
   dep_report is C03's [combine] over the statuses; nil exactly when every member succeeded *)
Theorem Compose_runDeps_agrees : forall rs bs, Forall2 sees rs bs ->
  ExitChain.runDeps bs =
  if forallb Deps.is_nil rs then Returned VNil else Panicked (VFatal (combine (map status rs))).
Proof. exact runDeps_sees. Qed.
Print Assumptions Compose_runDeps_agrees.

(* SerialDeps: the first failing member decides whatever stands behind it *)
Theorem Compose_serialDeps_agrees : forall i b rest r, sees r b -> r <> RNil ->
  ExitChain.serialDeps (repeat (Returned VNil) i ++ b :: rest) = Panicked (VFatal (combine [status r])).
Proof. exact serialDeps_sees. Qed.
Print Assumptions Compose_serialDeps_agrees.

(* every engine result has a description, so the premises above are satisfiable for all of them *)
Theorem Compose_sees_total : forall r, sees r (to_bres r).
Proof. exact sees_to_bres. Qed.
Print Assumptions Compose_sees_total.

(* for every program, schedule and prefix: a parallel call that panics in the engine is, in the exit
   chain, a target body mg.Deps(ds...) that panics with the same status, and mage's generated main
   exits with it *)
Theorem Compose_par_panic_exits_with_engine_status : forall p s tr t pc x m c ds,
  reach true p s tr -> In (CallPanic t pc x m) tr -> nth_error (calls_of p t) pc = Some c ->
  c_style c = Par -> describes tr (c_deps c) ds ->
  run_body (BDeps false ds) = Panicked (VFatal x) /\
  forall rest, halt_status (run_mentions (MRun (BDeps false ds) :: rest)) = kernel x.
Proof. exact par_panic_is_ExitChain. Qed.
Print Assumptions Compose_par_panic_exits_with_engine_status.

Theorem Compose_ser_panic_exits_with_engine_status : forall p s tr t pc x m c ds,
  reach true p s tr -> In (CallPanic t pc x m) tr -> nth_error (calls_of p t) pc = Some c ->
  c_style c = Ser -> describes tr (c_deps c) ds ->
  run_body (BDeps true ds) = Panicked (VFatal x) /\
  forall rest, halt_status (run_mentions (MRun (BDeps true ds) :: rest)) = kernel x.
Proof. exact ser_panic_is_ExitChain. Qed.
Print Assumptions Compose_ser_panic_exits_with_engine_status.

(* a call that returns in the engine returns nil in the exit chain (either style) *)
Theorem Compose_return_is_nil : forall p s tr t pc c ds ser,
  reach true p s tr -> In (CallReturn t pc) tr -> nth_error (calls_of p t) pc = Some c ->
  describes tr (c_deps c) ds -> run_body (BDeps ser ds) = Returned VNil.
Proof. exact return_is_ExitChain. Qed.
Print Assumptions Compose_return_is_nil.

(* the generated main: a target whose body ended as the engine says stops the run there with the
   engine's status (and nothing after it runs); a successful one lets the loop go on *)
Theorem Compose_main_status_of_engine : forall b r rest, sees r (run_body b) ->
  (r <> RNil -> halt_status (run_mentions (MRun b :: rest)) = kernel (status r) /\
                h_ran (run_mentions (MRun b :: rest)) = 1%nat) /\
  (r = RNil -> h_exit (run_mentions (MRun b :: rest)) = h_exit (run_mentions rest) /\
               h_ran (run_mentions (MRun b :: rest)) = S (h_ran (run_mentions rest))).
Proof. exact main_status_of_engine. Qed.
Print Assumptions Compose_main_status_of_engine.

(* non-vacuity: C03's witness program and schedule, described by the exit-chain target
   mg.Deps(func(){ mg.Deps(bad) }) - the engine's payload 1 is the process status *)
Example Compose_C03_C05_nonvacuous :
  exists p acts s tr, run true p (init p) acts = Some (s, tr) /\
    In (CallPanic (TRoot 0) 0 1 [0%nat]) tr /\
    describes tr [1%nat] [ec_mid] /\
    halt_status (run_mentions [MRun (BDeps false [ec_mid])]) = 1.
Proof. exact bridge_c03_c05_nonvacuous. Qed.
Print Assumptions Compose_C03_C05_nonvacuous.
