(* Composition C04 -> C05.  ExitChain (C05) takes the mention list of a command line as input data; Dispatch (C04)
   models the generated loop that decides it.  Statements only; the translation ([segment]/[mentions_of]: word list
   -> mention list with Dispatch's own cursor arithmetic, [prog_of]: template data + words -> ExitChain.cprog,
   [fails_of]: Dispatch's body-failure parameter DEFINED through ExitChain's handleError, [status_of_result]) and the
   proofs are in Proof/Bridge_C04_C05.v.

   Section variables, arbitrary: [conv] (strconv/time conversions), [outcome d vs : body] (what the body of
   declaration d does when called with the values vs - the only thing the two models share), [i] (template data),
   [env] (value of MAGEFILE_IGNOREDEFAULT).  No bound on anything; codes in Z, guarded by wf_body only where the
   statement speaks of [status]. *)
From Mage Require Import Base.Strs.
From Mage Require Model.Dispatch Model.DispatchSpec Proof.Dispatch_facts.
From Mage Require Import Model.Deps Model.ExitChain Proof.Deps_defs Proof.ExitChain_facts Proof.Bridge_C04_C05.
Local Open Scope Z_scope.

Section W.
Variable conv : D.argty -> string -> option string.
Variable outcome : nat -> list D.value -> body.
Variable i : D.info.
Variable env : string.
Notation fails := (fails_of outcome).
Notation dispatch := (D.dispatch conv fails i env).
Notation mentions_of := (mentions_of conv outcome i).
Notation prog_of := (prog_of conv outcome i env).
Notation body_of := (body_of outcome).
Notation mrun := (mrun outcome).
Notation shape := (shape outcome).

(* (1) the mention list ExitChain needs IS the segmentation Dispatch computes: for every derivation of C04's grammar
   Seg, one mention per segment - the calls (in order) are the MRun mentions, an Exit2 segment is the corresponding
   misuse mention and ends the list, after a Failed call only further (irrelevant) mentions follow - and the bodies
   ExitChain's run_mentions starts are exactly Dispatch's calls, in order *)
Theorem C04_gives_C05_mentions : forall words cs e, DS.no_collision i -> words <> [] -> DS.Seg conv fails i words cs e ->
  match e with
  | D.Done => Forall (fun c => stop_code (body_of c) = None) cs /\ mentions_of words = map mrun cs
  | D.Exit2 r => Forall (fun c => stop_code (body_of c) = None) cs /\ mentions_of words = map mrun cs ++ [misuse_of r]
  | D.Failed => exists pre c post n, cs = pre ++ [c] /\ Forall (fun c => stop_code (body_of c) = None) pre /\
                                     stop_code (body_of c) = Some n /\ mentions_of words = map mrun pre ++ mrun c :: post
  | D.Listed => False
  | D.OutOfFuel => True
  end /\
  started (mentions_of words) = map body_of cs.
Proof. exact (mentions_are_Seg conv outcome i). Qed.

(* the same against the dispatcher itself (no premise on collisions), with the count of started bodies *)
Theorem C04_gives_C05_mentions_dispatch : forall words, words <> [] ->
  shape (fst (dispatch words)) (snd (dispatch words)) (mentions_of words) /\
  started (mentions_of words) = map body_of (fst (dispatch words)) /\
  h_ran (run_mentions (mentions_of words)) = length (fst (dispatch words)).
Proof. exact (fun words => mentions_are_dispatch conv outcome i env words). Qed.

(* (2) the composed corollary: for every template data and every word list (the empty one included: default target
   / listing), the process status ExitChain assigns to the translated program is a function of Dispatch's result -
   0 for Done / Listed, 2 for Exit2, kernel (the stop code of the last call's body) for Failed - and as many bodies
   start as Dispatch made calls *)
Theorem Compose_status_of_dispatch : forall fixed words,
  compiled_exit fixed (prog_of words) = status_of_result outcome (dispatch words) /\
  h_ran (compiled_main fixed (prog_of words)) = length (fst (dispatch words)).
Proof. exact (fun fixed words => status_of_dispatch conv outcome i fixed env words). Qed.

(* what [status_of_result] is *)
Theorem Compose_status_of_result_cases : forall cs c,
  status_of_result outcome (cs, D.Done) = 0 /\ status_of_result outcome (cs, D.Listed) = 0 /\
  (forall r, status_of_result outcome (cs, D.Exit2 r) = 2) /\
  status_of_result outcome (cs ++ [c], D.Failed) = kernel (match stop_code (body_of c) with Some n => n | None => 0 end).
Proof. exact (status_of_result_cases outcome). Qed.

(* with the property's guard on the failing body's codes: the status of a Failed run is the status carried by it *)
Theorem Compose_failed_status_carried : forall fixed words pre c, dispatch words = (pre ++ [c], D.Failed) ->
  wf_body (body_of c) ->
  compiled_exit fixed (prog_of words) = status (body_of c) /\ code_ok (status (body_of c)).
Proof. exact (fun fixed words => failed_status_carried conv outcome i fixed env words). Qed.

(* the same through `mage` (C05_front_end_transparent) *)
Theorem Compose_status_through_mage : forall fixed words sc, sc_prog sc = prog_of words -> runs_program sc ->
  mage_status fixed sc = status_of_result outcome (dispatch words).
Proof. exact (fun fixed words => status_through_mage conv outcome i fixed env words). Qed.

(* (3) "no target after a failed one runs", once across both models: C04_nothing_after_failure and
   C05_first_failure_decides agree on the started bodies - the good mentions' and the failing one's, nothing of [tail] -
   and the status is the failing body's *)
Theorem Compose_nothing_after_failure : forall fixed ms cs w args tail t vs n,
  DS.no_collision i -> Forall2 (DS.good conv fails i) ms cs ->
  DS.resolves i w t -> DS.converts conv (D.targs t) args vs -> stop_code (outcome (D.tdef t) vs) = Some n ->
  let words := DS.flatten ms ++ w :: args ++ tail in
  dispatch words = (cs ++ [D.mkcall t vs], D.Failed) /\
  started (mentions_of words) = map body_of cs ++ [outcome (D.tdef t) vs] /\
  h_ran (compiled_main fixed (prog_of words)) = S (length cs) /\
  compiled_exit fixed (prog_of words) = kernel n /\
  (wf_body (outcome (D.tdef t) vs) -> n = status (outcome (D.tdef t) vs) /\ code_ok n /\ kernel n = n).
Proof. exact (fun fixed => nothing_after_failure_both conv outcome i fixed env). Qed.

(* Dispatch's [fails] is not assumed to agree with ExitChain: it is ExitChain's own stop condition; under the
   property's guard it is "the body does not complete" *)
Theorem Compose_fails_is_not_completes : forall d vs, wf_body (outcome d vs) ->
  (fails d vs = false <-> completes (outcome d vs)).
Proof. exact (fails_is_not_completes outcome). Qed.
End W.

Print Assumptions C04_gives_C05_mentions.
Print Assumptions C04_gives_C05_mentions_dispatch.
Print Assumptions Compose_status_of_dispatch.
Print Assumptions Compose_status_of_result_cases.
Print Assumptions Compose_failed_status_carried.
Print Assumptions Compose_status_through_mage.
Print Assumptions Compose_nothing_after_failure.
Print Assumptions Compose_fails_is_not_completes.

(* non-vacuity: C04's example template data (plain, namespaced, imported, aliased targets, a default) with bodies
   that fail with mg.Fatal(37) for declaration 4 and complete otherwise *)
Definition ex_outcome (d : nat) (vs : list D.value) : body := if Nat.eqb d 4 then BFatal 37 else BOk.
Example Compose_C04_C05_nonvacuous :
  let words := ["NS:DEPLOY"; "1"; "al:q:run"; "1h2m"; "build"; "a"; "5"] in
  D.dispatch DF.ex_conv (fails_of ex_outcome) DF.ex_info "" words =
    ([DF.ex_call 2 [D.VConv D.TBool "true"]; DF.ex_call 4 [D.VConv D.TDur "1h2m0s"]], D.Failed) /\
  Bridge_C04_C05.mentions_of DF.ex_conv ex_outcome DF.ex_info words = [MRun BOk; MRun (BFatal 37); MRun BOk] /\
  compiled_exit true (Bridge_C04_C05.prog_of DF.ex_conv ex_outcome DF.ex_info "" words) = 37 /\
  h_ran (compiled_main true (Bridge_C04_C05.prog_of DF.ex_conv ex_outcome DF.ex_info "" words)) = 2%nat /\
  compiled_exit true (Bridge_C04_C05.prog_of DF.ex_conv ex_outcome DF.ex_info "" ["ns:deploy"; "1"; "deploy"]) = 2 /\
  compiled_exit true (Bridge_C04_C05.prog_of DF.ex_conv ex_outcome DF.ex_info "" ["bd"; "x"]) = 2 /\
  compiled_exit true (Bridge_C04_C05.prog_of DF.ex_conv ex_outcome DF.ex_info "" []) = 0 /\
  compiled_exit true (Bridge_C04_C05.prog_of DF.ex_conv ex_outcome DF.ex_info "1" []) = 0.
Proof. vm_compute. repeat split; reflexivity. Qed.
Print Assumptions Compose_C04_C05_nonvacuous.
