(* Composition C06 -> C04: C04's "passes each target the following words converted in declaration
   order" refers to the DECLARATION.  In Props/C04.v (and in Props/Compose.v, where it is the free
   section variable [args_of] "about which nothing is assumed") [targs] is template data; C06's
   model knows what it is.  Statements only; proofs and the translation in Proof/Bridge_C06_C04.v.
   C = Model/Classify, CF = Proof/Classify_facts, D = Model/Dispatch, DS = Model/DispatchSpec.

   Translation: target_of def_of f = {| tname := C.targetName f;
                                        targs := map argty_of (types of C.f_args f); tdef := def_of f |}
   info_of def_of pk = the template data of a package without mage:import (Funcs = C.funcs pk,
   Aliases from C.setAliases, DefaultFunc from C.setDefault).
   nonctx_types d = the declared types of d's parameters after the optional leading context, one
   per NAME of a group, one for an unnamed group, in declaration order; pty_back : D.argty -> C.pty
   is the declared type a dispatcher type stands for; decl_name d = Receiver:Name or Name.
   [def_of] (the harness' identifier of a declaration), [conv], [fails], [env] are arbitrary. *)
From Mage Require Import Base.Strs.
From Mage Require Import Proof.Bridge_C06_C04.

(* the two models write strings.ToLower (ASCII) separately; it is the same function *)
Theorem Compose_C06_lower_agrees : forall s, D.lower s = C.lower s.
Proof. exact lower_agrees. Qed.

(* (1) for every package and every declaration with a valid target signature, the template target
   built from it is named Receiver:Name / Name, has as many [targs] as d has non-context parameters,
   and the k-th [targs] is the k-th declared non-context parameter type *)
Theorem C06_gives_dispatch_args : forall def_of pk d, In d (C.decls pk) -> CF.valid_sig pk d ->
  exists f, In (d, f) (C.targets pk) /\
    D.tname (target_of def_of f) = decl_name d /\
    map pty_back (D.targs (target_of def_of f)) = nonctx_types d /\
    List.length (D.targs (target_of def_of f)) = List.length (nonctx_types d) /\
    (forall k ty, nth_error (D.targs (target_of def_of f)) k = Some ty -> nth_error (nonctx_types d) k = Some (pty_back ty)).
Proof. exact gives_dispatch_args. Qed.

(* (2) composed with C04_args_in_declaration_order, for ANY collision-free template data i in which
   the word w resolves to that target (data with imports and aliases included): the dispatcher
   calls the body with as many values as d declares non-context parameters, the k-th value being
   the k-th following word converted at the type of the k-th DECLARED non-context parameter; a
   parameter declared `string` receives its word verbatim *)
Theorem C06_C04_words_converted_by_declaration :
  forall def_of conv fails env (i : D.info) pk d f w args rest,
  In (d, f) (C.targets pk) ->
  DS.no_collision i -> DS.resolves i w (target_of def_of f) ->
  List.length args = List.length (nonctx_types d) ->
  (forall k ty a, nth_error (nonctx_types d) k = Some (pty_back ty) -> nth_error args k = Some a -> D.convert conv ty a <> None) ->
  exists vs cs e,
    D.dispatch conv fails i env (w :: args ++ rest) = (D.mkcall (target_of def_of f) vs :: cs, e) /\
    List.length vs = List.length (nonctx_types d) /\
    (forall k ty a, nth_error (nonctx_types d) k = Some (pty_back ty) -> nth_error args k = Some a ->
                    nth_error vs k = D.convert conv ty a) /\
    (forall k a, nth_error (nonctx_types d) k = Some C.TString -> nth_error args k = Some a ->
                 nth_error vs k = Some (D.VStr a)).
Proof. exact words_converted_by_declaration. Qed.

(* (3) the name `mage -l` prints for a target (lowerFirst of its TargetName, C06_listed_runnable)
   resolves, in C04's vocabulary, to that very target; so does every alias key declared for it *)
Theorem C06_C04_listed_name_resolves : forall def_of pk d f, In (d, f) (C.targets pk) ->
  DS.resolves (info_of def_of pk) (C.lowerFirst (C.targetName f)) (target_of def_of f).
Proof. exact listed_name_resolves. Qed.

Theorem C06_C04_alias_resolves : forall def_of pk d f l k g, In (d, f) (C.targets pk) ->
  C.setAliases pk = C.AList l -> In (k, g) l -> C.targetName g = C.targetName f ->
  DS.resolves (info_of def_of pk) k (target_of def_of f).
Proof. exact alias_resolves. Qed.

(* (1)+(2)+(3) end to end over the package's own template data: the listed name followed by one
   convertible word per declared non-context parameter runs the body of the declaration named
   Receiver:Name with the words converted at the declared types, in declaration order *)
Theorem C06_C04_listed_name_runs_declaration : forall def_of conv fails env pk d f args rest,
  In (d, f) (C.targets pk) -> DS.no_collision (info_of def_of pk) ->
  List.length args = List.length (nonctx_types d) ->
  (forall k ty a, nth_error (nonctx_types d) k = Some (pty_back ty) -> nth_error args k = Some a -> D.convert conv ty a <> None) ->
  exists vs cs e,
    D.dispatch conv fails (info_of def_of pk) env (C.lowerFirst (C.targetName f) :: args ++ rest) =
      (D.mkcall (target_of def_of f) vs :: cs, e) /\
    D.tname (target_of def_of f) = decl_name d /\
    List.length vs = List.length (nonctx_types d) /\
    (forall k ty a, nth_error (nonctx_types d) k = Some (pty_back ty) -> nth_error args k = Some a ->
                    nth_error vs k = D.convert conv ty a) /\
    (forall k a, nth_error (nonctx_types d) k = Some C.TString -> nth_error args k = Some a ->
                 nth_error vs k = Some (D.VStr a)).
Proof. exact listed_name_runs_declaration. Qed.

Print Assumptions Compose_C06_lower_agrees.
Print Assumptions C06_gives_dispatch_args.
Print Assumptions C06_C04_words_converted_by_declaration.
Print Assumptions C06_C04_listed_name_resolves.
Print Assumptions C06_C04_alias_resolves.
Print Assumptions C06_C04_listed_name_runs_declaration.

(* non-vacuity: C06's example package (BuildAll(ctx, a, b string, int) (err error); a namespace
   method Ptr(_ time.Duration) on a pointer receiver, the default; five non-targets) gives
   collision-free template data with the declared types as targs; the listed names run both
   bodies with converted words; without words the parameterised default stops with exit 2 *)
Example Compose_C06_C04_nonvacuous :
  DS.no_collision (info_of ex_def CF.example_pk) /\
  map (fun t => (D.tname t, D.targs t)) (D.funcs (info_of ex_def CF.example_pk)) =
    [("NS:Ptr", [D.TDur]); ("BuildAll", [D.TString; D.TString; D.TInt])] /\
  D.dispatch ex_conv (fun _ _ => false) (info_of ex_def CF.example_pk) ""
    ["buildAll"; "x y"; "build"; "007"; "ns:ptr"; "90s"] =
    ([ {| D.cdef := 8; D.cvals := [D.VStr "x y"; D.VStr "build"; D.VConv D.TInt "7"] |};
       {| D.cdef := 3; D.cvals := [D.VConv D.TDur "1m30s"] |} ], D.Done) /\
  D.dispatch ex_conv (fun _ _ => false) (info_of ex_def CF.example_pk) "" [] =
    ([], D.Exit2 D.Missing).
Proof. exact nonvacuous_bridge. Qed.
Print Assumptions Compose_C06_C04_nonvacuous.
