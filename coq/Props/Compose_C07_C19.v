(* Composition C07 -> (C19, C06) -> C04 without the no_collision premise.
   Props/Compose_C19_C06.v and Props/Compose_C06_C04.v speak about the template data
   [info_with_imports world def_of dir lpk tags] of a magefile package given as DECLARATIONS
   (Classify.pkg [lpk]) with the tags of its import specs, the imported packages resolved by
   [world]; they carry C04's premise [DS.no_collision] as a hypothesis.  C07 decides acceptance of a
   Dupes.pkg.  Statements only; translation [dupes_of] and proofs in Proof/Bridge_C07_C19.v.

   dupes_of world dir lpk tags = {| locals  := (Receiver, Name) of Classify's targets of lpk;
                                    imports := per distinct (path, alias) pair, then per bare tag, that
                                               resolves: alias, path, (Receiver, Name) of Classify's
                                               targets of the resolved package  (cimports_of);
                                    aliases := (key, Function of lpk) as setAliases resolved them |}
   alias_keys_distinct lpk = the keys of the resolved alias entries are pairwise different (Go rejects
   a map literal with a repeated constant key; mage's parser would keep the last entry while the
   template data of Bridge_C06_C04.info_of lists every entry - the one place where the
   representations do not line up, hence the hypothesis).
   aliases_nonempty tags = no tag carries the empty string as alias (needed since commit 4a102aa, where bare-tag
   imports are de-duplicated by path: an aliased import with alias "" would be a second bare import of its
   package for Dupes but a separate entry of cimports_of); it holds for the tags of real import specs:
   Compose_tags_aliases_nonempty.
   exposes world def_of dir lpk tags w pk d t  ("the word w names declaration d of package pk; t is
   its template target"), three constructors:
     ex_own       In (d,f) (C.targets lpk), lower w = lower (decl_name d),               t = target_of (def_of "") f, pk = lpk
     ex_alias     the same d f, In (k,g) (alias_list lpk), targetName g = targetName f, lower w = lower k
     ex_imported  In (p, Some tag) tags, world dir p = Some (n, pk), In (d,f) (C.targets pk),
                  lower w = lower (prefixed (alias_str tag) (decl_name d)),              t = imp_target def_of alias p f
   [world], [def_of], [conv], [fails], [env] are arbitrary.
   C, CF, D, DS, I, IF as in Proof/Bridge_C19_C06.v; U = Model/Dupes. *)
From Mage Require Import Base.Strs.
From Coq Require Import Permutation.
From Mage Require Import Proof.Bridge_C06_C04 Proof.Bridge_C19_C06 Proof.Bridge_C07_C19.

(* (1) the translation commutes with the template-data construction: the cases of the target switch
   carry, in the same order, the TargetNames of [dupes_of]'s functions; the alias switch carries its alias
   entries; and C04's list of names is a permutation of C07's runnable names *)
Theorem Compose_dupes_of_target_names : forall world def_of dir lpk tags,
  map D.tname (DS.targets (info_with_imports world def_of dir lpk tags)) =
  map U.target_name (U.local_funcs (dupes_of world dir lpk tags) ++
                     flat_map U.import_funcs (U.imports (dupes_of world dir lpk tags))).
Proof. exact target_names_commute. Qed.

Theorem Compose_dupes_of_aliases : forall world def_of dir lpk tags,
  D.aliases (info_with_imports world def_of dir lpk tags) =
  map (fun kf => (fst kf, U.target_name (snd kf))) (U.aliases (dupes_of world dir lpk tags)).
Proof. exact aliases_commute. Qed.

(* setImports' (path, alias) de-duplication has nothing left to do on [dupes_of]: its imports are what the check sees *)
Theorem Compose_tags_aliases_nonempty : forall files, aliases_nonempty (IF.tags files).
Proof. exact tags_aliases_nonempty. Qed.

Theorem Compose_dupes_of_imports_effective : forall world dir lpk tags, aliases_nonempty tags ->
  Permutation (U.effective_imports (dupes_of world dir lpk tags)) (U.imports (dupes_of world dir lpk tags)).
Proof. exact effective_imports_dupes. Qed.

Theorem Compose_dupes_of_runnable_names : forall world def_of dir lpk tags, aliases_nonempty tags -> alias_keys_distinct lpk ->
  Permutation (map D.tname (DS.targets (info_with_imports world def_of dir lpk tags)) ++
               map fst (D.aliases (info_with_imports world def_of dir lpk tags)))
              (U.runnable_names (dupes_of world dir lpk tags)).
Proof. exact names_are_runnable_names. Qed.

(* (2) acceptance by mage's duplicate check (Model/Dupes.v, the current code) discharges C04's premise
   for the template data built from declarations and resolved imports *)
Theorem Compose_accepted_no_collision_decls : forall world def_of dir lpk tags,
  aliases_nonempty tags -> alias_keys_distinct lpk ->
  U.mage_accepts (dupes_of world dir lpk tags) = true ->
  DS.no_collision (info_with_imports world def_of dir lpk tags).
Proof. exact accepted_no_collision_decls. Qed.

(* ... and it is exactly that premise (function names non-empty) *)
Theorem Compose_no_collision_decls_accepted : forall world def_of dir lpk tags,
  aliases_nonempty tags -> alias_keys_distinct lpk -> U.wf_pkg (dupes_of world dir lpk tags) ->
  DS.no_collision (info_with_imports world def_of dir lpk tags) ->
  U.mage_accepts (dupes_of world dir lpk tags) = true.
Proof. exact no_collision_decls_accepted. Qed.

(* every exposed name resolves, in C04's vocabulary, to the template target of the declaration it names *)
Theorem Compose_exposed_resolves : forall world def_of dir lpk tags w pk d t,
  exposes world def_of dir lpk tags w pk d t ->
  DS.resolves (info_with_imports world def_of dir lpk tags) w t.
Proof. exact exposed_resolves. Qed.

(* (3) end to end, no premise about collisions: a magefile package as declarations + tagged imports,
   accepted by checkDupes; every exposed name - own target, alias key, imported alias:name - typed in any
   letter case and followed by one convertible word per declared non-context parameter dispatches to
   exactly the declaration it names, with as many values as declared and the k-th value the k-th word
   converted at the k-th DECLARED type *)
Theorem Compose_C07_C19_C06_C04_runs : forall world def_of dir lpk tags conv fails env,
  aliases_nonempty tags -> alias_keys_distinct lpk ->
  U.mage_accepts (dupes_of world dir lpk tags) = true ->
  forall w pk d t args rest,
  exposes world def_of dir lpk tags w pk d t ->
  List.length args = List.length (nonctx_types d) ->
  (forall k ty x, nth_error (nonctx_types d) k = Some (pty_back ty) -> nth_error args k = Some x -> D.convert conv ty x <> None) ->
  exists vs cs e,
    D.dispatch conv fails (info_with_imports world def_of dir lpk tags) env (w :: args ++ rest) = (D.mkcall t vs :: cs, e) /\
    List.length vs = List.length (nonctx_types d) /\
    (forall k ty x, nth_error (nonctx_types d) k = Some (pty_back ty) -> nth_error args k = Some x ->
                    nth_error vs k = D.convert conv ty x).
Proof. exact runs. Qed.

(* the three cases of [exposes] spelled out *)
Theorem Compose_own_target_runs : forall world def_of dir lpk tags conv fails env,
  aliases_nonempty tags -> alias_keys_distinct lpk -> U.mage_accepts (dupes_of world dir lpk tags) = true ->
  forall w d f args rest, In (d, f) (C.targets lpk) -> D.lower w = D.lower (decl_name d) ->
  List.length args = List.length (nonctx_types d) ->
  (forall k ty x, nth_error (nonctx_types d) k = Some (pty_back ty) -> nth_error args k = Some x -> D.convert conv ty x <> None) ->
  exists vs cs e,
    D.dispatch conv fails (info_with_imports world def_of dir lpk tags) env (w :: args ++ rest) =
      (D.mkcall (target_of (def_of EmptyString) f) vs :: cs, e) /\
    List.length vs = List.length (nonctx_types d) /\
    (forall k ty x, nth_error (nonctx_types d) k = Some (pty_back ty) -> nth_error args k = Some x ->
                    nth_error vs k = D.convert conv ty x).
Proof.
  exact (fun world def_of dir lpk tags conv fails env NE AK ACC w d f args rest H L =>
           runs world def_of dir lpk tags conv fails env NE AK ACC w lpk d _ args rest
                (ex_own world def_of dir lpk tags w d f H L)).
Qed.

Theorem Compose_alias_runs : forall world def_of dir lpk tags conv fails env,
  aliases_nonempty tags -> alias_keys_distinct lpk -> U.mage_accepts (dupes_of world dir lpk tags) = true ->
  forall w d f k g args rest, In (d, f) (C.targets lpk) -> In (k, g) (alias_list lpk) ->
  C.targetName g = C.targetName f -> D.lower w = D.lower k ->
  List.length args = List.length (nonctx_types d) ->
  (forall j ty x, nth_error (nonctx_types d) j = Some (pty_back ty) -> nth_error args j = Some x -> D.convert conv ty x <> None) ->
  exists vs cs e,
    D.dispatch conv fails (info_with_imports world def_of dir lpk tags) env (w :: args ++ rest) =
      (D.mkcall (target_of (def_of EmptyString) f) vs :: cs, e) /\
    List.length vs = List.length (nonctx_types d) /\
    (forall j ty x, nth_error (nonctx_types d) j = Some (pty_back ty) -> nth_error args j = Some x ->
                    nth_error vs j = D.convert conv ty x).
Proof.
  exact (fun world def_of dir lpk tags conv fails env NE AK ACC w d f k g args rest H A E L =>
           runs world def_of dir lpk tags conv fails env NE AK ACC w lpk d _ args rest
                (ex_alias world def_of dir lpk tags w d f k g H A E L)).
Qed.

Theorem Compose_imported_name_runs : forall world def_of dir lpk tags conv fails env,
  aliases_nonempty tags -> alias_keys_distinct lpk -> U.mage_accepts (dupes_of world dir lpk tags) = true ->
  forall w p t n pk d f args rest, In (p, Some t) tags -> world dir p = Some (n, pk) -> In (d, f) (C.targets pk) ->
  D.lower w = D.lower (IF.prefixed (IF.alias_str t) (decl_name d)) ->
  List.length args = List.length (nonctx_types d) ->
  (forall k ty x, nth_error (nonctx_types d) k = Some (pty_back ty) -> nth_error args k = Some x -> D.convert conv ty x <> None) ->
  exists vs cs e,
    D.dispatch conv fails (info_with_imports world def_of dir lpk tags) env (w :: args ++ rest) =
      (D.mkcall (imp_target def_of (IF.alias_str t) p f) vs :: cs, e) /\
    List.length vs = List.length (nonctx_types d) /\
    (forall k ty x, nth_error (nonctx_types d) k = Some (pty_back ty) -> nth_error args k = Some x ->
                    nth_error vs k = D.convert conv ty x).
Proof.
  exact (fun world def_of dir lpk tags conv fails env NE AK ACC w p t n pk d f args rest Hi W H L =>
           runs world def_of dir lpk tags conv fails env NE AK ACC w pk d _ args rest
                (ex_imported world def_of dir lpk tags w p t n pk d f Hi W H L)).
Qed.

(* the letter case of the word at the name position does not matter, whatever follows *)
Theorem Compose_C07_C19_any_case : forall world def_of dir lpk tags conv fails env,
  aliases_nonempty tags -> alias_keys_distinct lpk -> U.mage_accepts (dupes_of world dir lpk tags) = true ->
  forall w w' tail, D.lower w = D.lower w' ->
  D.dispatch conv fails (info_with_imports world def_of dir lpk tags) env (w :: tail) =
  D.dispatch conv fails (info_with_imports world def_of dir lpk tags) env (w' :: tail).
Proof. exact runs_any_case. Qed.

Print Assumptions Compose_dupes_of_target_names.
Print Assumptions Compose_dupes_of_aliases.
Print Assumptions Compose_tags_aliases_nonempty.
Print Assumptions Compose_dupes_of_imports_effective.
Print Assumptions Compose_dupes_of_runnable_names.
Print Assumptions Compose_accepted_no_collision_decls.
Print Assumptions Compose_no_collision_decls_accepted.
Print Assumptions Compose_exposed_resolves.
Print Assumptions Compose_C07_C19_C06_C04_runs.
Print Assumptions Compose_own_target_runs.
Print Assumptions Compose_alias_runs.
Print Assumptions Compose_imported_name_runs.
Print Assumptions Compose_C07_C19_any_case.

(* non-vacuity: a magefile package with a function, a namespace method, two alias entries and one
   mage:import under the alias Tools: its [dupes_of], accepted, collision-free template data, its six
   runnable names, and a command line using an alias of the namespace method, the imported namespace
   method, an alias, the imported function and the own namespace method; the same package with an alias
   key spelled like the imported namespace method is rejected and its data is not collision-free *)
Example Compose_C07_C19_nonvacuous :
  ex_dp = {| U.locals := [ {| U.t_recv := "NS"; U.t_name := "Ptr" |}; {| U.t_recv := ""; U.t_name := "BuildAll" |} ];
             U.imports := [ {| U.i_alias := "tools"; U.i_path := "ex/imp/a";
                               U.i_tgts := [ {| U.t_recv := "NS"; U.t_name := "Ptr" |}; {| U.t_recv := ""; U.t_name := "BuildAll" |} ] |} ];
             U.aliases := [ ("ba", {| U.f_alias := ""; U.f_path := ""; U.f_recv := ""; U.f_name := "BuildAll" |});
                            ("P", {| U.f_alias := ""; U.f_path := ""; U.f_recv := "NS"; U.f_name := "Ptr" |}) ] |} /\
  alias_keys_distinct ex_lpk /\ U.mage_accepts ex_dp = true /\ DS.no_collision ex_info7 /\
  U.runnable_names ex_dp = ["NS:Ptr"; "BuildAll"; "tools:NS:Ptr"; "tools:BuildAll"; "P"; "ba"] /\
  D.dispatch ex_conv (fun _ _ => false) ex_info7 ""
    ["p"; "90s"; "TOOLS:ns:PTR"; "90s"; "BA"; "x"; "y"; "007"; "tools:buildall"; "a"; "b"; "007"; "ns:ptr"; "90s"] =
    ([ {| D.cdef := 3; D.cvals := [D.VConv D.TDur "1m30s"] |};
       {| D.cdef := 11; D.cvals := [D.VConv D.TDur "1m30s"] |};
       {| D.cdef := 8; D.cvals := [D.VStr "x"; D.VStr "y"; D.VConv D.TInt "7"] |};
       {| D.cdef := 16; D.cvals := [D.VStr "a"; D.VStr "b"; D.VConv D.TInt "7"] |};
       {| D.cdef := 3; D.cvals := [D.VConv D.TDur "1m30s"] |} ], D.Done) /\
  U.mage_accepts (dupes_of ex_world "build" ex_lpk_bad (IF.tags ex_files)) = false /\
  ~ DS.no_collision (info_with_imports ex_world ex_def2 "build" ex_lpk_bad (IF.tags ex_files)).
Proof. exact nonvacuous_c07_c19. Qed.
Print Assumptions Compose_C07_C19_nonvacuous.
