(* Composition of C08 (the cache), C10 (which files are magefiles) and C09 (the step sequence of
   Invoke and the directory).  Statements only; definitions and proofs in Proof/Bridge_C08_C10_C09.v.

   Translation (Bridge file): a directory is a list of [dfile] = (C10 file record, bytes);
     recs d          C10's view   (list Constraints.file)
     to_fs d         C09's view   (Lifecycle.fs: name -> File bytes)
     selected d ns   C08's view   (fileset: the files named in ns with their bytes, directory order)
     hashed_files su goos goarch isdir d = option_map (selected d) (Constraints.magefiles su goos goarch isdir (recs d))
   is the file set ExeName is applied to in an invocation.  Model.Constraints (C), Model.Lifecycle (L)
   and Model.Paths are used qualified. *)
From Mage Require Import Base.Strs Model.Cache Proof.Cache_facts Proof.Bridge_C08_C10_C09.
From Mage Require Model.Constraints Proof.Constraints_facts Model.Lifecycle Proof.Lifecycle_facts Model.Paths.

(* ---- (1) what is hashed is exactly what C10 selects ---- *)

(* same names, in the same order, each with the bytes the directory holds under that name *)
Theorem Compose_hashed_files_are_magefiles : forall su goos goarch isdir d names,
  NoDup (map d_name d) -> C.magefiles su goos goarch isdir (recs d) = Some names ->
  hashed_files su goos goarch isdir d = Some (selected d names) /\
  map fst (selected d names) = names /\
  (forall x, In x d -> (In (d_name x, d_bytes x) (selected d names) <-> In (d_name x) names)) /\
  (forall n b, In (n, b) (selected d names) -> In n names /\ exists x, In x d /\ d_name x = n /\ d_bytes x = b).
Proof. exact hashed_files_are_magefiles. Qed.

(* a change to the bytes of a file C10 does not select changes nothing of what is hashed: same
   file set, hence same cache name, no rebuild in hash mode *)
Theorem Compose_non_magefile_edit_keeps_name : forall su goos goarch isdir d names n b,
  C.magefiles su goos goarch isdir (recs d) = Some names -> ~ In n names ->
  hashed_files su goos goarch isdir (edit_bytes n b d) = hashed_files su goos goarch isdir d.
Proof. exact non_magefile_edit_keeps_files. Qed.

(* THE PROPERTY-RELEVANT DIRECTION: a change to the bytes of ANY file C10 selects changes the
   cache name (C08_name_inj's hypotheses on the strings hashed before and after) *)
Theorem Compose_magefile_edit_changes_name : forall (H : string -> string) tpl ver (D : string -> Prop),
  (forall x, digest_ok (H x)) -> collision_free H D ->
  forall d names n b x,
  NoDup (map d_name d) -> In x d -> d_name x = n -> In n names -> d_bytes x <> b ->
  Forall D (hashed H tpl ver (selected d names)) -> Forall D (hashed H tpl ver (selected (edit_bytes n b d) names)) ->
  exe_name H tpl ver (selected (edit_bytes n b d) names) <> exe_name H tpl ver (selected d names).
Proof. exact magefile_edit_changes_name. Qed.

(* ---- the directory choice: one decision in the three models ---- *)

(* C08's Paths.mage_dir is C10's choose_dir, with l_plain = "Magefiles(originalDir) gave a non-empty list" *)
Theorem Compose_dir_choice : forall su goos goarch top l,
  Paths.l_plain l = has_files (C.magefiles su goos goarch false top) ->
  Paths.mage_dir l = match C.choose_dir su goos goarch (Paths.l_mfdir l) top with
                     | C.Sub => Paths.magefiles_dir l | C.Top => Paths.dir0 l end.
Proof. exact paths_mage_dir_is_choose_dir. Qed.

(* C09's top-level [L.invoke_named] takes the branch C10's choose_dir names and runs the chosen
   directory with f_mfdir = the isMagefilesDirectory argument C10's [invoke_magefiles] passes to
   Magefiles: [top_named] (`mage -d .../magefiles`: the directory mage is pointed at is itself named
   magefiles and is listed WITHOUT the second, untagged pass) for the directory itself, true for its
   magefiles sub-directory.  (Until c09's repair of Model/Lifecycle.v this could only be stated for
   top_named = false; [L.invoke] is the top_named = false instance.) *)
Theorem Compose_lifecycle_dir_choice : forall w faults fl su goos goarch tn top sub0 (d : L.fs),
  let ohf := has_files (C.magefiles su goos goarch false top) in
  let has_sub := match L.lookup (L.rs w d) L.magefilesDir with Some (L.Dir _) => true | _ => false end in
  match C.choose_dir su goos goarch has_sub top with
  | C.Top => C.invoke_magefiles su goos goarch has_sub tn top sub0 = (C.Top, C.magefiles su goos goarch tn top) /\
             exists d', L.invoke_named w faults fl tn ohf d = L.invoke_dir w faults (L.with_mfdir fl tn) d'
  | C.Sub => C.invoke_magefiles su goos goarch has_sub tn top sub0 = (C.Sub, C.magefiles su goos goarch true sub0) /\
             exists sub, L.lookup (L.rs w d) L.magefilesDir = Some (L.Dir sub) /\
                         L.invoke_named w faults fl tn ohf d =
                           (let '(sub2, c) := L.invoke_dir w faults (L.with_mfdir fl true) (L.rs w sub) in
                            (L.set L.magefilesDir (L.Dir sub2) (L.rs w d), c))
  end.
Proof. exact lifecycle_invoke_follows_choose_dir. Qed.

Theorem Compose_lifecycle_invoke_is_named : forall w faults fl ohf d,
  L.invoke w faults fl ohf d = L.invoke_named w faults fl false ohf d.
Proof. exact lifecycle_invoke_is_named. Qed.

(* ---- (2) C09's reuse-or-build branch is C08's cache decision ---- *)

Section W.
Variable H : string -> string.
Variable program : Type.
Variable compile : string -> string -> fileset -> program.
Variable tpl : string.
Notation agrees := (agrees H program tpl).
Notation cinvoke := (Cache.invoke H program compile tpl).

(* [agrees w fl st hf force gc]: C09's flags carry the same mode and -f (and no -compile), its world
   the same `go env GOCACHE` answer, and "the hashed executable exists" means: the cache has an
   entry under exe_name of the current files - the same exe path.
   Then the StatExe step of Invoke (any state it is reached in, any faults) sets "reuse" exactly
   when C08's invoke runs the stored binary: the same condition, exists /\ ~force /\ ~(go cache relied on) *)
Theorem Compose_lifecycle_uses_cache_decision : forall w faults fl (st : Cache.state program) hf force gc s,
  agrees w fl st hf force gc -> dir program st <> [] ->
  L.exec w faults fl L.StatExe s = L.Cont (if reuses program (snd (cinvoke st hf force gc)) then L.with_reuse s else s) /\
  reuses program (snd (cinvoke st hf force gc)) =
    negb (negb hf && gc) && is_some (Cache.lookup program (exe_name H tpl (ver program st) (dir program st)) (cache program st)) && negb force /\
  compiles program (snd (cinvoke st hf force gc)) = negb (reuses program (snd (cinvoke st hf force gc))).
Proof.
  exact (fun w faults fl st hf force gc s Ha Hd =>
    conj (statexe_is_cache_decision H program compile tpl w faults fl st hf force gc s Ha Hd)
         (reuse_condition H program compile tpl st hf force gc Hd)).
Qed.

(* `go build` is started exactly when the flag is not set ... *)
Theorem Compose_gobuild_iff_not_reuse : forall w faults fl s, faults L.GoBuild = false ->
  L.exec w faults fl L.GoBuild s = L.Cont (if L.s_reuse s then s else L.call L.GBuild s).
Proof. exact gobuild_iff_not_reuse. Qed.

(* ... so in a complete run in which nothing fails, in a directory without a leftover, `go build`
   is among the go commands started exactly when C08's invoke compiles *)
Theorem Compose_build_started_iff_compiled : forall w fl (st : Cache.state program) hf force gc (d : L.fs),
  agrees w fl st hf force gc -> dir program st <> [] -> L.lookup d L.mainfile = None ->
  (In L.GBuild (L.o_calls (L.invoke_dir_full w Lifecycle_facts.no_faults fl d)) <->
   compiles program (snd (cinvoke st hf force gc)) = true).
Proof. exact (run_builds_iff_compiles H program compile tpl). Qed.

(* the cache the invocation leaves: unchanged on reuse; after a build the entry under the name of
   the current files is the build of the current files (with the current imported packages and
   toolchain) - which is what the next invocation's "exists" and C08's invariant are about *)
Theorem Compose_cache_after_invocation : forall (st : Cache.state program) hf force gc, dir program st <> [] ->
  let st' := fst (cinvoke st hf force gc) in
  let n := exe_name H tpl (ver program st) (dir program st) in
  dir program st' = dir program st /\ ver program st' = ver program st /\ dep program st' = dep program st /\
  (if compiles program (snd (cinvoke st hf force gc))
   then cache program st' = (n, compile (ver program st) (dep program st) (dir program st)) :: cache program st
   else cache program st' = cache program st) /\
  is_some (Cache.lookup program n (cache program st')) = true.
Proof. exact (cache_after H program compile tpl). Qed.

(* ---- the corollary: C08_fresh + C09_clean over C10's selection ---- *)

(* A history is any sequence of: the directory is now d' (every edit, addition, removal, rename,
   change of a constraint - of magefiles and of other files), other imported packages, another
   toolchain, an invocation in any mode.  Each invocation hashes and compiles C10's selection
   ([hashed_files su goos goarch isdir]).  Started with a content-addressed cache and with no SHA-1
   collision among what the invocations hash: the next invocation - whatever external step of
   Invoke fails -
     (a) runs (when it gets that far) a program compiled by the current toolchain from a file set
         with exactly the current multiset of C10-selected contents; compiled now: from exactly
         the selected files and the current imported packages;
     (b) leaves the directory as it found it;
     (c) takes C09's reuse branch exactly when C08's model reuses;
     (d) does not change the directory in the history model either, and leaves an entry under the
         current name for the next invocation. *)
Theorem Compose_fresh_and_clean : forall su goos goarch isdir (D : string -> Prop),
  let sel := hashed_files su goos goarch isdir in
  (forall x, digest_ok (H x)) -> collision_free H D ->
  forall ops s0, CInv H program compile tpl D s0 -> chashed_in H program compile tpl sel D ops s0 ->
  forall hf force gc,
  let cur := crun_ops H program compile tpl sel ops s0 in
  forall fs, sel (c_dir program cur) = Some fs -> fs <> [] -> Forall D (hashed H tpl (c_ver program cur) fs) ->
  forall w faults fl,
  L.w_fixed w = true -> L.w_cleanup w = true -> L.f_keep fl = false ->
  (forall x, In x (c_dir program cur) -> d_name x <> L.mainfile) ->
  agrees w fl (view program cur fs) hf force gc ->
  let out := snd (cinvoke (view program cur fs) hf force gc) in
  (exists c dd fs', out = Ran program c (compile (c_ver program cur) dd fs') /\
                    Permutation (contents fs') (contents fs) /\ (c = true -> fs' = fs /\ dd = c_dep program cur)) /\
  fst (L.invoke_dir w faults fl (to_fs (c_dir program cur))) = to_fs (c_dir program cur) /\
  (forall s, L.exec w faults fl L.StatExe s = L.Cont (if reuses program out then L.with_reuse s else s)) /\
  c_dir program (cstep H program compile tpl sel cur (CRun hf force gc)) = c_dir program cur /\
  is_some (Cache.lookup program (exe_name H tpl (c_ver program cur) fs)
             (c_cache program (cstep H program compile tpl sel cur (CRun hf force gc)))) = true.
Proof.
  exact (fun su goos goarch isdir D Hs Hc =>
    fresh_and_clean H program compile tpl (hashed_files su goos goarch isdir) D Hs Hc).
Qed.

Theorem Compose_empty_cache_inv : forall (D : string -> Prop) d b v,
  CInv H program compile tpl D {| c_dir := d; c_dep := b; c_ver := v; c_cache := [] |}.
Proof. exact (cinv_empty H program compile tpl). Qed.

Theorem Compose_hashed_in_history : forall sel (D : string -> Prop) ops s,
  (forall x, In x (chashed_all H program compile tpl sel ops s) -> D x) -> chashed_in H program compile tpl sel D ops s.
Proof. exact (chashed_covers H program compile tpl). Qed.
End W.

Print Assumptions Compose_hashed_files_are_magefiles.
Print Assumptions Compose_non_magefile_edit_keeps_name.
Print Assumptions Compose_magefile_edit_changes_name.
Print Assumptions Compose_dir_choice.
Print Assumptions Compose_lifecycle_dir_choice.
Print Assumptions Compose_lifecycle_invoke_is_named.
Print Assumptions Compose_lifecycle_uses_cache_decision.
Print Assumptions Compose_gobuild_iff_not_reuse.
Print Assumptions Compose_build_started_iff_compiled.
Print Assumptions Compose_cache_after_invocation.
Print Assumptions Compose_fresh_and_clean.
Print Assumptions Compose_empty_cache_inv.
Print Assumptions Compose_hashed_in_history.

(* non-vacuity: a directory holding an untagged file (helper.go), a tagged one (magefile.go) and a
   tagged one for another platform (tasks_windows.go) on a linux host; history: run (hash mode),
   edit helper.go and tasks_windows.go, run, edit magefile.go, run, run in default mode.
   C10 selects magefile.go only; the first edit leaves the hashed files as they are and the second
   run reuses; the edit of magefile.go gives a build; C09's runs of these invocations start
   `go build` accordingly and return the directory untouched (also when go build fails); all
   hypotheses of Compose_fresh_and_clean hold. *)
Example Compose_C08_C10_C09_nonvacuous :
  NoDup (map d_name ex_dir) /\
  C.magefiles ex_su "" "" false (recs ex_dir) = Some ["magefile.go"] /\
  ex_sel ex_dir = Some [("magefile.go", "//go:build mage // v1")] /\
  ex_sel ex_dir1 = ex_sel ex_dir /\
  ex_sel ex_dir2 = Some [("magefile.go", "//go:build mage // v2")] /\
  coutcomes toy_hash _ ex_compile "T" ex_sel ex_ops ex_s0 =
    [Ran _ true ("go1", "dep1", ["//go:build mage // v1"]); Ran _ false ("go1", "dep1", ["//go:build mage // v1"]);
     Ran _ true ("go1", "dep1", ["//go:build mage // v2"]); Ran _ true ("go1", "dep1", ["//go:build mage // v2"])] /\
  L.invoke_dir_full (ex_world true) Lifecycle_facts.no_faults (ex_flags true) (to_fs ex_dir1) =
    {| L.o_fs := to_fs ex_dir1; L.o_exit := 0; L.o_at := Some L.TargetOutcome; L.o_generated := false; L.o_calls := [L.GVersion] |} /\
  L.invoke_dir_full (ex_world false) Lifecycle_facts.no_faults (ex_flags true) (to_fs ex_dir2) =
    {| L.o_fs := to_fs ex_dir2; L.o_exit := 0; L.o_at := Some L.TargetOutcome; L.o_generated := true; L.o_calls := [L.GVersion; L.GBuild] |} /\
  fst (L.invoke_dir (ex_world false) (Lifecycle_facts.only L.GoBuild) (ex_flags true) (to_fs ex_dir2)) = to_fs ex_dir2 /\
  (forall x, In x ex_dir2 -> d_name x <> L.mainfile) /\
  (forall x, digest_ok (toy_hash x)) /\
  collision_free toy_hash (fun x => In x (chashed_all toy_hash _ ex_compile "T" ex_sel ex_ops ex_s0)) /\
  CInv toy_hash _ ex_compile "T" (fun x => In x (chashed_all toy_hash _ ex_compile "T" ex_sel ex_ops ex_s0)) ex_s0 /\
  chashed_in toy_hash _ ex_compile "T" ex_sel (fun x => In x (chashed_all toy_hash _ ex_compile "T" ex_sel ex_ops ex_s0)) ex_ops ex_s0.
Proof. exact nonvacuous_bridge_c08_c10_c09. Qed.
Print Assumptions Compose_C08_C10_C09_nonvacuous.
