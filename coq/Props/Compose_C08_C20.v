(* Composition of C08 and C20: C20's hypothesis [content_addressed] discharged from C08.
   Statements only; definitions and proofs in Proof/Bridge_C08_C20.v.

   Model/Procs.v's cache-name function is instantiated with C08's [exe_name] (Model/Cache.v, the
   current definition) applied to the file set [dec c] that the directory string [c] denotes
   ([dec] is the adapter between the two models, arbitrary).  Model.Procs is used qualified: its
   names clash with Model.Cache's. *)
From Mage Require Import Base.Strs Model.Cache Proof.Cache_facts Proof.Bridge_C08_C20.
From Mage Require Model.Procs Proof.Procs_facts.

Section W.
Variable H : string -> string.                 (* SHA-1 as %x *)
Variable tpl ver : string.                     (* main-file template, `go version` line *)
Variable dec : Procs.contents -> fileset.      (* which file set a directory's magefile string denotes *)
Variable gen : Procs.contents -> option Procs.gentext.                                               (* parse + template *)
Variable compile : Procs.envid -> Procs.contents -> Procs.gentext -> option Procs.program.          (* go build *)
Variable behave : Procs.program -> Procs.dir -> Procs.args -> Procs.result.
Variable D : string -> Prop.                   (* the strings among which SHA-1 is assumed collision free *)
Notation name := (name_of H tpl ver dec).      (* fun c => exe_name H tpl ver (dec c) *)

(* Equal cache names => equal programs, for the invocations [invs] over the file system [fs]:
   - digest shape and collision freedom exactly as in C08_name_inj, on the strings hashed by the
     invocations ([hashed_by]: for each invocation, [hashed H tpl ver] of its directory's files);
   - [gen_perm], [compile_perm]: generated text and go build's output depend on the multiset of
     magefile contents only (C08_fresh_exact's assumption);
   - [no_external_inputs]: what else go build reads in the invocations' directories (imported
     packages, go.mod) does not make its output differ between them.  NOT provided by C08: the
     cache name hashes the magefiles only. *)
Theorem C08_gives_content_addressed :
  (forall x, digest_ok (H x)) -> collision_free H D ->
  forall invs fs,
  hashed_by H tpl ver dec D invs fs ->
  gen_perm dec gen -> compile_perm dec compile -> no_external_inputs compile invs fs ->
  Procs.content_addressed name gen compile invs fs.
Proof. exact (gives_content_addressed H tpl ver dec gen compile D). Qed.

(* C20_distinct_dirs with [content_addressed] replaced by C08's hypotheses *)
Theorem C20_distinct_dirs_from_C08 :
  (forall x, digest_ok (H x)) -> collision_free H D ->
  forall invs fs0 sched i r,
  NoDup (map Procs.i_dir invs) ->
  hashed_by H tpl ver dec D invs fs0 ->
  gen_perm dec gen -> compile_perm dec compile -> no_external_inputs compile invs fs0 ->
  Procs.cache_sound name gen compile invs fs0 ->
  Procs.result_of (Procs.run name gen compile behave invs fs0 sched) i = Some r ->
  Procs.alone name gen compile behave invs fs0 i = Some r.
Proof. exact (distinct_dirs_from_C08 H tpl ver dec gen compile behave D). Qed.

Theorem C20_distinct_dirs_total_from_C08 :
  (forall x, digest_ok (H x)) -> collision_free H D ->
  forall invs fs0 sched i,
  NoDup (map Procs.i_dir invs) ->
  hashed_by H tpl ver dec D invs fs0 ->
  gen_perm dec gen -> compile_perm dec compile -> no_external_inputs compile invs fs0 ->
  Procs.cache_sound name gen compile invs fs0 ->
  i < length invs -> Procs.fuel <= count_occ Nat.eq_dec sched i ->
  Procs.result_of (Procs.run name gen compile behave invs fs0 sched) i = Procs.alone name gen compile behave invs fs0 i /\
  exists r, Procs.alone name gen compile behave invs fs0 i = Some r.
Proof. exact (distinct_dirs_total_from_C08 H tpl ver dec gen compile behave D). Qed.

(* two ways to have [no_external_inputs]: one module context for all invocations, or a go build
   whose output ignores it *)
Theorem Compose_same_env : forall invs fs,
  (forall i j ivi ivj, nth_error invs i = Some ivi -> nth_error invs j = Some ivj ->
     Procs.f_env fs (Procs.i_dir ivi) = Procs.f_env fs (Procs.i_dir ivj)) ->
  no_external_inputs compile invs fs.
Proof. exact (same_env_no_external_inputs compile). Qed.

Theorem Compose_env_blind : forall invs fs,
  (forall e e' c g, compile e c g = compile e' c g) -> no_external_inputs compile invs fs.
Proof. exact (env_blind_no_external_inputs compile). Qed.
End W.

(* C08's compile (toolchain, imported packages, files) in Procs' signature satisfies [compile_perm]
   when it satisfies C08_fresh_exact's assumption *)
Theorem Compose_lift_compile_perm : forall dec cmp ver,
  (forall v d a b, Permutation (contents a) (contents b) -> cmp v d a = cmp v d b) ->
  compile_perm dec (lift_compile dec cmp ver).
Proof. exact lift_compile_perm. Qed.

(* [no_external_inputs] cannot be dropped, also with exe_name as the cache name: byte-identical
   magefiles in two directories whose imported package differs share one entry, and invocation 0
   runs the other directory's program (C20_shared_entry_refuted carried over; gen_perm and
   compile_perm hold in the witness) *)
Theorem Compose_no_external_inputs_needed_refuted :
  let name := name_of toy_hash "T" "go1" one_file in
  exists invs fs0 sched,
    NoDup (map Procs.i_dir invs) /\
    gen_perm one_file Procs_facts.w_gen /\ compile_perm one_file Procs_facts.w_compile /\
    ~ no_external_inputs Procs_facts.w_compile invs fs0 /\
    Procs.result_of (Procs.run name Procs_facts.w_gen Procs_facts.w_compile Procs_facts.w_behave invs fs0 sched) 0 = Some ("envB/m", 0%Z) /\
    Procs.alone name Procs_facts.w_gen Procs_facts.w_compile Procs_facts.w_behave invs fs0 0 = Some ("envA/m", 0%Z).
Proof. exact shared_entry_refuted_with_exe_name. Qed.

Print Assumptions C08_gives_content_addressed.
Print Assumptions C20_distinct_dirs_from_C08.
Print Assumptions C20_distinct_dirs_total_from_C08.
Print Assumptions Compose_same_env.
Print Assumptions Compose_env_blind.
Print Assumptions Compose_lift_compile_perm.
Print Assumptions Compose_no_external_inputs_needed_refuted.

(* non-vacuity: every hypothesis of C20_distinct_dirs_from_C08 holds for three invocations in
   three directories (two with identical magefiles, one in hash mode, one module context) with a
   digest-shaped hash that is collision free on everything hashed; interleaved results = solo results *)
Example Compose_C08_C20_nonvacuous :
  let name := name_of toy_hash "T" "go1" one_file in
  let D := fun x => In x nv_hashed in
  (forall x, digest_ok (toy_hash x)) /\ collision_free toy_hash D /\
  NoDup (map Procs.i_dir Procs_facts.w_nv_invs) /\
  hashed_by toy_hash "T" "go1" one_file D Procs_facts.w_nv_invs Procs_facts.w_nv_fs /\
  gen_perm one_file Procs_facts.w_gen /\ compile_perm one_file Procs_facts.w_compile /\
  no_external_inputs Procs_facts.w_compile Procs_facts.w_nv_invs Procs_facts.w_nv_fs /\
  Procs.cache_sound name Procs_facts.w_gen Procs_facts.w_compile Procs_facts.w_nv_invs Procs_facts.w_nv_fs /\
  name "m" <> name "k" /\
  map (Procs.result_of (Procs.run name Procs_facts.w_gen Procs_facts.w_compile Procs_facts.w_behave
                          Procs_facts.w_nv_invs Procs_facts.w_nv_fs Procs_facts.w_nv_sched)) [0; 1; 2] =
    [Some ("env/m", 0%Z); Some ("env/m", 0%Z); Some ("env/k", 0%Z)] /\
  map (Procs.alone name Procs_facts.w_gen Procs_facts.w_compile Procs_facts.w_behave Procs_facts.w_nv_invs Procs_facts.w_nv_fs) [0; 1; 2] =
    [Some ("env/m", 0%Z); Some ("env/m", 0%Z); Some ("env/k", 0%Z)].
Proof. exact nonvacuous_bridge. Qed.
Print Assumptions Compose_C08_C20_nonvacuous.
