(* Composition of C09 and C20: the two models of mage.Invoke's file-system life cycle agree for a
   solo invocation, and C20's non-interference carries C09_clean to every directory of an
   interleaved run.  Statements only; definitions and proofs in Proof/Bridge_C09_C20.v.

   Model/Lifecycle.v (C09): Invoke as its 24 ordered external steps with fault oracles over one
   directory.  Model/Procs.v (C20): an invocation as atomic file-system steps (program points
   PStale PList PHash PStat PParse PCreate PWrite PChtimes PBuild PFailRm/PRemove PExec PDeferRm,
   PExecCached), interleaved over one shared file system.  Model.Procs is used qualified.

   [proj] maps a step of Lifecycle to the program point of Procs it is (or to none: the step is
   inside the preceding program point or touches no file); [performed] says whether a step is
   performed or skipped in a state; [ptrace] is the sequence of program points of the steps that
   Lifecycle's run performs, the deferred removal included; [pcs] the sequence Procs goes through.
   [world_of] / [faults_of] / [flags_of] translate an invocation of Procs on a file system into
   Lifecycle's world, fault assignment (no magefiles, parse error, build failure, failing target:
   what Procs can express) and flags.  [imports] and [debug] are what Procs does not distinguish. *)
From Mage Require Import Base.Strs Model.Lifecycle Proof.Lifecycle_facts Proof.Bridge_C09_C20.
From Mage Require Model.Procs Proof.Procs_facts.

Section W.
Variable name : Procs.contents -> Procs.ename.
Variable gen : Procs.contents -> option Procs.gentext.
Variable compile : Procs.envid -> Procs.contents -> Procs.gentext -> option Procs.program.
Variable behave : Procs.program -> Procs.dir -> Procs.args -> Procs.result.
Variable imports : nat.
Variable debug : bool.
Notation world_of := (world_of name gen compile behave imports).
Notation faults_of := (faults_of name gen compile behave).
Notation flags_of := (flags_of debug).
Notation pcs := (pcs name gen compile behave).
Notation outcome := (outcome name gen compile behave).

(* the projection is honest: a step that [performed] calls skipped does nothing at all, and the
   walk that collects the program points is Lifecycle's own run *)
Theorem Compose_skipped_steps_do_nothing : forall w faults fl st s,
  performed w fl st s = false -> exec w faults fl st s = Cont s.
Proof. exact skipped_noop. Qed.

Theorem Compose_ptrace_is_invoke : forall w faults fl d,
  fst (msummary (mwalk w faults fl all_steps (init_state d))) = invoke_dir w faults fl d.
Proof. exact msummary_invoke. Qed.

(* (1) STEP ORDER.  For every invocation (default or hash mode, -f or not, GOCACHE set or not),
   every file system (cold or warm cache, leftover generated file of any state or none, no
   magefiles, parse error, build failure or success) and every directory content: the program
   points Procs goes through ARE the projection of the steps Lifecycle performs, in the same order *)
Theorem Compose_step_order_agrees : forall i iv fs0 d, plain d ->
  pcs Procs.fuel i iv fs0 Procs.proc0 = ptrace (world_of iv fs0) (faults_of iv fs0) (flags_of iv) d.
Proof. exact (order_agrees name gen compile behave imports debug). Qed.

(* ... spelled out per mode *)
Theorem Compose_order_default_mode : forall iv fs0 d, plain d ->
  Procs.i_hashfast iv = false -> Procs.i_gocache iv = true ->
  mf_empty iv fs0 = false -> genfail gen iv fs0 = false -> buildfail gen compile iv fs0 = false ->
  ptrace (world_of iv fs0) (faults_of iv fs0) (flags_of iv) d =
    [Procs.PStale; Procs.PList; Procs.PHash; Procs.PStat; Procs.PParse; Procs.PCreate; Procs.PWrite; Procs.PChtimes;
     Procs.PBuild; Procs.PRemove; Procs.PExec; Procs.PDeferRm].
Proof. exact (order_default_mode name gen compile behave imports debug). Qed.

Theorem Compose_order_hash_warm : forall iv fs0 d, plain d ->
  Procs.i_hashfast iv = true -> Procs.i_force iv = false -> cached name iv fs0 = true -> mf_empty iv fs0 = false ->
  ptrace (world_of iv fs0) (faults_of iv fs0) (flags_of iv) d =
    [Procs.PStale; Procs.PList; Procs.PHash; Procs.PStat; Procs.PExecCached].
Proof. exact (order_hash_warm name gen compile behave imports debug). Qed.

Theorem Compose_order_hash_cold_or_forced : forall iv fs0 d, plain d ->
  Procs.i_hashfast iv = true -> (cached name iv fs0 = false \/ Procs.i_force iv = true) ->
  mf_empty iv fs0 = false -> genfail gen iv fs0 = false -> buildfail gen compile iv fs0 = false ->
  ptrace (world_of iv fs0) (faults_of iv fs0) (flags_of iv) d =
    [Procs.PStale; Procs.PList; Procs.PHash; Procs.PStat; Procs.PParse; Procs.PCreate; Procs.PWrite; Procs.PChtimes;
     Procs.PBuild; Procs.PRemove; Procs.PExec; Procs.PDeferRm].
Proof. exact (order_hash_cold_or_forced name gen compile behave imports debug). Qed.

Theorem Compose_order_build_failure : forall iv fs0 d, plain d ->
  reuses name iv fs0 = false -> mf_empty iv fs0 = false -> genfail gen iv fs0 = false -> buildfail gen compile iv fs0 = true ->
  ptrace (world_of iv fs0) (faults_of iv fs0) (flags_of iv) d =
    [Procs.PStale; Procs.PList; Procs.PHash; Procs.PStat; Procs.PParse; Procs.PCreate; Procs.PWrite; Procs.PChtimes;
     Procs.PBuild; Procs.PFailRm].
Proof. exact (order_build_failure name gen compile behave imports debug). Qed.

(* (2) EFFECT.  What `alone` is in Procs: the invocation's own outcome, and its generated file gone *)
Theorem Compose_alone_outcome : forall invs fs0 i iv, nth_error invs i = Some iv ->
  Procs.alone name gen compile behave invs fs0 i = Some (outcome iv fs0) /\
  Procs.f_main (Procs.s_fs (Procs.run name gen compile behave invs fs0 (repeat i Procs.fuel))) (Procs.i_dir iv) = None.
Proof. exact (alone_outcome name gen compile behave). Qed.

(* the exit status of Lifecycle's run is the exit status of Procs' result (statuses are non-negative) *)
Theorem Compose_exit_agrees : forall iv fs0 d, plain d ->
  (forall q D a, (0 <= snd (behave q D a))%Z) ->
  Z.of_nat (snd (invoke_dir (world_of iv fs0) (faults_of iv fs0) (flags_of iv) d)) = snd (outcome iv fs0).
Proof. exact (exit_agrees name gen compile behave imports debug). Qed.

Section Views.
Variable mf_of : fs -> Procs.contents.      (* the magefile bytes a directory denotes *)
Variable env_of : fs -> Procs.envid.        (* its module context *)
Notation dir_view := (dir_view mf_of env_of).

(* a solo invocation leaves the directory, as far as both models see it (magefile bytes, module
   context, presence of mage_output_file.go), exactly as Lifecycle's run does - for EVERY fault
   assignment of Lifecycle (the code since 1372a21, no -keep), not only the expressible ones *)
Theorem Compose_effect_agrees_solo : forall invs fs0 i iv w faults fl d,
  nth_error invs i = Some iv ->
  w_fixed w = true -> w_cleanup w = true -> f_keep fl = false ->
  plain d -> blind mf_of -> blind env_of ->
  v_mf (procs_view fs0 (Procs.i_dir iv)) = v_mf (dir_view d) ->
  v_env (procs_view fs0 (Procs.i_dir iv)) = v_env (dir_view d) ->
  procs_view (Procs.s_fs (Procs.run name gen compile behave invs fs0 (repeat i Procs.fuel))) (Procs.i_dir iv) =
  dir_view (fst (invoke_dir w faults fl d)).
Proof. exact (effect_agrees_solo name gen compile behave mf_of env_of). Qed.

(* (3) C20 carries C09_clean to every directory: in ANY interleaving of invocations in pairwise
   distinct directories, the directory of every invocation that has returned is as C09_clean
   says (no generated file, a stale one removed, everything else untouched) ... *)
Theorem C20_dirs_end_as_C09_clean : forall invs fs0 sched i iv r w faults fl d,
  NoDup (map Procs.i_dir invs) -> nth_error invs i = Some iv ->
  Procs.result_of (Procs.run name gen compile behave invs fs0 sched) i = Some r ->
  w_fixed w = true -> w_cleanup w = true -> f_keep fl = false ->
  plain d -> blind mf_of -> blind env_of ->
  v_mf (procs_view fs0 (Procs.i_dir iv)) = v_mf (dir_view d) ->
  v_env (procs_view fs0 (Procs.i_dir iv)) = v_env (dir_view d) ->
  procs_view (Procs.s_fs (Procs.run name gen compile behave invs fs0 sched)) (Procs.i_dir iv) =
  dir_view (fst (invoke_dir w faults fl d)).
Proof. exact (interleaved_dir_is_clean name gen compile behave mf_of env_of). Qed.
End Views.

(* ... in Procs' own terms ... *)
Theorem C20_finished_dir : forall invs fs0 sched i iv r, NoDup (map Procs.i_dir invs) ->
  nth_error invs i = Some iv -> Procs.result_of (Procs.run name gen compile behave invs fs0 sched) i = Some r ->
  procs_view (Procs.s_fs (Procs.run name gen compile behave invs fs0 sched)) (Procs.i_dir iv) =
    {| v_mf := Procs.f_mf fs0 (Procs.i_dir iv); v_env := Procs.f_env fs0 (Procs.i_dir iv); v_main := false |}.
Proof. exact (finished_dir name gen compile behave). Qed.

(* ... and its result and exit status are those of Lifecycle's run of that invocation alone
   (C20_distinct_dirs composed with (2)) *)
Theorem C20_result_is_C09_run : forall invs fs0 sched i iv r d,
  NoDup (map Procs.i_dir invs) ->
  Procs.content_addressed name gen compile invs fs0 -> Procs.cache_sound name gen compile invs fs0 ->
  nth_error invs i = Some iv -> Procs.result_of (Procs.run name gen compile behave invs fs0 sched) i = Some r ->
  plain d -> (forall q D a, (0 <= snd (behave q D a))%Z) ->
  r = outcome iv fs0 /\
  Z.of_nat (snd (invoke_dir (world_of iv fs0) (faults_of iv fs0) (flags_of iv) d)) = snd r.
Proof. exact (interleaved_result name gen compile behave imports debug). Qed.
End W.

Print Assumptions Compose_skipped_steps_do_nothing.
Print Assumptions Compose_ptrace_is_invoke.
Print Assumptions Compose_step_order_agrees.
Print Assumptions Compose_order_default_mode.
Print Assumptions Compose_order_hash_warm.
Print Assumptions Compose_order_hash_cold_or_forced.
Print Assumptions Compose_order_build_failure.
Print Assumptions Compose_alone_outcome.
Print Assumptions Compose_exit_agrees.
Print Assumptions Compose_effect_agrees_solo.
Print Assumptions C20_dirs_end_as_C09_clean.
Print Assumptions C20_finished_dir.
Print Assumptions C20_result_is_C09_run.

(* non-vacuity: Procs' example invocation (directory 0, default mode) against a concrete
   directory with a stale generated file: same program points, same outcome, same view afterwards *)
Example Compose_C09_C20_nonvacuous :
  let iv := Procs_facts.w_inv 0 false in
  let W := Bridge_C09_C20.world_of Procs_facts.w_name Procs_facts.w_gen Procs_facts.w_compile Procs_facts.w_behave 1 iv nv_fs in
  let F := Bridge_C09_C20.faults_of Procs_facts.w_name Procs_facts.w_gen Procs_facts.w_compile Procs_facts.w_behave iv nv_fs in
  plain nv_dir /\
  Bridge_C09_C20.pcs Procs_facts.w_name Procs_facts.w_gen Procs_facts.w_compile Procs_facts.w_behave Procs.fuel 0 iv nv_fs Procs.proc0 =
    [Procs.PStale; Procs.PList; Procs.PHash; Procs.PStat; Procs.PParse; Procs.PCreate; Procs.PWrite; Procs.PChtimes;
     Procs.PBuild; Procs.PRemove; Procs.PExec; Procs.PDeferRm] /\
  ptrace W F (Bridge_C09_C20.flags_of false iv) nv_dir =
    [Procs.PStale; Procs.PList; Procs.PHash; Procs.PStat; Procs.PParse; Procs.PCreate; Procs.PWrite; Procs.PChtimes;
     Procs.PBuild; Procs.PRemove; Procs.PExec; Procs.PDeferRm] /\
  invoke_dir W F (Bridge_C09_C20.flags_of false iv) nv_dir = (remove mainfile nv_dir, 0) /\
  Procs.alone Procs_facts.w_name Procs_facts.w_gen Procs_facts.w_compile Procs_facts.w_behave [iv] nv_fs 0 = Some ("env/m", 0%Z) /\
  procs_view (Procs.s_fs (Procs.run Procs_facts.w_name Procs_facts.w_gen Procs_facts.w_compile Procs_facts.w_behave [iv] nv_fs (repeat 0 Procs.fuel))) 0 =
    Bridge_C09_C20.dir_view nv_mf nv_env (fst (invoke_dir W F (Bridge_C09_C20.flags_of false iv) nv_dir)).
Proof. exact nonvacuous_bridge. Qed.
Print Assumptions Compose_C09_C20_nonvacuous.
