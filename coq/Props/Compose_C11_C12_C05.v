(* Composition C11 -> C12, C05 (and C04 through C05's bridge).  Statements only; the translation and the proofs are in
   Proof/Bridge_C11_C12_C05.v.

   Flags.v (C11) starts after Go's flag package, ExitChain.v (C05) takes the flag package's verdict and the leftover
   words as input, Timeout.v (C12) takes the timeout as input.  The bridge adds the missing piece - [cl_parse], a
   transcription of flag.FlagSet.Parse over mage's two flag sets - and the translations
     flags_of / cflags_of_assigns : assignments -> Flags.flags / cflags,
     fargs_of / flagparse_of      : verdict, assignments, leftover words -> ExitChain.fargs / flagparse,
     cprog_of                     : generated-main arguments, leftover words -> ExitChain.cprog (C04's mentions),
   and the two routes [direct words e] (the compiled binary) and [via_mage lay words e] (the front end parses,
   ExitChain.Parse decides, the leftover words go to the compiled binary, which parses them AGAIN).

   Quantifiers: every word list, every environment list, every layout; parse_dur / dur_string / join arbitrary.
   [consumed sp pre a]: the parser eats [pre] completely as flags and flag values (no "--", no plain word) and has then
   made the assignments [a].  [starts_plain ws]: ws is empty or its first word does not look like a flag.

   History: building this bridge showed that Model/Flags.v gave the compiled program no flags of its own through mage,
   which is false behind a consumed "--" (decided against the real mage, tools/notes/Compose_C11_C12_C05.md).  The
   model has been repaired (Flags.mage_args takes the compiled program's own flags; Flags.mage_cmdline is the
   whole-command-line route, the parser lives in Model/FlagPkg.v); the theorems below no longer need the premise
   "the leftover words do not begin with a flag-like word". *)
From Mage Require Import Base.Strs Model.Flags Proof.FlagPkg_facts Proof.Flags_facts Proof.Bridge_C11_C12_C05.
From Mage Require Model.Timeout Model.ExitChain Proof.ExitChain_facts Proof.Bridge_C04_C05.
Local Open Scope Z_scope.

Section Ext.
Variable parse_dur : string -> option Z.
Variable dur_string : Z -> string.
Variable join : string -> string -> string.
Notation cl_parse := (FlagPkg.cl_parse parse_dur).
Notation direct := (direct parse_dur).
Notation via_mage := (via_mage parse_dur dur_string join).
Notation consumed := (consumed parse_dur).

(* ---------------------------------------------------------------- (a) the timeout that reaches the compiled program *)
(* the compiled binary's own command line: its -t (last one given), else MAGEFILE_TIMEOUT (0 when unset, empty or
   malformed) *)
Theorem Compose_timeout_reaches_direct : forall words e a rest, cl_parse gen_spec words = POk a rest ->
  timeout_of (direct words e) =
    Some (match get_dur "t" a with Some d => d | None => tpl_parse_duration parse_dur "MAGEFILE_TIMEOUT" e end).
Proof. exact (direct_timeout parse_dur). Qed.

(* through mage: the compiled program's own -t if it finds one among the words it is handed (behind "--"), else a
   positive -t of the front end (rendered by Duration.String, parsed back by the generated main), else
   MAGEFILE_TIMEOUT as the CALLER has it.  (-t 0 and negative -t of the front end do not override the variable:
   C11's known finding.) *)
Theorem Compose_timeout_reaches : forall lay words e a rest a' ws,
  cl_parse front_spec words = POk a rest -> EC.Parse (fargs_of (POk a rest) e) = (EC.CmdNone, EC.PNoErr) ->
  cl_parse gen_spec rest = POk a' ws -> roundtrip parse_dur dur_string (flags_of a) ->
  timeout_of (via_mage lay words e) =
    Some (match get_dur "t" a' with
          | Some d => d
          | None => let d := flag_or (get_dur "t" a) 0 in
                    if 0 <? d then d else tpl_parse_duration parse_dur "MAGEFILE_TIMEOUT" e
          end).
Proof. exact (via_mage_timeout parse_dur dur_string join). Qed.

(* through both: a -t among the words behind "--" is the compiled binary's own flag and has the last word *)
Theorem Compose_timeout_reaches_both : forall lay words e a rest a' ws d,
  cl_parse front_spec words = POk a rest -> EC.Parse (fargs_of (POk a rest) e) = (EC.CmdNone, EC.PNoErr) ->
  cl_parse gen_spec rest = POk a' ws -> get_dur "t" a' = Some d ->
  timeout_of (via_mage lay words e) = Some d.
Proof. exact (via_mage_timeout_both parse_dur dur_string join). Qed.

(* that number IS the parameter C12's model runs with: 0 = no deadline (WithCancel), anything else - negative
   included - a deadline at (start of the first target) + d that every target sees, whatever signals arrive *)
Theorem Compose_timeout_is_C12_parameter : forall d,
  (d = 0 -> forall now, TM.get_context d now None = {| TM.deadline := None; TM.cancelled := None |}) /\
  (d <> 0 -> forall now, TM.get_context d now None = {| TM.deadline := Some (now + d); TM.cancelled := None |}) /\
  (d <> 0 -> forall tgs t0 sigs r o, In r (TM.run_targets d tgs t0 sigs) -> In o (TM.r_obs r) ->
             TM.ts_deadline o = Some (t0 + d)) /\
  (d = 0 -> forall tgs t0, Forall (fun tg => 0 <= TM.work tg) tgs ->
             TM.run_targets d tgs t0 [] = [TM.plain_run None tgs t0 []]).
Proof. exact timeout_is_C12_parameter. Qed.

(* malformed durations.  On the command line (-t xyz, anywhere among the flags): a flag error on every route -
   status 2, a message, nothing built, nothing run (C05_flag_error_anywhere / the compiled program's exit 2).
   In MAGEFILE_TIMEOUT: NOT an error - the generated main warns and runs without deadline. *)
Theorem Compose_timeout_malformed : forall lay e pre a s v post, parse_dur v = None -> classify s = WFlag "t" None ->
  (consumed front_spec pre a ->
     via_mage lay (pre ++ s :: v :: post) e = Rejected 2 /\
     forall fixed sc, EC.sc_args sc = fargs_of (cl_parse front_spec (pre ++ s :: v :: post)) e ->
       EC.mage_status fixed sc = 2 /\ EC.f_child (EC.mage_run fixed sc) = false /\ EC.f_msg (EC.mage_run fixed sc) = true) /\
  (consumed gen_spec pre a ->
     direct (pre ++ s :: v :: post) e = Rejected 2 /\
     forall cp, EC.cp_flags cp = flagparse_of (cl_parse gen_spec (pre ++ s :: v :: post)) ->
       EC.compiled_exit true cp = 2 /\ EC.h_ran (EC.compiled_main true cp) = 0%nat /\ EC.h_msg (EC.compiled_main true cp) = true).
Proof. exact (malformed_duration parse_dur dur_string join). Qed.

Theorem Compose_timeout_malformed_variable : forall e v, lookup "MAGEFILE_TIMEOUT" e = Some v -> parse_dur v = None ->
  tpl_parse_duration parse_dur "MAGEFILE_TIMEOUT" e = 0.
Proof. exact (env_garbage_is_zero parse_dur). Qed.

(* ---------------------------------------------------------------- (b) flag errors *)
(* the translation of the verdict: ExitChain's flag layer says "bad" / "-help" / "ok" exactly when the parser does,
   and its word count is the number of leftover words *)
Theorem Compose_flag_layer : forall r e,
  (EC.fa_parse (fargs_of r e) = EC.FlagsBad <-> exists a, r = PBad a) /\
  (EC.fa_parse (fargs_of r e) = EC.FlagsErrHelp <-> r = PHelp) /\
  (EC.fa_parse (fargs_of r e) = EC.FlagsOk <-> exists a w, r = POk a w) /\
  EC.fa_nargs (fargs_of r e) = length (rest_of r).
Proof. exact flag_layer_iff. Qed.

(* route 1, mage's own command line: rejected by the parser => the composed route says Rejected 2 and every ExitChain
   scenario with these arguments has status 2, starts no program, reports on stderr *)
Theorem Compose_flag_errors_agree_front : forall lay words e a, cl_parse front_spec words = PBad a ->
  via_mage lay words e = Rejected 2 /\
  forall fixed sc, EC.sc_args sc = fargs_of (cl_parse front_spec words) e ->
    EC.mage_status fixed sc = 2 /\ EC.f_child (EC.mage_run fixed sc) = false /\ EC.f_msg (EC.mage_run fixed sc) = true.
Proof. exact (front_rejects parse_dur dur_string join). Qed.

(* route 2, the compiled binary: Rejected 2 iff its parser rejects; then ExitChain's program exits 2, runs nothing *)
Theorem Compose_flag_errors_agree_direct : forall words e,
  (direct words e = Rejected 2 <-> exists a, cl_parse gen_spec words = PBad a) /\
  forall cp, EC.cp_flags cp = flagparse_of (cl_parse gen_spec words) -> (exists a, cl_parse gen_spec words = PBad a) ->
    EC.compiled_exit true cp = 2 /\ EC.h_ran (EC.compiled_main true cp) = 0%nat /\ EC.h_msg (EC.compiled_main true cp) = true.
Proof. exact (direct_rejects parse_dur). Qed.

(* route 3, through mage: every outcome of the composed route, said with ExitChain's own predicates.  Rejected is
   always status 2 and comes from the front end (a flag error is a [misuse]) or from the compiled binary rejecting
   the leftover words; Accepted means: ExitChain.Parse selects "run the program", both parsers accept, and the
   generated main's arguments are computed from ITS OWN assignments a' in the environment RunCompiled built *)
Theorem Compose_flag_errors_agree : forall lay words e,
  let r := cl_parse front_spec words in
  match via_mage lay words e with
  | Rejected s => s = 2 /\
      (ECF.misuse (fargs_of r e) \/
       (EC.Parse (fargs_of r e) = (EC.CmdNone, EC.PNoErr) /\ exists a, cl_parse gen_spec (rest_of r) = PBad a))
  | HelpShown => ECF.shows_help (fargs_of r e) \/
       (EC.Parse (fargs_of r e) = (EC.CmdNone, EC.PNoErr) /\ cl_parse gen_spec (rest_of r) = PHelp)
  | OtherCommand c => EC.Parse (fargs_of r e) = (c, EC.PNoErr) /\ c <> EC.CmdNone
  | Accepted args te ws =>
      EC.Parse (fargs_of r e) = (EC.CmdNone, EC.PNoErr) /\
      exists a rest a', r = POk a rest /\ cl_parse gen_spec rest = POk a' ws /\
        let ce := child_env dur_string join true lay (flags_of a) e in
        args = gm_parse parse_dur (cflags_of_assigns a') ce /\ te = gm_target_env args ce
  end.
Proof. exact (via_mage_cases parse_dur dur_string join). Qed.

(* ... and when it is the compiled binary that rejects (only possible for words behind "--"): the whole invocation
   has status 2 in ExitChain (the program is built and started, no target body runs) *)
Theorem Compose_flag_errors_agree_child : forall lay words e a rest a',
  cl_parse front_spec words = POk a rest -> EC.Parse (fargs_of (POk a rest) e) = (EC.CmdNone, EC.PNoErr) ->
  cl_parse gen_spec rest = PBad a' ->
  via_mage lay words e = Rejected 2 /\
  forall sc, EC.sc_args sc = fargs_of (POk a rest) e -> ~ ECF.cannot_build (EC.sc_args sc) (EC.sc_build sc) ->
    EC.sc_start sc = true -> EC.cp_flags (EC.sc_prog sc) = flagparse_of (cl_parse gen_spec rest) ->
    EC.mage_status true sc = 2 /\ EC.h_ran (EC.compiled_main true (EC.sc_prog sc)) = 0%nat.
Proof. exact (via_mage_child_rejects parse_dur dur_string join). Qed.

(* ---------------------------------------------------------------- (c) flags, then dispatch *)
(* the leftover words are a suffix of the command line; they begin with a word that does not look like a flag (or
   there are none) - or they are what follows a consumed "--" *)
Theorem Compose_leftover_words : forall sp words a rest, cl_parse sp words = POk a rest ->
  (exists pre, words = pre ++ rest /\ starts_plain rest) \/ (exists pre, words = pre ++ "--" :: rest).
Proof. exact (fun sp words => rest_shape parse_dur sp words None []). Qed.

(* no target is swallowed as a flag, no flag as a target: after the flags, the first plain word and EVERYTHING behind
   it - flag-like words included (`mage -v say -l probe`: "-l" is say's argument) - are the leftover words *)
Theorem Compose_flags_after_target_stay_words : forall sp pre a t post,
  consumed sp pre a -> classify t = WNonFlag -> cl_parse sp (pre ++ t :: post) = POk a (t :: post).
Proof. exact (consumed_then_word parse_dur). Qed.

Theorem Compose_terminator : forall sp pre a post, consumed sp pre a -> cl_parse sp (pre ++ "--" :: post) = POk a post.
Proof. exact (consumed_then_terminator parse_dur). Qed.

(* through mage the composition IS Flags.v's route, for every accepted command line - "--" or not: the front end's
   flags, the compiled program's own flags (from its parse of the leftover words), and the words it dispatches on
   are what is left after BOTH parses *)
Theorem Compose_flags_then_dispatch_route : forall lay words e a rest a' ws,
  cl_parse front_spec words = POk a rest -> EC.Parse (fargs_of (POk a rest) e) = (EC.CmdNone, EC.PNoErr) ->
  cl_parse gen_spec rest = POk a' ws ->
  via_mage lay words e =
    Accepted (mage_args parse_dur dur_string join true lay (flags_of a) (cflags_of_assigns a') e)
             (mage_target_env parse_dur dur_string join true lay (flags_of a) (cflags_of_assigns a') e) ws.
Proof. exact (via_mage_is_flags_route parse_dur dur_string join). Qed.

(* ... and Model/Flags.v's own whole-command-line function is the composition wherever ExitChain's Parse says "run the
   program" (usage, misuse, other commands are ExitChain's rules alone) *)
Theorem Compose_model_route_is_composition : forall lay words e,
  EC.Parse (fargs_of (cl_parse front_spec words) e) = (EC.CmdNone, EC.PNoErr) ->
  via_mage lay words e = embed (mage_cmdline parse_dur dur_string join true lay words e).
Proof. exact (via_mage_is_mage_cmdline parse_dur dur_string join). Qed.

(* the accepted words are the words ExitChain / Dispatch run on: the ExitChain program built from the generated main's
   arguments and the leftover words has, when neither list nor help is on, the status C04's dispatcher determines on
   exactly these words, and starts exactly its calls (Compose_status_of_dispatch of C04 -> C05) *)
Section Dispatch.
Variable conv : B45.D.argty -> string -> option string.
Variable outcome_of : nat -> list B45.D.value -> EC.body.
Variable i : B45.D.info.
Theorem Compose_flags_then_dispatch : forall args te ws, a_list args = false -> a_help args = false ->
  EC.compiled_exit true (cprog_of conv outcome_of i args te ws) =
    B45.status_of_result outcome_of (B45.D.dispatch conv (B45.fails_of outcome_of) i (getenv "MAGEFILE_IGNOREDEFAULT" te) ws) /\
  EC.h_ran (EC.compiled_main true (cprog_of conv outcome_of i args te ws)) =
    length (fst (B45.D.dispatch conv (B45.fails_of outcome_of) i (getenv "MAGEFILE_IGNOREDEFAULT" te) ws)).
Proof. exact (accepted_dispatch conv outcome_of i). Qed.
End Dispatch.
End Ext.

Print Assumptions Compose_timeout_reaches_direct.
Print Assumptions Compose_timeout_reaches.
Print Assumptions Compose_timeout_reaches_both.
Print Assumptions Compose_timeout_is_C12_parameter.
Print Assumptions Compose_timeout_malformed.
Print Assumptions Compose_timeout_malformed_variable.
Print Assumptions Compose_flag_layer.
Print Assumptions Compose_flag_errors_agree_front.
Print Assumptions Compose_flag_errors_agree_direct.
Print Assumptions Compose_flag_errors_agree.
Print Assumptions Compose_flag_errors_agree_child.
Print Assumptions Compose_leftover_words.
Print Assumptions Compose_flags_after_target_stay_words.
Print Assumptions Compose_terminator.
Print Assumptions Compose_flags_then_dispatch_route.
Print Assumptions Compose_model_route_is_composition.
Print Assumptions Compose_flags_then_dispatch.

(* non-vacuity: concrete command lines through the parser and the routes (each replayed on the real mage) *)
Example Compose_C11_C12_C05_nonvacuous :
  FlagPkg.cl_parse toy_pd front_spec ["-v"; "say"; "-l"; "probe"] = POk [("v", VB true)] ["say"; "-l"; "probe"] /\
  FlagPkg.cl_parse toy_pd gen_spec ["say"; "-l"; "probe"] = POk [] ["say"; "-l"; "probe"] /\
  FlagPkg.cl_parse toy_pd front_spec ["--"; "--"; "-l"] = POk [] ["--"; "-l"] /\
  FlagPkg.cl_parse toy_pd gen_spec ["--"; "-l"] = POk [] ["-l"] /\
  Bridge_C11_C12_C05.via_mage toy_pd toy_ds jn lay0 ["--"; "-x"] [] = Rejected 2 /\
  FlagPkg.cl_parse toy_pd front_spec ["-v"; "-t"; "xyz"; "probe"] = PBad [("v", VB true)] /\
  FlagPkg.cl_parse toy_pd gen_spec ["-t=xyz"; "probe"] = PBad [] /\
  FlagPkg.cl_parse toy_pd front_spec ["-x"] = PBad [] /\ FlagPkg.cl_parse toy_pd front_spec ["-t"] = PBad [] /\
  FlagPkg.cl_parse toy_pd front_spec ["-=x"] = PBad [] /\ FlagPkg.cl_parse toy_pd front_spec ["---v"] = PBad [] /\
  FlagPkg.cl_parse toy_pd front_spec ["-v=maybe"; "probe"] = PBad [] /\
  FlagPkg.cl_parse toy_pd front_spec ["-help"] = PHelp /\ FlagPkg.cl_parse toy_pd gen_spec ["--help"] = PHelp /\
  FlagPkg.cl_parse toy_pd front_spec ["-"] = POk [] ["-"] /\
  get_bool "v" [("v", VB true); ("v", VB false)] = Some false /\
  timeout_of (Bridge_C11_C12_C05.via_mage toy_pd toy_ds jn lay0 ["-t"; "5m"; "probe"] []) = Some 300000000000 /\
  timeout_of (Bridge_C11_C12_C05.direct toy_pd ["-t"; "5m"; "probe"] []) = Some 300000000000 /\
  timeout_of (Bridge_C11_C12_C05.via_mage toy_pd toy_ds jn lay0 ["probe"] [("MAGEFILE_TIMEOUT", "garbage")]) = Some 0 /\
  Bridge_C11_C12_C05.via_mage toy_pd toy_ds jn lay0 ["-h"] [] = HelpShown /\
  Bridge_C11_C12_C05.via_mage toy_pd toy_ds jn lay0 ["-version"] [] = OtherCommand EC.CmdVersion /\
  Bridge_C11_C12_C05.via_mage toy_pd toy_ds jn lay0 ["-h"; "a"; "b"] [] = Rejected 2.
Proof. exact bridge_examples. Qed.

(* mage -v=false -t 5m -- -v -t 1h probe (empty environment): the composed route and Model/Flags.v's own route give the
   same answer, the one the real mage gives - verbose, 1 h deadline, mg.Verbose() true *)
Example Compose_dashdash_example :
  let words := ["-v=false"; "-t"; "5m"; "--"; "-v"; "-t"; "1h"; "probe"] in
  exists args te,
    Bridge_C11_C12_C05.via_mage toy_pd toy_ds jn lay0 words [] = Accepted args te ["probe"] /\
    mage_cmdline toy_pd toy_ds jn true lay0 words [] = Flags.Runs args te ["probe"] /\
    a_verbose args = true /\ a_timeout args = 3600000000000 /\ mg_verbose te = true.
Proof. exact dashdash_example. Qed.
Print Assumptions Compose_dashdash_example.
Print Assumptions Compose_C11_C12_C05_nonvacuous.
