(* Composition C14 + C01: the engine model's numbered keys stand for (function, argument list).
   Statements only; proofs in Proof/Bridge_C14_C01.v.
   [number ms m] is the engine key the harness gives mention m = (function name, arguments) of a
   program whose mentions, in source order, are ms: the position of the first mention with the same
   registry key (name, mg.F id) - Model/FnId.once_key, the key mg/deps.go's onceMap uses.
   [accepted sigof m]: mg.F accepts the arguments for the function's declared signature (C14). *)
From Mage Require Import Base.Strs Model.FnCheck Model.FnSpec Model.FnId Model.Deps.
From Mage Require Import Proof.Deps_defs Proof.Bridge_C14_C01.

(* two accepted mentions are one dependency of the engine iff same function and equal arguments *)
Theorem Compose_number_iff : forall sigof ms m1 m2,
  In m1 ms -> In m2 ms -> accepted sigof m1 -> accepted sigof m2 ->
  (number ms m1 = number ms m2 <-> m1 = m2).
Proof. exact number_iff. Qed.
Print Assumptions Compose_number_iff.

(* C01 read at the source level, for every program, schedule and prefix *)
Theorem Compose_once_per_function_and_arguments : forall sigof fixed p ms s tr m1 m2,
  reach fixed p s tr -> In m1 ms -> In m2 ms -> accepted sigof m1 -> accepted sigof m2 ->
  nstart (number ms m1) tr <= 1 /\
  (number ms m1 = number ms m2 <-> fst m1 = fst m2 /\ snd m1 = snd m2).
Proof. exact once_per_function_and_arguments. Qed.
Print Assumptions Compose_once_per_function_and_arguments.

Theorem Compose_different_arguments_run_separately : forall sigof fixed p ms s a s' ev cx m1 m2,
  step fixed p s a = Some (s', ev) -> In m1 ms -> In m2 ms -> accepted sigof m1 -> accepted sigof m2 ->
  In (BodyStart (number ms m1) cx) ev -> m2 <> m1 ->
  cells s' (number ms m2) = cells s (number ms m2).
Proof. exact different_arguments_run_separately. Qed.
Print Assumptions Compose_different_arguments_run_separately.

Example Compose_C14_C01_nonvacuous :
  Forall (accepted ex_sig) ex_ms /\ map (number ex_ms) ex_ms = [0; 1; 0].
Proof. exact bridge_nonvacuous. Qed.
Print Assumptions Compose_C14_C01_nonvacuous.
