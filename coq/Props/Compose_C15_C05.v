(* Composition C15 + C05: the two models of sh.Exec / sh.CmdRan / sh.ExitStatus / mg.ExitStatus /
   mg.Fatalf agree, so the exit-status chain of C05 rests on the functions C15 verifies.
   Statements only; proofs in Proof/Bridge_C15_C05.v.
   S = Model/Sh.v (C15), E = Model/ExitChain.v (C05), SF / EF their fact files.
   Translation (Proof/Bridge_C15_C05.v): to_S : E.child -> S.child_result  (CExit n |-> Started (n mod 256),
   the signal number and the bytes written are free parameters), to_E the forgetful inverse,
   err_to_E : S.err -> E.value  (nil, Fatal c, anything else |-> VNil, VFatal c, VPlain). *)
From Mage Require Import Base.Strs Base.Expand.
From Mage Require Import Proof.Bridge_C15_C05.
Local Open Scope Z_scope.

(* (2) sh.CmdRan / sh.ExitStatus on the raw error of c.Run(): C05's functions on a child outcome are
   C15's functions on the os/exec error of the translated outcome — exited with any n in Z,
   signaled (C05 has this shape too; any signal number), not started; any output *)
Theorem Compose_raw_agree : forall c sig out errout,
  let e := S.cmd_run_err (to_S c sig out errout) in
  E.sh_CmdRan c = S.sh_CmdRan e /\
  E.sh_ExitStatus c = S.sh_ExitStatus e /\
  (E.run_err_nil c = true <-> e = S.ENil).
Proof. exact raw_agree. Qed.

(* ... and from C15's outcomes to C05's, for the wait statuses the kernel can report *)
Theorem Compose_raw_agree_back : forall r, in_range r ->
  E.sh_CmdRan (to_E r) = S.sh_CmdRan (S.cmd_run_err r) /\
  E.sh_ExitStatus (to_E r) = S.sh_ExitStatus (S.cmd_run_err r).
Proof. exact raw_agree_back. Qed.

(* the range hypothesis is needed: E.CExit's number is the argument of exit(), S.Started's the wait
   status; 256 is no wait status *)
Theorem Compose_back_needs_range :
  E.sh_ExitStatus (to_E (S.Started 256 EmptyString EmptyString)) = 0 /\
  S.sh_ExitStatus (S.cmd_run_err (S.Started 256 EmptyString EmptyString)) = 256.
Proof. exact back_needs_range. Qed.

(* mg.ExitStatus on every error shape; handleError exits with mg.ExitStatus of a non-nil error *)
Theorem Compose_mg_agree : forall e, E.mg_ExitStatus (err_to_E e) = S.mg_ExitStatus e.
Proof. exact mg_agree. Qed.

Theorem Compose_handle_agree : forall e,
  E.handleError (err_to_E e) = match e with S.ENil => None | _ => Some (S.mg_ExitStatus e) end.
Proof. exact handle_agree. Qed.

(* RunCompiled's code / message / "was run" are C15's sh.ExitStatus / not CmdRan / started on the
   compiled binary's raw os/exec error *)
Theorem Compose_run_compiled_agree : forall ch sig out errout,
  let e := S.cmd_run_err (to_S ch sig out errout) in
  E.f_code (E.RunCompiled ch) = S.sh_ExitStatus e /\
  E.f_msg (E.RunCompiled ch) = negb (S.sh_CmdRan e) /\
  E.f_child (E.RunCompiled ch) = match to_S ch sig out errout with S.NotStarted => false | _ => true end.
Proof. exact run_compiled_agree. Qed.

Section W.
Variable penv : S.envlist.
Variable child : list string -> list string -> S.child_result.

(* (1) C05's sh_Run of an outcome is the translation of the error C15's Exec returns when the child
   it starts has that outcome: for every entry point, environment, map, command, arguments, and
   every outcome (exit(n) for any n in Z, signaled, not started).  In particular ExitChain's
   status of a failed sh.Run equals mg_ExitStatus (and sh_ExitStatus) of Exec's error, and
   CmdRan = Exec's first result *)
Theorem Compose_run_agree : forall f envm cmd args c sig out errout,
  let x := S.call_entry penv child f envm cmd args in
  child (S.k_argv x) (S.k_envp x) = to_S c sig out errout ->
  E.sh_Run c = err_to_E (S.k_err x) /\
  E.mg_ExitStatus (E.sh_Run c) = S.mg_ExitStatus (S.k_err x) /\
  E.mg_ExitStatus (E.sh_Run c) = S.sh_ExitStatus (S.k_err x) /\
  E.sh_CmdRan c = S.k_ran x.
Proof. exact (run_agree penv child). Qed.

(* (3) a target that fails because an sh command exited k (1 <= k <= 255) makes mage exit k:
   C15_status (Model/Sh.v) + the bridge + C05_carried / C05_front_end_transparent (Model/ExitChain.v).
   The last line: the status mage passes on is C15's sh.ExitStatus of the raw error of the
   compiled binary, reduced by the kernel *)
Theorem Compose_sh_failure_exits_k : forall f envm cmd args k out errout,
  let x := S.call_entry penv child f envm cmd args in
  child (S.k_argv x) (S.k_envp x) = S.Started k out errout -> 1 <= k <= 255 ->
  forall fixed cp pre post,
  EF.targets_line cp (pre ++ E.MRun (E.BSh (E.CExit k)) :: post) ->
  Forall EF.wf_mention pre -> Forall EF.mention_ok pre ->
  S.k_err x = S.EFatal k /\ S.mg_ExitStatus (S.k_err x) = k /\ S.sh_ExitStatus (S.k_err x) = k /\
  E.run_body (E.BSh (E.CExit k)) = E.Returned (err_to_E (S.k_err x)) /\
  E.handleError (err_to_E (S.k_err x)) = Some (S.mg_ExitStatus (S.k_err x)) /\
  E.compiled_exit fixed cp = k /\
  (forall sc, E.sc_prog sc = cp -> EF.runs_program sc ->
     E.mage_status fixed sc = k /\
     E.mage_status fixed sc =
       E.kernel (S.sh_ExitStatus (S.cmd_run_err (to_S (E.child_of fixed cp) 0 EmptyString EmptyString)))).
Proof. exact (sh_failure_exits_k penv child). Qed.
End W.

Print Assumptions Compose_raw_agree.
Print Assumptions Compose_raw_agree_back.
Print Assumptions Compose_back_needs_range.
Print Assumptions Compose_mg_agree.
Print Assumptions Compose_handle_agree.
Print Assumptions Compose_run_compiled_agree.
Print Assumptions Compose_run_agree.
Print Assumptions Compose_sh_failure_exits_k.

(* non-vacuity: sh.RunWith of "$PATH/tool" exiting 3 as the second of three targets; through mage: 3 *)
Example Compose_nonvacuous :
  let x := S.call_entry SF.nv_penv SF.nv_child S.FRunWith SF.nv_envm "$PATH/tool" ["$A"] in
  let cp := EF.line [E.MRun E.BOk; E.MRun (E.BSh (E.CExit 3)); E.MRun (E.BFatal 9)] in
  SF.nv_child (S.k_argv x) (S.k_envp x) = S.Started 3 (String.append "out" (String.append SF.nl SF.nl)) "err" /\
  EF.targets_line cp ([E.MRun E.BOk] ++ E.MRun (E.BSh (E.CExit 3)) :: [E.MRun (E.BFatal 9)]) /\
  Forall EF.wf_mention [E.MRun E.BOk] /\ Forall EF.mention_ok [E.MRun E.BOk] /\
  EF.runs_program (EF.via_mage cp) /\
  E.mage_status true (EF.via_mage cp) = 3 /\ S.mg_ExitStatus (S.k_err x) = 3.
Proof. exact nonvacuous_compose. Qed.
Print Assumptions Compose_nonvacuous.
