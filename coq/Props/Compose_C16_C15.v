(* Composition C16 + C15: the two models of the path from an sh call to the child process agree.
   Statements only; proofs in Proof/Bridge_C16_C15.v.
   L = Model/Slices.v (C16: what argv the child gets, what happens to the caller's slices, histories,
   interleavings), S = Model/Sh.v (C15: expansion with the env overlay, the child's environment, ran /
   error / status / text, stream routing); LF, SF their fact files.
   Translation (Proof/Bridge_C16_C15.v):
     snapshot   : L's environment LOG (Setenv conses, first match wins) -> S's environment with distinct keys
     to_entry   : L.fnsel -> S.entry (Exec with the harness's two buffers), kind_entry : RunCmd -> Run, OutCmd -> Output
     S_of_op    : a call operation of an L history, in its heap / closure list / environment -> the S.call that it is;
                  the args list S receives is the caller's ORIGINAL elements, for a closure baked ++ call-time
     L_out/L_exit : S's child (argv, envp) -> L's two child parameters (environment at the call, env map of the call, argv), for a child that ignores its environment
     obs_of_call : S.call -> L.obs. *)
From Mage Require Import Base.Strs Base.Expand.
From Mage Require Import Proof.Bridge_C16_C15.

(* both transcriptions of Exec's [expand] closure look in the overlay first and in the process environment
   second, for every name, every overlay, every environment log (duplicate keys included: the newest wins
   in both) - and therefore expand every string alike *)
Theorem Compose_expansion_agree : forall emap e,
  (forall k, L.mapping emap e k = S.exec_mapping (snapshot e) emap k) /\
  (forall s, expand (L.mapping emap e) s = expand (S.exec_mapping (snapshot e) emap) s) /\
  (forall k, S.getenv (snapshot e) k = env_get e k) /\ NoDup (map fst (snapshot e)).
Proof. exact (fun emap e => conj (mapping_agree emap e) (conj (expansion_agree emap e) (conj (snapshot_getenv e) (snapshot_nodup e)))). Qed.

Section W.
Variable child_out : list (string * string) -> list (string * string) -> list string -> string.
Variable child_exit : list (string * string) -> list (string * string) -> list string -> nat.
Variable h0 : L.heap.
Variable cls0 : list L.closure.
Hypothesis closures_in_heap : LF.cls_ok h0 cls0.

(* (1) For every call operation at ANY position of ANY history (any entry point; closures made anywhere
   earlier, baked-in + call-time arguments through any slices; any env overlay; any environment log; any
   children, failing ones included): the argv L's memory model hands the child - after joinArgs, the
   variadic hand-over and Exec's copy - is exactly the argv C15's model expands and runs on the caller's
   original elements (cmd and args expanded alike, overlay over process environment). *)
Theorem Compose_child_argv_agree : forall child penv pre o post x,
  Forall (LF.op_ok h0) (pre ++ o :: post) ->
  S_of_op child h0 (LF.cls_at cls0 pre) (LF.env_at penv pre) o = Some x ->
  exists out so st h',
    nth_error (L.run_history child_out child_exit true penv cls0 h0 (pre ++ o :: post)) (length pre)
    = Some (L.OCall (S.k_argv x) out so st, h').
Proof. exact (child_argv_agree child_out child_exit h0 cls0 closures_in_heap). Qed.

(* ... and for every interleaving of the atomic memory actions of two overlapping calls *)
Theorem Compose_concurrent_argv_agree : forall child penv oA oB pA fA pB fB xA xB,
  LF.op_ok h0 oA -> LF.op_ok h0 oB ->
  L.call_prog child_out child_exit true cls0 penv oA = Some (pA, fA) ->
  L.call_prog child_out child_exit true cls0 penv oB = Some (pB, fB) ->
  S_of_op child h0 cls0 penv oA = Some xA -> S_of_op child h0 cls0 penv oB = Some xB ->
  forall h a b hf, firstn (length h0) h = h0 -> L.par_run pA pB h a b hf ->
  a = S.k_argv xA /\ b = S.k_argv xB.
Proof. exact (concurrent_argv_agree child_out child_exit h0 cls0 closures_in_heap). Qed.

(* (2) Repeatable in OUTCOME.  [child_n i] is the child's behaviour at the i-th operation; the premise
   [deterministic] says it is one function of (argv, envp).  Two calls of one closure - anywhere in one
   history or in two, first or later, whatever ran in between - with the same call-time elements in the
   same environment: L starts both children with the argv C15 runs, and C15's records of the two calls are
   EQUAL (ran, sh/mg exit status, text, captured output, the child's result). *)
Theorem Compose_call_is_repeatable_in_outcome : forall child_n, deterministic child_n ->
  forall penv1 pre1 extra1 post1 penv2 pre2 extra2 post2 c cl,
  Forall (LF.op_ok h0) (pre1 ++ L.CallClosure c extra1 :: post1) ->
  Forall (LF.op_ok h0) (pre2 ++ L.CallClosure c extra2 :: post2) ->
  nth_error (LF.cls_at cls0 pre1) c = Some cl -> nth_error (LF.cls_at cls0 pre2) c = Some cl ->
  L.contents h0 extra1 = L.contents h0 extra2 ->
  snapshot (LF.env_at penv1 pre1) = snapshot (LF.env_at penv2 pre2) ->
  let x1 := S_closure (child_n (length pre1)) h0 (LF.env_at penv1 pre1) cl extra1 in
  let x2 := S_closure (child_n (length pre2)) h0 (LF.env_at penv2 pre2) cl extra2 in
  (exists out so st h', nth_error (L.run_history child_out child_exit true penv1 cls0 h0 (pre1 ++ L.CallClosure c extra1 :: post1)) (length pre1)
                        = Some (L.OCall (S.k_argv x1) out so st, h')) /\
  (exists out so st h', nth_error (L.run_history child_out child_exit true penv2 cls0 h0 (pre2 ++ L.CallClosure c extra2 :: post2)) (length pre2)
                        = Some (L.OCall (S.k_argv x2) out so st, h')) /\
  x1 = x2 /\ outcome_of x1 = outcome_of x2.
Proof. exact (repeatable_in_outcome child_out child_exit h0 cls0 closures_in_heap). Qed.

(* ... and for EVERY interleaving that L's model allows for two overlapping calls of the closure *)
Theorem Compose_concurrent_calls_same_outcome : forall child_n, deterministic child_n ->
  forall penv c cl extraA extraB pA fA pB fB,
  LF.op_ok h0 (L.CallClosure c extraA) -> LF.op_ok h0 (L.CallClosure c extraB) ->
  nth_error cls0 c = Some cl ->
  L.call_prog child_out child_exit true cls0 penv (L.CallClosure c extraA) = Some (pA, fA) ->
  L.call_prog child_out child_exit true cls0 penv (L.CallClosure c extraB) = Some (pB, fB) ->
  L.contents h0 extraA = L.contents h0 extraB ->
  forall h a b hf, firstn (length h0) h = h0 -> L.par_run pA pB h a b hf ->
  let xA := S_closure (child_n 0) h0 penv cl extraA in
  let xB := S_closure (child_n 1) h0 penv cl extraB in
  a = S.k_argv xA /\ b = S.k_argv xB /\ xA = xB /\ outcome_of xA = outcome_of xB.
Proof. exact (repeatable_concurrent child_out child_exit h0 cls0 closures_in_heap). Qed.
End W.

(* what comes BACK: for a child that does not look at its environment (L's children are functions of the argv
   alone) L's whole observation of every call of every history - argv, text handed back, bytes on os.Stdout,
   exit status - is C15's record of the translated call seen through [obs_of_call]: same TrimSuffix, same
   mg.Verbose(), same routing, same status, for every child result (exited with any code, signaled, not started) *)
Theorem Compose_observation_agree : forall child h0 cls0 penv pre o post x, env_blind child ->
  LF.cls_ok h0 cls0 -> Forall (LF.op_ok h0) (pre ++ o :: post) ->
  S_of_op child h0 (LF.cls_at cls0 pre) (LF.env_at penv pre) o = Some x ->
  exists f h', nth_error (L.run_history (L_out child) (L_exit child) true penv cls0 h0 (pre ++ o :: post)) (length pre)
               = Some (obs_of_call f x, h') /\
               match o with
               | L.CallClosure c _ => exists cl, nth_error (LF.cls_at cls0 pre) c = Some cl /\ f = kind_entry (L.cl_kind cl)
               | L.CallDirect g _ _ _ => f = to_entry g
               | _ => False
               end.
Proof. exact observation_agree. Qed.

Theorem Compose_helpers_agree :
  (forall s, L.trim_nl s = S.trim_nl s) /\ (forall s, L.parse_bool_true s = S.parse_bool s) /\
  (forall e, L.verbose e = S.verbose (snapshot e)) /\
  (forall f emap, S.entry_env (to_entry f) emap = if L.uses_map f then emap else []).
Proof. exact (conj trim_agree (conj parse_bool_agree (conj verbose_agree uses_map_agree))). Qed.

(* the environment C15 starts the child with answers every lookup as the expansion of L's model did *)
Theorem Compose_child_env_agree : forall child e f emap cmd argsl,
  SF.keys_ok (snapshot e) -> SF.keys_ok emap ->
  let x := S.call_entry (snapshot e) child (to_entry f) emap cmd argsl in
  forall k, SF.or_empty (S.child_getenv (S.k_envp x) k) = L.mapping (if L.uses_map f then emap else []) e k.
Proof. exact child_env_agree. Qed.

(* the translation of the environment is needed: L's log handed to C15's model as it is would give the
   child the STALE value of a variable that was set twice (os/exec lets the last entry win) *)
Theorem Compose_log_is_not_a_snapshot :
  let log := [("A", "new"); ("A", "old")] in
  S.getenv log "A" = "new" /\
  S.child_getenv (S.dedup_env (S.environ log)) "A" = Some "old" /\
  S.child_getenv (S.dedup_env (S.environ (snapshot log))) "A" = Some "new" /\ env_get log "A" = "new".
Proof. exact log_is_not_a_snapshot. Qed.

Print Assumptions Compose_expansion_agree.
Print Assumptions Compose_child_argv_agree.
Print Assumptions Compose_concurrent_argv_agree.
Print Assumptions Compose_call_is_repeatable_in_outcome.
Print Assumptions Compose_concurrent_calls_same_outcome.
Print Assumptions Compose_observation_agree.
Print Assumptions Compose_helpers_agree.
Print Assumptions Compose_child_env_agree.
Print Assumptions Compose_log_is_not_a_snapshot.

(* (3) non-vacuity: an OutCmd closure with baked-in "-n" "$A" (slice len 2 / cap 3 over ["-n";"$A";"${A}x"]), called;
   OutputWith with an overlay redefining A on the same array (this child prints and exits 3); two Setenv; the
   closure called again: L's history and C15's records, the overlay wins in the expansion and in the child's
   environment, the second closure call has the first one's outcome although its environment block differs *)
Example Compose_C16_C15_nonvacuous :
  env_blind nv_child /\ deterministic (fun _ => nv_child) /\ Forall (LF.op_ok nv_h0) nv_ops /\
  map fst (L.run_history (L_out nv_child) (L_exit nv_child) true nv_log [] nv_h0 nv_ops) =
    [L.OMk; L.OCall ["echo"; "-n"; "one"; "tail"] (Some "-n one tail") "" 0;
     L.OCall ["echo"; "-n"; "over"; "overx"] (Some "-n over overx") "" 3;
     L.OSet; L.OSet; L.OCall ["echo"; "-n"; "one"; "tail"] (Some "-n one tail") "" 0] /\
  let x1 := S_closure nv_child nv_h0 nv_log nv_cl (LF.sl 1 0 1 1) in
  let x2 := S_closure nv_child nv_h0 (("A", "one") :: ("B", "unrelated") :: nv_log) nv_cl (LF.sl 1 0 1 1) in
  let y := S.call_entry (snapshot nv_log) nv_child S.FOutputWith [("A", "over")] "echo" ["-n"; "$A"; "${A}x"] in
  S.k_argv x1 = ["echo"; "-n"; "one"; "tail"] /\ S.k_text x1 = "-n one tail" /\ S.k_err x1 = S.ENil /\
  S.k_argv y = ["echo"; "-n"; "over"; "overx"] /\ S.k_text y = "-n over overx" /\ S.k_err y = S.EFatal 3 /\ S.k_ran y = true /\
  S.child_getenv (S.k_envp y) "A" = Some "over" /\ S.child_getenv (S.k_envp x1) "A" = Some "one" /\
  S.k_argv x2 = S.k_argv x1 /\ outcome_of x2 = outcome_of x1 /\ S.k_envp x2 <> S.k_envp x1.
Proof. exact nonvacuous_compose. Qed.
Print Assumptions Compose_C16_C15_nonvacuous.
