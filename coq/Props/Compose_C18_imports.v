(* Composition: the three independent transcriptions of parse.setImports / getNamedImports -
   Model/Gen.v (C18), Model/Dupes.v (C07), Model/ImportTag.v (C19) - agree on the collection: the
   list of (path, alias) pairs in the order the imports are fetched.  Statements only; proofs and
   the translations in Proof/Bridge_C18_imports.v.

   Common projection: the tagged import specs of the package as (path, alias) pairs in visiting
   order (alias "" = root import):
     gen_specs files       Gen: specs of the files taken in sorted file-name order
     map dpa (imports pk)  Dupes: the package's import list (Dupes has no files)
     it_pairs gip files    ImportTag: what the scanner [gip] returns for the specs of the files (already
                           listed in visiting order), specs it rejects left out
   Reference reading:
     core l = sort by (path, alias) (put-if-absent over the named pairs of l)
              ++ put-if-absent over the root pairs of l (a package imported bare twice is one import, 4a102aa). *)
From Mage Require Import Base.Strs Model.Gen Proof.SortPerm Proof.Gen_facts Proof.Bridge_C18_imports.
From Mage Require Model.Dupes Model.ImportTag.

Print core.

(* Gen: what set_imports hands to get_all is core of its specs, whatever the range over importNames does,
   and it is the (path, alias) list of the imports it returns *)
Theorem Compose_gen_core : forall rng files, is_range rng -> gen_collection rng files = core (gen_specs files).
Proof. exact gen_core. Qed.

Theorem Compose_gen_imports : forall env rng files imps,
  set_imports env true rng files = Some imps -> map gpa imps = gen_collection rng files.
Proof. exact gen_imports_are_collection. Qed.

(* Dupes: ordered_imports (and effective_imports, the same without the sort) *)
Theorem Compose_dupes_core : forall pk, map dpa (Dupes.ordered_imports pk) = core (map dpa (Dupes.imports pk)).
Proof. exact dupes_core. Qed.

Theorem Compose_dupes_effective : forall pk,
  map dpa (Dupes.effective_imports pk) = core_unsorted (map dpa (Dupes.imports pk)).
Proof. exact dupes_effective_core. Qed.

(* ImportTag: for every scanner; and for the real one the imports set_imports returns *)
Theorem Compose_importtag_core : forall gip files, it_collection gip files = core (it_pairs gip files).
Proof. exact it_core. Qed.

Theorem Compose_importtag_imports : forall golist dir files imps,
  ImportTag.set_imports golist dir files = Some imps ->
  map ipa imps = it_collection ImportTag.get_import_path files.
Proof. exact it_imports_are_collection. Qed.

(* the three agree, as lists, on every package: same specs, same collection *)
Theorem Compose_C18_imports_agree : forall rng gfiles pk gip ifiles,
  is_range rng ->
  gen_specs gfiles = map dpa (Dupes.imports pk) ->
  gen_specs gfiles = it_pairs gip ifiles ->
  gen_collection rng gfiles = map dpa (Dupes.ordered_imports pk) /\
  gen_collection rng gfiles = it_collection gip ifiles.
Proof. exact three_agree. Qed.

(* the pieces: put-if-absent and the order are the same function in the three spellings *)
Theorem Compose_set_put : forall p a m, ImportTag.set_put p a m = sadd (p, a) m.
Proof. exact set_put_sadd. Qed.

Theorem Compose_sort_pairs : forall l, ImportTag.sort_pairs l = sort_le pair_leb l.
Proof. exact sort_pairs_le. Qed.

Theorem Compose_isort : forall l, map dpa (Dupes.isort Dupes.import_ltb l) = sort_le pair_leb (map dpa l).
Proof. exact dupes_isort. Qed.

Print Assumptions Compose_gen_core.
Print Assumptions Compose_gen_imports.
Print Assumptions Compose_dupes_core.
Print Assumptions Compose_dupes_effective.
Print Assumptions Compose_importtag_core.
Print Assumptions Compose_importtag_imports.
Print Assumptions Compose_C18_imports_agree.
Print Assumptions Compose_set_put.
Print Assumptions Compose_sort_pairs.
Print Assumptions Compose_isort.

(* one package written in the three vocabularies: x/t under two aliases (one pair twice), x/z,
   x/r as root import twice (collected once), over two files; the hypotheses of the agreement hold and the common
   collection is the expected list *)
Example Compose_C18_imports_nonvacuous :
  let want := [("x/t", "one"); ("x/t", "two"); ("x/z", "aa"); ("x/r", "")] in
  gen_specs ex_gen_files = map dpa (Dupes.imports ex_dupes_pkg) /\
  gen_specs ex_gen_files = it_pairs ImportTag.get_import_path ex_it_files /\
  gen_collection (@rev _) ex_gen_files = want /\
  map dpa (Dupes.ordered_imports ex_dupes_pkg) = want /\
  it_collection ImportTag.get_import_path ex_it_files = want.
Proof. exact example_agree. Qed.
Print Assumptions Compose_C18_imports_nonvacuous.
