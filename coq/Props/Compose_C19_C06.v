(* Composition C19 -> C06 -> C04.  C19's model takes "the targets of an imported package" as data
   ([golist dir path : option pkginfo], [pk_funcs] = (receiver, name) pairs supplied by the go tool /
   the generator).  C06's model DECIDES the targets of any package of abstract declarations; C04's
   model decides how command-line words resolve to template targets.  Statements only; the
   translation and the proofs are in Proof/Bridge_C19_C06.v.
   C = Model/Classify, CF = Proof/Classify_facts, D = Model/Dispatch, DS = Model/DispatchSpec,
   I = Model/ImportTag, IF = Proof/ImportTag_facts.

   Translation (Proof/Bridge_C19_C06.v):
     world dir path       : option (package name * C.pkg)   the go tool's answer, the package as DECLARATIONS
     golist_of world      := world with every package replaced by
     pkginfo_of name pk   := {| pk_name := name; pk_funcs := map func_of (C.funcs pk);
                               pk_default / pk_aliases := the package's own Default / Aliases (ignored by C19) |}
     func_of f            := (receiver C.f_recv f, name C.f_name f), alias and import path empty
     decl_name d          := Receiver:Name or Name of a declaration (Proof/Bridge_C06_C04.v)
     imp_target def_of alias path f := the template target {| tname := TargetName with PkgAlias = alias;
                               targs := the declared non-context parameter types (C06); tdef := def_of path f |}
     info_with_imports world def_of dir lpk tags := template data of the magefile package lpk: its own
                               Funcs / Aliases / Default (C06) and one import per distinct named
                               (path, alias) pair and per root import of tags (what set_imports visits)

   Where the types line up and where they do not:
   * names: I.target_name = D.tname exactly, in the ORIGINAL letter case (C19's lower-cased
     [dispatch_name] is I.to_lower of it, and I.to_lower = D.lower = C.lower: Compose_C19_lower_agrees);
     nothing had to be weakened to a `_partial` statement;
   * C19's [func] carries no parameter list and no body identifier: [targs] / [tdef] of the template
     target come from C06's Function, not from C19's model;
   * what remains a hypothesis in the last theorem is C04's premise DS.no_collision of the template
     data: Props/Compose.v derives it from C07's acceptance for data built from Dupes.pkg; a
     translation Dupes.pkg <-> (C.pkg with imports) is not formalised, so it is not discharged here. *)
From Mage Require Import Base.Strs.
From Coq Require Import Permutation.
From Mage Require Import Proof.Bridge_C06_C04 Proof.Bridge_C19_C06.

(* the three models write strings.ToLower (ASCII) separately; it is the same function *)
Theorem Compose_C19_lower_agrees : forall s, I.to_lower s = D.lower s /\ D.lower s = C.lower s.
Proof. intros s. split; [apply to_lower_agrees|apply lower_agrees]. Qed.

Section W.
Variable world : string -> string -> option (string * C.pkg).

(* (1) the names a tagged import contributes are exactly alias: + Receiver:Name / Name of the
   declarations of the imported package that satisfy C06's valid_sig (exported functions and
   exported methods of namespace types with valid signatures); bare tag = no prefix.
   For every imported package, every alias, every directory. *)
Theorem C19_exposes_valid_targets : forall dir p t n pk, world dir p = Some (n, pk) ->
  forall name,
  In name (map I.target_name (IF.contrib (golist_of world) dir (p, Some t))) <->
  exists d, In d (C.decls pk) /\ CF.valid_sig pk d /\ name = IF.prefixed (IF.alias_str t) (decl_name d).
Proof. exact (exposes_valid_targets world). Qed.

(* ... as a list: one name per Classify target, in Package()'s order (namespace methods first) *)
Theorem C19_exposed_names_are_C06_targets : forall dir p t n pk, world dir p = Some (n, pk) ->
  map I.target_name (IF.contrib (golist_of world) dir (p, Some t)) =
  map (fun df => IF.prefixed (IF.alias_str t) (decl_name (fst df))) (C.targets pk).
Proof. exact (exposed_names_are_targets world). Qed.

Theorem C19_untagged_exposes_nothing : forall dir p, IF.contrib (golist_of world) dir (p, None) = [].
Proof. exact (untagged_exposes_nothing world). Qed.

(* the whole magefile package (composed with C19_exposes_exactly): the import scan succeeds and a
   name is exposed iff it is alias: + the name of a valid declaration of a tagged package *)
Theorem C19_C06_package_exposes_valid_targets : forall dir files,
  (forall p t, In (p, Some t) (IF.tags files) -> world dir p <> None) ->
  exists imps, I.set_imports (golist_of world) dir files = Some imps /\
    forall name, In name (map I.target_name (I.exposed imps)) <->
      exists p t n pk d, In (p, Some t) (IF.tags files) /\ world dir p = Some (n, pk) /\
                         In d (C.decls pk) /\ CF.valid_sig pk d /\
                         name = IF.prefixed (IF.alias_str t) (decl_name d).
Proof. exact (package_exposes_valid_targets world). Qed.

Variable def_of : string -> C.function -> nat.     (* identifier of a declaration: (import path, function); arbitrary *)

(* the template data built from the declarations names exactly what C19's model exposes *)
Theorem C19_C04_template_names_are_exposed : forall dir lpk files,
  (forall p t, In (p, Some t) (IF.tags files) -> world dir p <> None) ->
  exists imps, I.set_imports (golist_of world) dir files = Some imps /\
    Permutation (map D.tname (concat (D.imports (info_with_imports world def_of dir lpk (IF.tags files)))))
                (map I.target_name (I.exposed imps)).
Proof. exact (template_names_are_exposed world def_of). Qed.

(* (2) each exposed name, typed in any letter case, resolves (C04) to the template target built
   from that declaration with its alias *)
Theorem C19_C04_imported_target_resolves : forall dir lpk tags p t n pk d f w,
  In (p, Some t) tags -> world dir p = Some (n, pk) -> In (d, f) (C.targets pk) ->
  D.lower w = D.lower (IF.prefixed (IF.alias_str t) (decl_name d)) ->
  DS.resolves (info_with_imports world def_of dir lpk tags) w (imp_target def_of (IF.alias_str t) p f).
Proof. exact (imported_target_resolves world def_of). Qed.

(* ... and, composed with C04_args_in_declaration_order and C06's typing of the parameters: in
   ANY collision-free template data in which the word resolves to that target, the dispatcher
   calls that declaration's body with one value per declared non-context parameter, the k-th
   word converted at the k-th DECLARED type *)
Theorem C19_C04_imported_target_runs : forall conv fails env (i : D.info) pk d f a p w args rest,
  In (d, f) (C.targets pk) ->
  DS.no_collision i -> DS.resolves i w (imp_target def_of a p f) ->
  List.length args = List.length (nonctx_types d) ->
  (forall k ty x, nth_error (nonctx_types d) k = Some (pty_back ty) -> nth_error args k = Some x -> D.convert conv ty x <> None) ->
  exists vs cs e,
    D.dispatch conv fails i env (w :: args ++ rest) = (D.mkcall (imp_target def_of a p f) vs :: cs, e) /\
    D.tname (imp_target def_of a p f) = IF.prefixed a (decl_name d) /\
    List.length vs = List.length (nonctx_types d) /\
    (forall k ty x, nth_error (nonctx_types d) k = Some (pty_back ty) -> nth_error args k = Some x ->
                    nth_error vs k = D.convert conv ty x).
Proof. exact (imported_target_runs def_of). Qed.

(* end to end over the template data of a magefile package with imports.  Remaining hypothesis:
   DS.no_collision of that data (C07's subject; see the header). *)
Theorem C19_C06_C04_imported_name_runs_declaration : forall conv fails env dir lpk tags p t n pk d f w args rest,
  In (p, Some t) tags -> world dir p = Some (n, pk) -> In (d, f) (C.targets pk) ->
  D.lower w = D.lower (IF.prefixed (IF.alias_str t) (decl_name d)) ->
  DS.no_collision (info_with_imports world def_of dir lpk tags) ->
  List.length args = List.length (nonctx_types d) ->
  (forall k ty x, nth_error (nonctx_types d) k = Some (pty_back ty) -> nth_error args k = Some x -> D.convert conv ty x <> None) ->
  exists vs cs e,
    D.dispatch conv fails (info_with_imports world def_of dir lpk tags) env (w :: args ++ rest) =
      (D.mkcall (imp_target def_of (IF.alias_str t) p f) vs :: cs, e) /\
    D.tdef (imp_target def_of (IF.alias_str t) p f) = def_of p f /\
    List.length vs = List.length (nonctx_types d) /\
    (forall k ty x, nth_error (nonctx_types d) k = Some (pty_back ty) -> nth_error args k = Some x ->
                    nth_error vs k = D.convert conv ty x).
Proof. exact (imported_name_runs_declaration world def_of). Qed.
End W.

Print Assumptions Compose_C19_lower_agrees.
Print Assumptions C19_exposes_valid_targets.
Print Assumptions C19_exposed_names_are_C06_targets.
Print Assumptions C19_untagged_exposes_nothing.
Print Assumptions C19_C06_package_exposes_valid_targets.
Print Assumptions C19_C04_template_names_are_exposed.
Print Assumptions C19_C04_imported_target_resolves.
Print Assumptions C19_C04_imported_target_runs.
Print Assumptions C19_C06_C04_imported_name_runs_declaration.

(* non-vacuity: C06's example package (BuildAll(ctx, a, b string, int) (err error); the namespace
   method NS.Ptr(time.Duration); five non-targets) mage:import'ed as `// mage:import Tools` by a
   magefile package declaring the same: the tag scanner, C06's classification and C04's
   dispatcher together - collision-free data, three bodies run with converted words *)
Example Compose_C19_C06_nonvacuous :
  IF.tags ex_files = [("ex/imp/a", Some (Some "tools"))] /\
  option_map (fun imps => map I.target_name (I.exposed imps)) (I.set_imports (golist_of ex_world) "build" ex_files) =
    Some ["tools:NS:Ptr"; "tools:BuildAll"] /\
  map (fun t => (D.tname t, D.targs t, D.tdef t)) (DS.targets ex_info) =
    [("NS:Ptr", [D.TDur], 3); ("BuildAll", [D.TString; D.TString; D.TInt], 8);
     ("tools:NS:Ptr", [D.TDur], 11); ("tools:BuildAll", [D.TString; D.TString; D.TInt], 16)] /\
  DS.no_collision ex_info /\
  D.dispatch ex_conv (fun _ _ => false) ex_info "" ["TOOLS:ns:PTR"; "90s"; "tools:buildall"; "x"; "y"; "007"; "buildall"; "a"; "b"; "007"] =
    ([ {| D.cdef := 11; D.cvals := [D.VConv D.TDur "1m30s"] |};
       {| D.cdef := 16; D.cvals := [D.VStr "x"; D.VStr "y"; D.VConv D.TInt "7"] |};
       {| D.cdef := 8; D.cvals := [D.VStr "a"; D.VStr "b"; D.VConv D.TInt "7"] |} ], D.Done).
Proof. exact nonvacuous_c19_c06. Qed.
Print Assumptions Compose_C19_C06_nonvacuous.
