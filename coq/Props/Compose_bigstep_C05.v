(* Composition big-step engine => C05, GLOBAL: for engine programs inside the exit-chain model's
   fragment, ExitChain's memo-less evaluation of the UNFOLDED tree describes the engine's memoised
   outcome, so for every schedule mage's process status for a target is one number.
   Statements only; proofs in Proof/Bridge_bigstep_C05.v (which builds on Proof/Deps_bigstep.v and the
   local bridge Proof/Bridge_C03_C05.v).

   Vocabulary (Proof/Bridge_bigstep_C05.v, executable):
     leaf_of o        Ok -> BOk, Err c _ -> BFatal c, PanicErr c _ -> BPanicFatal c, PanicVal _ -> BPanicVal
     unfold p k       Some tree when k is expressible: its body has no calls (leaf_of its result), or
                      exactly one UNGUARDED call and result Ok, all members expressible:
                      BDeps (style = Ser) (the members' trees).  A member named twice stands twice.
     call_tree u c    the target body mg.Deps(..)/mg.SerialDeps(..) of call c from the members' trees
     root_unfold p n  the tree of target n when its call list is one unguarded call with expressible members
     tree_status b    halt_status (run_mentions [MRun b]): the process status ExitChain's generated main gives
     root_outcome tr n x   in the engine trace, call 0 of root n panicked with Fatal(x, _), or returned and x = 0
   [sees r b] (Bridge_C03_C05): b describes r - same way of ending, same status (ExitChain has no messages). *)
From Mage Require Import Base.Strs Model.Deps Model.ExitChain.
From Mage Require Import Proof.Deps_defs Proof.Deps_progress Proof.Bridge_C03_C05 Proof.Deps_bigstep.
From Mage Require Import Proof.Bridge_bigstep_C05.

(* the unfolding satisfies its defining equation on acyclic programs *)
Theorem Compose_unfold_eq : forall p k, acyclic p ->
  unfold p k =
  match b_calls (bodies p k), b_result (bodies p k) with
  | [], o => Some (leaf_of o)
  | [c], Ok => if c_guarded c then None else call_tree (unfold p) c
  | _, _ => None
  end.
Proof. exact unfold_eq. Qed.
Print Assumptions Compose_unfold_eq.

(* ExitChain's SerialDeps on descriptions of the members: the first failing member decides *)
Theorem Compose_serialDeps_first_failure : forall rs bs, Forall2 sees rs bs ->
  ExitChain.serialDeps bs =
  match find nonnil rs with
  | None => Returned VNil
  | Some r => Panicked (VFatal (combine [status r]))
  end.
Proof. exact serialDeps_find. Qed.
Print Assumptions Compose_serialDeps_first_failure.

(* one call: ExitChain's mg.Deps(ds...) / mg.SerialDeps(ds...) ends as the big-step [call_res] says *)
Theorem Compose_call_res_is_ExitChain : forall f c ds,
  Forall2 sees (map f (c_deps c)) (map run_body ds) ->
  run_body (BDeps (is_ser c) ds) =
  match call_res f c with CRet => Returned VNil | CPan x _ => Panicked (VFatal x) end.
Proof. exact call_res_ExitChain. Qed.
Print Assumptions Compose_call_res_is_ExitChain.

(* THE GLOBAL BRIDGE: ExitChain's evaluation of the unfolded tree describes the big-step outcome;
   that dependencies mentioned twice are evaluated twice there and once in the engine does not matter *)
Theorem Compose_unfold_sees : forall p k b,
  acyclic p -> unfold p k = Some b -> sees (ev p k) (run_body b).
Proof. exact unfold_sees. Qed.
Print Assumptions Compose_unfold_sees.

Theorem Compose_call_tree_is_call_res : forall p c b, acyclic p -> call_tree (unfold p) c = Some b ->
  run_body b = match call_res (ev p) c with CRet => Returned VNil | CPan x _ => Panicked (VFatal x) end.
Proof. exact call_tree_is_call_res. Qed.
Print Assumptions Compose_call_tree_is_call_res.

(* (a) under every schedule, what the body of an expressible dependency ends with is described by
   ExitChain's evaluation of its tree: same way of ending, same status *)
Theorem Compose_body_end_sees : forall p s tr k r b,
  acyclic p -> reach true p s tr -> In (BodyEnd k r) tr -> unfold p k = Some b -> sees r (run_body b).
Proof. exact body_end_sees. Qed.
Print Assumptions Compose_body_end_sees.

(* so the premise [describes] of the local bridge (Compose_C03_C05) always holds in the fragment *)
Theorem Compose_unfold_describes : forall p s tr ks ds,
  acyclic p -> reach true p s tr -> all_some (map (unfold p) ks) = Some ds -> describes tr ks ds.
Proof. exact unfold_describes. Qed.
Print Assumptions Compose_unfold_describes.

(* (b) a call with expressible members, of any task, under every schedule: when it panics in the
   engine, the target consisting of that call panics in ExitChain with Fatal(the same status) and
   the generated main exits with it after one target; when it returns, the main loop goes on *)
Theorem Compose_call_panic_is_tree : forall p s tr t pc c b x m,
  acyclic p -> reach true p s tr -> nth_error (calls_of p t) pc = Some c ->
  call_tree (unfold p) c = Some b -> In (CallPanic t pc x m) tr ->
  run_body b = Panicked (VFatal x) /\
  forall rest, halt_status (run_mentions (MRun b :: rest)) = kernel x /\
               h_ran (run_mentions (MRun b :: rest)) = 1.
Proof. exact call_panic_is_tree. Qed.
Print Assumptions Compose_call_panic_is_tree.

Theorem Compose_call_return_is_tree : forall p s tr t pc c b,
  acyclic p -> reach true p s tr -> nth_error (calls_of p t) pc = Some c ->
  call_tree (unfold p) c = Some b -> In (CallReturn t pc) tr ->
  run_body b = Returned VNil /\
  forall rest, h_exit (run_mentions (MRun b :: rest)) = h_exit (run_mentions rest) /\
               h_ran (run_mentions (MRun b :: rest)) = S (h_ran (run_mentions rest)).
Proof. exact call_return_is_tree. Qed.
Print Assumptions Compose_call_return_is_tree.

(* the end-to-end statement for a target (root) in the fragment *)
Theorem Compose_root_panic_status : forall p s tr n b x m,
  acyclic p -> reach true p s tr -> root_unfold p n = Some b -> In (CallPanic (TRoot n) 0 x m) tr ->
  run_body b = Panicked (VFatal x) /\ mg_ExitStatus (VFatal x) = x /\
  forall rest, halt_status (run_mentions (MRun b :: rest)) = kernel x /\
               h_ran (run_mentions (MRun b :: rest)) = 1.
Proof. exact root_panic_status. Qed.
Print Assumptions Compose_root_panic_status.

Theorem Compose_root_return_goes_on : forall p s tr n b,
  acyclic p -> reach true p s tr -> root_unfold p n = Some b -> In (CallReturn (TRoot n) 0) tr ->
  run_body b = Returned VNil /\
  forall rest, h_exit (run_mentions (MRun b :: rest)) = h_exit (run_mentions rest) /\
               h_ran (run_mentions (MRun b :: rest)) = S (h_ran (run_mentions rest)).
Proof. exact root_return_goes_on. Qed.
Print Assumptions Compose_root_return_goes_on.

Theorem Compose_root_outcome_status : forall p s tr n b x,
  acyclic p -> reach true p s tr -> root_unfold p n = Some b -> root_outcome tr n x ->
  tree_status b = kernel x.
Proof. exact root_outcome_status. Qed.
Print Assumptions Compose_root_outcome_status.

(* when nothing can move any more the target has ended, in exactly one way *)
Theorem Compose_root_ends_in_final : forall p s tr n b,
  reach true p s tr -> final s -> root_unfold p n = Some b ->
  exists x, root_outcome tr n x /\ forall x', root_outcome tr n x' -> x' = x.
Proof. exact root_ends_in_final. Qed.
Print Assumptions Compose_root_ends_in_final.

(* (c) two arbitrary maximal schedules of the same program: the target ends the same way with the
   same status x, x is mg_ExitStatus of what ExitChain's tree panics with, and the process status
   is x mod 256 (0 and a nil return otherwise) *)
Theorem Compose_exit_status_schedule_independent : forall p n b s1 tr1 s2 tr2,
  acyclic p -> root_unfold p n = Some b ->
  reach true p s1 tr1 -> final s1 -> reach true p s2 tr2 -> final s2 ->
  (In (CallReturn (TRoot n) 0) tr1 /\ In (CallReturn (TRoot n) 0) tr2 /\ run_body b = Returned VNil /\
   tree_status b = 0%Z)
  \/
  (exists x m1 m2 v, In (CallPanic (TRoot n) 0 x m1) tr1 /\ In (CallPanic (TRoot n) 0 x m2) tr2 /\
                     Permutation m1 m2 /\ run_body b = Panicked v /\ mg_ExitStatus v = x /\
                     tree_status b = kernel x).
Proof. exact exit_status_schedule_independent. Qed.
Print Assumptions Compose_exit_status_schedule_independent.

(* in one sentence: every schedule run from the start until nothing can move ends target n with the
   status ExitChain computes from the tree - one number per program and target ... *)
Theorem Compose_process_status_every_schedule : forall p n b acts s tr,
  acyclic p -> root_unfold p n = Some b ->
  run true p (init p) acts = Some (s, tr) -> (forall a, step true p s a = None) ->
  exists x, root_outcome tr n x /\ (forall x', root_outcome tr n x' -> x' = x) /\ tree_status b = kernel x.
Proof. exact process_status_every_schedule. Qed.
Print Assumptions Compose_process_status_every_schedule.

(* ... and every partial execution can be completed to such an end *)
Theorem Compose_process_status_is_reached : forall p n b s tr,
  acyclic p -> root_unfold p n = Some b -> reach true p s tr ->
  exists acts s' tr' x, run true p s acts = Some (s', tr') /\ final s' /\
                        root_outcome (tr ++ tr') n x /\ tree_status b = kernel x.
Proof. exact process_status_is_reached. Qed.
Print Assumptions Compose_process_status_is_reached.

(* non-vacuity.  bx_prog: 0 returns Fatal(2), 1 panics with Fatal(3), 2 succeeds, 6 returns Fatal(7);
   3 = mg.Deps(2, 0), 4 = mg.Deps(2, 1) (the middle of a diamond over 2; statuses 2 and 3),
   5 = mg.Deps(3, 4) (status 1); target 0 = mg.Deps(5), target 1 = mg.SerialDeps(2, 6, 5). *)
Example Compose_bx_acyclic : acyclic bx_prog.
Proof. exact bx_acyclic. Qed.
Print Assumptions Compose_bx_acyclic.

Example Compose_bx_trees :
  root_unfold bx_prog 0 =
    Some (BDeps false [BDeps false [BDeps false [BOk; BFatal 2]; BDeps false [BOk; BPanicFatal 3]]]) /\
  root_unfold bx_prog 1 =
    Some (BDeps true [BOk; BFatal 7;
                      BDeps false [BDeps false [BOk; BFatal 2]; BDeps false [BOk; BPanicFatal 3]]]).
Proof. exact bx_trees. Qed.
Print Assumptions Compose_bx_trees.

Example Compose_bx_status :
  option_map tree_status (root_unfold bx_prog 0) = Some 1%Z /\
  option_map tree_status (root_unfold bx_prog 1) = Some 7%Z /\
  map (fun k => status (ev bx_prog k)) [3; 4; 5; 6] = [2; 3; 1; 7]%Z.
Proof. exact bx_status. Qed.
Print Assumptions Compose_bx_status.

(* the engine trace of one concrete maximal schedule (found by the first-enabled driver) agrees:
   target 0 panics with 1, target 1 with 7, every body ends with the evaluated status, and
   dependency 2 - three times in the second tree - ran once *)
Example Compose_bx_sched_driven :
  drive bx_prog (prio_rev bx_prog) (bound bx_prog) (init bx_prog) = bx_sched.
Proof. exact bx_sched_driven. Qed.
Print Assumptions Compose_bx_sched_driven.

Example Compose_bx_run_agrees : exists s tr,
  run true bx_prog (init bx_prog) bx_sched = Some (s, tr) /\ final s /\
  In (CallPanic (TRoot 0) 0 1 [8; 7]) tr /\ In (CallPanic (TRoot 1) 0 7 [9]) tr /\
  root_outcome tr 0 1 /\ root_outcome tr 1 7 /\ nstart 2 tr = 1 /\
  map (fun kr => status (snd kr)) (ends tr) = map (fun kr => status (ev bx_prog (fst kr))) (ends tr).
Proof. exact bx_run_agrees. Qed.
Print Assumptions Compose_bx_run_agrees.
