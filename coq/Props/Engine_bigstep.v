(* The dependency engine (mg.Deps, mg.SerialDeps, ...) is confluent in its outcomes: under EVERY
   schedule the small-step semantics of Model/Deps.v agrees with a big-step evaluator, so what a
   dependency ends with, how every call ends and which dependencies run at all are functions of
   the program alone.  Statements only; proofs in Proof/Deps_bigstep.v.

   Vocabulary (Proof/Deps_bigstep.v, all executable):
     call_res f c    how call c ends (CRet | CPan status message) when f gives what its members end
                     with.  Par: returns iff all members are nil, else status = the changeExit fold
                     [combine] over all members, message = all messages in LIST order.  Ser: the
                     first member that is not nil stops the call (status combine [status r], its
                     message); later members are never asked.
     body_res f cs own   the calls in order; a panic of a guarded call is recovered, an unguarded one
                     ends the body with RPanic; after the last call the body ends with [own].
     ev p k          what the body of k ends with (recursion on the key; [acyclic p] makes it a
                     fixed point: Engine_ev_unfold).     ev_call p t pc: how call pc of task t ends.
     needed p        the keys asked for along the big-step evaluation from the roots (serial calls
                     stop at the first failure, unguarded panics stop the body), increasing.
   [acyclic p] (Proof/Deps_progress.v): a body only names smaller keys, a root only existing keys.
   [reach true p s tr] ranges over every schedule and every prefix of every execution of the
   repaired engine (fixed = true).  The order of the failure tokens in a Fatal message is the
   order in which the goroutines report, hence "Permutation" (Engine_message_order_depends_on_schedule
   shows that this cannot be improved); everything else is equal on the nose. *)
From Mage Require Import Base.Strs Model.Deps Proof.Deps_defs Proof.Deps_progress Proof.Deps_bigstep.

(* the evaluator satisfies its defining equation on acyclic programs *)
Theorem Engine_ev_unfold : forall p k, acyclic p ->
  ev p k = body_res (ev p) (calls_of p (TBody k)) (own_result p (TBody k)).
Proof. exact ev_unfold. Qed.
Print Assumptions Engine_ev_unfold.

(* every body that ends, under every schedule, ends as the evaluator says *)
Theorem Engine_bigstep_agrees : forall p s tr k r,
  acyclic p -> reach true p s tr -> In (BodyEnd k r) tr ->
  same_kind r (ev p k) /\ status r = status (ev p k) /\ Permutation (message r) (message (ev p k)).
Proof. exact bigstep_agrees. Qed.
Print Assumptions Engine_bigstep_agrees.

(* sharper: nil and error results are reproduced exactly; only a Fatal message is permuted *)
Theorem Engine_bigstep_exact_or_permuted_panic : forall p s tr k r,
  acyclic p -> reach true p s tr -> In (BodyEnd k r) tr ->
  r = ev p k \/ exists x m m', r = RPanic x m /\ ev p k = RPanic x m' /\ Permutation m m'.
Proof. exact bigstep_exact_or_permuted_panic. Qed.
Print Assumptions Engine_bigstep_exact_or_permuted_panic.

(* the same for every call of every task, the roots (= the targets of the command line) included *)
Theorem Engine_call_return_agrees : forall p s tr t pc c,
  acyclic p -> reach true p s tr ->
  In (CallReturn t pc) tr -> nth_error (calls_of p t) pc = Some c -> call_res (ev p) c = CRet.
Proof. exact call_return_agrees. Qed.
Print Assumptions Engine_call_return_agrees.

Theorem Engine_call_panic_agrees : forall p s tr t pc c x m,
  acyclic p -> reach true p s tr ->
  In (CallPanic t pc x m) tr -> nth_error (calls_of p t) pc = Some c ->
  exists m', call_res (ev p) c = CPan x m' /\ Permutation m m'.
Proof. exact call_panic_agrees. Qed.
Print Assumptions Engine_call_panic_agrees.

(* what a BodyEnd can be: the body's own result after every call returned or was recovered, or the
   payload of its only unguarded panicking call, every panicking call before it being guarded *)
Theorem Engine_body_end_shape : forall p s tr, reach true p s tr ->
  forall k r, In (BodyEnd k r) tr ->
  exists tk, tasks s (TBody k) = Some tk /\
   ((r = own_result p (TBody k) /\ length (calls_of p (TBody k)) <= t_pc tk /\
     forall pc c x m, nth_error (calls_of p (TBody k)) pc = Some c ->
                      In (CallPanic (TBody k) pc x m) tr -> c_guarded c = true)
    \/
    (exists pc c x m, r = RPanic x m /\ t_pc tk = S pc /\ nth_error (calls_of p (TBody k)) pc = Some c /\
                      c_guarded c = false /\ In (CallPanic (TBody k) pc x m) tr /\
                      forall pc' c' x' m', pc' < pc -> nth_error (calls_of p (TBody k)) pc' = Some c' ->
                                           In (CallPanic (TBody k) pc' x' m') tr -> c_guarded c' = true)).
Proof. exact body_end_shape. Qed.
Print Assumptions Engine_body_end_shape.

(* (a) two arbitrary schedules of the same program: the same outcome for every dependency ... *)
Theorem Engine_outcome_schedule_independent : forall p s1 tr1 s2 tr2 k r1 r2,
  acyclic p -> reach true p s1 tr1 -> reach true p s2 tr2 ->
  In (BodyEnd k r1) tr1 -> In (BodyEnd k r2) tr2 ->
  same_kind r1 r2 /\ status r1 = status r2 /\ Permutation (message r1) (message r2).
Proof. exact outcome_schedule_independent. Qed.
Print Assumptions Engine_outcome_schedule_independent.

Theorem Engine_success_schedule_independent : forall p s1 tr1 s2 tr2 k r2,
  acyclic p -> reach true p s1 tr1 -> reach true p s2 tr2 ->
  In (BodyEnd k RNil) tr1 -> In (BodyEnd k r2) tr2 -> r2 = RNil.
Proof. exact success_schedule_independent. Qed.
Print Assumptions Engine_success_schedule_independent.

(* ... and for every call: never a return under one schedule and a panic under another; two panics
   carry the same exit status and the same failure tokens *)
Theorem Engine_call_outcome_schedule_independent : forall p s1 tr1 s2 tr2 t pc c,
  acyclic p -> reach true p s1 tr1 -> reach true p s2 tr2 -> nth_error (calls_of p t) pc = Some c ->
  (In (CallReturn t pc) tr1 -> forall x m, ~ In (CallPanic t pc x m) tr2) /\
  (forall x1 m1 x2 m2, In (CallPanic t pc x1 m1) tr1 -> In (CallPanic t pc x2 m2) tr2 ->
                       x1 = x2 /\ Permutation m1 m2).
Proof. exact call_outcome_schedule_independent. Qed.
Print Assumptions Engine_call_outcome_schedule_independent.

(* (b) which dependencies run.  [needed] computes the least set closed under "a root asks for it"
   and "a needed body asks for it" ... *)
Theorem Engine_needed_spec : forall p k, acyclic p -> (In k (needed p) <-> Needed p k).
Proof. exact needed_spec. Qed.
Print Assumptions Engine_needed_spec.

(* ... safety, under every schedule and at every moment: only needed dependencies ever start *)
Theorem Engine_only_needed_start : forall p s tr k cx,
  acyclic p -> reach true p s tr -> In (BodyStart k cx) tr -> In k (needed p).
Proof. exact only_needed_start. Qed.
Print Assumptions Engine_only_needed_start.

(* ... and when nothing can move any more, exactly the needed ones have started *)
Theorem Engine_needed_iff_started : forall p s tr k,
  acyclic p -> reach true p s tr -> final s ->
  (In k (needed p) <-> exists cx, In (BodyStart k cx) tr).
Proof. exact needed_iff_started. Qed.
Print Assumptions Engine_needed_iff_started.

(* ... each exactly once, to its end, with the outcome the evaluator gives *)
Theorem Engine_needed_run_once_with_outcome : forall p s tr k,
  acyclic p -> reach true p s tr -> final s -> In k (needed p) ->
  nstart k tr = 1 /\ nend k tr = 1 /\
  exists r, In (BodyEnd k r) tr /\
            same_kind r (ev p k) /\ status r = status (ev p k) /\ Permutation (message r) (message (ev p k)).
Proof. exact needed_run_once_with_outcome. Qed.
Print Assumptions Engine_needed_run_once_with_outcome.

(* the same for a schedule run from the start until nothing can move (every maximal run is such a
   run, and is finite: Engine_progress) *)
Theorem Engine_maximal_run_starts_needed : forall p acts s tr k,
  acyclic p -> run true p (init p) acts = Some (s, tr) -> (forall a, step true p s a = None) ->
  (In k (needed p) <-> exists cx, In (BodyStart k cx) tr).
Proof. exact maximal_run_starts_needed. Qed.
Print Assumptions Engine_maximal_run_starts_needed.

Theorem Engine_maximal_runs_start_the_same : forall p acts1 s1 tr1 acts2 s2 tr2 k,
  acyclic p ->
  run true p (init p) acts1 = Some (s1, tr1) -> (forall a, step true p s1 a = None) ->
  run true p (init p) acts2 = Some (s2, tr2) -> (forall a, step true p s2 a = None) ->
  ((exists cx, In (BodyStart k cx) tr1) <-> (exists cx, In (BodyStart k cx) tr2)).
Proof. exact maximal_runs_start_the_same. Qed.
Print Assumptions Engine_maximal_runs_start_the_same.

(* non-vacuity.  ex_prog: 0 succeeds; 1 (error, status 2) and 2 (panic, status 3) both depend on 0;
   3 succeeds but is only named behind failures; 4 calls serially [0;1;3] (recovered; the middle
   member fails), then in parallel [1;2] (a diamond over 0; not recovered), then [3]; 5 recovers
   from 4 and fails with its own error; the root recovers from 5, then SerialDeps [2;4], then [3]. *)
Example Engine_ex_acyclic : acyclic ex_prog.
Proof. exact ex_acyclic. Qed.
Print Assumptions Engine_ex_acyclic.

Example Engine_ex_ev : map (ev ex_prog) [0; 1; 2; 3; 4; 5] =
  [RNil; RErr 2 [7]; RPanic 3 [8]; RNil; RPanic 1 [7; 8]; RErr 5 [9]].
Proof. exact ex_ev. Qed.
Print Assumptions Engine_ex_ev.

Example Engine_ex_calls :
  ev_call ex_prog (TBody 4) 0 = Some (CPan 2 [7]) /\ ev_call ex_prog (TBody 4) 1 = Some (CPan 1 [7; 8]) /\
  ev_call ex_prog (TBody 5) 0 = Some (CPan 1 [7; 8]) /\
  ev_call ex_prog (TRoot 0) 0 = Some (CPan 5 [9]) /\ ev_call ex_prog (TRoot 0) 1 = Some (CPan 3 [8]) /\
  ev_call ex_prog (TBody 1) 0 = Some CRet.
Proof. exact ex_calls. Qed.
Print Assumptions Engine_ex_calls.

Example Engine_ex_needed : needed ex_prog = [0; 1; 2; 4; 5].
Proof. exact ex_needed. Qed.
Print Assumptions Engine_ex_needed.

(* one concrete maximal schedule (the one the first-enabled driver finds with priority prio_fwd):
   it starts exactly [needed ex_prog], and every body and every call ends exactly as evaluated *)
Example Engine_ex_schedule_driven : drive ex_prog (prio_fwd ex_prog) (bound ex_prog) (init ex_prog) = sched_fwd.
Proof. exact sched_fwd_driven. Qed.
Print Assumptions Engine_ex_schedule_driven.

Example Engine_ex_schedule_agrees : exists s tr,
  run true ex_prog (init ex_prog) sched_fwd = Some (s, tr) /\ final s /\
  starts tr = [5; 4; 0; 1; 2] /\
  ends tr = map (fun k => (k, ev ex_prog k)) [0; 1; 2; 4; 5] /\
  Forall (fun e => ev_call ex_prog (fst (fst e)) (snd (fst e)) = Some (snd e)) (call_ends tr).
Proof. exact ex_fwd_agrees. Qed.
Print Assumptions Engine_ex_schedule_agrees.

(* a second maximal schedule, in which the goroutine for member 2 of the parallel call of 4 reports
   before the one for member 1: the same outcomes, the Fatal message of 4 in the other order *)
Example Engine_ex_other_schedule_agrees : exists s tr,
  run true ex_prog (init ex_prog) sched_rev = Some (s, tr) /\ final s /\
  starts tr = [5; 4; 0; 1; 2] /\
  ends tr = [(0, RNil); (1, RErr 2 [7]); (2, RPanic 3 [8]); (4, RPanic 1 [8; 7]); (5, RErr 5 [9])] /\
  In (CallPanic (TBody 5) 0 1 [8; 7]) tr /\ ev ex_prog 4 = RPanic 1 [7; 8].
Proof. exact ex_rev_agrees. Qed.
Print Assumptions Engine_ex_other_schedule_agrees.

(* so "up to a permutation of the message" is the strongest true statement *)
Example Engine_message_order_depends_on_schedule : exists p acts1 s1 tr1 acts2 s2 tr2 k x m1 m2,
  acyclic p /\ run true p (init p) acts1 = Some (s1, tr1) /\ run true p (init p) acts2 = Some (s2, tr2) /\
  In (BodyEnd k (RPanic x m1)) tr1 /\ In (BodyEnd k (RPanic x m2)) tr2 /\ m1 <> m2.
Proof. exact message_order_depends_on_schedule. Qed.
Print Assumptions Engine_message_order_depends_on_schedule.
