(* Liveness of the dependency engine (mg.Deps) on acyclic programs: the [final s] premise of the
   safety theorems C01/C02/C03/C13 is never vacuous.
   Statements only; proofs in Proof/Deps_progress.v.

   [acyclic p] (Proof/Deps_progress.v) says exactly:
     ac_body : a call of the body of an existing key k only names keys d < k
               (keys are numbered topologically by the harness);
     ac_root : a call of a root only names existing keys (d < length (nodes p)).
   Nothing else is assumed.  [reach fixed p s tr] ranges over every schedule and every prefix of
   every execution; the theorems hold for both values of [fixed] except the C01 corollaries,
   which inherit [fixed = true] from C01_named_runs. *)
From Mage Require Import Base.Strs Model.Deps Proof.Deps_defs Proof.Deps_progress.

(* an executable check implies acyclicity (usable by the harness on concrete programs) *)
Theorem Engine_acyclicb_sound : forall p, acyclicb p = true -> acyclic p.
Proof. exact acyclicb_sound. Qed.
Print Assumptions Engine_acyclicb_sound.

(* deadlock freedom: a reachable configuration of an acyclic program that is not final can move *)
Theorem Engine_progress : forall fixed p s tr,
  acyclic p -> reach fixed p s tr -> ~ final s ->
  exists a s' ev, step fixed p s a = Some (s', ev).
Proof. exact progress. Qed.
Print Assumptions Engine_progress.

(* the same with the witness in hand: as long as some task has not finished, something can move *)
Theorem Engine_live_can_step : forall fixed p s tr t tk,
  acyclic p -> reach fixed p s tr -> tasks s t = Some tk -> t_phase tk <> PFinished ->
  exists a s' ev, step fixed p s a = Some (s', ev).
Proof. exact live_can_step. Qed.
Print Assumptions Engine_live_can_step.

(* finality is decidable on these configurations (finitely many tasks can exist), and
   "nothing can move" is the same as "every task has finished" *)
Theorem Engine_final_or_live : forall fixed p s tr,
  acyclic p -> reach fixed p s tr ->
  final s \/ exists t tk, tasks s t = Some tk /\ t_phase tk <> PFinished.
Proof. exact final_or_live. Qed.
Print Assumptions Engine_final_or_live.

Theorem Engine_stuck_iff_final : forall fixed p s tr,
  acyclic p -> reach fixed p s tr -> (final s <-> forall a, step fixed p s a = None).
Proof. exact stuck_iff_final. Qed.
Print Assumptions Engine_stuck_iff_final.

(* every step strictly decreases a natural-number measure of the remaining work ... *)
Theorem Engine_step_decreases : forall fixed p s tr a s' ev,
  acyclic p -> reach fixed p s tr -> step fixed p s a = Some (s', ev) -> measure p s' < measure p s.
Proof. exact step_decreases. Qed.
Print Assumptions Engine_step_decreases.

(* ... so EVERY schedule is finite: no execution of p has more than [bound p] steps *)
Theorem Engine_run_bounded : forall fixed p acts s tr s' tr',
  acyclic p -> reach fixed p s tr -> run fixed p s acts = Some (s', tr') ->
  length acts + measure p s' <= measure p s.
Proof. exact run_bounded. Qed.
Print Assumptions Engine_run_bounded.

Theorem Engine_schedule_bounded : forall fixed p acts s tr,
  acyclic p -> run fixed p (init p) acts = Some (s, tr) -> length acts <= bound p.
Proof. exact schedule_bounded. Qed.
Print Assumptions Engine_schedule_bounded.

(* termination: every partial execution of an acyclic program extends to a final one *)
Theorem Engine_terminates : forall fixed p s tr,
  acyclic p -> reach fixed p s tr ->
  exists acts s' tr', run fixed p s acts = Some (s', tr') /\ final s'.
Proof. exact terminates. Qed.
Print Assumptions Engine_terminates.

(* ... and every execution that is run until nothing can move has ended in a final configuration *)
Theorem Engine_maximal_run_final : forall fixed p s tr acts s' tr',
  acyclic p -> reach fixed p s tr -> run fixed p s acts = Some (s', tr') ->
  (forall a, step fixed p s' a = None) -> final s'.
Proof. exact maximal_run_final. Qed.
Print Assumptions Engine_maximal_run_final.

(* C01, unconditionally: a dependency that an entered call names (gets to, for the serial forms)
   DOES run exactly once and to its end - the execution can be completed, and then the counts are 1 *)
Theorem C01_every_reached_dependency_eventually_runs : forall p s tr t pc c k,
  acyclic p -> reach true p s tr ->
  In (CallEnter t pc) tr -> nth_error (calls_of p t) pc = Some c -> reached_by tr c k ->
  exists acts s' tr', run true p s acts = Some (s', tr') /\ final s' /\
                      nstart k (tr ++ tr') = 1 /\ nend k (tr ++ tr') = 1.
Proof. exact named_eventually_runs. Qed.
Print Assumptions C01_every_reached_dependency_eventually_runs.

Theorem C01_every_named_dependency_eventually_runs : forall p s tr t pc c k,
  acyclic p -> reach true p s tr ->
  In (CallEnter t pc) tr -> nth_error (calls_of p t) pc = Some c -> c_style c = Par -> In k (c_deps c) ->
  exists acts s' tr', run true p s acts = Some (s', tr') /\ final s' /\
                      nstart k (tr ++ tr') = 1 /\ nend k (tr ++ tr') = 1.
Proof. exact par_named_eventually_runs. Qed.
Print Assumptions C01_every_named_dependency_eventually_runs.

(* the same for EVERY way of running the execution to the end (all schedules, not just one) *)
Theorem C01_reached_dependency_runs_in_every_maximal_run : forall p s tr t pc c k acts s' tr',
  acyclic p -> reach true p s tr ->
  In (CallEnter t pc) tr -> nth_error (calls_of p t) pc = Some c -> reached_by tr c k ->
  run true p s acts = Some (s', tr') -> (forall a, step true p s' a = None) ->
  nstart k (tr ++ tr') = 1 /\ nend k (tr ++ tr') = 1.
Proof. exact named_runs_in_every_maximal_run. Qed.
Print Assumptions C01_reached_dependency_runs_in_every_maximal_run.

(* non-vacuity: a diamond with fan-in (0 <- 1, 0 <- 2, {1,2} <- 3, a serial call, two roots) is acyclic,
   so all of the above applies to it *)
Example Engine_diamond_acyclic : acyclic diamond.
Proof. exact diamond_acyclic. Qed.
Print Assumptions Engine_diamond_acyclic.

Example Engine_diamond_terminates : exists acts s tr,
  run true diamond (init diamond) acts = Some (s, tr) /\ final s /\ reach true diamond s tr /\
  length acts <= bound diamond.
Proof. exact diamond_terminates. Qed.
Print Assumptions Engine_diamond_terminates.

Example Engine_diamond_bound : bound diamond = 62.
Proof. exact diamond_bound. Qed.
Print Assumptions Engine_diamond_bound.
