(* Comparison functions used by generated case files of C04. *)
From Mage Require Import Base.Strs Model.Dispatch.

(* c_conv: the Go standard library's answers (harness/unitrun op "conv") for the words of the case;
   c_fail: the declarations whose body was told to fail; c_ignore: MAGEFILE_IGNOREDEFAULT ("" = unset); c_mode: how the program was started;
   c_obs: the CALL trace and the classified end of the run (None = not classifiable) *)
Record case := { c_info : info; c_conv : list (argty * string * option string); c_fail : list nat;
                 c_ignore : string; c_mode : mode; c_words : list string; c_obs : list callrec * option exit }.

Definition argty_eqb (a b : argty) : bool :=
  match a, b with TString, TString | TInt, TInt | TBool, TBool | TDur, TDur => true | _, _ => false end.

Fixpoint conv_of (l : list (argty * string * option string)) (ty : argty) (w : string) : option string :=
  match l with
  | [] => None
  | (ty', w', r) :: rest => if argty_eqb ty ty' && String.eqb w w' then r else conv_of rest ty w
  end.

Definition fails_of (l : list nat) (d : nat) (_ : list value) : bool := existsb (Nat.eqb d) l.

Definition model_obs (c : case) : list callrec * exit :=
  fst (main (conv_of (c_conv c)) (fails_of (c_fail c)) (c_mode c) (c_info c) (c_ignore c) (c_words c)).

Definition value_eqb (a b : value) : bool :=
  match a, b with
  | VStr s, VStr s' => String.eqb s s'
  | VConv t p, VConv t' p' => argty_eqb t t' && String.eqb p p'
  | _, _ => false
  end.
Definition callrec_eqb (a b : callrec) : bool :=
  Nat.eqb (cdef a) (cdef b) && list_eqb value_eqb (cvals a) (cvals b).
Definition reason_eqb (a b : reason) : bool :=
  match a, b with
  | Unknown, Unknown | Missing, Missing => true
  | BadArg t, BadArg t' => argty_eqb t t'
  | _, _ => false
  end.
Definition exit_eqb (a b : exit) : bool :=
  match a, b with
  | Done, Done | Listed, Listed | Failed, Failed => true
  | Exit2 r, Exit2 r' => reason_eqb r r'
  | _, _ => false
  end.

Definition check (c : case) : option (list callrec * exit) :=
  let m := model_obs c in
  match snd (c_obs c) with
  | Some e => if list_eqb callrec_eqb (fst m) (fst (c_obs c)) && exit_eqb (snd m) e then None else Some m
  | None => Some m
  end.
Definition mismatches (l : list case) := mism_from check 0 l.

(* which arm of the model each case took: (done, listed, unknown, missing, badarg, failed) *)
Definition branch_histogram (l : list case) : list nat :=
  let es := map (fun c => snd (model_obs c)) l in
  let cnt (p : exit -> bool) := length (filter p es) in
  [ cnt (fun e => exit_eqb e Done); cnt (fun e => exit_eqb e Listed); cnt (fun e => exit_eqb e (Exit2 Unknown));
    cnt (fun e => exit_eqb e (Exit2 Missing));
    cnt (fun e => match e with Exit2 (BadArg _) => true | _ => false end); cnt (fun e => exit_eqb e Failed) ].
