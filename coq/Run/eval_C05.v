(* Comparison functions used by generated case files of C05: the model (Model/ExitChain.v) gets the abstract
   scenario of one invocation and must predict the observed exit status, the number of requested target bodies
   that started (CALL lines) and - where the model says mage itself writes a diagnostic - a non-empty stderr. *)
From Mage Require Import Base.Strs Model.Deps Model.ExitChain.
Local Open Scope Z_scope.

Inductive route :=
| RCompiled                 (* the -compile'd binary run directly: only sc_prog matters *)
| RMage                     (* through the front end *)
| RMageChild (ch : child).  (* through the front end, the child's fate given directly (killed by a signal) *)

Record obs := { o_exit : Z; o_ran : nat; o_msg : bool }.
Record case := { c_route : route; c_sc : scenario; c_obs : obs }.

(* short names for the generated files *)
Definition FA := Build_fargs.
Definition BD := Build_build.
Definition CP := Build_cprog.
Definition SC := Build_scenario.
Definition O := Build_obs.
Definition CASE := Build_case.

Definition model_obs (c : case) : obs :=
  let sc := c_sc c in
  let h := compiled_main true (sc_prog sc) in
  match c_route c with
  | RCompiled => {| o_exit := halt_status h; o_ran := h_ran h; o_msg := h_msg h |}
  | RMage =>
      let r := mage_run true sc in
      {| o_exit := kernel (f_code r);
         o_ran := if f_child r then h_ran h else 0%nat;
         o_msg := f_msg r || (f_child r && h_msg h) |}
  | RMageChild ch =>
      let r := ParseAndRun (sc_args sc) (sc_init_err sc) (sc_clean_err sc) (sc_build sc) ch in
      (* the front end runs the program exactly once: the bodies started are those of one run of the program, in
         which the body the process dies in is described as ending the process (BOsExit); the status comes from
         what RunCompiled makes of the signaled child *)
      {| o_exit := kernel (f_code r); o_ran := if f_child r then h_ran h else 0%nat; o_msg := f_msg r |}
  end.

Definition obs_ok (m o : obs) : bool :=
  Z.eqb (o_exit m) (o_exit o) && Nat.eqb (o_ran m) (o_ran o) && (negb (o_msg m) || o_msg o).

Definition check (c : case) : option obs :=
  let m := model_obs c in if obs_ok m (c_obs c) then None else Some m.
Definition mismatches (l : list case) := mism_from check 0 l.
