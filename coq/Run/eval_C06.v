(* Comparison functions used by generated case files of C06.
   A case = one abstract package + what was observed on the package rendered to Go files:
   go/doc's own view (harness/docview), `mage -l`, `mage -h <target>` for every listed target,
   the CALL lines of a run of every listed target.  Lists are compared as sets (mutual inclusion
   and equal length): the order in which mage sorts is not part of this property. *)
From Mage Require Import Base.Strs Model.Classify Proof.Classify_facts.

Record hobs := { ho_key : string; ho_comment : string; ho_args : list string; ho_aliases : list string }.
Record cobs := { co_recv : string; co_name : string; co_types : list aty }.   (* types of the named, non-blank parameters *)
Record obs := { o_docfuncs : list string;                        (* DocPkg.Funcs *)
                o_doctypes : list (string * list string);        (* DocPkg.Types with their Methods *)
                o_docvars : list (list string);                  (* DocPkg.Vars: Names *)
                o_ok : bool;                                     (* mage -l succeeded *)
                o_desc : string;
                o_listing : list (string * string);              (* name as printed (with the mark), synopsis *)
                o_helps : list hobs;
                o_calls : list cobs }.
Record case := { c_pkg : pkg; c_compiles : bool; c_obs : obs }.

Definition aty_eqb (a b : aty) : bool :=
  match a, b with AString, AString | AInt, AInt | ABool, ABool | ADur, ADur => true | _, _ => false end.
Definition strs_eqb := list_eqb String.eqb.
Definition pair_eqb {A B} (ea : A -> A -> bool) (eb : B -> B -> bool) (x y : A * B) : bool :=
  ea (fst x) (fst y) && eb (snd x) (snd y).

Definition set_eqb {A} (eqb : A -> A -> bool) (a b : list A) : bool :=
  Nat.eqb (List.length a) (List.length b) &&
  forallb (fun x => existsb (eqb x) b) a && forallb (fun y => existsb (eqb y) a) b.

Definition hobs_eqb (a b : hobs) : bool :=
  String.eqb (ho_key a) (ho_key b) && String.eqb (ho_comment a) (ho_comment b) &&
  strs_eqb (ho_args a) (ho_args b) && set_eqb String.eqb (ho_aliases a) (ho_aliases b).
Definition cobs_eqb (a b : cobs) : bool :=
  String.eqb (co_recv a) (co_recv b) && String.eqb (co_name a) (co_name b) && list_eqb aty_eqb (co_types a) (co_types b).

(* the argument types the generated body can report: those of the named, non-blank parameters *)
Fixpoint named_types (names : list (option string)) (args : list (string * aty)) : list aty :=
  match names, args with
  | Some n :: r, (_, t) :: a => if String.eqb n "_" then named_types r a else t :: named_types r a
  | None :: r, _ :: a => named_types r a
  | _, _ => []
  end.

Definition model_call (p : fdecl * function) : cobs :=
  let c := exec_call (snd p) in
  {| co_recv := match c_recv c with Some r => r | None => "" end; co_name := c_fn c;
     co_types := named_types (flat_names (nonctx_params (fst p))) (f_args (snd p)) |}.

Definition model_obs (pk : pkg) : obs :=
  let ts := targets pk in
  let al := match setAliases pk with AList l => l | APanic => [] end in
  let ok := match setDefault pk, setAliases pk with DPanic, _ => false | _, APanic => false | _, _ => true end in
  {| o_docfuncs := map fname (doc_funcs pk);
     o_doctypes := map (fun t => (tname t, map fname (doc_methods pk t))) (doc_types pk);
     o_docvars := map value_names (doc_vars pk);
     o_ok := ok;
     o_desc := toOneLine (pkgdoc pk);
     o_listing := if ok then listing pk else [];
     o_helps := if ok then map (fun p => let h := help_of al (snd p) in
                                  {| ho_key := h_key h; ho_comment := h_comment h; ho_args := h_args h; ho_aliases := h_aliases h |}) ts
                else [];
     o_calls := if ok then map model_call ts else [] |}.

Definition tag (b : bool) (t : string) : list string := if b then [] else [t].
(* the components on which model and observation differ *)
Definition diff (m o : obs) : list string :=
  tag (set_eqb String.eqb (o_docfuncs m) (o_docfuncs o)) "godoc-funcs" ++
  tag (set_eqb (pair_eqb String.eqb (set_eqb String.eqb)) (o_doctypes m) (o_doctypes o)) "godoc-types" ++
  tag (set_eqb strs_eqb (o_docvars m) (o_docvars o)) "godoc-vars" ++
  tag (Bool.eqb (o_ok m) (o_ok o)) "list-succeeds" ++
  (if o_ok m && o_ok o then
     tag (String.eqb (o_desc m) (o_desc o)) "description" ++
     tag (set_eqb (pair_eqb String.eqb String.eqb) (o_listing m) (o_listing o)) "listing" ++
     tag (set_eqb hobs_eqb (o_helps m) (o_helps o)) "help" ++
     tag (set_eqb cobs_eqb (o_calls m) (o_calls o)) "calls"
   else []).

(* a package that does not compile on its own is outside the property: only go/doc's view is compared *)
Definition check (c : case) : option (list string * obs) :=
  let m := model_obs (c_pkg c) in
  let d := if c_compiles c then diff m (c_obs c)
           else tag (set_eqb String.eqb (o_docfuncs m) (o_docfuncs (c_obs c))) "godoc-funcs" in
  match d with [] => None | _ => Some (d, m) end.
Definition mismatches (l : list case) := mism_from check 0 l.
