(* Comparison functions used by generated case files of C07. *)
From Mage Require Import Base.Strs Model.Dupes.

(* short constructors for the generated terms *)
Definition tg (r n : string) : tgt := {| t_recv := r; t_name := n |}.
Definition im (a p : string) (ts : list tgt) : import := {| i_alias := a; i_path := p; i_tgts := ts |}.
Definition fn (a p r n : string) : func := {| f_alias := a; f_path := p; f_recv := r; f_name := n |}.
Definition pk_ (l : list tgt) (i : list import) (a : list (string * func)) : pkg := {| locals := l; imports := i; aliases := a |}.

(* what is observed of one generated project:
   rejected by `mage -l` with a duplicate diagnosis naming these groups (alias as printed, if the alias
   message; the Function.Names listed), or accepted and, for each word typed, the ID of the definition
   whose body ran ("" = none ran) *)
Inductive obs :=
| ORej (groups : list (option string * list string))
| OAcc (runs : list (string * string))
| OAlt.                                      (* only produced by [check], see there *)

Record case := { c_pkg : pkg; c_obs : obs }.

Definition model_obs (c : case) : obs :=
  match mage_check true (c_pkg c) with
  | Some e => ORej (report e)
  | None =>
      let ws := match c_obs c with OAcc runs => map fst runs | _ => [] end in
      OAcc (map (fun w => (w, match resolve (c_pkg c) w with Some f => fid f | None => "" end)) ws)
  end.

Definition subl (a b : list string) : bool := forallb (fun x => existsb (String.eqb x) b) a.
Definition names_eqb (a b : list string) : bool := Nat.eqb (length a) (length b) && subl a b && subl b a.
Definition group_eqb (a b : option string * list string) : bool :=
  option_eqb String.eqb (fst a) (fst b) && names_eqb (snd a) (snd b).
Definition groups_sub (a b : list (option string * list string)) : bool :=
  forallb (fun x => existsb (group_eqb x) b) a.
Definition groups_eqb a b : bool := Nat.eqb (length a) (length b) && groups_sub a b && groups_sub b a.

Definition run_eqb (a b : string * string) : bool := String.eqb (fst a) (fst b) && String.eqb (snd a) (snd b).

(* the lower-cased names that occur more than once among the runnable names *)
Definition cnt (k : string) (l : list string) : nat := length (filter (String.eqb k) l).
Fixpoint dedup (l : list string) : list string :=
  match l with
  | [] => []
  | x :: r => if existsb (String.eqb x) r then dedup r else x :: dedup r
  end.
Definition collision_keys (p : pkg) : list string :=
  let ns := map lower (runnable_names p) in dedup (filter (fun k => Nat.leb 2 (cnt k ns)) ns).

(* is a reported group a real collision of the package?  (None, names): at least two names, all of them
   Names of definitions sharing one colliding lower-cased runnable name; (Some a, names): a is a colliding
   name carried by some alias key, and the names are those of targets called a or of functions that
   aliases spelled a point to *)
Definition names_with_key (p : pkg) (k : string) : list string :=
  map f_name (filter (fun f => String.eqb (lower (target_name f)) k) (all_funcs p)).
Definition alias_refs_with_key (p : pkg) (k : string) : list string :=
  map (fun kf => f_name (snd kf)) (filter (fun kf => String.eqb (lower (fst kf)) k) (alias_map (aliases p))).
Definition valid_group (p : pkg) (g : option string * list string) : bool :=
  match fst g with
  | None =>
      Nat.leb 2 (length (snd g)) &&
      existsb (fun k => subl (snd g) (names_with_key p k) && Nat.leb (length (snd g)) (length (names_with_key p k)))
              (collision_keys p)
  | Some a =>
      existsb (String.eqb a) (collision_keys p) && negb (Nat.eqb (length (alias_refs_with_key p a)) 0) &&
      negb (Nat.eqb (length (snd g)) 0) && subl (snd g) (names_with_key p a ++ alias_refs_with_key p a)
  end.

(* The model must reproduce accept/reject, the body run for every word, and the named groups.  When
   the groups differ from the model's but every observed group is a real collision of the package
   (another, equally correct choice of which collision to report - e.g. a rewrite that reports all
   stages at once), the case is returned as [OAlt]: the driver counts it and does not raise an alarm
   (on the code the model transcribes there are none).  A diagnosis that names only SOME of the groups the
   model names (a strict subset: colliding definitions left unnamed) is a mismatch, not an alternative. *)
Definition check (c : case) : option obs :=
  let m := model_obs c in
  match m, c_obs c with
  | ORej mg, ORej og =>
      if groups_eqb mg og then None
      else if groups_sub og mg then Some m            (* fewer groups than the model names: definitions went unnamed *)
      else if negb (Nat.eqb (length og) 0) && forallb (valid_group (c_pkg c)) og then Some OAlt
      else Some m
  | OAcc mr, OAcc orr => if list_eqb run_eqb mr orr then None else Some m
  | _, _ => Some m
  end.
Definition mismatches (l : list case) := mism_from check 0 l.
