(* Comparison functions used by generated case files of C08.

   The model is evaluated with stand-ins for its parameters:
   - the hash [H] is [enc] (decimal length, ':', the string itself): injective and prefix-free, so
     that two cache names of the model are equal exactly when (sorted content hashes, key,
     version) are - what is compared with the implementation is the EQUALITY PATTERN of the
     names along a history, never a SHA-1 value;
   - the go tool [compile] is tupling: a program is (toolchain, imported package, files it was
     compiled from); what a program prints is the sorted list of the tokens of its files (the
     generator's table) and the token of the imported package. *)
From Coq Require Import DecimalString.
From Mage Require Import Base.Strs Base.Expand Model.Cache Model.Paths.

Definition enc (x : string) : string :=
  (NilEmpty.string_of_uint (Nat.to_uint (String.length x)) ++ ":" ++ x)%string.

(* compact spelling of long texts in case files: [cat [piece; rep 400 line; piece]] *)
Fixpoint rep (n : nat) (s : string) : string :=
  match n with O => EmptyString | S k => (s ++ rep k s)%string end.
Definition cat (l : list string) : string := fold_right String.append EmptyString l.

Definition prog : Type := string * string * fileset.
Definition comp (v d : string) (fs : fileset) : prog := (v, d, fs).

(* RO: an invocation that runs / lists / shows help; RC: a -compile invocation - did IT run a
   target (never), and what the binary it left at the output path prints when it is run *)
Inductive run_obs := RO (compiled : bool) (toks : list string) (deptok : string) | RNoFiles
                   | RC (ran_target : bool) (toks : list string) (deptok : string)
                   | RAny.     (* on the observed side only: an invocation overlapped by another one - what it
                                  exec'ed may be the other one's build; judged by the oracle, not compared here *)

(* what an invocation asks the compiled magefile for.  Model/Cache.v's [Run] has no such field:
   Invoke's decision does not look at it; only what the program prints depends on it *)
Inductive cmd := CRun | CList | CHelp.

Inductive case :=
| CHist (tpl : string) (init : fileset) (dep0 ver0 : string) (ops : list op)
        (toks : list (string * string))               (* contents -> the token those contents print *)
        (listed : list string)                        (* the contents that declare the listed target *)
        (cmds : list cmd)                             (* the command of each Run, in order *)
        (obs_classes : list nat) (obs_runs : list run_obs)
| CNames (sets : list (string * string * fileset)) (obs_classes : list nat)   (* (template, go version, files) *)
| CLayout (l : layout) (obs_cache_dir obs_cwd : string).

Inductive obs :=
| OHist (cls : list nat) (runs : list run_obs)
| ONames (cls : list nat)
| OLayout (cache_dir cwd : string).

Fixpoint tok_of (toks : list (string * string)) (c : string) : string :=
  match toks with
  | [] => "?"
  | (c', t) :: r => if String.eqb c c' then t else tok_of r c
  end.

Definition is_in (l : list string) (c : string) : bool := existsb (String.eqb c) l.

(* target run: the tokens of all files and the imported package's; -l: the tokens of the files that
   declare the listed target and the imported package's; -h <imported target>: the imported package's *)
Definition printed (toks : list (string * string)) (listed : list string) (k : cmd) (fs : fileset) : list string :=
  match k with
  | CRun => sort_strings (map (tok_of toks) (contents fs))
  | CList => sort_strings (map (tok_of toks) (filter (is_in listed) (contents fs)))
  | CHelp => []
  end.

Fixpoint run_obs_of (toks : list (string * string)) (listed : list string) (cmds : list cmd)
                    (outs : list (outcome prog)) : list run_obs :=
  match outs with
  | [] => []
  | NoRun _ :: r => run_obs_of toks listed cmds r
  | NoFiles _ :: r => RNoFiles :: run_obs_of toks listed (tl cmds) r
  | Built _ (_, d, fs) :: r => RC false (printed toks listed CRun fs) d :: run_obs_of toks listed cmds r
  | RanOutput _ :: r => RC true [] "" :: run_obs_of toks listed cmds r
  | Ran _ c (_, d, fs) :: r => RO c (printed toks listed (hd CRun cmds) fs) d :: run_obs_of toks listed (tl cmds) r
  end.

Definition model_obs (c : case) : obs :=
  match c with
  | CHist tpl init d0 v0 ops toks listed cmds _ _ =>
      let st0 := {| dir := init; dep := d0; ver := v0; cache := [] |} in
      OHist (classes (names_along enc prog comp tpl ops st0))
            (run_obs_of toks listed cmds (outcomes enc prog comp tpl ops st0))
  | CNames sets _ => ONames (classes (map (fun s => exe_name enc (fst (fst s)) (snd (fst s)) (snd s)) sets))
  | CLayout l _ _ => OLayout (show (cache_dir true l)) (show (run_cwd l))
  end.

Definition given_obs (c : case) : obs :=
  match c with
  | CHist _ _ _ _ _ _ _ _ cls runs => OHist cls runs
  | CNames _ cls => ONames cls
  | CLayout _ d w => OLayout d w
  end.

Definition run_obs_eqb (a b : run_obs) : bool :=
  match a, b with
  | RO c t d, RO c' t' d' => Bool.eqb c c' && list_eqb String.eqb t t' && String.eqb d d'
  | _, RAny => true
  | RNoFiles, RNoFiles => true
  | RC c t d, RC c' t' d' => Bool.eqb c c' && list_eqb String.eqb t t' && String.eqb d d'
  | _, _ => false
  end.

Definition obs_eqb (m o : obs) : bool :=
  match m, o with
  | OHist c r, OHist c' r' => list_eqb Nat.eqb c c' && list_eqb run_obs_eqb r r'
  | ONames c, ONames c' => list_eqb Nat.eqb c c'
  | OLayout d w, OLayout d' w' => String.eqb d d' && String.eqb w w'
  | _, _ => false
  end.

Definition check (c : case) : option obs :=
  let m := model_obs c in if obs_eqb m (given_obs c) then None else Some m.
Definition mismatches (l : list case) := mism_from check 0 l.
