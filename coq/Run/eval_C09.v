(* Comparison functions used by generated case files of C09. *)
From Mage Require Import Base.Strs Model.Lifecycle.

(* coarse class of the place where a run ended, as far as mage's diagnostics tell *)
Inductive stage := SList | SNoFiles | SExeName | SGoEnv | SParse | SCreate | SWrite | SBuild | SExec | SDone | SAny.

Definition stage_of (o : option step) : stage :=
  match o with
  | None => SDone
  | Some st =>
      match st with
      | RemoveStale => SAny
      | ListMage | ListNonMage => SList
      | CheckFiles => SNoFiles
      | HashFiles | GoVersion => SExeName
      | GoEnvGocache => SGoEnv
      | StatExe => SAny
      | Parse | GoListDir | GoListFiles | Dupes => SParse
      | CreateMain => SCreate
      | WriteMain | CloseMain | Chtimes => SWrite
      | RegisterDefer | DbgVersion | DbgEnv => SAny
      | GoBuild => SBuild
      | RemoveMain => SAny
      | CompileExit => SDone
      | ExecBinary => SExec
      | TargetOutcome => SDone
      end
  end.

Definition stage_idx (s : stage) : nat :=
  match s with SList => 0 | SNoFiles => 1 | SExeName => 2 | SGoEnv => 3 | SParse => 4 | SCreate => 5
             | SWrite => 6 | SBuild => 7 | SExec => 8 | SDone => 9 | SAny => 10 end.
Definition stage_eqb (model observed : stage) : bool :=
  match observed with SAny => true | _ => Nat.eqb (stage_idx model) (stage_idx observed) end.

Definition gocall_idx (c : gocall) : nat :=
  match c with GVersion => 0 | GEnvGocache => 1 | GEnv => 2 | GList => 3 | GBuild => 4 end.
Definition gocall_eqb (a b : gocall) : bool := Nat.eqb (gocall_idx a) (gocall_idx b).

(* directories are compared as finite maps, at every level *)
Fixpoint entry_eqb (fuel : nat) (a b : entry) : bool :=
  match fuel with
  | O => false
  | S k =>
      match a, b with
      | File x, File y => String.eqb x y
      | Link x, Link y => String.eqb x y
      | Dir xs, Dir ys =>
          Nat.eqb (length xs) (length ys) &&
          forallb (fun p => match lookup ys (fst p) with Some e' => entry_eqb k (snd p) e' | None => false end) xs
      | _, _ => false
      end
  end.
Definition fs_eqb (a b : fs) : bool := entry_eqb 40 (Dir a) (Dir b).

Definition faults_of (l : list step) : step -> bool := fun st => existsb (step_eqb st) l.

(* what go/build says about a non-regular mage_output_file.go (a regular one is removed first) *)
Definition lists_fn (file_ok dir_ok link_ok : bool) : entry -> bool :=
  fun e => match e with File _ => file_ok | Dir _ => dir_ok | Link _ => link_ok end.

Record obs := {
  ob_fs : fs;                    (* the directory afterwards *)
  ob_exit : option nat;          (* None: the process was killed *)
  ob_stage : stage;
  ob_calls : option (list gocall);  (* the fake go tool's log; None when the real go was used *)
  ob_mainseen : option (list bool)  (* per go command: did mage_output_file.go exist while it ran (the fake go tool looks) *)
}.

Record icase := {
  c_world : world;
  c_faults : list step;
  c_flags : flags;
  c_topnamed : bool;             (* the directory Invoke is given (-d) is itself called magefiles *)
  c_ohf : bool;                  (* Magefiles(originalDir) found magefiles next to a magefiles directory *)
  c_crash : option nat;          (* Some k: killed after k steps *)
  c_out : option (string * bytes * string);   (* -compile <out> inside the directory Invoke is given: (entry name, token of the binary, name it gets inside a directory) *)
  c_fs : fs;                     (* the directory before *)
  c_obs : obs
}.

Inductive case :=
| CInvoke (c : icase)
| CInit (open_fault write_fault : bool) (tpl partial : bytes) (before after : fs) (exit : nat)
| CClean (cache : string) (before after : fs) (exit : nat)
| CNoop (before after : fs)      (* -version, -h, a rejected command line: nothing may change *)
| CListGen (listed : bool).      (* is the complete generated file listed as a magefile by mage.Magefiles? *)

(* the directory Invoke ends up running in (the first lines of Invoke, as in Lifecycle.invoke) *)
Definition effective (w : world) (tn ohf : bool) (d : fs) : fs * bool :=
  let d1 := rs w d in
  match lookup d1 magefilesDir with
  | Some (Dir sub) => if ohf then (d1, tn) else (rs w sub, true)
  | _ => (d1, tn)
  end.

(* for every go command the model starts: does mage_output_file.go exist in the state the step starts in?
   (the order of go-tool calls against file-system effects) *)
Fixpoint seen_from (w : world) (f : step -> bool) (fl : flags) (l : list step) (s : state) : list bool :=
  match l with
  | [] => []
  | st :: r =>
      let here := match lookup (s_fs s) mainfile with Some _ => true | None => false end in
      match exec w f fl st s with
      | Cont s' => repeat here (length (s_calls s') - length (s_calls s)) ++ seen_from w f fl r s'
      | Exit _ s' => repeat here (length (s_calls s') - length (s_calls s))
      end
  end.

Definition model_invoke (c : icase) : obs :=
  let w := c_world c in
  let f := faults_of (c_faults c) in
  let '(d, mf) := effective w (c_topnamed c) (c_ohf c) (c_fs c) in
  let fl := with_mfdir (c_flags c) mf in
  match c_crash c with
  | Some k =>
      {| ob_fs := crash_dir w f fl k (c_fs c); ob_exit := None; ob_stage := SAny; ob_calls := None; ob_mainseen := None |}
  | None =>
      let o := invoke_dir_full w f fl d in
      let '(after0, code) := invoke_named w f (c_flags c) (c_topnamed c) (c_ohf c) (c_fs c) in
      let after := match c_out c with
                   | Some (n, bin, inner) => if compiled fl o then set n (install bin inner (lookup after0 n)) after0 else after0
                   | None => after0
                   end in
      {| ob_fs := after; ob_exit := Some code; ob_stage := stage_of (o_at o); ob_calls := Some (o_calls o);
         ob_mainseen := Some (seen_from w f fl all_steps (init_state d)) |}
  end.

Definition obs_eqb (m o : obs) : bool :=
  fs_eqb (ob_fs m) (ob_fs o) &&
  option_eqb Nat.eqb (ob_exit m) (ob_exit o) &&
  stage_eqb (ob_stage m) (ob_stage o) &&
  match ob_calls o, ob_calls m with
  | Some oc, Some mc => list_eqb gocall_eqb mc oc
  | _, _ => true
  end &&
  match ob_mainseen o, ob_mainseen m with
  | Some os, Some ms => list_eqb Bool.eqb ms os
  | _, _ => true
  end.

(* the generated file starts with "//go:build ignore" (template.go:6-9): go/build never lists it *)
Definition gen_listed : bool := false.

Inductive answer :=
| AInvoke (o : obs)
| AFs (d : fs) (exit : nat)
| AListed (b : bool).

Definition check (c : case) : option answer :=
  match c with
  | CInvoke ic => let m := model_invoke ic in if obs_eqb m (c_obs ic) then None else Some (AInvoke m)
  | CInit of wf tpl partial before after code =>
      let '(d, e) := init_cmd of wf tpl partial before in
      if fs_eqb d after && Nat.eqb e code then None else Some (AFs d e)
  | CClean cache before after code =>
      let '(d, e) := clean_cmd false (fun _ => false) cache before in
      if fs_eqb d after && Nat.eqb e code then None else Some (AFs d e)
  | CNoop before after => if fs_eqb before after then None else Some (AFs before 0)
  | CListGen listed => if Bool.eqb listed gen_listed then None else Some (AListed gen_listed)
  end.

Definition mismatches (l : list case) := mism_from check 0 l.
