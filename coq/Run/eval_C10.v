(* Comparison functions used by generated case files of C10. *)
From Mage Require Import Base.Strs Model.Constraints.

(* a process: its environment at start and what go/build's build.Default held in it (observed) *)
Record proc := {
  p_environ : list string;
  p_tool : list string;                                    (* build.Default.ToolTags *)
  p_dgoos : string; p_dgoarch : string; p_dcgo : bool      (* build.Default.GOOS / GOARCH / CgoEnabled *)
}.

(* one call of mage.Magefiles in process number r_proc *)
Record run := {
  r_proc : nat;
  r_goos : string; r_goarch : string; r_isdir : bool;      (* arguments of Magefiles *)
  r_obs : option (list string)                            (* sorted base names, None = error *)
}.

Record case := {
  c_files : list file;                 (* sorted by name, as os.ReadDir returns them *)
  c_hostos : string; c_hostarch : string;
  c_supported : bool;                  (* build.Default.CgoEnabled of a process started with a clean environment *)
  c_release : list string;
  c_procs : list proc;
  c_runs : list run
}.

Inductive obs :=
| ODefault (goos goarch : string) (cgo : bool)        (* the model's defaultContext differs from build.Default *)
| OFiles (r : option (list string)).
Inductive robs := AtRun (i : nat) (o : obs).

Definition proc_of (c : case) (r : run) : proc :=
  nth (r_proc r) (c_procs c) {| p_environ := []; p_tool := []; p_dgoos := ""; p_dgoarch := ""; p_dcgo := false |}.

Definition su_of (c : case) (r : run) : startup :=
  let p := proc_of c r in
  {| su_environ := p_environ p; su_hostos := c_hostos c; su_hostarch := c_hostarch c;
     su_cgo_supported := c_supported c; su_default_cgo := ""; su_compiler := "gc";
     su_tooltags := p_tool p; su_releasetags := c_release c |}.

Definition model_obs (c : case) (r : run) : option (list string) :=
  magefiles (su_of c r) (r_goos r) (r_goarch r) (r_isdir r) (c_files c).

Definition opt_eqb (a b : option (list string)) : bool := option_eqb (list_eqb String.eqb) a b.

Definition check_run (c : case) (r : run) : option obs :=
  let d := defaultContext (su_of c r) in
  let p := proc_of c r in
  if negb (String.eqb (b_goos d) (p_dgoos p) && String.eqb (b_goarch d) (p_dgoarch p) && Bool.eqb (b_cgo d) (p_dcgo p))
  then Some (ODefault (b_goos d) (b_goarch d) (b_cgo d))
  else
    let m := model_obs c r in
    if opt_eqb m (r_obs r) then None else Some (OFiles m).

(* first disagreeing run of a case: (index of the run, what the model says) *)
Definition check (c : case) : option robs :=
  match mism_from (check_run c) 0 (c_runs c) with
  | [] => None
  | (i, o) :: _ => Some (AtRun i o)
  end.
Definition mismatches (l : list case) := mism_from check 0 l.

(* magefiles-directory detection (end-to-end sample): which directory Invoke uses *)
Record dcase := {
  d_top : list file; d_sub : list file; d_has_sub : bool; d_top_named : bool;
  d_hostos : string; d_hostarch : string; d_cgo : bool; d_release : list string; d_tool : list string;
  d_goos : string; d_goarch : string;
  d_obs : bool * option (list string)          (* (true = subdirectory used, files) *)
}.
Definition dmodel (d : dcase) : bool * option (list string) :=
  let su := {| su_environ := [if d_cgo d then "CGO_ENABLED=1" else "CGO_ENABLED=0"]; su_hostos := d_hostos d; su_hostarch := d_hostarch d;
               su_cgo_supported := true; su_default_cgo := ""; su_compiler := "gc";
               su_tooltags := d_tool d; su_releasetags := d_release d |} in
  match invoke_magefiles su (d_goos d) (d_goarch d) (d_has_sub d) (d_top_named d) (d_top d) (d_sub d) with
  | (Top, r) => (false, r)
  | (Sub, r) => (true, r)
  end.
Definition dcheck (d : dcase) : option (bool * option (list string)) :=
  let m := dmodel d in
  if Bool.eqb (fst m) (fst (d_obs d)) && opt_eqb (snd m) (snd (d_obs d)) then None else Some m.
Definition dmismatches (l : list dcase) := mism_from dcheck 0 l.
