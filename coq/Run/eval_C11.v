(* Comparison functions used by generated case files of C11.

   One [case] = one process run: `mage WORDS` (caller's environment, layout) or the compiled binary started with
   WORDS.  The model gets the command line AS WORDS (Model/FlagPkg.v parses them, Model/Flags.v does the rest).
   One [pcase] = one word list given to a REAL flag.FlagSet carrying mage's 17 / the generated main's 4 flag
   definitions (harness/c11conv): verdict, values of the flags that were set, leftover words - against [cl_parse].
   The external functions get their ACTUAL values per case, as tables computed outside mage:
   time.ParseDuration / Duration.String (Go standard library, harness/c11conv) and the operating system's
   resolution of a directory string relative to the directory mage was started in. *)
From Mage Require Import Base.Strs Model.Flags.

Inductive route := ViaMage | ViaBinary.
Inductive omode := ORejected | OMode (m : mode).      (* flag error: status 2, usage, nothing runs / what the program did *)

Record obs := {
  o_mode : omode;
  o_verbose_log : bool;                (* the generated main is verbose (the std logger is live) *)
  o_announce : option bool;            (* the program itself announced the target / its dependency on stderr before the target
                                          wrote anything (None: not observable in this run - the front end's debug stream, a
                                          warning about a malformed variable ... share that stretch of stderr) *)
  o_verbose : bool; o_debug : bool; o_gocmd : string;      (* mg.Verbose() mg.Debug() mg.GoCmd() in the target *)
  o_timeout : Z;                       (* deadline of the target's context, ns; 0 = none; < 0 = already expired *)
  o_cwd : string;                      (* resolved working directory of the target (ViaMage) *)
  o_build : string;                    (* resolved directory the magefiles were taken from (ViaMage) *)
  o_env : list (string * option string);   (* the target's environment at the observed keys *)
  o_stdin : option stream; o_stdout : option stream; o_stderr : option stream;
    (* which of the caller's streams the target's stream turned out to be; None = none of them *)
  o_words : list string                (* the words the dispatcher acted on: the target that ran and its argument *)
}.

Record case := {
  c_route : route;
  c_words : list string;               (* the command line of the process *)
  c_env : env;                         (* the caller's environment *)
  c_layout : layout;
  c_default : string;                  (* the magefile's default target ("" = none) *)
  c_durs : list (string * option Z);   (* time.ParseDuration *)
  c_durstr : list (Z * string);        (* time.Duration.String *)
  c_bools : list (string * option bool);   (* strconv.ParseBool, to pin the transcription parse_bool *)
  c_resolve : list (string * string);  (* directory string -> resolved absolute path *)
  c_keys : list string;
  c_obs : obs
}.

Fixpoint sassoc {B} (l : list (string * B)) (k : string) : option B :=
  match l with [] => None | (k', v) :: r => if String.eqb k k' then Some v else sassoc r k end.
Fixpoint zassoc (l : list (Z * string)) (k : Z) : string :=
  match l with [] => "" | (k', v) :: r => if Z.eqb k k' then v else zassoc r k end.

Definition jn (a b : string) : string := (a ++ "/" ++ b)%string.

(* template.go: `if args.Verbose { logger.Println("Running target:", ...) }` stands in the loop over the words only;
   the default target (no word) is run without that announcement, verbose or not *)
Definition announces (a : arguments) (nwords : nat) : bool := a_verbose a && Nat.ltb 0 nwords.

Definition blank (m : omode) : obs :=
  {| o_mode := m; o_verbose_log := false; o_announce := None; o_verbose := false; o_debug := false; o_gocmd := ""; o_timeout := 0%Z;
     o_cwd := ""; o_build := ""; o_env := []; o_stdin := None; o_stdout := None; o_stderr := None; o_words := [] |}.

Definition model_obs (c : case) : obs :=
  let parse_dur := fun s => match sassoc (c_durs c) s with Some r => r | None => None end in
  let dur_string := zassoc (c_durstr c) in
  let resolve := fun s => match sassoc (c_resolve c) s with Some p => p | None => "?" end in
  let has_default := negb (String.eqb (c_default c) "") in
  (* no word: the default target's own name is what runs *)
  let acted := fun ws : list string => match ws with [] => if has_default then [c_default c] else [] | _ => ws end in
  match c_route c with
  | ViaMage =>
      match mage_cmdline parse_dur dur_string jn true (c_layout c) (c_words c) (c_env c) with
      | Rejected _ => blank ORejected
      | UsageShown => blank (OMode MUsage)
      | Runs args tenv ws =>
          let '(cwd, build) := mage_cmdline_dirs parse_dur dur_string jn (c_layout c) (c_words c) (c_env c) in
          let f := flags_of (match cl_parse parse_dur front_spec (c_words c) with POk a _ => a | PBad a => a | PHelp => [] end) in
          let inv := fst (fst (front_end dur_string jn true (c_layout c) f (c_env c))) in
          let w := run_compiled_wiring inv (length ws) in
          {| o_mode := OMode (gm_mode args (length ws) has_default tenv); o_verbose_log := a_verbose args; o_announce := Some (announces args (length ws));
             o_verbose := mg_verbose tenv; o_debug := mg_debug tenv; o_gocmd := mg_gocmd tenv;
             o_timeout := a_timeout args; o_cwd := resolve cwd; o_build := resolve build;
             o_env := map (fun k => (k, lookup k tenv)) (c_keys c);
             o_stdin := Some (w_stdin w); o_stdout := Some (w_stdout w); o_stderr := Some (w_stderr w);
             o_words := acted ws |}
      end
  | ViaBinary =>
      match binary_cmdline parse_dur (c_words c) (c_env c) with
      | Rejected _ => blank ORejected
      | UsageShown => blank (OMode MUsage)
      | Runs args tenv ws =>
          {| o_mode := OMode (gm_mode args (length ws) has_default tenv); o_verbose_log := a_verbose args; o_announce := Some (announces args (length ws));
             o_verbose := mg_verbose tenv; o_debug := mg_debug tenv; o_gocmd := mg_gocmd tenv;
             o_timeout := a_timeout args; o_cwd := ""; o_build := "";
             o_env := map (fun k => (k, lookup k tenv)) (c_keys c);
             o_stdin := Some CallerStdin; o_stdout := Some CallerStdout; o_stderr := Some CallerStderr;
             o_words := acted ws |}
      end
  end.

Definition mode_eqb (a b : mode) : bool :=
  match a, b with
  | MUsage, MUsage | MList, MList | MHelp, MHelp | MRun, MRun => true
  | _, _ => false
  end.
Definition omode_eqb (a b : omode) : bool :=
  match a, b with
  | ORejected, ORejected => true
  | OMode x, OMode y => mode_eqb x y
  | _, _ => false
  end.
Definition stream_eqb (a b : stream) : bool :=
  match a, b with
  | CallerStdin, CallerStdin | CallerStdout, CallerStdout | CallerStderr, CallerStderr => true
  | _, _ => false
  end.
Definition entry_eqb (a b : string * option string) : bool :=
  String.eqb (fst a) (fst b) && option_eqb String.eqb (snd a) (snd b).

Definition obs_eqb (m o : obs) : bool :=
  omode_eqb (o_mode m) (o_mode o) &&
  match o_mode m with
  | OMode MRun =>
      if (o_timeout m <? 0)%Z then (o_timeout o <? 0)%Z     (* an expired context: the target body does not report *)
      else
        Bool.eqb (o_verbose_log m) (o_verbose_log o) && Bool.eqb (o_verbose m) (o_verbose o) &&
        match o_announce o with Some b => option_eqb Bool.eqb (o_announce m) (Some b) | None => true end &&
        Bool.eqb (o_debug m) (o_debug o) && String.eqb (o_gocmd m) (o_gocmd o) &&
        Z.eqb (o_timeout m) (o_timeout o) &&
        String.eqb (o_cwd m) (o_cwd o) && String.eqb (o_build m) (o_build o) &&
        list_eqb entry_eqb (o_env m) (o_env o) &&
        option_eqb stream_eqb (o_stdin m) (o_stdin o) && option_eqb stream_eqb (o_stdout m) (o_stdout o) &&
        option_eqb stream_eqb (o_stderr m) (o_stderr o) &&
        list_eqb String.eqb (o_words m) (o_words o)
  | _ => true
  end.

Definition bools_ok (c : case) : bool :=
  forallb (fun sr => option_eqb Bool.eqb (parse_bool (fst sr)) (snd sr)) (c_bools c).

Definition check (c : case) : option (bool * obs) :=
  let m := model_obs c in
  if obs_eqb m (c_obs c) && bools_ok c then None else Some (bools_ok c, m).
Definition mismatches (l : list case) := mism_from check 0 l.

(* ---------------------------------------------------------------- the flag package against the real one *)
Inductive verdict := VOk | VHelp | VBad.
Record pcase := {
  p_front : bool;                        (* mage's flag set (17 flags) / the generated main's (4) *)
  p_words : list string;
  p_durs : list (string * option Z);     (* time.ParseDuration of every word and every "=value" *)
  p_verdict : verdict;                   (* nil / flag.ErrHelp / another error *)
  p_set : list (string * fval);          (* fs.Visit: the flags that were set, with their final values *)
  p_rest : list string                   (* fs.Args(), when the verdict is nil *)
}.

Definition fval_eqb (a b : fval) : bool :=
  match a, b with
  | VB x, VB y => Bool.eqb x y
  | VD x, VD y => Z.eqb x y
  | VS x, VS y => String.eqb x y
  | _, _ => false
  end.

Definition set_agrees (a : assigns) (set : list (string * fval)) : bool :=
  forallb (fun nv => option_eqb fval_eqb (last_val (fst nv) a) (Some (snd nv))) set &&
  forallb (fun nv => existsb (fun s => String.eqb (fst nv) (fst s)) set) a.

Definition pcheck (c : pcase) : option pres :=
  let parse_dur := fun s => match sassoc (p_durs c) s with Some r => r | None => None end in
  let r := cl_parse parse_dur (if p_front c then front_spec else gen_spec) (p_words c) in
  let ok := match r, p_verdict c with
            | POk a rest, VOk => set_agrees a (p_set c) && list_eqb String.eqb rest (p_rest c)
            | PHelp, VHelp => true
            | PBad a, VBad => set_agrees a (p_set c)
            | _, _ => false
            end in
  if ok then None else Some r.
Definition pmismatches (l : list pcase) := mism_from pcheck 0 l.
