(* Comparison functions used by generated case files of C11.

   One case = one process run: through `mage` (front-end flags, caller's environment, layout) or of
   the compiled binary started directly (its own flags, caller's environment).  The external
   functions of Model/Flags.v get their ACTUAL values per case, as tables computed outside mage:
   time.ParseDuration / Duration.String (Go standard library, harness/c11conv) and the operating
   system's resolution of a directory string relative to the directory mage was started in. *)
From Mage Require Import Base.Strs Model.Flags.

Inductive route := ViaMage | ViaBinary.

Record obs := {
  o_mode : mode;                       (* what the program did with its word: listed / help / ran it *)
  o_verbose_log : bool;                (* the generated main announced the target (args.Verbose) *)
  o_verbose : bool; o_debug : bool; o_gocmd : string;      (* mg.Verbose() mg.Debug() mg.GoCmd() in the target *)
  o_timeout : Z;                       (* deadline of the target's context, ns; 0 = none; < 0 = already expired *)
  o_cwd : string;                      (* resolved working directory of the target (ViaMage) *)
  o_build : string;                    (* resolved directory the magefiles were taken from (ViaMage) *)
  o_env : list (string * option string);   (* the target's environment at the observed keys *)
  o_stdin : option stream; o_stdout : option stream; o_stderr : option stream
    (* which of the caller's streams the target's stream turned out to be; None = none of them *)
}.

Record case := {
  c_route : route;
  c_flags : flags;                     (* ViaMage *)
  c_cflags : cflags;                   (* ViaBinary *)
  c_env : env;                         (* the caller's environment *)
  c_layout : layout;
  c_nargs : nat;
  c_default : bool;                    (* the magefile declares a default target *)
  c_durs : list (string * option Z);   (* time.ParseDuration *)
  c_durstr : list (Z * string);        (* time.Duration.String *)
  c_bools : list (string * option bool);   (* strconv.ParseBool, to pin the transcription parse_bool *)
  c_resolve : list (string * string);  (* directory string -> resolved absolute path *)
  c_keys : list string;
  c_obs : obs
}.

Fixpoint sassoc {B} (l : list (string * B)) (k : string) : option B :=
  match l with [] => None | (k', v) :: r => if String.eqb k k' then Some v else sassoc r k end.
Fixpoint zassoc (l : list (Z * string)) (k : Z) : string :=
  match l with [] => "" | (k', v) :: r => if Z.eqb k k' then v else zassoc r k end.

Definition jn (a b : string) : string := (a ++ "/" ++ b)%string.

Definition model_obs (c : case) : obs :=
  let parse_dur := fun s => match sassoc (c_durs c) s with Some r => r | None => None end in
  let dur_string := zassoc (c_durstr c) in
  let resolve := fun s => match sassoc (c_resolve c) s with Some p => p | None => "?" end in
  match c_route c with
  | ViaMage =>
      let '(inv, cenv, dir) := front_end dur_string jn true (c_layout c) (c_flags c) (c_env c) in
      let args := gm_parse parse_dur no_cflags cenv in
      let tenv := gm_target_env args cenv in
      {| o_mode := gm_mode args (c_nargs c) (c_default c) cenv; o_verbose_log := a_verbose args;
         o_verbose := mg_verbose tenv; o_debug := mg_debug tenv; o_gocmd := mg_gocmd tenv;
         o_timeout := a_timeout args; o_cwd := resolve dir; o_build := resolve (i_dir inv);
         o_env := map (fun k => (k, lookup k tenv)) (c_keys c);
         o_stdin := Some (w_stdin (run_compiled_wiring inv (c_nargs c)));
         o_stdout := Some (w_stdout (run_compiled_wiring inv (c_nargs c)));
         o_stderr := Some (w_stderr (run_compiled_wiring inv (c_nargs c))) |}
  | ViaBinary =>
      let args := gm_parse parse_dur (c_cflags c) (c_env c) in
      let tenv := gm_target_env args (c_env c) in
      {| o_mode := gm_mode args (c_nargs c) (c_default c) (c_env c); o_verbose_log := a_verbose args;
         o_verbose := mg_verbose tenv; o_debug := mg_debug tenv; o_gocmd := mg_gocmd tenv;
         o_timeout := a_timeout args; o_cwd := ""; o_build := "";
         o_env := map (fun k => (k, lookup k tenv)) (c_keys c);
         o_stdin := Some CallerStdin; o_stdout := Some CallerStdout; o_stderr := Some CallerStderr |}
  end.

Definition mode_eqb (a b : mode) : bool :=
  match a, b with
  | MUsage, MUsage | MList, MList | MHelp, MHelp | MRun, MRun => true
  | _, _ => false
  end.
Definition stream_eqb (a b : stream) : bool :=
  match a, b with
  | CallerStdin, CallerStdin | CallerStdout, CallerStdout | CallerStderr, CallerStderr => true
  | _, _ => false
  end.
Definition entry_eqb (a b : string * option string) : bool :=
  String.eqb (fst a) (fst b) && option_eqb String.eqb (snd a) (snd b).

Definition obs_eqb (m o : obs) : bool :=
  mode_eqb (o_mode m) (o_mode o) &&
  match o_mode m with
  | MRun =>
      if (o_timeout m <? 0)%Z then (o_timeout o <? 0)%Z     (* an expired context: the target body does not report *)
      else
        Bool.eqb (o_verbose_log m) (o_verbose_log o) && Bool.eqb (o_verbose m) (o_verbose o) &&
        Bool.eqb (o_debug m) (o_debug o) && String.eqb (o_gocmd m) (o_gocmd o) &&
        Z.eqb (o_timeout m) (o_timeout o) &&
        String.eqb (o_cwd m) (o_cwd o) && String.eqb (o_build m) (o_build o) &&
        list_eqb entry_eqb (o_env m) (o_env o) &&
        option_eqb stream_eqb (o_stdin m) (o_stdin o) && option_eqb stream_eqb (o_stdout m) (o_stdout o) &&
        option_eqb stream_eqb (o_stderr m) (o_stderr o)
  | _ => true
  end.

Definition bools_ok (c : case) : bool :=
  forallb (fun sr => option_eqb Bool.eqb (parse_bool (fst sr)) (snd sr)) (c_bools c).

Definition check (c : case) : option (bool * obs) :=
  let m := model_obs c in
  if obs_eqb m (c_obs c) && bools_ok c then None else Some (bools_ok c, m).
Definition mismatches (l : list case) := mism_from check 0 l.
