(* Comparison functions used by generated case files of C12.
   CTime: one timed invocation (timeout, targets, SIGINT arrival times; logical time starts at the start
          of the first target); the observed (exit status, stderr class, per started target: did it
          see its context cancelled / did it return) must be ONE OF the results the model allows.
   CGraph: the event trace of a dependency program run inside a real mage target; the model of the
          engine must accept it (Model/DepsReplay.accepts) - this compares the context every
          dependency received (root context / Background) with what Model/Deps.v hands over. *)
From Mage Require Import Base.Strs Model.Timeout Model.Deps Model.DepsReplay.

Record otgt := { oo_cancel : option bool   (* None: not observable (the report races with the exit) *);
                 oo_end : bool }.
(* tc_sigs: the SIGINT arrival times.  tc_kill = Some tau: at tau a signal OTHER than SIGINT arrives (SIGTERM, SIGHUP, SIGUSR1 ...):
   the generated main subscribes to SIGINT only, so the Go runtime's default disposition applies - outside Model/Timeout.v -
   and the process dies with that signal (tc_killed) iff it is still running at tau; tc_sigs then holds the SIGINTs before tau. *)
Record tcase := { tc_d : Z; tc_targets : list target; tc_sigs : list Z;
                  tc_exit : Z; tc_cls : cls; tc_obs : list otgt;
                  tc_kill : option Z; tc_killed : bool }.
Inductive case := CTime (c : tcase) | CGraph (p : prog) (o : list oevent) (fuel : nat).

Inductive obs := OResults (l : list (cls * Z * list (bool * bool))) | OVerdict (v : verdict).

Definition cls_eqb (a b : cls) : bool :=
  match a, b with
  | KOk, KOk | KDeadline, KDeadline | KCanceled, KCanceled | KCleanup, KCleanup | KForced, KForced | KTarget, KTarget => true
  | _, _ => false
  end.

Definition is_some {A} (o : option A) : bool := match o with Some _ => true | None => false end.

Definition tgt_match (m : tobs) (o : otgt) : bool :=
  match oo_cancel o with None => true | Some b => Bool.eqb b (is_some (ts_cancel m)) end &&
  Bool.eqb (oo_end o) (is_some (ts_end m)).

(* a target whose context was already Done when it started (or within 2 ms: -t 1ns, 400us ...) and that was still
   running when the process exited: runTarget returns from `select` at once, its goroutine may not even have printed
   its start *)
Definition cut_at_start (m : tobs) : bool :=
  match ts_cancel m, ts_end m with
  | Some x, None => Z.leb (x - ts_start m) 2000000
  | _, _ => false
  end.

Fixpoint all2 (a : list tobs) (b : list otgt) : bool :=
  match a, b with
  | [], [] => true
  | x :: a', y :: b' => tgt_match x y && all2 a' b'
  | [x], [] => cut_at_start x
  | _, _ => false
  end.

Definition matches (r : result) (c : tcase) : bool :=
  Z.eqb (r_exit r) (tc_exit c) && cls_eqb (r_cls r) (tc_cls c) && all2 (r_obs r) (tc_obs c).

Definition project (r : result) : cls * Z * list (bool * bool) :=
  (r_cls r, r_exit r, map (fun o => (is_some (ts_cancel o), is_some (ts_end o))) (r_obs r)).

Definition model_obs (c : case) : obs :=
  match c with
  | CTime t => OResults (map project (run_targets (tc_d t) (tc_targets t) 0%Z (tc_sigs t)))
  | CGraph p o fuel => OVerdict (accepts p fuel o [])
  end.

Definition check (c : case) : option obs :=
  match c with
  | CTime t =>
      let rs := run_targets (tc_d t) (tc_targets t) 0%Z (tc_sigs t) in
      let ok := match tc_kill t with
                | None => negb (tc_killed t) && existsb (fun r => matches r t) rs
                | Some tau => if tc_killed t then existsb (fun r => Z.leb tau (r_time r)) rs          (* still running at tau *)
                              else existsb (fun r => matches r t && Z.leb (r_time r) tau) rs          (* had ended before *)
                end in
      if ok then None else Some (model_obs c)
  | CGraph p o fuel => match accepts p fuel o [] with Accepted => None | v => Some (OVerdict v) end
  end.

Definition mismatches (l : list case) := mism_from check 0 l.
