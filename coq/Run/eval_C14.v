(* Comparison functions used by generated case files of C14. *)
From Mage Require Import Base.Strs Model.FnCheck Model.FnId.

Definition value_eqb (a b : value) : bool :=
  match a, b with
  | VInt x, VInt y => Z.eqb x y
  | VBool x, VBool y => Bool.eqb x y
  | VStr x, VStr y => String.eqb x y
  | VDur x, VDur y => Z.eqb x y
  | VNil, VNil => true
  | VOther x, VOther y => gty_eqb x y
  | VCtxGiven, VCtxGiven => true
  | VEmpty, VEmpty => true
  | _, _ => false
  end.

(* observed behaviour of mg.F(target,args) and, when accepted, of Run *)
Inductive obs := OPanic | OAccept (received : list value) (id : string).

Record case := { c_target : target; c_args : list value; c_obs : obs }.

Definition model_obs (c : case) : obs :=
  match checkF (c_target c) (c_args c) with
  | Bad => OPanic
  | Good hc ns => OAccept (call_args hc ns (c_args c)) (fn_id (c_args c))
  end.

Definition obs_eqb (a b : obs) : bool :=
  match a, b with
  | OPanic, OPanic => true
  | OAccept r i, OAccept r' i' => list_eqb value_eqb r r' && String.eqb i i'
  | _, _ => false
  end.

Definition check (c : case) : option obs :=
  let m := model_obs c in if obs_eqb m (c_obs c) then None else Some m.

Definition mismatches (l : list case) := mism_from check 0 l.

(* identity: pairs *)
Record pcase := { p_a : list value; p_b : list value; p_ideq : bool }.
Definition pcheck (c : pcase) : option bool :=
  let m := String.eqb (fn_id (p_a c)) (fn_id (p_b c)) in
  if Bool.eqb m (p_ideq c) then None else Some m.
Definition pmismatches (l : list pcase) := mism_from pcheck 0 l.
