(* Comparison functions used by generated case files of C15. *)
From Mage Require Import Base.Strs Base.Expand Model.Sh.

(* byte strings of a case file: hex, decoded inside vm_compute (cheaper to parse than [bs [..]]) *)
Definition hexval (c : ascii) : nat :=
  let n := nat_of_ascii c in
  if Nat.leb 97 n then n - 87 else if Nat.leb 65 n then n - 55 else n - 48.
Fixpoint hx (s : string) : string :=
  match s with
  | String a (String b r) => String (ascii_of_nat (16 * hexval a + hexval b)) (hx r)
  | _ => EmptyString
  end.

(* an argument of n bytes (case files do not spell out very long strings) *)
Definition big (n : N) : string := str_of (repeat (ch 120) (N.to_nat n)).

Record obs := {
  o_ran : option bool;                 (* Exec's first result; None for the other entry points *)
  o_err : err;                         (* ENil | EFatal c (the error has ExitStatus(), c = mg.ExitStatus) | EOther *)
  o_mg : Z;                            (* mg.ExitStatus(err) *)
  o_sh : Z;                            (* sh.ExitStatus(err) *)
  o_cmdran : bool;                     (* sh.CmdRan(err) *)
  o_text : string;                     (* Output / OutputWith *)
  o_started : option (list string * list string);   (* the child's own report: argv, environment *)
  o_stdin_ok : bool;                   (* the child read exactly the caller's stdin *)
  o_os_stdout : string;
  o_os_stderr : string;
  o_buf_out : string;
  o_buf_err : string
}.

(* the call of a case: one of the entry points, or Exec with writers that may fail *)
Inductive xentry := XE (f : entry) | XExec (so se : xwriter).

Record case := {
  c_penv : envlist;                    (* os.Environ() at call time, split at the first '=' *)
  c_envm : envlist;                    (* the env map (entries in some order) *)
  c_fn : xentry;
  c_cmd : string;
  c_args : list string;
  c_startable : list string;           (* command strings the OS can start: the helper child *)
  c_child : child_result;              (* what the helper child does once started (its own report) *)
  c_obs : obs
}.

(* the kernel refuses an argument vector with a string longer than MAX_ARG_STRLEN = 131072 bytes incl. NUL (E2BIG) *)
Definition arg_too_long (a : string) : bool := N.leb 131072 (N.of_nat (S (String.length a))).

Definition world (c : case) (argv envp : list string) : child_result :=
  match argv with
  | cmd :: _ => if existsb arg_too_long argv then NotStarted
                else if mem_str cmd (c_startable c) then c_child c else NotStarted
  | [] => NotStarted
  end.

Definition is_output_fn (f : entry) : bool := match f with FOutput | FOutputWith => true | _ => false end.

Definition model_obs (c : case) : obs :=
  let x := match c_fn c with
           | XE f => call_entry (c_penv c) (world c) f (c_envm c) (c_cmd c) (c_args c)
           | XExec so se => exec_x (c_penv c) (world c) (c_envm c) so se (c_cmd c) (c_args c)
           end in
  let started := match k_child x with NotStarted => false | _ => true end in
  {| o_ran := match c_fn c with XE (FExec _ _) | XExec _ _ => Some (k_ran x) | _ => None end;
     o_err := k_err x;
     o_mg := mg_ExitStatus (k_err x);
     o_sh := sh_ExitStatus (k_err x);
     o_cmdran := sh_CmdRan (k_err x);
     o_text := k_text x;
     o_started := if started then Some (k_argv x, k_envp x) else None;
     o_stdin_ok := if started then match k_stdin x with OsStdin => true | NoStdin => false end else true;
     o_os_stdout := k_os_stdout x;
     o_os_stderr := k_os_stderr x;
     o_buf_out := if match c_fn c with XE f => is_output_fn f | _ => false end then EmptyString else k_buf_out x;
     o_buf_err := k_buf_err x |}.

Definition err_eqb (a b : err) : bool :=
  match a, b with
  | ENil, ENil | EOther, EOther => true
  | EFatal x, EFatal y => Z.eqb x y
  | EExitError (WExited x), EExitError (WExited y) => Z.eqb x y
  | EExitError (WSignaled _), EExitError (WSignaled _) => true
  | _, _ => false
  end.

(* environments are compared as sets (the order of the appended map entries is Go's map order) *)
Definition subset (a b : list string) : bool := forallb (fun e => mem_str e b) a.
Definition set_eqb (a b : list string) : bool :=
  Nat.eqb (length a) (length b) && subset a b && subset b a.

Definition started_eqb (a b : option (list string * list string)) : bool :=
  match a, b with
  | None, None => true
  | Some (av, ae), Some (bv, be) => list_eqb String.eqb av bv && set_eqb ae be
  | _, _ => false
  end.

Definition obs_eqb (m o : obs) : bool :=
  option_eqb Bool.eqb (o_ran m) (o_ran o) && err_eqb (o_err m) (o_err o)
  && Z.eqb (o_mg m) (o_mg o) && Z.eqb (o_sh m) (o_sh o) && Bool.eqb (o_cmdran m) (o_cmdran o)
  && String.eqb (o_text m) (o_text o) && started_eqb (o_started m) (o_started o)
  && Bool.eqb (o_stdin_ok m) (o_stdin_ok o)
  && String.eqb (o_os_stdout m) (o_os_stdout o) && String.eqb (o_os_stderr m) (o_os_stderr o)
  && String.eqb (o_buf_out m) (o_buf_out o) && String.eqb (o_buf_err m) (o_buf_err o).

Definition check (c : case) : option obs :=
  let m := model_obs c in if obs_eqb m (c_obs c) then None else Some m.
Definition mismatches (l : list case) := mism_from check 0 l.

(* ---- sh.CmdRan / sh.ExitStatus / mg.ExitStatus on raw error values ---- *)
Record rawcase := {
  r_child : option child_result;       (* when the error came from running the helper child: what the child did *)
  r_shape : err;                       (* the dynamic shape of the error as the standard library reports it *)
  r_cmdran : bool; r_sh : Z; r_mg : Z  (* the three functions' answers *)
}.
Definition check_raw (c : rawcase) : option (err * (bool * (Z * Z))) :=
  let e := r_shape c in
  let shape_ok := match r_child c with Some r => err_eqb (cmd_run_err r) e | None => true end in
  if shape_ok && Bool.eqb (sh_CmdRan e) (r_cmdran c) && Z.eqb (sh_ExitStatus e) (r_sh c) && Z.eqb (mg_ExitStatus e) (r_mg c)
  then None
  else Some (match r_child c with Some r => cmd_run_err r | None => e end,
             (sh_CmdRan e, (sh_ExitStatus e, mg_ExitStatus e))).
Definition mismatches_raw (l : list rawcase) := mism_from check_raw 0 l.
