(* Comparison functions used by generated case files of C16 (history correspondence + concurrent calls). *)
From Mage Require Import Base.Strs Base.Expand Model.Slices.

(* The operating system's answer to "which program does this command word name now", fed by the harness per case:
   (value of VERIF_FS_EPOCH, value of PATH, command word) -> exec.LookPath's answer at that moment (computed by the
   Go standard library in the harness, independently of package sh).  The harness bumps VERIF_FS_EPOCH in the
   process environment whenever it removes / restores / chmods a program, so the table is a function of the
   environment at the time of the call and of argv[0]. *)
Definition lookup_tbl := list (string * string * string * option string).
Fixpoint os_lookup (t : lookup_tbl) (ep path name : string) : option string :=
  match t with
  | [] => None
  | (e, p, n, r) :: t' => if String.eqb e ep && String.eqb p path && String.eqb n name then r else os_lookup t' ep path name
  end.
Definition resolved (t : lookup_tbl) (penv : list (string * string)) (argv : list string) : option string :=
  os_lookup t (env_get penv "VERIF_FS_EPOCH") (env_get penv "PATH") (hd EmptyString argv).

(* os/exec (Go 1.20+) refuses to start a command whose environment contains a NUL byte: "exec: environment variable
   contains NUL" (measured on the unchanged tree; an empty name, '=' in a name, very long or non-UTF-8 entries are
   handed to the child as they are) *)
Fixpoint has_nul (s : string) : bool :=
  match s with EmptyString => false | String c r => Nat.eqb (nat_of_ascii c) 0 || has_nul r end.
Definition map_refused (emap : list (string * string)) : bool :=
  existsb (fun kv => has_nul (fst kv) || has_nul (snd kv)) emap.
(* the program that runs, if any: the env map is acceptable and the command word names one *)
Definition startable (t : lookup_tbl) (penv emap : list (string * string)) (argv : list string) : option string :=
  if map_refused emap then None else resolved t penv argv.

Fixpoint parse_dec (acc : nat) (seen : bool) (s : string) : option nat :=
  match s with
  | EmptyString => if seen then Some acc else None
  | String c r => let n := nat_of_ascii c in
                  if Nat.leb 48 n && Nat.leb n 57 then parse_dec (10 * acc + (n - 48)) true r else None
  end.
Definition exit_arg (a : string) : option nat :=
  if String.prefix "--exit=" a then
    match parse_dec 0 false (String.substring 7 (String.length a - 7) a) with
    | Some n => if Nat.leb n 255 then Some n else None
    | None => None
    end
  else None.
(* harness/argvchild started as program p: prints "p: " and its arguments joined by one space and a newline
   (nothing if one of them is --quiet), exits with N if its last argument of the form --exit=N says so (N decimal,
   0..255); with an argument --kill it kills itself with a signal after printing: the call's error is not an
   exit error, sh.ExitStatus says 1.  No program found / not startable: nothing printed, sh.ExitStatus of the
   error is 1. *)
Definition argvchild_out (t : lookup_tbl) (penv emap : list (string * string)) (argv : list string) : string :=
  match startable t penv emap argv with
  | None => EmptyString
  | Some p => if existsb (String.eqb "--quiet") (tl argv) then EmptyString
              else String.append p (String.append ": " (String.append (String.concat " " (tl argv)) (String (ascii_of_nat 10) EmptyString)))
  end.
Definition argvchild_exit (t : lookup_tbl) (penv emap : list (string * string)) (argv : list string) : nat :=
  match startable t penv emap argv with
  | None => 1
  | Some _ => if existsb (String.eqb "--kill") (tl argv) then 1
              else fold_left (fun acc a => match exit_arg a with Some n => n | None => acc end) (tl argv) 0
  end.

(* n copies of s: long "slow to expand" cells of concurrent cases are written (rep_str "${Z}" n) *)
Fixpoint rep_str (s : string) (n : nat) : string :=
  match n with O => EmptyString | S n' => String.append s (rep_str s n') end.

(* ---- very long argument lists: the case file names the cells by a rule and compares a digest ---- *)
Fixpoint dec_go (fuel n : nat) (acc : string) : string :=
  match fuel with
  | O => acc
  | S f => let d := String (ascii_of_nat (48 + Nat.modulo n 10)) acc in
           if Nat.eqb (Nat.div n 10) 0 then d else dec_go f (Nat.div n 10) d
  end.
Definition dec (n : nat) : string := dec_go (S n) n EmptyString.
(* prefix0, prefix1, ..., prefix(n-1) *)
Definition big_cells (prefix : string) (n : nat) : list string := map (fun i => String.append prefix (dec i)) (seq 0 n).

Definition dig_mod : N := 4294967296%N.
Fixpoint dig_str (h : N) (s : string) : N :=
  match s with
  | EmptyString => h
  | String c r => dig_str (N.modulo (h * 31 + N.of_nat (nat_of_ascii c)) dig_mod) r
  end.
Fixpoint dig_list (h : N) (l : list string) : N :=
  match l with
  | [] => h
  | x :: r => dig_list (N.modulo (dig_str h x * 31 + 1) dig_mod) r
  end.

Definition S_ (id off len cap : nat) : slice := {| s_id := id; s_off := off; s_len := len; s_cap := cap |}.
Definition C_ (k : kind) (cmd : string) (baked : slice) : closure := {| cl_kind := k; cl_cmd := cmd; cl_baked := baked |}.

(* what the implementation did in one operation *)
Record iobs := {
  i_argv : list (list string);          (* one entry per child started: its argv (argv[0] first) *)
  i_out : option string;                (* text handed back (Output*, OutCmd closures, Exec's stdout writer) *)
  i_stdout : string;                    (* what reached the process's os.Stdout during the call *)
  i_status : nat;                       (* sh.ExitStatus of the returned error, 0 = nil *)
  i_digest : option (nat * N * option N);  (* very long calls: number of children, digest of their argv lists, digest of the text
                                           (then i_argv / i_out are left empty in the case file) *)
  i_snap : heap;                        (* every caller-visible array, in full, right after the operation *)
  i_emap : list (string * string)       (* the env map handed in, as it is after the operation (sorted by key) *)
}.

Record case := {
  c_lookup : lookup_tbl;                (* the operating system's program lookups at the moments of the calls *)
  c_env : list (string * string);       (* process environment (the variables the generator uses) *)
  c_heap : heap;                        (* the caller's arrays *)
  c_cls : list closure;                 (* closures made before the history; the others are MkClosure operations *)
  c_ops : list op;
  c_obs : list iobs
}.

Definition heap_eqb : heap -> heap -> bool := list_eqb (list_eqb String.eqb).
Definition pair_eqb (a b : string * string) : bool := String.eqb (fst a) (fst b) && String.eqb (snd a) (snd b).

Definition model_obs (c : case) : list (obs * heap) :=
  map (fun x => (fst x, firstn (length (c_heap c)) (snd x)))
      (run_history (argvchild_out (c_lookup c)) (argvchild_exit (c_lookup c)) true (c_env c) (c_cls c) (c_heap c) (c_ops c)).

Definition op_emap (o : op) : list (string * string) :=
  match o with CallDirect _ emap _ _ => emap | _ => [] end.

(* [penv]: the environment at the time of the operation (a child is reported only if it could be started) *)
Definition obs_agree (t : lookup_tbl) (penv : list (string * string)) (o : op) (m : obs * heap) (i : iobs) : bool :=
  heap_eqb (snd m) (i_snap i) && list_eqb pair_eqb (op_emap o) (i_emap i) &&
  match fst m with
  | OSet | OMk => match i_argv i with [] => true | _ => false end
  | OCall argv out so st =>
      match i_digest i with
      | Some (cnt, dargv, dout) =>
          let started := match startable t penv (match o with CallDirect f emap _ _ => if uses_map f then emap else [] | _ => [] end) argv with
                         | Some _ => true | None => false end in
          Nat.eqb cnt (if started then 1 else 0) && N.eqb dargv (if started then dig_list 0 argv else 0%N) &&
          option_eqb N.eqb (option_map (dig_str 0) out) dout && String.eqb so (i_stdout i) && Nat.eqb st (i_status i)
      | None =>
      list_eqb (list_eqb String.eqb)
               (match startable t penv (match o with CallDirect f emap _ _ => if uses_map f then emap else [] | _ => [] end) argv with
                | Some _ => [argv] | None => [] end) (i_argv i) &&
      option_eqb String.eqb out (i_out i) &&
      String.eqb so (i_stdout i) && Nat.eqb st (i_status i)
      end
  | OBad => false
  end.

(* the payload of a mismatch stays small: of a very long call only the first arguments are shown *)
Definition trim_payload (m : obs * heap) : obs * heap :=
  match fst m with
  | OCall argv out so st => if Nat.ltb 50 (length argv) then (OCall (firstn 5 argv) None so st, []) else m
  | _ => m
  end.

Fixpoint first_diff (t : lookup_tbl) (penv : list (string * string)) (n : nat) (ops : list op) (ms : list (obs * heap)) (is_ : list iobs)
  : option (nat * option (obs * heap)) :=
  match ops, ms, is_ with
  | [], [], [] => None
  | o :: ops', m :: ms', i :: is' =>
      if obs_agree t penv o m i
      then first_diff t (match o with SetEnv k v => (k, v) :: penv | _ => penv end) (S n) ops' ms' is'
      else Some (n, Some (trim_payload m))
  | _, _, _ => Some (n, None)
  end.

(* None: the model predicts every argv, every text and every snapshot; otherwise the first operation that differs *)
Definition check (c : case) : option (nat * option (obs * heap)) :=
  first_diff (c_lookup c) (c_env c) 0 (c_ops c) (model_obs c) (c_obs c).
Definition mismatches (l : list case) := mism_from check 0 l.

(* ---- two overlapping calls ---- *)
Record ccase := {
  cc_lookup : lookup_tbl;
  cc_env : list (string * string);
  cc_heap : heap;
  cc_cls : list closure;
  cc_a : op; cc_b : op;
  cc_sched : list bool;                 (* the model is run under this interleaving (any gives the same, C16_concurrent) *)
  cc_argv_a : list string; cc_argv_b : list string;
  cc_out_a : option string; cc_out_b : option string;
  cc_snap : heap
}.

Definition check_conc (c : ccase) : option (list string * list string * heap) :=
  let out_of (o : obs) := match o with OCall _ out _ _ => out | _ => None end in
  match call_prog (argvchild_out (cc_lookup c)) (argvchild_exit (cc_lookup c)) true (cc_cls c) (cc_env c) (cc_a c),
        call_prog (argvchild_out (cc_lookup c)) (argvchild_exit (cc_lookup c)) true (cc_cls c) (cc_env c) (cc_b c) with
  | Some (pa, fa), Some (pb, fb) =>
      let '(a, b, hf) := par_exec (cc_sched c) pa pb (cc_heap c) in
      let snap := firstn (length (cc_heap c)) hf in
      if list_eqb String.eqb a (cc_argv_a c) && list_eqb String.eqb b (cc_argv_b c) &&
         option_eqb String.eqb (out_of (fa a)) (cc_out_a c) && option_eqb String.eqb (out_of (fb b)) (cc_out_b c) &&
         heap_eqb snap (cc_snap c)
      then None else Some (a, b, snap)
  | _, _ => Some ([], [], [])
  end.
Definition mismatches_conc (l : list ccase) := mism_from check_conc 0 l.
