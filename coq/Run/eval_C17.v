(* Comparison functions used by generated case files of C17. *)
From Mage Require Import Base.Strs Base.Expand Model.Newer.

Inductive fnsel := FPath | FGlob | FDir | FPathNewer | FGlobNewer | FDirNewer | FNewest | FOldest.
Inductive obs := OAns (a : ans) | OTime (z : option Z) (err : bool).

Record case := { c_root : tree; c_env : list (string * string); c_globs : list (string * option (list string));
                 c_fn : fnsel; c_dst : string; c_srcs : list string; c_target : Z; c_obs : obs }.

Fixpoint glob_assoc (l : list (string * option (list string))) (g : string) : option (list string) :=
  match l with
  | [] => None
  | (g', m) :: r => if String.eqb g g' then m else glob_assoc r g
  end.

Definition model_obs (c : case) : obs :=
  let gf := glob_assoc (c_globs c) in
  match c_fn c with
  | FPath => OAns (path_ (c_root c) (c_env c) (c_dst c) (c_srcs c))
  | FGlob => OAns (glob_ (c_root c) (c_env c) gf (c_dst c) (c_srcs c))
  | FDir => OAns (dir_ (c_root c) (c_env c) (c_dst c) (c_srcs c))
  | FPathNewer => OAns (pathNewer (c_root c) (c_env c) (c_target c) (c_srcs c))
  | FGlobNewer => OAns (globNewer (c_root c) (c_env c) gf (c_target c) (c_srcs c))
  | FDirNewer => OAns (dirNewer (c_root c) (c_env c) (c_target c) (c_srcs c))
  | FNewest => let '(z, e) := newestModTime (c_root c) (c_srcs c) in OTime (Some z) e
  | FOldest => let '(z, e) := oldestModTime (c_root c) (c_target c) (c_srcs c) in OTime (Some z) e
  end.

Definition ans_eqb (a b : ans) : bool :=
  match a, b with Yes, Yes | No, No | Error, Error => true | _, _ => false end.

Definition obs_eqb (m o : obs) : bool :=
  match m, o with
  | OAns a, OAns b => ans_eqb a b
  | OTime z e, OTime z' e' => Bool.eqb e e' && match z, z' with Some x, Some y => Z.eqb x y | _, _ => true end
  | _, _ => false
  end.

Definition check (c : case) : option obs :=
  let m := model_obs c in if obs_eqb m (c_obs c) then None else Some m.
Definition mismatches (l : list case) := mism_from check 0 l.
