(* Comparison functions used by generated case files of C18. *)
From Mage Require Import Base.Strs Model.Gen.

(* what harness/unitrun op "primary" reports after parse.PrimaryPackage + the two sort.Sort calls *)
Record pobs := {
  o_desc : string;                                                         (* PkgInfo.Description *)
  o_imports : list (string * string * string * list (string * string));   (* UniqueName, Path, Alias, [(TargetName, Package)] *)
  o_funcs : list string;                                                   (* TargetName of the local functions *)
  o_aliases : list (string * string * string);                             (* key, TargetName, Package of the function *)
  o_default : option (string * string) }.                                  (* TargetName, Package *)

(* what is read back from mage_output_file.go *)
Record fobs := {
  fo_desc : string;                           (* the string printed first by list(), "" if none *)
  fo_imports : list (string * string);        (* the lines `<UniqueName> "<Path>"` of the import block, in order *)
  fo_targets : list (string * string);        (* final switch, in order: TargetName, package qualifier of the call *)
  fo_aliases : list (string * string);        (* alias switch, in order: lower-cased key, TargetName *)
  fo_default : string }.                      (* package qualifier of the default target's call, "" if none *)

Record case := {
  c_files : list file; c_funcs : list pfunc; c_default : option aexpr; c_aliases : list (string * aexpr);
  c_env : list (string * (string * list pfunc));
  c_obs : option pobs;            (* None: PrimaryPackage returned an error *)
  c_file : option fobs }.         (* None: not compared *)

Fixpoint env_of (l : list (string * (string * list pfunc))) (p : string) : option (string * list pfunc) :=
  match l with
  | [] => None
  | (k, v) :: r => if String.eqb p k then Some v else env_of r p
  end.

Definition proj (t : tdata) : pobs :=
  let tp := fun f => (target_name f, fn_pkg f) in
  {| o_desc := td_desc t;
     o_imports := map (fun i => (i_uname i, i_path i, i_alias i, map tp (i_funcs i))) (td_imports t);
     o_funcs := map target_name (td_funcs t);
     o_aliases := map (fun kf => (fst kf, target_name (snd kf), fn_pkg (snd kf))) (td_aliases t);
     o_default := option_map tp (td_default t) |}.

Definition lower_ascii (a : ascii) : ascii :=
  let n := nat_of_ascii a in if (65 <=? n)%nat && (n <=? 90)%nat then ascii_of_nat (n + 32) else a.
Fixpoint lower (s : string) : string :=
  match s with EmptyString => EmptyString | String a r => String (lower_ascii a) (lower r) end.

Definition fproj (t : tdata) : fobs :=
  let tp := fun f => (target_name f, fn_pkg f) in
  {| fo_desc := td_desc t;
     fo_imports := map (fun i => (i_uname i, i_path i)) (td_imports t);
     fo_targets := map tp (td_funcs t) ++ flat_map (fun i => map tp (i_funcs i)) (td_imports t);
     fo_aliases := map (fun kf => (lower (fst kf), target_name (snd kf))) (td_aliases t);
     fo_default := match td_default t with Some f => fn_pkg f | None => "" end |}.

(* the model, once with the maps ranged in insertion order and the files/functions as listed, once
   with everything reversed (the theorem says it cannot matter) *)
Definition inputs_of (c : case) (rev_all : bool) : inputs :=
  if rev_all then
    {| in_files := rev (c_files c); in_funcs := rev (c_funcs c); in_default := c_default c; in_aliases := c_aliases c;
       in_range_names := @rev _; in_range_aliases := @rev _ |}
  else
    {| in_files := c_files c; in_funcs := c_funcs c; in_default := c_default c; in_aliases := c_aliases c;
       in_range_names := fun l => l; in_range_aliases := fun l => l |}.

Definition model (c : case) (rev_all : bool) : option tdata :=
  template_data (env_of (c_env c)) true (inputs_of c rev_all).

Definition model_obs (c : case) : option pobs := option_map proj (model c false).

Definition pair_eqb {A B} (ea : A -> A -> bool) (eb : B -> B -> bool) (x y : A * B) : bool :=
  ea (fst x) (fst y) && eb (snd x) (snd y).
Definition ss_eqb := pair_eqb String.eqb String.eqb.
Definition sss_eqb := pair_eqb ss_eqb String.eqb.
Definition imp_eqb := pair_eqb sss_eqb (list_eqb ss_eqb).

Definition pobs_eqb (a b : pobs) : bool :=
  String.eqb (o_desc a) (o_desc b) && list_eqb imp_eqb (o_imports a) (o_imports b) && list_eqb String.eqb (o_funcs a) (o_funcs b) &&
  list_eqb sss_eqb (o_aliases a) (o_aliases b) && option_eqb ss_eqb (o_default a) (o_default b).

Definition fobs_eqb (a b : fobs) : bool :=
  String.eqb (fo_desc a) (fo_desc b) && list_eqb ss_eqb (fo_imports a) (fo_imports b) && list_eqb ss_eqb (fo_targets a) (fo_targets b) &&
  list_eqb ss_eqb (fo_aliases a) (fo_aliases b) && String.eqb (fo_default a) (fo_default b).

Inductive verdict := VObs (m : option pobs) | VFile (m : option fobs) | VOrder (m : option pobs).

Definition check (c : case) : option verdict :=
  let m := model_obs c in
  if negb (option_eqb pobs_eqb m (c_obs c)) then Some (VObs m)
  else if negb (option_eqb pobs_eqb (option_map proj (model c true)) (c_obs c)) then Some (VOrder (option_map proj (model c true)))
  else match c_file c with
       | None => None
       | Some f => let mf := option_map fproj (model c false) in
                   if option_eqb fobs_eqb mf (Some f) then None else Some (VFile mf)
       end.

Definition mismatches (l : list case) := mism_from check 0 l.

(* ---------------------------------------------------------------- the argument list of `go build` *)
Record ccase := { cc_out : string; cc_ldflags : string; cc_entries : list string;    (* raw directory listing *)
                  cc_magefiles : list string;                                          (* the files that are magefiles *)
                  cc_argv : list string }.                                             (* observed *)

Definition ccheck (c : ccase) : option (list string) :=
  let sel := fun s => existsb (String.eqb s) (cc_magefiles c) in
  let m := compile_args (cc_out c) (cc_ldflags c) sel (cc_entries c) in
  let m' := compile_args (cc_out c) (cc_ldflags c) sel (rev (cc_entries c)) in
  if list_eqb String.eqb m (cc_argv c) && list_eqb String.eqb m' (cc_argv c) then None else Some m.

Definition cmismatches (l : list ccase) := mism_from ccheck 0 l.
