(* Comparison functions used by generated case files of C19. *)
From Mage Require Import Base.Strs Model.ImportTag.

(* one exposed target: the name it is listed / dispatched under (lower-cased) and the body that
   runs under that name: (import path ("" = the magefile package), receiver, function name) *)
Definition entry := (string * (string * string * string))%type.
(* None: mage reported an error instead of a listing *)
Definition obs := option (list entry).

Record case := {
  c_files : list file;                                   (* import declarations as go/parser reports them, files in name order *)
  c_dir : string;                                        (* label of the magefile directory *)
  c_golist : list (string * list (string * pkginfo));    (* directory label ("" = start directory) -> import path -> package; absent = error *)
  c_local : list func;                                   (* the magefile package's own targets *)
  c_obs : obs }.

Fixpoint assoc {B} (k : string) (l : list (string * B)) : option B :=
  match l with
  | [] => None
  | (k', v) :: r => if String.eqb k k' then Some v else assoc k r
  end.

Definition golist_of (c : case) (d p : string) : option pkginfo :=
  match assoc d (c_golist c) with
  | Some m => assoc p m
  | None => None
  end.

Definition entry_of (f : func) : entry := (dispatch_name f, (f_path f, f_recv f, f_name f)).

Definition model_obs (c : case) : obs :=
  match set_imports (golist_of c) (c_dir c) (c_files c) with
  | None => None
  | Some imps => Some (map entry_of (c_local c ++ exposed imps))
  end.

Definition entry_eqb (a b : entry) : bool :=
  let '(n, (p, r, f)) := a in let '(n', (p', r', f')) := b in
  String.eqb n n' && String.eqb p p' && String.eqb r r' && String.eqb f f'.

Fixpoint remove_first (x : entry) (l : list entry) : option (list entry) :=
  match l with
  | [] => None
  | y :: r => if entry_eqb x y then Some r
              else match remove_first x r with Some r' => Some (y :: r') | None => None end
  end.

(* equal as multisets *)
Fixpoint same_entries (a b : list entry) : bool :=
  match a with
  | [] => match b with [] => true | _ => false end
  | x :: r => match remove_first x b with Some b' => same_entries r b' | None => false end
  end.

Definition obs_eqb (m o : obs) : bool :=
  match m, o with
  | None, None => true
  | Some a, Some b => same_entries a b
  | _, _ => false
  end.

Definition check (c : case) : option obs :=
  let m := model_obs c in if obs_eqb m (c_obs c) then None else Some m.
Definition mismatches (l : list case) := mism_from check 0 l.
