(* Comparison functions used by generated case files of C20.
   One case = one launch shape (directories, magefile contents, module contexts, invocations, warm
   cache entries) with the ACTUAL values of the external functions as tables (cache file names,
   which contents compile, what each program prints in each directory - all observed on solo runs
   of the real binary), a list of seeds for random schedules, and what every process of the real
   concurrent launch produced.  The model's [run] is evaluated on every schedule; the SET of results
   it allows per process must contain the observed one; for distinct directories it must be
   exactly the solo result; for the two known defective shapes it must exhibit the defect. *)
From Mage Require Import Base.Strs Model.Procs.

(* Gated: a launch whose order was enforced by the go-tool gate (harness/c20gate): inclusion only *)
Inductive shape := Distinct | SameDir | SharedEntry | Gated.

Record case := {
  c_mf : list (dir * contents);
  c_env : list (dir * envid);
  c_names : list (contents * ename);
  c_compile : list (envid * contents * program);        (* absent = does not compile *)
  c_behave : list (program * dir * args * result);
  c_invs : list ginv;                                    (* every command: Model/Procs.v's general system *)
  c_warm : list (ename * program);
  c_seeds : list N;                                      (* random schedules *)
  c_scheds : list (list nat);                            (* explicit schedules: the class a gated launch enforces *)
  c_shape : shape;
  c_observed : list (nat * result) }.

Fixpoint nat_assoc {B} (l : list (nat * B)) (k : nat) (d : B) : B :=
  match l with [] => d | (k', v) :: r => if Nat.eqb k k' then v else nat_assoc r k d end.
Fixpoint str_assoc {B} (l : list (string * B)) (k : string) : option B :=
  match l with [] => None | (k', v) :: r => if String.eqb k k' then Some v else str_assoc r k end.

Definition t_name (c : case) (x : contents) : ename :=
  match str_assoc (c_names c) x with Some e => e | None => ("?" ++ x)%string end.
Definition t_gen (x : contents) : option gentext := Some x.
Fixpoint t_compile_l (l : list (envid * contents * program)) (e : envid) (x : contents) : option program :=
  match l with
  | [] => None
  | (e', x', q) :: r => if String.eqb e e' && String.eqb x x' then Some q else t_compile_l r e x
  end.
(* the build compiles what it reads: the generated text must be the one generated from these magefiles *)
Definition t_compile (c : case) (e : envid) (x : contents) (g : gentext) : option program :=
  if String.eqb g x then t_compile_l (c_compile c) e x else None.
Fixpoint t_behave_l (l : list (program * dir * args * result)) (q : program) (D : dir) (a : args) : result :=
  match l with
  | [] => ("?", (-1)%Z)
  | (q', D', a', r) :: rest => if String.eqb q q' && Nat.eqb D D' && String.eqb a a' then r else t_behave_l rest q D a
  end.
Definition t_behave (c : case) := t_behave_l (c_behave c).

Definition fs_of (c : case) : fsys :=
  {| f_mf := fun d => nat_assoc (c_mf c) d "";
     f_env := fun d => nat_assoc (c_env c) d "";
     f_main := fun _ => None;
     f_cache := fun e => str_assoc (c_warm c) e;
     f_out := fun _ => None |}.

(* ---- random schedules from a seed (xorshift32; only shifts, xor and masks: cheap under vm_compute);
   three styles: single steps, short bursts, long bursts *)
Definition mask32 : N := 4294967295%N.
Definition xs32 (x : N) : N :=
  let x := N.lxor x (N.land (N.shiftl x 13) mask32) in
  let x := N.lxor x (N.shiftr x 17) in
  N.lxor x (N.land (N.shiftl x 5) mask32).

Fixpoint rand_sched (n : N) (style : N) (len : nat) (x : N) : list nat :=
  match len with
  | 0 => []
  | S l =>
      let x' := xs32 x in
      let who := N.to_nat ((N.land (N.shiftr x' 8) 65535) mod n)%N in
      let burst := match style with
                   | 0%N => 1
                   | 1%N => S (N.to_nat (N.land (N.shiftr x' 3) 3))
                   | _ => S (N.to_nat (N.land (N.shiftr x' 3) 7))
                   end in
      repeat who burst ++ rand_sched n style l x'
  end.

Definition sched_of (n : nat) (seed : N) : list nat :=
  match n with
  | 0 => []
  | _ => let style := (seed mod 3)%N in
         let draws := match style with 0%N => 3 * n * fuel | 1%N => 2 * n * fuel | _ => n * fuel end in
         rand_sched (N.of_nat n) style draws (N.lor (N.land seed mask32) 1)
         ++ flat_map (fun i => repeat i fuel) (seq 0 n)           (* everybody finishes *)
  end.

Definition res_eqb (a b : result) : bool := String.eqb (fst a) (fst b) && Z.eqb (snd a) (snd b).
Definition ores_eqb := option_eqb res_eqb.

Fixpoint mem {A} (eqb : A -> A -> bool) (x : A) (l : list A) : bool :=
  match l with [] => false | y :: r => eqb x y || mem eqb x r end.
Fixpoint dedup {A} (eqb : A -> A -> bool) (l : list A) : list A :=
  match l with [] => [] | x :: r => let d := dedup eqb r in if mem eqb x d then d else x :: d end.

Definition model_run (c : case) (sched : list nat) : sys :=
  grun (t_name c) t_gen (t_compile c) (t_behave c) (c_invs c) (fs_of c) sched.
Definition model_alone (c : case) (i : nat) : option result :=
  galone (t_name c) t_gen (t_compile c) (t_behave c) (c_invs c) (fs_of c) i.

(* per process: the set of results over all the schedules *)
Definition allowed (c : case) : list (list (option result)) :=
  let n := length (c_invs c) in
  let finish := flat_map (fun i => repeat i fuel) (seq 0 n) in
  let finals := map (fun seed => model_run c (sched_of n seed)) (c_seeds c)
                ++ map (fun sc => model_run c (sc ++ finish)) (c_scheds c) in
  map (fun i => dedup ores_eqb (map (fun s => result_of s i) finals)) (seq 0 n).

Record obs := {
  o_unexplained : list (nat * result * list (option result));     (* observed result the model does not allow *)
  o_model_not_solo : list (nat * list (option result) * option result);   (* Distinct: model result set <> {solo} *)
  o_defect_shown : bool;                                           (* some schedule gives some process a non-solo result *)
  o_set_sizes : list nat }.

Definition model_obs (c : case) : obs :=
  let al := allowed c in
  let n := length (c_invs c) in
  let solo := map (model_alone c) (seq 0 n) in
  let unexpl := flat_map (fun o : nat * result =>
                   let a := nth (fst o) al [] in
                   if mem ores_eqb (Some (snd o)) a then [] else [(fst o, snd o, a)]) (c_observed c) in
  let notsolo := flat_map (fun i =>
                   let a := nth i al [] in let s := nth i solo None in
                   match a with
                   | [x] => if ores_eqb x s then [] else [(i, a, s)]
                   | _ => [(i, a, s)]
                   end) (seq 0 n) in
  {| o_unexplained := unexpl; o_model_not_solo := notsolo;
     o_defect_shown := negb (match notsolo with [] => true | _ => false end);
     o_set_sizes := map (@length _) al |}.

Definition verdict (c : case) (m : obs) : option obs :=
  let ok := match o_unexplained m with [] => true | _ => false end &&
            match c_shape c with
            | Distinct => match o_model_not_solo m with [] => true | _ => false end
            | Gated => true
            | _ => o_defect_shown m
            end in
  if ok then None else Some m.
Definition check (c : case) : option obs := verdict c (model_obs c).
Definition mismatches (l : list case) := mism_from check 0 l.

(* the same in one pass together with the coverage numbers (sizes of the result sets the model
   allows per process): mismatches l = mismatches_of_report (report l) *)
Definition report (l : list case) : list (option obs * list nat) :=
  map (fun c => let m := model_obs c in (verdict c m, o_set_sizes m)) l.
Definition mismatches_of_report (r : list (option obs * list nat)) := mism_from (@fst _ _) 0 r.
