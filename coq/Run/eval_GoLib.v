(* Helpers of the grid search that lib/extractlib.py (fn_tie) runs when an agreement proof between a
   translated Go function and its model does not go through: enumerate inputs, keep those on which the
   two differ, print them as lists of strings (arguments, translated result, model result). *)
From Mage Require Import Base.Strs Base.GoLib.
From Coq Require Import DecimalString.

(* all lists of length n over an alphabet *)
Fixpoint words {A} (alpha : list A) (n : nat) : list (list A) :=
  match n with
  | O => [[]]
  | S n' => flat_map (fun w => map (fun a => a :: w) alpha) (words alpha n')
  end.

(* all lists of length <= n *)
Fixpoint words_upto {A} (alpha : list A) (n : nat) : list (list A) :=
  match n with
  | O => [[]]
  | S n' => words_upto alpha n' ++ words alpha n
  end.

Definition pairs {A B} (la : list A) (lb : list B) : list (A * B) :=
  flat_map (fun a => map (fun b => (a, b)) lb) la.

Definition show_bool (b : bool) : list string := [if b then "true" else "false"].
Definition show_Z (z : Z) : string := NilZero.string_of_int (Z.to_int z).
Definition show_str (s : string) : list string := [s].

Definition diffs {I R} (eqb : R -> R -> bool) (show_in : I -> list (list string)) (show_out : R -> list string)
           (f g : I -> R) (grid : list I) : list (list (list string) * list string * list string) :=
  flat_map (fun x => if eqb (f x) (g x) then [] else [(show_in x, show_out (f x), show_out (g x))]) grid.
