(* Comparison function used by generated case files of the engine properties (C01, C02, C03, C13, C12). *)
From Mage Require Import Base.Strs Model.Deps Model.DepsReplay.

Record case := { c_prog : prog; c_obs : list oevent; c_logs : list (nat * nat); c_fuel : nat }.

Definition check (c : case) : option verdict :=
  match accepts (c_prog c) (c_fuel c) (c_obs c) (c_logs c) with
  | Accepted => None
  | v => Some v
  end.

Definition mismatches (l : list case) := mism_from check 0 l.
