(* Comparison function used by generated case files of the engine properties (C01, C02, C03, C13, C12). *)
From Mage Require Import Base.Strs Model.Deps Model.DepsReplay Proof.Deps_progress.

Record case := { c_prog : prog; c_obs : list oevent; c_logs : list (nat * nat); c_fuel : nat }.

(* what is wrong with a case: the model does not accept the observed trace, or the program is not
   acyclic (then the progress/termination theorems would not apply to it: a generator bug) *)
Inductive problem := Rejected (v : verdict) | NotAcyclic.

Definition check (c : case) : option problem :=
  if negb (acyclicb (c_prog c)) then Some NotAcyclic else
  match accepts (c_prog c) (c_fuel c) (c_obs c) (c_logs c) with
  | Accepted => None
  | v => Some (Rejected v)
  end.

Definition mismatches (l : list case) := mism_from check 0 l.
