module verif.test/apiprobe

go 1.22
