// apiprobe: "API discovery" for the packages of mage that magefiles import (mg, sh, target).
//
//	apiprobe [-o api_calls_gen.go] [-list] <tree under test>
//
// Type-checks the packages of the tree (stdlib only: go/build for the file set under the build
// constraints, go/types with the "source" importer), lists every exported package-level function
// (and func-typed variable) that is NOT part of the API at /repo HEAD (the fixed lists below) and
// generates a Go file for harness/depsrun that defines
//
//	func apiCalls(stage string) []string
//
// which calls every discovered function it can call mechanically - arguments are synthesised from
// the parameter types, see tools/notes/APIprobe.md for the table - and returns the names it called.
// On the unchanged tree nothing is discovered and apiCalls returns nil.
// A JSON summary (discovered / called / skipped / other new exported identifiers) goes to stdout.
package main

import (
	"encoding/json"
	"flag"
	"fmt"
	"go/ast"
	"go/build"
	"go/format"
	"go/importer"
	"go/parser"
	"go/token"
	"go/types"
	"os"
	"path/filepath"
	"regexp"
	"sort"
	"strings"
)

// The exported package-level identifiers at /repo HEAD 62b109f (computed once with `apiprobe -list /repo`):
// functions, types, constants and variables alike.  Whatever is exported and not listed here is new.
var known = map[string]string{
	"mg": "AnsiColorReset Black Blue BrightBlack BrightBlue BrightCyan BrightGreen BrightMagenta BrightRed BrightWhite BrightYellow " +
		"CacheDir CacheEnv Color CtxDeps Cyan Debug DebugEnv DefaultTargetAnsiColor Deps EnableColor EnableColorEnv ExitStatus F Fatal Fatalf Fn " +
		"GoCmd GoCmdEnv Green HashFast HashFastEnv IgnoreDefault IgnoreDefaultEnv Magenta Namespace Red SerialCtxDeps SerialDeps " +
		"TargetColor TargetColorEnv Verbose VerboseEnv White Yellow",
	"sh":     "CmdRan Copy Exec ExitStatus OutCmd Output OutputWith Rm Run RunCmd RunV RunWith RunWithV",
	"target": "Dir DirNewer Glob GlobNewer NewestModTime OldestModTime Path PathNewer",
}

// Functions that by their very name undo or end something are not called: after a Reset / Clear /
// Exit no statement about "exactly once" is meaningful.  They are reported as skipped.
var destructive = regexp.MustCompile(`^(Reset|Clear|Close|Stop|Cancel|Delete|Remove|Forget|Invalidate|Unregister|Exit|Abort|Die|Kill|Shutdown|Must)`)

type gen struct {
	modPath string
	mgPath  string
	fn      *types.Named // mg.Fn of the tree, if it is there
	imports map[string]string
	decls   []string
	nimpl   int
	calls   []string
	called  []string
	skipped map[string]string
}

// scratch collects what the synthesis of ONE call needs; it is merged into gen only when the call is emitted.
type scratch struct {
	g       *gen
	imports map[string]string
	decls   []string
	hook    bool
}

func (s *scratch) use(path, name string) { s.imports[path] = name }
func (s *scratch) qual(p *types.Package) string {
	s.imports[p.Path()] = p.Name()
	return p.Name()
}
func (s *scratch) typeStr(t types.Type) string { return types.TypeString(t, s.qual) }

func (s *scratch) mgF() []string {
	s.use(s.g.mgPath, "mg")
	return []string{"VpAPINoop", `mg.F(VpAPIArg, "x")`}
}

// nameable: can the type be written down in another package?
func nameable(t types.Type, depth int) bool {
	if depth > 8 {
		return false
	}
	switch u := t.(type) {
	case *types.Alias:
		if o := u.Obj(); o.Pkg() != nil && !o.Exported() {
			return false
		}
		return nameable(types.Unalias(u), depth+1)
	case *types.Named:
		if o := u.Obj(); o.Pkg() != nil && (!o.Exported() || strings.Contains(o.Pkg().Path()+"/", "/internal/")) {
			return false
		}
		for i := 0; i < u.TypeArgs().Len(); i++ {
			if !nameable(u.TypeArgs().At(i), depth+1) {
				return false
			}
		}
		return true
	case *types.Basic:
		return u.Kind() != types.UnsafePointer && u.Kind() != types.Invalid
	case *types.Pointer:
		return nameable(u.Elem(), depth+1)
	case *types.Slice:
		return nameable(u.Elem(), depth+1)
	case *types.Array:
		return nameable(u.Elem(), depth+1)
	case *types.Chan:
		return nameable(u.Elem(), depth+1)
	case *types.Map:
		return nameable(u.Key(), depth+1) && nameable(u.Elem(), depth+1)
	case *types.Tuple:
		for i := 0; i < u.Len(); i++ {
			if !nameable(u.At(i).Type(), depth+1) {
				return false
			}
		}
		return true
	case *types.Signature:
		return u.TypeParams().Len() == 0 && nameable(u.Params(), depth+1) && nameable(u.Results(), depth+1)
	case *types.Struct:
		for i := 0; i < u.NumFields(); i++ {
			if !u.Field(i).Exported() || !nameable(u.Field(i).Type(), depth+1) {
				return false
			}
		}
		return true
	case *types.Interface:
		for i := 0; i < u.NumMethods(); i++ {
			if !u.Method(i).Exported() || !nameable(u.Method(i).Type(), depth+1) {
				return false
			}
		}
		return u.NumEmbeddeds() == 0 || u.NumMethods() > 0 || u.Empty()
	}
	return false
}

func namedPath(t types.Type) string {
	if n, ok := types.Unalias(t).(*types.Named); ok {
		if n.Obj().Pkg() == nil {
			return n.Obj().Name()
		}
		return n.Obj().Pkg().Path() + "." + n.Obj().Name()
	}
	return ""
}

func isSig(t types.Type) (*types.Signature, bool) {
	sg, ok := t.Underlying().(*types.Signature)
	return sg, ok
}

// synth: expressions of type t, chosen by the type alone.  Empty = cannot be synthesised.
func (s *scratch) synth(t types.Type, depth int) []string {
	if depth > 3 || !nameable(t, 0) {
		return nil
	}
	switch namedPath(t) {
	case "time.Duration":
		s.use("time", "time")
		return []string{"time.Second"}
	case "context.Context":
		s.use("context", "context")
		return []string{"context.Background()"}
	case "io.Writer":
		s.use("io", "io")
		return []string{"io.Discard"}
	case "io.Reader":
		s.use("strings", "strings")
		return []string{`strings.NewReader("vp")`}
	case "error":
		return []string{"nil"}
	}
	switch u := t.Underlying().(type) {
	case *types.Basic:
		var lit string
		switch info := u.Info(); {
		case info&types.IsString != 0:
			lit = `"vp"`
		case info&types.IsBoolean != 0:
			lit = "true"
		case info&types.IsNumeric != 0:
			lit = "1"
		default:
			return nil
		}
		if _, basic := types.Unalias(t).(*types.Basic); basic {
			return []string{lit}
		}
		return []string{s.typeStr(t) + "(" + lit + ")"}
	case *types.Signature:
		stage := ""
		if depth == 0 {
			stage = "stage"
		}
		if lit := s.funcLit(u, depth, stage); lit != "" {
			s.hook = true
			return []string{lit}
		}
		return nil
	case *types.Interface:
		if u.Empty() {
			return s.mgF()
		}
		if s.g.fn != nil && types.Implements(s.g.fn, u) {
			s.use(s.g.mgPath, "mg")
			return []string{"mg.F(VpAPINoop)", `mg.F(VpAPIArg, "x")`}
		}
		if impl := s.implement(u, depth); impl != "" {
			return []string{impl}
		}
		return []string{"nil"}
	case *types.Struct:
		// exported fields of func type get a synthesised function (option / hook structs); all others stay zero
		var fields []string
		for i := 0; i < u.NumFields(); i++ {
			f := u.Field(i)
			if sg, ok := isSig(f.Type()); ok && f.Exported() && !f.Embedded() {
				stage := ""
				if depth == 0 {
					stage = "stage"
				}
				if lit := s.funcLit(sg, depth+1, stage); lit != "" {
					s.hook = true
					fields = append(fields, f.Name()+": "+lit)
				}
			}
		}
		return []string{s.typeStr(t) + "{" + strings.Join(fields, ", ") + "}"}
	case *types.Pointer:
		if _, ok := u.Elem().Underlying().(*types.Struct); ok {
			if c := s.synth(u.Elem(), depth); len(c) > 0 {
				return []string{"&" + c[0]}
			}
		}
		return []string{"nil"}
	case *types.Slice:
		if b, ok := u.Elem().Underlying().(*types.Basic); ok && b.Kind() == types.Byte {
			return []string{s.typeStr(t) + `("vp")`}
		}
		if c := s.synth(u.Elem(), depth); len(c) > 0 {
			return []string{s.typeStr(t) + "{" + c[0] + "}"}
		}
		return []string{"nil"}
	case *types.Map, *types.Chan:
		return []string{"nil"}
	case *types.Array:
		return []string{s.typeStr(t) + "{}"}
	}
	return nil
}

func (s *scratch) header(sig *types.Signature, depth int) string {
	var ps, rs []string
	for i := 0; i < sig.Params().Len(); i++ {
		pt := sig.Params().At(i).Type()
		ts := s.typeStr(pt)
		if sig.Variadic() && i == sig.Params().Len()-1 {
			ts = "..." + s.typeStr(pt.(*types.Slice).Elem())
		}
		ps = append(ps, fmt.Sprintf("p%d_%d %s", depth, i, ts))
	}
	for i := 0; i < sig.Results().Len(); i++ {
		rs = append(rs, fmt.Sprintf("r%d_%d %s", depth, i, s.typeStr(sig.Results().At(i).Type())))
	}
	h := "(" + strings.Join(ps, ", ") + ")"
	if len(rs) > 0 {
		h += " (" + strings.Join(rs, ", ") + ")"
	}
	return h
}

// body of a synthesised hook: (stage "panic-before": panic;) call every func-typed parameter once, with arguments
// picked by type from the hook's own parameters, and hand its results on when the result lists agree;
// (stage "panic-after": panic; stage "error": every error result becomes non-nil).
//
// Decorator style - a result of func type T and a parameter of the same type T, "func(next T) T" - is answered in
// kind: the result is a function that does all of the above around ONE call of that parameter (the stage applies in
// there, not at decoration time); any other result of func type is a function that does nothing, not nil.
func (s *scratch) body(sig *types.Signature, depth int, stage string, outer ...callable) string {
	var b strings.Builder
	s.use("sync/atomic", "atomic")
	b.WriteString("atomic.AddInt32(&vpAPIHookRuns, 1)\n")
	n := sig.Params().Len()
	decorated := map[int]bool{}
	for r := 0; r < sig.Results().Len() && depth < 3; r++ {
		rs, ok := isSig(sig.Results().At(r).Type())
		if !ok || rs.TypeParams().Len() > 0 {
			continue
		}
		var wrap []callable
		for k := 0; k < n; k++ {
			if !(sig.Variadic() && k == n-1) && types.Identical(sig.Params().At(k).Type(), sig.Results().At(r).Type()) {
				wrap = append(wrap, callable{fmt.Sprintf("p%d_%d", depth, k), rs})
				decorated[k] = true
				break
			}
		}
		inner := ""
		if len(wrap) > 0 {
			inner = stage
		}
		fmt.Fprintf(&b, "r%d_%d = func%s {\n%s}\n", depth, r, s.header(rs, depth+1), s.body(rs, depth+1, inner, wrap...))
	}
	if len(decorated) > 0 {
		stage = ""
	}
	if stage != "" {
		fmt.Fprintf(&b, "if %s == \"panic-before\" {\npanic(\"vp-hook-panic\")\n}\n", stage)
	}
	type target struct {
		expr string
		cs   *types.Signature
	}
	var targets []target
	for _, o := range outer {
		targets = append(targets, target{o.expr, o.sig})
	}
	for i := 0; i < n; i++ {
		if (sig.Variadic() && i == n-1) || decorated[i] {
			continue
		}
		if cs, ok := isSig(sig.Params().At(i).Type()); ok && cs.TypeParams().Len() == 0 {
			targets = append(targets, target{fmt.Sprintf("p%d_%d", depth, i), cs})
		}
	}
	for _, tg := range targets {
		cs := tg.cs
		var args []string
		canCall := true
		cn := cs.Params().Len()
		if cs.Variadic() {
			cn--
		}
		for j := 0; j < cn && canCall; j++ {
			pt := cs.Params().At(j).Type()
			arg := ""
			for k := 0; k < n; k++ {
				if !(sig.Variadic() && k == n-1) && types.Identical(sig.Params().At(k).Type(), pt) {
					arg = fmt.Sprintf("p%d_%d", depth, k)
					break
				}
			}
			if arg == "" {
				if c := s.synth(pt, depth+1); len(c) > 0 {
					arg = c[0]
				} else {
					canCall = false
				}
			}
			args = append(args, arg)
		}
		if !canCall {
			fmt.Fprintf(&b, "// %s is not called: no argument of its parameter types can be synthesised\n", tg.expr)
			continue
		}
		call := fmt.Sprintf("%s(%s)", tg.expr, strings.Join(args, ", "))
		if cs.Results().Len() > 0 && types.Identical(cs.Results(), sig.Results()) {
			var rs []string
			for r := 0; r < sig.Results().Len(); r++ {
				rs = append(rs, fmt.Sprintf("r%d_%d", depth, r))
			}
			call = strings.Join(rs, ", ") + " = " + call
		}
		fmt.Fprintf(&b, "if %s != nil {\n%s\n}\n", tg.expr, call)
	}
	if stage != "" {
		fmt.Fprintf(&b, "if %s == \"panic-after\" {\npanic(\"vp-hook-panic\")\n}\n", stage)
		for r := 0; r < sig.Results().Len(); r++ {
			if namedPath(sig.Results().At(r).Type()) == "error" {
				s.use("errors", "errors")
				fmt.Fprintf(&b, "if %s == \"error\" {\nr%d_%d = errors.New(\"vp-hook-error\")\n}\n", stage, depth, r)
			}
		}
	}
	b.WriteString("return\n")
	return b.String()
}

type callable struct {
	expr string
	sig  *types.Signature
}

func (s *scratch) funcLit(sig *types.Signature, depth int, stage string) string {
	if depth > 3 || sig.TypeParams().Len() > 0 || !nameable(sig, 0) {
		return ""
	}
	return "func" + s.header(sig, depth) + " {\n" + s.body(sig, depth, stage) + "}"
}

// implement: a struct type with the interface's methods (listener / observer interfaces); the value carries the stage.
func (s *scratch) implement(u *types.Interface, depth int) string {
	if depth > 1 {
		return ""
	}
	for i := 0; i < u.NumMethods(); i++ {
		if !u.Method(i).Exported() || !nameable(u.Method(i).Type(), 0) {
			return ""
		}
	}
	s.g.nimpl++
	name := fmt.Sprintf("vpAPIImpl%d", s.g.nimpl)
	var b strings.Builder
	fmt.Fprintf(&b, "type %s struct{ stage string }\n\n", name)
	for i := 0; i < u.NumMethods(); i++ {
		m := u.Method(i)
		sig := m.Type().(*types.Signature)
		fmt.Fprintf(&b, "func (v %s) %s%s {\n%s}\n\n", name, m.Name(), s.header(sig, depth+1), s.body(sig, depth+1, "v.stage"))
	}
	s.decls = append(s.decls, b.String())
	s.hook = true
	if depth == 0 {
		return name + "{stage}"
	}
	return name + `{"pass"}`
}

// what to do with the results of a call: discard; range once over slices / maps / arrays (read-only, to provoke
// lazily computed state); on values of the tree's own named types call the exported read-style methods
// (no parameters, or one io.Writer).
func (s *scratch) useCall(call string, res *types.Tuple) string {
	if res.Len() == 0 {
		return call + "\n"
	}
	var names []string
	for i := 0; i < res.Len(); i++ {
		names = append(names, fmt.Sprintf("r%d", i))
	}
	var b strings.Builder
	fmt.Fprintf(&b, "%s := %s\n", strings.Join(names, ", "), call)
	for i := 0; i < res.Len(); i++ {
		t := res.At(i).Type()
		fmt.Fprintf(&b, "_ = r%d\n", i)
		switch t.Underlying().(type) {
		case *types.Slice, *types.Map, *types.Array:
			fmt.Fprintf(&b, "for range r%d {\n}\n", i)
		}
		b.WriteString(s.methods(fmt.Sprintf("r%d", i), t))
	}
	return b.String()
}

func (s *scratch) methods(v string, t types.Type) string {
	base := t
	if p, ok := t.Underlying().(*types.Pointer); ok {
		base = p.Elem()
	}
	if !strings.HasPrefix(namedPath(base), s.g.modPath+"/") {
		return ""
	}
	mt := t
	_, isPtr := t.Underlying().(*types.Pointer)
	_, isIface := t.Underlying().(*types.Interface)
	if !isPtr && !isIface {
		mt = types.NewPointer(t)
	}
	ms := types.NewMethodSet(mt)
	var b strings.Builder
	for i := 0; i < ms.Len(); i++ {
		f, ok := ms.At(i).Obj().(*types.Func)
		if !ok || !f.Exported() || destructive.MatchString(f.Name()) {
			continue
		}
		sig := f.Type().(*types.Signature)
		arg := ""
		switch {
		case sig.Params().Len() == 0:
		case sig.Params().Len() == 1 && !sig.Variadic() && namedPath(sig.Params().At(0).Type()) == "io.Writer":
			s.use("io", "io")
			arg = "io.Discard"
		default:
			continue
		}
		call := fmt.Sprintf("%s.%s(%s)", v, f.Name(), arg)
		if sig.Results().Len() == 1 {
			switch sig.Results().At(0).Type().Underlying().(type) {
			case *types.Slice, *types.Map:
				call = "for range " + call + " {\n}"
			}
		}
		fmt.Fprintf(&b, "func() {\ndefer func() { recover() }()\n%s\n}()\n", call)
	}
	if b.Len() == 0 {
		return ""
	}
	if isPtr || isIface {
		return fmt.Sprintf("if %s != nil {\n%s}\n", v, b.String())
	}
	return b.String()
}

func (g *gen) commit(s *scratch) {
	for p, n := range s.imports {
		g.imports[p] = n
	}
	g.decls = append(g.decls, s.decls...)
}

func (g *gen) emit(name string, hook bool, code string) {
	g.calls = append(g.calls, fmt.Sprintf("try(%q, %v, func() {\n%s})\n", name, hook, code))
	g.called = append(g.called, name)
}

func (g *gen) genFunc(pkg *types.Package, f *types.Func) {
	full := pkg.Name() + "." + f.Name()
	sig := f.Type().(*types.Signature)
	if sig.TypeParams().Len() > 0 {
		g.skipped[full] = "generic function"
		return
	}
	if destructive.MatchString(f.Name()) {
		g.skipped[full] = "not called: by its name it undoes or ends something"
		return
	}
	s := &scratch{g: g, imports: map[string]string{}}
	var cands [][]string
	n := sig.Params().Len()
	for i := 0; i < n; i++ {
		pt := sig.Params().At(i).Type()
		if sig.Variadic() && i == n-1 {
			c := s.synth(pt.(*types.Slice).Elem(), 0)
			if len(c) == 0 {
				c = []string{""} // no variadic arguments at all
			}
			cands = append(cands, c)
			continue
		}
		c := s.synth(pt, 0)
		if len(c) == 0 {
			g.skipped[full] = fmt.Sprintf("cannot synthesise parameter %d of type %s", i, types.TypeString(pt, nil))
			return
		}
		cands = append(cands, c)
	}
	variants := 1
	for _, c := range cands {
		if len(c) > variants {
			variants = len(c)
		}
	}
	s.use(pkg.Path(), pkg.Name())
	for v := 0; v < variants; v++ {
		var args []string
		for _, c := range cands {
			a := c[len(c)-1]
			if v < len(c) {
				a = c[v]
			}
			if a != "" {
				args = append(args, a)
			}
		}
		name := full
		if v > 0 {
			name = fmt.Sprintf("%s/%d", full, v+1)
		}
		g.emit(name, s.hook, s.useCall(fmt.Sprintf("%s.%s(%s)", pkg.Name(), f.Name(), strings.Join(args, ", ")), sig.Results()))
	}
	g.commit(s)
}

// an exported VARIABLE of func type (or a slice of funcs) is a hook as well: assign / append a synthesised function
func (g *gen) genVar(pkg *types.Package, v *types.Var) bool {
	full := pkg.Name() + "." + v.Name()
	s := &scratch{g: g, imports: map[string]string{}}
	if _, ok := isSig(v.Type()); ok {
		if c := s.synth(v.Type(), 0); len(c) > 0 {
			s.use(pkg.Path(), pkg.Name())
			g.emit(full+"=", true, fmt.Sprintf("%s = %s\n", full, c[0]))
			g.commit(s)
			return true
		}
	}
	if sl, ok := v.Type().Underlying().(*types.Slice); ok {
		if _, ok := isSig(sl.Elem()); ok {
			if c := s.synth(sl.Elem(), 0); len(c) > 0 {
				s.use(pkg.Path(), pkg.Name())
				g.emit(full+"+=", true, fmt.Sprintf("%s = append(%s, %s)\n", full, full, c[0]))
				g.commit(s)
				return true
			}
		}
	}
	return false
}

func (g *gen) file(tree string, discovered []string) []byte {
	var b strings.Builder
	fmt.Fprintf(&b, "// Code generated by harness/apiprobe from %s; DO NOT EDIT.\n\npackage main\n\n", tree)
	if len(g.calls) == 0 {
		for _, d := range discovered {
			fmt.Fprintf(&b, "// discovered: %s\n", d)
		}
		fmt.Fprintf(&b, "var apiSkipped = []string{%s}\n\nfunc apiCalls(stage string) []string { return nil }\n", quoteAll(g.skippedList()))
		return []byte(b.String())
	}
	g.imports["sync/atomic"] = "atomic"
	var paths []string
	for p := range g.imports {
		paths = append(paths, p)
	}
	sort.Strings(paths)
	b.WriteString("import (\n")
	for _, p := range paths {
		if filepath.Base(p) == g.imports[p] {
			fmt.Fprintf(&b, "%q\n", p)
		} else {
			fmt.Fprintf(&b, "%s %q\n", g.imports[p], p)
		}
	}
	b.WriteString(")\n\n")
	for _, d := range discovered {
		fmt.Fprintf(&b, "// discovered: %s\n", d)
	}
	b.WriteString("\nvar vpAPINoopRuns, vpAPIArgRuns, vpAPIHookRuns int32\n\n")
	b.WriteString("func VpAPINoop() { atomic.AddInt32(&vpAPINoopRuns, 1) }\n\nfunc VpAPIArg(s string) { atomic.AddInt32(&vpAPIArgRuns, 1) }\n\n")
	fmt.Fprintf(&b, "var apiSkipped = []string{%s}\n\n", quoteAll(g.skippedList()))
	for _, d := range g.decls {
		b.WriteString(d)
	}
	b.WriteString("// apiCalls calls every discovered function; stages other than \"pass\" only those that take a hook.\n")
	b.WriteString("func apiCalls(stage string) []string {\nvar called []string\n")
	b.WriteString("try := func(name string, hook bool, f func()) {\nif stage != \"pass\" && !hook {\nreturn\n}\n")
	b.WriteString("defer func() {\nif v := recover(); v != nil {\ncalled = append(called, \"panicked:\"+name)\n}\n}()\nf()\ncalled = append(called, name)\n}\n")
	for _, c := range g.calls {
		b.WriteString(c)
	}
	b.WriteString("return called\n}\n")
	src, err := format.Source([]byte(b.String()))
	if err != nil {
		fmt.Fprintln(os.Stderr, "apiprobe: generated file does not parse:", err)
		return []byte(b.String())
	}
	return src
}

func (g *gen) skippedList() []string {
	var l []string
	for k, v := range g.skipped {
		l = append(l, k+": "+v)
	}
	sort.Strings(l)
	return l
}

func quoteAll(l []string) string {
	var q []string
	for _, s := range l {
		q = append(q, fmt.Sprintf("%q", s))
	}
	return strings.Join(q, ", ")
}

func load(tree, modPath, name string, fset *token.FileSet, imp types.Importer) (*types.Package, []string) {
	dir := filepath.Join(tree, name)
	ctxt := build.Default
	ctxt.BuildTags = append(ctxt.BuildTags, "verif")
	bp, err := ctxt.ImportDir(dir, 0)
	if err != nil {
		return nil, []string{err.Error()}
	}
	var files []*ast.File
	var errs []string
	for _, fn := range bp.GoFiles {
		f, err := parser.ParseFile(fset, filepath.Join(dir, fn), nil, parser.SkipObjectResolution)
		if err != nil {
			errs = append(errs, err.Error())
			continue
		}
		files = append(files, f)
	}
	conf := types.Config{Importer: imp, Error: func(err error) { errs = append(errs, err.Error()) }}
	pkg, _ := conf.Check(modPath+"/"+name, fset, files, nil)
	return pkg, errs
}

func main() {
	out := flag.String("o", "", "write the generated Go file here")
	list := flag.Bool("list", false, "print the exported package-level identifiers of the tree (to compute the known lists)")
	flag.Parse()
	if flag.NArg() != 1 {
		fmt.Fprintln(os.Stderr, "usage: apiprobe [-o file] [-list] <tree>")
		os.Exit(2)
	}
	tree, _ := filepath.Abs(flag.Arg(0))
	if *out != "" {
		*out, _ = filepath.Abs(*out)
	}
	modPath := "github.com/magefile/mage"
	if gm, err := os.ReadFile(filepath.Join(tree, "go.mod")); err == nil {
		if m := regexp.MustCompile(`(?m)^module\s+(\S+)`).FindSubmatch(gm); m != nil {
			modPath = string(m[1])
		}
	}
	os.Chdir(tree) // the source importer resolves the tree's own import paths through the go command, from here
	fset := token.NewFileSet()
	imp := importer.ForCompiler(fset, "source", nil)
	g := &gen{modPath: modPath, mgPath: modPath + "/mg", imports: map[string]string{}, skipped: map[string]string{}}
	summary := map[string]interface{}{}
	var discovered, names, other, problems []string
	type item struct {
		pkg *types.Package
		obj types.Object
	}
	var todo []item
	for _, name := range []string{"mg", "sh", "target"} {
		pkg, errs := load(tree, modPath, name, fset, imp)
		for _, e := range errs {
			problems = append(problems, name+": "+e)
		}
		if pkg == nil {
			continue
		}
		if name == "mg" {
			if o, ok := pkg.Scope().Lookup("Fn").(*types.TypeName); ok {
				g.fn, _ = o.Type().(*types.Named)
			}
		}
		kn := map[string]bool{}
		for _, k := range strings.Fields(known[name]) {
			kn[k] = true
		}
		var all []string
		for _, id := range pkg.Scope().Names() {
			o := pkg.Scope().Lookup(id)
			if !o.Exported() {
				continue
			}
			all = append(all, id)
			if kn[id] {
				continue
			}
			todo = append(todo, item{pkg, o})
		}
		if *list {
			fmt.Printf("%s: %s\n", name, strings.Join(all, " "))
		}
	}
	if *list {
		return
	}
	for _, it := range todo {
		full := it.pkg.Name() + "." + it.obj.Name()
		switch o := it.obj.(type) {
		case *types.Func:
			names = append(names, full)
			discovered = append(discovered, full+" "+strings.TrimPrefix(types.TypeString(o.Type(), func(p *types.Package) string { return p.Name() }), "func"))
			g.genFunc(it.pkg, o)
		case *types.Var:
			if g.genVar(it.pkg, o) {
				names = append(names, full)
				discovered = append(discovered, "var "+full+" "+types.TypeString(o.Type(), func(p *types.Package) string { return p.Name() }))
			} else {
				other = append(other, "var "+full)
			}
		case *types.TypeName:
			other = append(other, "type "+full)
		case *types.Const:
			other = append(other, "const "+full)
		}
	}
	src := g.file(tree, discovered)
	if *out != "" {
		if err := os.WriteFile(*out, src, 0o644); err != nil {
			fmt.Fprintln(os.Stderr, "apiprobe:", err)
			os.Exit(1)
		}
	}
	summary["names"] = orEmpty(names)
	summary["discovered"] = orEmpty(discovered)
	summary["called"] = orEmpty(g.called)
	summary["skipped"] = g.skipped
	summary["other_new_exported"] = orEmpty(other)
	summary["problems"] = orEmpty(problems)
	json.NewEncoder(os.Stdout).Encode(summary)
}

func orEmpty(l []string) []string {
	if l == nil {
		return []string{}
	}
	return l
}
