module verif.test/argvchild

go 1.12
