// argvchild: the child program of the C16 checks (no dependencies).
// Appends one JSON line {"argv": os.Args} to the file named by VERIF_ARGV_OUT (one O_APPEND write),
// then, if VERIF_ARGV_GATE names a file, waits until that file exists (at most 60 s),
// then, if VERIF_ARGV_PRINT=1, prints its own location (os.Executable), ": ", and its arguments joined by
// one space and a newline (nothing if one
// of the arguments is --quiet), and exits with status N if its last argument of the form --exit=N says so
// (scripted failing calls: the script is part of the argv, so it is a function of the argv).  With an argument
// --kill it kills itself with SIGKILL after printing (a child that started and was killed by a signal).
package main

import (
	"encoding/json"
	"fmt"
	"os"
	"strconv"
	"strings"
	"syscall"
	"time"
)

func main() {
	if p := os.Getenv("VERIF_ARGV_OUT"); p != "" {
		b, err := json.Marshal(map[string][]string{"argv": os.Args})
		if err != nil {
			fmt.Fprintln(os.Stderr, "argvchild:", err)
			os.Exit(99)
		}
		f, err := os.OpenFile(p, os.O_WRONLY|os.O_APPEND|os.O_CREATE, 0644)
		if err != nil {
			fmt.Fprintln(os.Stderr, "argvchild:", err)
			os.Exit(99)
		}
		if _, err := f.Write(append(b, '\n')); err != nil {
			fmt.Fprintln(os.Stderr, "argvchild:", err)
			os.Exit(99)
		}
		f.Close()
	}
	if g := os.Getenv("VERIF_ARGV_GATE"); g != "" {
		deadline := time.Now().Add(60 * time.Second)
		for time.Now().Before(deadline) {
			if _, err := os.Stat(g); err == nil {
				break
			}
			time.Sleep(300 * time.Microsecond)
		}
	}
	quiet, code, kill := false, 0, false
	for _, a := range os.Args[1:] {
		if a == "--kill" {
			kill = true
		}
		if a == "--quiet" {
			quiet = true
		}
		if strings.HasPrefix(a, "--exit=") {
			if n, err := strconv.Atoi(a[len("--exit="):]); err == nil && n >= 0 && n <= 255 {
				code = n
			}
		}
	}
	if os.Getenv("VERIF_ARGV_PRINT") == "1" && !quiet {
		exe, err := os.Executable()
		if err != nil {
			exe = "?"
		}
		fmt.Println(exe + ": " + strings.Join(os.Args[1:], " "))
	}
	if kill {
		syscall.Kill(os.Getpid(), syscall.SIGKILL)
		time.Sleep(10 * time.Second)
	}
	os.Exit(code)
}
