module verif.test/c11conv

go 1.12
