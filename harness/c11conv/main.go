// c11conv: the Go standard library's own answers for the conversions Model/Flags.v takes as
// parameters (time.ParseDuration, time.Duration.String) or transcribes (strconv.ParseBool, flag.FlagSet.Parse).
// It does not import mage.  One JSON request on stdin, one JSON answer on stdout.
package main

import (
	"encoding/json"
	"flag"
	"fmt"
	"io/ioutil"
	"os"
	"strconv"
	"time"
)

type request struct {
	Bools   []string `json:"bools"`
	Durs    []string `json:"durs"`
	DurStrs []int64  `json:"durstrs"`
	Parse   []struct {
		Front bool     `json:"front"`
		Words []string `json:"words"`
	} `json:"parse"`
}

// parsed is what a real flag.FlagSet (ContinueOnError, the zero value mage uses) makes of a word list.
type parsed struct {
	Verdict string      `json:"verdict"` // ok | help | bad
	Set     [][3]string `json:"set"`     // fs.Visit: name, kind (b|d|s), final value (bool / nanoseconds / verbatim)
	Rest    []string    `json:"rest"`    // fs.Args()
}

// the flag definitions of mage/main.go:189-212 (front) and mage/template.go:70-73 (generated main): names and
// kinds only, restated here on purpose - this program does not import mage
func parseWords(front bool, words []string) parsed {
	fs := flag.FlagSet{}
	fs.SetOutput(ioutil.Discard)
	fs.Usage = func() {}
	bools := map[string]*bool{}
	durs := map[string]*time.Duration{}
	strs := map[string]*string{}
	var bn, dn, sn []string
	if front {
		bn = []string{"f", "debug", "v", "h", "keep", "l", "version", "init", "clean"}
		dn = []string{"t"}
		sn = []string{"d", "w", "gocmd", "goos", "goarch", "ldflags", "compile"}
	} else {
		bn = []string{"v", "l", "h"}
		dn = []string{"t"}
	}
	for _, n := range bn {
		bools[n] = fs.Bool(n, false, "")
	}
	for _, n := range dn {
		durs[n] = fs.Duration(n, 0, "")
	}
	for _, n := range sn {
		strs[n] = fs.String(n, "", "")
	}
	err := fs.Parse(words)
	p := parsed{Verdict: "ok", Set: [][3]string{}, Rest: []string{}}
	if err == flag.ErrHelp {
		p.Verdict = "help"
	} else if err != nil {
		p.Verdict = "bad"
	}
	fs.Visit(func(f *flag.Flag) {
		if b, ok := bools[f.Name]; ok {
			p.Set = append(p.Set, [3]string{f.Name, "b", strconv.FormatBool(*b)})
		} else if d, ok := durs[f.Name]; ok {
			p.Set = append(p.Set, [3]string{f.Name, "d", strconv.FormatInt(int64(*d), 10)})
		} else if s, ok := strs[f.Name]; ok {
			p.Set = append(p.Set, [3]string{f.Name, "s", *s})
		}
	})
	if err == nil {
		p.Rest = append(p.Rest, fs.Args()...)
	}
	return p
}

type answer struct {
	Bools   []*bool  `json:"bools"`   // null = error
	Durs    []*int64 `json:"durs"`    // nanoseconds, null = error
	DurStrs []string `json:"durstrs"` // Duration.String()
	Parse   []parsed `json:"parse"`
}

func main() {
	var q request
	if err := json.NewDecoder(os.Stdin).Decode(&q); err != nil {
		fmt.Fprintln(os.Stderr, err)
		os.Exit(1)
	}
	a := answer{Bools: []*bool{}, Durs: []*int64{}, DurStrs: []string{}}
	for _, s := range q.Bools {
		if b, err := strconv.ParseBool(s); err == nil {
			a.Bools = append(a.Bools, &b)
		} else {
			a.Bools = append(a.Bools, nil)
		}
	}
	for _, s := range q.Durs {
		if d, err := time.ParseDuration(s); err == nil {
			n := int64(d)
			a.Durs = append(a.Durs, &n)
		} else {
			a.Durs = append(a.Durs, nil)
		}
	}
	for _, n := range q.DurStrs {
		a.DurStrs = append(a.DurStrs, time.Duration(n).String())
	}
	a.Parse = []parsed{}
	for _, q := range q.Parse {
		a.Parse = append(a.Parse, parseWords(q.Front, q.Words))
	}
	json.NewEncoder(os.Stdout).Encode(a)
}
