// c11conv: the Go standard library's own answers for the conversions Model/Flags.v takes as
// parameters (time.ParseDuration, time.Duration.String) or transcribes (strconv.ParseBool).
// It does not import mage.  One JSON request on stdin, one JSON answer on stdout.
package main

import (
	"encoding/json"
	"fmt"
	"os"
	"strconv"
	"time"
)

type request struct {
	Bools   []string `json:"bools"`
	Durs    []string `json:"durs"`
	DurStrs []int64  `json:"durstrs"`
}

type answer struct {
	Bools   []*bool  `json:"bools"`   // null = error
	Durs    []*int64 `json:"durs"`    // nanoseconds, null = error
	DurStrs []string `json:"durstrs"` // Duration.String()
}

func main() {
	var q request
	if err := json.NewDecoder(os.Stdin).Decode(&q); err != nil {
		fmt.Fprintln(os.Stderr, err)
		os.Exit(1)
	}
	a := answer{Bools: []*bool{}, Durs: []*int64{}, DurStrs: []string{}}
	for _, s := range q.Bools {
		if b, err := strconv.ParseBool(s); err == nil {
			a.Bools = append(a.Bools, &b)
		} else {
			a.Bools = append(a.Bools, nil)
		}
	}
	for _, s := range q.Durs {
		if d, err := time.ParseDuration(s); err == nil {
			n := int64(d)
			a.Durs = append(a.Durs, &n)
		} else {
			a.Durs = append(a.Durs, nil)
		}
	}
	for _, n := range q.DurStrs {
		a.DurStrs = append(a.DurStrs, time.Duration(n).String())
	}
	json.NewEncoder(os.Stdout).Encode(a)
}
