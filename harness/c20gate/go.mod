module verif.test/c20gate

go 1.12
