// c20gate is a transparent wrapper around the real go tool, handed to mage with -gocmd by
// checks/c20.py.  It runs the real `go` with the same arguments, environment and standard
// streams.  For the sub-commands named in VERIF_C20_GATE (a comma separated list, e.g.
// "build" or "version,env,build") and only when VERIF_C20_SYNC (a directory) and VERIF_C20_ID
// are set, it lets the launcher hold a mage invocation before and after each of its go calls:
//
//	before the real command:  create <sync>/<name>.pre   and wait for <sync>/<name>.go-start
//	after it has returned:    create <sync>/<name>.post  and wait for <sync>/<name>.go-ret
//
// where <name> is <id> for `build` and <id>.<sub-command> for the others (a second call of the
// same sub-command finds the files of the first and passes).  Everything else is passed straight
// through (syscall.Exec), so that `go version` - which feeds mage's cache file name - and all
// other output are those of the real go.
package main

import (
	"fmt"
	"os"
	"os/exec"
	"path/filepath"
	"strconv"
	"strings"
	"syscall"
	"time"
)

// the longest a gate is held; VERIF_C20_MAXWAIT (seconds) raises it for the long-compile-phase launches
var maxWait = 120 * time.Second

func realGo() string {
	if p := os.Getenv("VERIF_C20_REALGO"); p != "" {
		return p
	}
	p, err := exec.LookPath("go")
	if err != nil {
		fmt.Fprintln(os.Stderr, "c20gate: cannot find the go tool:", err)
		os.Exit(127)
	}
	return p
}

func touch(p string) {
	if f, err := os.Create(p); err == nil {
		f.Close()
	}
}

func waitFor(p string) {
	deadline := time.Now().Add(maxWait)
	for time.Now().Before(deadline) {
		if _, err := os.Stat(p); err == nil {
			return
		}
		time.Sleep(3 * time.Millisecond)
	}
	fmt.Fprintln(os.Stderr, "c20gate: gave up waiting for", p)
}

func main() {
	if n, err := strconv.Atoi(os.Getenv("VERIF_C20_MAXWAIT")); err == nil && n > 0 {
		maxWait = time.Duration(n) * time.Second
	}
	goBin := realGo()
	args := os.Args[1:]
	gate, sync, id := os.Getenv("VERIF_C20_GATE"), os.Getenv("VERIF_C20_SYNC"), os.Getenv("VERIF_C20_ID")
	gated := false
	if len(args) > 0 {
		for _, g := range strings.Split(gate, ",") {
			if g != "" && g == args[0] {
				gated = true
			}
		}
	}
	if sync == "" || id == "" || !gated {
		err := syscall.Exec(goBin, append([]string{"go"}, args...), os.Environ())
		fmt.Fprintln(os.Stderr, "c20gate: exec:", err)
		os.Exit(127)
	}
	base := filepath.Join(sync, id)
	if args[0] != "build" {
		base += "." + args[0]
	}
	touch(base + ".pre")
	waitFor(base + ".go-start")
	c := exec.Command(goBin, args...)
	c.Stdin, c.Stdout, c.Stderr = os.Stdin, os.Stdout, os.Stderr
	err := c.Run()
	rc := 0
	if err != nil {
		rc = 1
		if ee, ok := err.(*exec.ExitError); ok {
			if ws, ok := ee.Sys().(syscall.WaitStatus); ok && ws.Exited() {
				rc = ws.ExitStatus()
			}
		}
	}
	touch(base + ".post")
	waitFor(base + ".go-ret")
	os.Exit(rc)
}
