package main

// Stub of the file that harness/apiprobe generates into the TEMPORARY build directory of this harness when the
// tree under test exports functions that the API at /repo HEAD does not have (lib/depslib.py build_depsrun;
// tools/notes/APIprobe.md).  On the unchanged tree nothing is discovered and this is what the generated file says too.

var apiSkipped = []string{}

func apiCalls(stage string) []string { return nil }
