package main

// Contention mode (C01): many goroutines request the same FRESH dependency at the same
// instant, round after round, through all four entry points.  Reports, per round, how many
// times the body ran.  What counts as correct is decided by the caller.

import (
	"context"
	"encoding/json"
	"fmt"
	"os"
	"sync"
	"sync/atomic"

	"github.com/magefile/mage/mg"
)

type contendSpec struct {
	Rounds     int `json:"rounds"`
	Goroutines int `json:"goroutines"`
}

var contendCount []int32

func contendBody(round int) { atomic.AddInt32(&contendCount[round], 1) }

type contendNS mg.Namespace

func (contendNS) Body(round int) { atomic.AddInt32(&contendCount[round], 1) }

func contend(spec contendSpec) {
	contendCount = make([]int32, 2*spec.Rounds)
	for r := 0; r < spec.Rounds; r++ {
		var start, done sync.WaitGroup
		start.Add(1)
		for g := 0; g < spec.Goroutines; g++ {
			done.Add(1)
			go func(g int) {
				defer done.Done()
				// two keys per round: a plain function value and a namespace method value
				a, b := mg.F(contendBody, 2*r), mg.F(contendNS.Body, 2*r+1)
				start.Wait()
				switch g % 4 {
				case 0:
					mg.Deps(a, b)
				case 1:
					mg.CtxDeps(context.Background(), b, a)
				case 2:
					mg.SerialDeps(a, b)
				default:
					mg.SerialCtxDeps(context.Background(), b, a)
				}
			}(g)
		}
		start.Done()
		done.Wait()
	}
	bad := map[string]int32{}
	for i, c := range contendCount {
		if c != 1 {
			bad[fmt.Sprint(i)] = c
		}
	}
	// two instantiations of one generic function are two different functions (known finding F23:
	// runtime.FuncForPC names both "main.genericDep[...]")
	mg.Deps(genericDep[int], genericDep[string])
	json.NewEncoder(os.Stdout).Encode(map[string]interface{}{"keys": len(contendCount), "not_once": bad,
		"generic_runs": []int32{atomic.LoadInt32(&genericRuns[0]), atomic.LoadInt32(&genericRuns[1])}})
}

var genericRuns [2]int32

func genericDep[T any]() {
	var z T
	if _, ok := interface{}(z).(int); ok {
		atomic.AddInt32(&genericRuns[0], 1)
	} else {
		atomic.AddInt32(&genericRuns[1], 1)
	}
}
