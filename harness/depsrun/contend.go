package main

// Contention mode (C01): many goroutines request the same FRESH dependency at the same
// instant, round after round, through all four entry points.  Reports, per round, how many
// times the body ran.  What counts as correct is decided by the caller.

import (
	"context"
	"encoding/json"
	"fmt"
	"os"
	"sort"
	"strings"
	"sync"
	"sync/atomic"
	"time"

	"github.com/magefile/mage/mg"

	"verif.test/depsrun/tasks"
	v2 "verif.test/depsrun/tasks.V2"
)

type contendSpec struct {
	Rounds     int `json:"rounds"`
	Goroutines int `json:"goroutines"`
	LongMs     int `json:"long_ms"` // > 0: also wait for a dependency that takes this long (C02: a call waits as long as it takes)
	LateMs     int `json:"late_ms"` // > 0: ONLY the late-requester probe: a dependency running for this long, requested again 1.5 s before it ends
}

// a requester that arrives LATE - after the dependency has been running for a long time (beyond any built-in patience,
// heartbeat or progress interval) - waits for it like one that arrives early (C02); run in a process of its own.
var lateDone int32
var lateRuns int32

func lateDep() {
	atomic.AddInt32(&lateRuns, 1)
	time.Sleep(time.Duration(longSpecMs) * time.Millisecond)
	atomic.StoreInt32(&lateDone, 1)
}

func lateProbe(ms int) string {
	longSpecMs = ms
	longNextWatch = &lateDone
	t0 := time.Now()
	otherDone := make(chan struct{})
	go func() {
		defer close(otherDone)
		defer func() { recover() }()
		mg.Deps(lateDep)
	}()
	time.Sleep(time.Duration(ms-1500) * time.Millisecond)
	msgs := []string{}
	for i, call := range []func(){
		func() { mg.Deps(lateDep) },
		func() { mg.SerialDeps(lateDep, mg.F(longNext, ms)) },
		func() { mg.CtxDeps(context.Background(), lateDep) },
	} {
		if i > 0 && atomic.LoadInt32(&lateDone) == 1 {
			break
		}
		panicked := false
		func() {
			defer func() { panicked = recover() != nil }()
			call()
		}()
		if panicked || atomic.LoadInt32(&lateDone) != 1 {
			msgs = append(msgs, fmt.Sprintf("a call naming a dependency that had been running for %d ms (of %d) ended after %d ms (panicked: %v) while the dependency had not finished",
				ms-1500, ms, time.Since(t0).Milliseconds(), panicked))
			break
		}
	}
	<-otherDone
	if atomic.LoadInt32(&longNextEarly) != 0 {
		msgs = append(msgs, "SerialDeps(dependency in flight for a long time, next): next was started before the dependency had finished")
	}
	if n := atomic.LoadInt32(&lateRuns); n != 1 {
		msgs = append(msgs, fmt.Sprintf("the long-running dependency ran %d times", n))
	}
	return strings.Join(msgs, "; ")
}

var longDone int32

func longDep() {
	time.Sleep(time.Duration(longSpecMs) * time.Millisecond)
	atomic.StoreInt32(&longDone, 1)
}

var longSpecMs int
var longNextEarly int32
var longNextWatch *int32

func longNext(tag int) {
	if atomic.LoadInt32(longNextWatch) != 1 {
		atomic.StoreInt32(&longNextEarly, 1)
	}
}

// a call returns only after what it named has finished, however long that takes: no give-up by the clock.
// Phase 1 (always, NOT verbose): a dependency another call has in flight for 3 s; a serial call naming it waits for it before
// starting its next member.  Phase 2 (ms > 5000, verbose): a dependency running for ms; exactly one "Running dependency:" line.
func longProbe(ms int) string {
	if ms <= 0 {
		return ""
	}
	os.Setenv("MAGEFILE_VERBOSE", "0")
	if msg := waitFor(waitDep, 3000, &waitDone); msg != "" {
		return msg
	}
	if ms <= 5000 {
		return ""
	}
	longSpecMs = ms
	os.Setenv("MAGEFILE_VERBOSE", "1")
	fmt.Fprintln(os.Stderr, "LPROBE-BEGIN")
	msg := waitFor(longDep, ms, &longDone)
	fmt.Fprintln(os.Stderr, "LPROBE-END")
	os.Setenv("MAGEFILE_VERBOSE", "0")
	return msg
}

var waitDone int32

func waitDep() { time.Sleep(3 * time.Second); atomic.StoreInt32(&waitDone, 1) }

func waitFor(dep func(), ms int, done *int32) string {
	t0 := time.Now()
	longNextWatch = done
	atomic.StoreInt32(&longNextEarly, 0)
	started := make(chan struct{})
	otherDone := make(chan struct{})
	go func() {
		defer close(otherDone)
		defer func() { recover() }()
		close(started)
		mg.Deps(dep)
	}()
	<-started
	time.Sleep(100 * time.Millisecond)
	panicked := false
	func() {
		defer func() { panicked = recover() != nil }()
		mg.SerialDeps(dep, mg.F(longNext, ms))
	}()
	early := atomic.LoadInt32(&longNextEarly) != 0
	unfinished := atomic.LoadInt32(done) != 1
	<-otherDone
	if panicked || unfinished {
		return fmt.Sprintf("SerialDeps(dependency taking %d ms, next) ended after %d ms (panicked: %v) while the dependency had not finished", ms, time.Since(t0).Milliseconds(), panicked)
	}
	if early {
		return fmt.Sprintf("SerialDeps(dependency in flight elsewhere for %d ms, next): next was started before the dependency had finished", ms)
	}
	return ""
}

var contendCount []int32

func contendBody(round int) { atomic.AddInt32(&contendCount[round], 1) }

type contendNS mg.Namespace

func (contendNS) Body(round int) { atomic.AddInt32(&contendCount[round], 1) }

func contend(spec contendSpec) {
	if spec.LateMs > 0 {
		json.NewEncoder(os.Stdout).Encode(map[string]interface{}{"late_wait": lateProbe(spec.LateMs)})
		return
	}
	// exported functions of the tree under test that the API at /repo HEAD does not have (harness/apiprobe generates
	// apiCalls into the build directory; nil on the unchanged tree): registration-style ones must be installed before
	// any dependency runs - hooks once well-behaved and once panicking after they have done their work
	apiStart := apiCalls("pass")
	for _, n := range apiCalls("panic-after") {
		apiStart = append(apiStart, n+"[its hook panics after having done its work]")
	}
	if len(apiStart) > 0 {
		fmt.Fprintln(os.Stderr, "VPAPI-CALLED:", strings.Join(apiStart, ", "))
	}
	apiBad, apiCalled := apiProbe(apiStart)
	contendCount = make([]int32, 2*spec.Rounds)
	for r := 0; r < spec.Rounds; r++ {
		var start, done sync.WaitGroup
		start.Add(1)
		for g := 0; g < spec.Goroutines; g++ {
			done.Add(1)
			go func(g int) {
				defer done.Done()
				// two keys per round: a plain function value and a namespace method value
				a, b := mg.F(contendBody, 2*r), mg.F(contendNS.Body, 2*r+1)
				start.Wait()
				switch g % 4 {
				case 0:
					mg.Deps(a, b)
				case 1:
					mg.CtxDeps(context.Background(), b, a)
				case 2:
					mg.SerialDeps(a, b)
				default:
					mg.SerialCtxDeps(context.Background(), b, a)
				}
			}(g)
		}
		start.Done()
		done.Wait()
	}
	bad := map[string]int32{}
	for i, c := range contendCount {
		if c != 1 {
			bad[fmt.Sprint(i)] = c
		}
	}
	// two instantiations of one generic function are two different functions (known finding F23:
	// runtime.FuncForPC names both "main.genericDep[...]")
	mg.Deps(genericDep[int], genericDep[string])
	json.NewEncoder(os.Stdout).Encode(map[string]interface{}{"keys": len(contendCount), "not_once": bad,
		"generic_runs":   []int32{atomic.LoadInt32(&genericRuns[0]), atomic.LoadInt32(&genericRuns[1])},
		"invalid_member": invalidProbe(), "name_prefix": namesProbe(), "custom_fn": customProbe(), "verbose_late": verboseProbe(),
		"wide": wideProbe(), "ctx_err": ctxErrProbe(), "escaped_names": escapedProbe(), "suffix_and_empty_args": suffixProbe(), "long_wait": longProbe(spec.LongMs),
		"rerequest_after_many": rerequestProbe(), "crowd": crowdProbe(), "ambient": ambientProbe(),
		"api": apiBad, "api_called": apiCalled, "api_skipped": apiSkipped})
}

// ---- API probe: calling the exported functions that the tree under test has IN ADDITION to the API the models know
// (statistics, graphs, reports, snapshots, middleware, hooks, implicit dependencies, ...) between two requests changes
// nothing the engine does for a dependency: every body runs exactly once, a dependency that failed fails every later
// request with the same status and message, a serial call starts all its members in order (C01, C03, C13).
// On the unchanged tree apiCalls is empty and this is a plain re-request scenario.
var apiRuns [10]int32
var apiSlowStarted = make(chan struct{})
var apiSerMu sync.Mutex
var apiSerOrder [2][]int

func apiOK()         { atomic.AddInt32(&apiRuns[0], 1) }
func apiFail() error { atomic.AddInt32(&apiRuns[1], 1); return mg.Fatal(7, "api-fail") }
func apiSlowOK() {
	if atomic.AddInt32(&apiRuns[2], 1) == 1 {
		close(apiSlowStarted)
	}
	time.Sleep(50 * time.Millisecond)
}
func apiFastFail() error  { atomic.AddInt32(&apiRuns[3], 1); return mg.Fatal(9, "api-fast-fail") }
func apiFailFirst() error { atomic.AddInt32(&apiRuns[4], 1); return fmt.Errorf("api-plain-error") }
func apiSlowLater()       { atomic.AddInt32(&apiRuns[5], 1); time.Sleep(30 * time.Millisecond) }
func apiPanics()          { atomic.AddInt32(&apiRuns[6], 1); panic("api-panic") }
func apiArg(s string) error {
	if s == "b" {
		atomic.AddInt32(&apiRuns[7], 1)
		return mg.Fatal(5, "api-arg-b")
	}
	atomic.AddInt32(&apiRuns[8], 1)
	return nil
}
func apiNever() { atomic.AddInt32(&apiRuns[9], 1) }

func apiSerMark(list, i int) {
	apiSerMu.Lock()
	apiSerOrder[list] = append(apiSerOrder[list], i)
	apiSerMu.Unlock()
}
func apiSer0()        { apiSerMark(0, 0) }
func apiSer1()        { apiSerMark(0, 1) }
func apiSer2() error  { apiSerMark(0, 2); return nil }
func apiSer3()        { apiSerMark(0, 3) }
func apiSer4()        { apiSerMark(0, 4) }
func apiSer5() error  { apiSerMark(0, 5); return nil }
func apiSer6()        { apiSerMark(0, 6) }
func apiSer7()        { apiSerMark(0, 7) }
func apiSerArg(i int) { apiSerMark(1, i) }

type apiOutcome struct {
	panicked bool
	status   int
	msg      string
}

func (o apiOutcome) String() string {
	if !o.panicked {
		return "returned normally"
	}
	return fmt.Sprintf("panicked with status %d and message %q", o.status, o.msg)
}

var apiStyles = []string{"Deps", "CtxDeps", "SerialDeps", "SerialCtxDeps"}

func apiReq(style int, fns ...interface{}) (o apiOutcome) {
	defer func() {
		if v := recover(); v != nil {
			o = apiOutcome{true, 1, fmt.Sprint(v)}
			if err, ok := v.(error); ok {
				o.status, o.msg = mg.ExitStatus(err), err.Error()
			}
		}
	}()
	switch style {
	case 0:
		mg.Deps(fns...)
	case 1:
		mg.CtxDeps(context.Background(), fns...)
	case 2:
		mg.SerialDeps(fns...)
	default:
		mg.SerialCtxDeps(context.Background(), fns...)
	}
	return
}

func apiProbe(atStart []string) ([]string, []string) {
	bad := []string{}
	calledSet := map[string]bool{}
	for _, n := range atStart {
		calledSet[n] = true
	}
	call := func() {
		for _, n := range apiCalls("pass") {
			calledSet[n] = true
		}
	}
	deps := []struct {
		name   string
		fn     func() interface{}
		status int // 0: succeeds
		text   string
	}{
		{"apiOK", func() interface{} { return apiOK }, 0, ""},
		{"apiFail", func() interface{} { return apiFail }, 7, "api-fail"},
		{"apiSlowOK", func() interface{} { return apiSlowOK }, 0, ""},
		{"apiFastFail", func() interface{} { return apiFastFail }, 9, "api-fast-fail"},
		{"apiFailFirst", func() interface{} { return apiFailFirst }, 1, "api-plain-error"},
		{"apiSlowLater", func() interface{} { return apiSlowLater }, 0, ""},
		{"apiPanics", func() interface{} { return apiPanics }, 1, "api-panic"},
		{`mg.F(apiArg, "b")`, func() interface{} { return mg.F(apiArg, "b") }, 5, "api-arg-b"},
		{`mg.F(apiArg, "a")`, func() interface{} { return mg.F(apiArg, "a") }, 0, ""},
	}
	first := make([]apiOutcome, len(deps))
	// history: a slow successful dependency started first and a fast failing one second (finish order != start order);
	// a failing one started before a slower successful one; a panic; one function with two argument lists of which the
	// first fails and the second succeeds afterwards
	slowDone := make(chan apiOutcome, 1)
	go func() { slowDone <- apiReq(0, apiSlowOK) }()
	select {
	case <-apiSlowStarted:
	case <-time.After(5 * time.Second):
	}
	first[3] = apiReq(0, apiFastFail)
	first[2] = <-slowDone
	first[1] = apiReq(0, apiOK, apiFail)
	first[4] = apiReq(2, apiFailFirst)
	first[5] = apiReq(1, apiSlowLater)
	first[6] = apiReq(3, apiPanics)
	first[7] = apiReq(0, mg.F(apiArg, "b"))
	first[8] = apiReq(2, mg.F(apiArg, "a"))
	for i, d := range deps {
		if o := first[i]; o.panicked != (d.status != 0) || (o.panicked && (o.status != d.status || !strings.Contains(o.msg, d.text))) {
			want := "return normally"
			if d.status != 0 {
				want = fmt.Sprintf("panic with status %d and a message holding %q", d.status, d.text)
			}
			bad = append(bad, fmt.Sprintf("the first request for %s %s (must %s)", d.name, o, want))
		}
	}
	steps := []string{}
	recheck := func(step string) {
		steps = append(steps, step)
		for i, d := range deps {
			for style := range apiStyles {
				if o := apiReq(style, d.fn()); o != first[i] {
					bad = append(bad, fmt.Sprintf("after [%s] %s(%s) %s; the first request for it %s", strings.Join(steps, "; "), apiStyles[style], d.name, o, first[i]))
					break
				}
			}
			if d.status != 0 {
				if o := apiReq(2+i%2, d.fn(), apiNever); o != first[i] {
					bad = append(bad, fmt.Sprintf("after [%s] %s(%s, next) %s; the first request for %s %s", strings.Join(steps, "; "), apiStyles[2+i%2], d.name, o, d.name, first[i]))
				}
			}
		}
		for i, d := range deps {
			if got := atomic.LoadInt32(&apiRuns[i]); got != 1 {
				bad = append(bad, fmt.Sprintf("%s ran %d times after [%s] (must run exactly once)", d.name, got, strings.Join(steps, "; ")))
				atomic.StoreInt32(&apiRuns[i], 1)
			}
		}
		if got := atomic.LoadInt32(&apiRuns[9]); got != 0 {
			bad = append(bad, fmt.Sprintf("the member after a failed one was started %d times by a serial call after [%s]", got, strings.Join(steps, "; ")))
			atomic.StoreInt32(&apiRuns[9], 0)
		}
	}
	recheck("the first requests")
	call()
	recheck("the API calls")
	// a serial call as the FIRST call after the API calls: all members, in order
	serial := func(list int, step string, o apiOutcome) {
		steps = append(steps, step)
		apiSerMu.Lock()
		got := fmt.Sprint(apiSerOrder[list])
		apiSerMu.Unlock()
		if o.panicked || got != "[0 1 2 3 4 5 6 7]" {
			bad = append(bad, fmt.Sprintf("after [%s]: it %s having started its members %s (must return normally having started 0..7 in order)", strings.Join(steps, "; "), o, got))
		}
	}
	call()
	serial(0, "the API calls again; SerialDeps over 8 fresh dependencies as the next call", apiReq(2, apiSer0, apiSer1, apiSer2, apiSer3, apiSer4, apiSer5, apiSer6, apiSer7))
	call()
	fns := []interface{}{}
	for i := 0; i < 8; i++ {
		fns = append(fns, mg.F(apiSerArg, i))
	}
	serial(1, "the API calls again; SerialCtxDeps over 8 fresh mg.F dependencies as the next call", apiReq(3, fns...))
	recheck("all dependencies requested again")
	names := []string{}
	for n := range calledSet {
		names = append(names, n)
	}
	sort.Strings(names)
	return bad, names
}

// ---- a function of package ".../tasks.V2" and the method of type V2 in package ".../tasks" have
// names that differ only by the runtime's escaping of the dot: different functions, different
// dependencies (C01, C14).
func escapedProbe() []int32 {
	mg.Deps(tasks.V2.Build, v2.Build)
	mg.SerialDeps(mg.F(v2.Deploy, "prod"), mg.F(tasks.V2.Deploy, "prod"))
	return []int32{atomic.LoadInt32(&tasks.Runs[0]), atomic.LoadInt32(&v2.Runs[0]), atomic.LoadInt32(&tasks.Runs[1]), atomic.LoadInt32(&v2.Runs[1])}
}

// ---- wide calls: one call naming n dependencies, for n around and beyond typical batch sizes;
// when the call returns every one of them must have finished, exactly once (C01, C02).
var wideDone []int32

func wideBody(round, i int) {
	if i%17 == 3 {
		time.Sleep(time.Millisecond)
	}
	atomic.AddInt32(&wideDone[round], 1)
}

var wideFailDone int32

func wideFailBody(n, i int) error {
	atomic.AddInt32(&wideFailDone, 1)
	if i == 3 {
		return fmt.Errorf("check %d of %d failed", i, n)
	}
	return nil
}

func manyFailBody(mixed bool, i, code int) error {
	return mg.Fatal(code, fmt.Sprintf("many-fail-%v-%d;", mixed, i))
}

func wideProbe() []string {
	sizes := []int{31, 32, 33, 63, 64, 65, 100, 127, 128, 129, 200, 256, 257, 513, 1000}
	wideDone = make([]int32, 4*len(sizes))
	bad := []string{}
	for si, n := range sizes {
		for style := 0; style < 4; style++ {
			round := 4*si + style
			fns := make([]interface{}, n)
			for i := range fns {
				fns[i] = mg.F(wideBody, round, i)
			}
			switch style {
			case 0:
				mg.Deps(fns...)
			case 1:
				mg.CtxDeps(context.Background(), fns...)
			case 2:
				mg.SerialDeps(fns...)
			default:
				mg.SerialCtxDeps(context.Background(), fns...)
			}
			if got := atomic.LoadInt32(&wideDone[round]); int(got) != n {
				bad = append(bad, fmt.Sprintf("%s over %d dependencies returned when %d had finished",
					[]string{"Deps", "CtxDeps", "SerialDeps", "SerialCtxDeps"}[style], n, got))
			}
		}
	}
	// a failing member early in a wide PARALLEL call does not excuse the others: every named dependency runs
	// (once), the call then panics; a serial call stops at the failure (checked by the engine programs)
	for _, n := range []int{65, 100, 200} {
		wideFailDone = 0
		fns := make([]interface{}, n)
		for i := range fns {
			fns[i] = mg.F(wideFailBody, n, i)
		}
		for style := 0; style < 2; style++ {
			panicked := false
			func() {
				defer func() { panicked = recover() != nil }()
				if style == 0 {
					mg.Deps(fns...)
				} else {
					mg.CtxDeps(context.Background(), fns...) // same dependencies again: nothing runs twice, the failure is remembered
				}
			}()
			if got := atomic.LoadInt32(&wideFailDone); int(got) != n || !panicked {
				bad = append(bad, fmt.Sprintf("parallel call #%d over %d dependencies of which #3 fails: %d bodies had run when it ended (panicked: %v); all %d must run, once, and the call must panic",
					style+1, n, got, panicked, n))
			}
		}
	}
	// MANY failing members in one call: the propagated failure carries every member's message, and the
	// status is the common one, or 1 when they differ (C03)
	for _, mixed := range []bool{false, true} {
		n := 40
		fns := make([]interface{}, n)
		for i := range fns {
			code := 3
			if mixed && i%2 == 1 {
				code = 4
			}
			fns[i] = mg.F(manyFailBody, mixed, i, code)
		}
		var pv interface{}
		func() {
			defer func() { pv = recover() }()
			mg.Deps(fns...)
		}()
		text := fmt.Sprint(pv)
		missing := 0
		for i := 0; i < n; i++ {
			if !strings.Contains(text, fmt.Sprintf("many-fail-%v-%d;", mixed, i)) {
				missing++
			}
		}
		want := 3
		if mixed {
			want = 1
		}
		got := 1
		if err, ok := pv.(error); ok {
			got = mg.ExitStatus(err)
		}
		if pv == nil || missing != 0 || got != want {
			bad = append(bad, fmt.Sprintf("Deps over %d failing dependencies (codes %s): propagated status %d (want %d), messages of %d failed dependencies missing (panicked: %v)",
				n, map[bool]string{false: "all 3", true: "3 and 4"}[mixed], got, want, missing, pv != nil))
		}
	}
	time.Sleep(20 * time.Millisecond)
	for r, c := range wideDone {
		if n := sizes[r/4]; int(c) != n {
			bad = append(bad, fmt.Sprintf("call %d over %d dependencies: %d executions in the end", r, n, c))
		}
	}
	return bad
}

// ---- a member that fails with the context's own error (it was cancelled / timed out while the
// member ran and the member returns ctx.Err()): that is a failure like any other - the call
// panics, a serial call starts nothing after it (C03, C13).
var (
	ceCancel  context.CancelFunc
	ceStarted [4]int32
)

var ceRuns [2]int32

// (a second execution must not happen at all - a finished dependency is never run again; if it does, it returns at
// once instead of waiting for a context that nobody will cancel, and the probe reports the count)
func ceCancelsAndFails(ctx context.Context) error {
	if atomic.AddInt32(&ceRuns[0], 1) > 1 {
		return nil
	}
	ceCancel()
	<-ctx.Done()
	return ctx.Err()
}
func ceWaitsAndFails(ctx context.Context) error {
	if atomic.AddInt32(&ceRuns[1], 1) > 1 {
		return nil
	}
	<-ctx.Done()
	return ctx.Err()
}
func ceNext0() { atomic.AddInt32(&ceStarted[0], 1) }
func ceNext1() { atomic.AddInt32(&ceStarted[1], 1) }
func ceNext2() { atomic.AddInt32(&ceStarted[2], 1) }
func ceNext3() { atomic.AddInt32(&ceStarted[3], 1) }

func ctxErrProbe() []string {
	bad := []string{}
	try := func(name string, idx int, call func()) {
		panicked := false
		func() {
			defer func() {
				if recover() != nil {
					panicked = true
				}
			}()
			call()
		}()
		if !panicked {
			bad = append(bad, name+": returned normally although a member failed with the context's error")
		}
		if idx >= 0 && atomic.LoadInt32(&ceStarted[idx]) != 0 {
			bad = append(bad, name+": the member after the failed one was started")
		}
	}
	ctx, cancel := context.WithCancel(context.Background())
	ceCancel = cancel
	try("SerialCtxDeps(ctx, cancelsAndReturnsCtxErr, next)", 0, func() { mg.SerialCtxDeps(ctx, ceCancelsAndFails, ceNext0) })
	ctx2, cancel2 := context.WithTimeout(context.Background(), 30*time.Millisecond)
	defer cancel2()
	try("SerialCtxDeps(ctxWithTimeout, waitsAndReturnsCtxErr, next)", 1, func() { mg.SerialCtxDeps(ctx2, mg.F(ceWaitsAndFails), ceNext1) })
	ctx3, cancel3 := context.WithCancel(context.Background())
	ceCancel = cancel3
	try("CtxDeps(ctx, F(cancelsAndReturnsCtxErr))", -1, func() { mg.CtxDeps(ctx3, mg.F(ceCancelsAndFails)) })
	// (one function value = one dependency: the wrapped and the bare mention above are the same two keys, already run;
	//  their remembered failure must fail later calls as well)
	try("SerialDeps(cancelsAndReturnsCtxErr (already failed), next)", 2, func() { mg.SerialDeps(ceCancelsAndFails, ceNext2) })
	try("SerialCtxDeps(fresh ctx, waitsAndReturnsCtxErr (already failed), next)", 3, func() { mg.SerialCtxDeps(context.Background(), ceWaitsAndFails, ceNext3) })
	if a, b := atomic.LoadInt32(&ceRuns[0]), atomic.LoadInt32(&ceRuns[1]); a != 1 || b != 1 {
		bad = append(bad, fmt.Sprintf("dependencies that failed with their context's error were executed %d and %d times (each exactly once: a finished dependency is remembered whatever its error was)", a, b))
	}
	return bad
}

// ---- user-implemented mg.Fn values: the registry must keep (Name, ID) PAIRS apart; any key that
// glues the two strings together conflates ("a"+sep+"b", "c") with ("a", "b"+sep+"c") (C01).
type customFn struct {
	name, id string
	n        *int32
}

func (c customFn) Name() string                  { return c.name }
func (c customFn) ID() string                    { return c.id }
func (c customFn) Run(ctx context.Context) error { atomic.AddInt32(c.n, 1); return nil }

func customProbe() map[string]interface{} {
	seps := []string{"", ".", ":", "/", "#", "|", " ", "-", "_", "@", "\x00", "(", "[", ",", ";", "\n", "=", "1", "0"}
	var fns []customFn
	for i, sep := range seps {
		base := fmt.Sprintf("probe.job%d", i)
		fns = append(fns, customFn{base + sep + "index", "10", new(int32)}, customFn{base, "index" + sep + "10", new(int32)},
			customFn{base + sep + "index1", "0", new(int32)}, customFn{base + sep + "index", "1" + "0" + "", new(int32)})
	}
	// the 4th of each group is the same (Name, ID) pair as the 1st: one dependency, requested twice
	var a, b, c, d []interface{}
	for i, f := range fns {
		switch i % 4 {
		case 0:
			a = append(a, f)
		case 1:
			b = append(b, f)
		case 2:
			c = append(c, f)
		default:
			d = append(d, f)
		}
	}
	mg.Deps(a...)
	mg.CtxDeps(context.Background(), b...)
	mg.SerialDeps(c...)
	mg.SerialCtxDeps(context.Background(), d...)
	bad := []string{}
	for i := 0; i < len(fns); i += 4 {
		same := atomic.LoadInt32(fns[i].n) + atomic.LoadInt32(fns[i+3].n)
		if same != 1 || atomic.LoadInt32(fns[i+1].n) != 1 || atomic.LoadInt32(fns[i+2].n) != 1 {
			bad = append(bad, fmt.Sprintf("sep %q: (%q,%q)+(same pair again) ran %d times, (%q,%q) %d, (%q,%q) %d", seps[i/4],
				fns[i].name, fns[i].id, same, fns[i+1].name, fns[i+1].id, atomic.LoadInt32(fns[i+1].n), fns[i+2].name, fns[i+2].id, atomic.LoadInt32(fns[i+2].n)))
		}
	}
	return map[string]interface{}{"groups": len(seps), "bad": bad}
}

// ---- verbosity decided late: a compiled magefile given -v exports MAGEFILE_VERBOSE=1 from main(),
// i.e. AFTER package initialisation; a dependency run from an init() must not freeze "not verbose"
// for the dependencies of the targets (C01, the "Running dependency:" clause).  The lines go to
// stderr (mg's logger); the caller counts them between the markers.
func VpEarly() {}
func VpLate()  {}

type vpOps struct{ n int32 }

func (o *vpOps) Push() { atomic.AddInt32(&o.n, 1) } // a pointer-receiver method VALUE is a func(): a legal dependency, named main.(*vpOps).Push-fm

var vpOpsVal = &vpOps{}

func verboseProbe() string {
	os.Unsetenv("MAGEFILE_VERBOSE")
	mg.Deps(VpEarly)                   // what an init() of a magefile may do
	os.Setenv("MAGEFILE_VERBOSE", "1") // what the generated main does for -v
	fmt.Fprintln(os.Stderr, "VPROBE-BEGIN")
	mg.Deps(VpLate, VpEarly, vpOpsVal.Push)
	fmt.Fprintln(os.Stderr, "VPROBE-END")
	os.Setenv("MAGEFILE_VERBOSE", "0")
	return "see stderr"
}

// ---- a call naming a valid, slow dependency AND a value that is not a dependency at all:
// the call panics; whenever it unwinds, nothing it named may be running (C02).
var (
	invStarted, invFinished, invCallEnded, invOverlap int32
	invRelease                                        chan struct{}
)

func invSlow() {
	atomic.StoreInt32(&invStarted, 1)
	<-invRelease
	if atomic.LoadInt32(&invCallEnded) == 1 {
		atomic.StoreInt32(&invOverlap, 1) // the call that named us ended while we were (about to be) running
	}
	atomic.StoreInt32(&invFinished, 1)
}
func invSlowCtx(context.Context) error { invSlow(); return nil }
func invBad() int                      { return 1 }

var slCount [4]int32
var slOrderBad int32

func slA() { atomic.AddInt32(&slCount[0], 1) }
func slB() {
	if atomic.LoadInt32(&slCount[0]) != 1 {
		atomic.StoreInt32(&slOrderBad, 1)
	}
	atomic.AddInt32(&slCount[1], 1)
}
func slC() {
	if atomic.LoadInt32(&slCount[1]) != 1 {
		atomic.StoreInt32(&slOrderBad, 1)
	}
	atomic.AddInt32(&slCount[2], 1)
}
func slD() {
	if atomic.LoadInt32(&slCount[2]) != 1 {
		atomic.StoreInt32(&slOrderBad, 1)
	}
	atomic.AddInt32(&slCount[3], 1)
}

func invalidProbe() map[string]interface{} {
	res := map[string]interface{}{}
	try := func(name string, call func()) {
		atomic.StoreInt32(&invStarted, 0)
		atomic.StoreInt32(&invFinished, 0)
		atomic.StoreInt32(&invCallEnded, 0)
		atomic.StoreInt32(&invOverlap, 0)
		invRelease = make(chan struct{})
		rel := invRelease
		go func() { time.Sleep(300 * time.Millisecond); close(rel) }()
		panicked, running := false, false
		func() {
			defer func() {
				if recover() != nil {
					panicked = true
				}
				running = atomic.LoadInt32(&invStarted) == 1 && atomic.LoadInt32(&invFinished) == 0
				atomic.StoreInt32(&invCallEnded, 1)
			}()
			call()
		}()
		time.Sleep(450 * time.Millisecond)
		res[name] = map[string]bool{"panicked": panicked, "unwound_while_running": running || atomic.LoadInt32(&invOverlap) == 1}
	}
	// a SLICE of dependencies as one argument: either it is refused (the call panics and nothing it named runs) or it is
	// taken as the dependencies it holds - then a serial call runs ALL of them and what follows, in order
	slPanicked := false
	func() {
		defer func() { slPanicked = recover() != nil }()
		mg.SerialDeps([]interface{}{slA, slB}, slC, slD)
	}()
	a, b, c, d := atomic.LoadInt32(&slCount[0]), atomic.LoadInt32(&slCount[1]), atomic.LoadInt32(&slCount[2]), atomic.LoadInt32(&slCount[3])
	res["SerialDeps([]interface{}{A, B}, C, D)"] = map[string]bool{"panicked": true,
		"unwound_while_running": !((slPanicked && a+b+c+d == 0) || (!slPanicked && a == 1 && b == 1 && c == 1 && d == 1 && atomic.LoadInt32(&slOrderBad) == 0))}
	try("Deps(slow, 42)", func() { mg.Deps(invSlow, 42) })
	try("CtxDeps(slowctx, badfunc)", func() { mg.CtxDeps(context.Background(), invSlowCtx, invBad) })
	return res
}

// ---- functions whose names are prefixes of one another: a different function is a different
// dependency, and a caller is not its own dependency because its name starts the same (C01).
var nmCount [4]int32
var nmBad int32

func NmBuild() { atomic.AddInt32(&nmCount[0], 1) }
func NmBuildAll() {
	mg.Deps(NmBuild)
	if atomic.LoadInt32(&nmCount[0]) != 1 {
		atomic.AddInt32(&nmBad, 1) // Deps(NmBuild) returned although NmBuild has not run
	}
	atomic.AddInt32(&nmCount[1], 1)
}
func NmF1() error { atomic.AddInt32(&nmCount[2], 1); return nil }
func NmF10() error {
	mg.SerialDeps(NmF1)
	if atomic.LoadInt32(&nmCount[2]) != 1 {
		atomic.AddInt32(&nmBad, 1)
	}
	atomic.AddInt32(&nmCount[3], 1)
	return nil
}

// names that differ only in a trailing f, m or '-' (what a careless strings.TrimRight(name, "-fm") would eat),
// and one function requested bare, as mg.F(f) and as mg.F(f, empty...) with an empty NON-NIL argument list
var sfxCount [6]int32
var eaCount [2]int32

func NmAr()                   { atomic.AddInt32(&sfxCount[0], 1) }
func NmArm()                  { atomic.AddInt32(&sfxCount[1], 1) }
func NmPer()                  { atomic.AddInt32(&sfxCount[2], 1) }
func NmPerf()                 { atomic.AddInt32(&sfxCount[3], 1) }
func NmAsm() error            { atomic.AddInt32(&sfxCount[4], 1); return nil }
func NmAs() error             { atomic.AddInt32(&sfxCount[5], 1); return nil }
func EaPlain()                { atomic.AddInt32(&eaCount[0], 1) }
func EaVariadic(xs ...string) { atomic.AddInt32(&eaCount[1], 1) }

func suffixProbe() map[string][]int32 {
	mg.Deps(NmArm, NmAr)
	mg.SerialDeps(NmPer, NmPerf)
	mg.CtxDeps(context.Background(), NmAsm, NmAs)
	empty := make([]interface{}, 0, 4)
	mg.Deps(EaPlain, mg.F(EaPlain), mg.F(EaPlain, empty...))
	mg.SerialDeps(mg.F(EaVariadic, empty...), mg.F(EaVariadic), EaVariadic)
	out := map[string][]int32{"suffix": {}, "empty_args": {}}
	for i := range sfxCount {
		out["suffix"] = append(out["suffix"], atomic.LoadInt32(&sfxCount[i]))
	}
	for i := range eaCount {
		out["empty_args"] = append(out["empty_args"], atomic.LoadInt32(&eaCount[i]))
	}
	return out
}

// after many thousands of other dependencies have been registered, dependencies that finished long ago are still
// remembered: requesting them again runs nothing (the registry must not forget; C01, C13)
func rerequestProbe() []int32 {
	mg.Deps(NmBuild, NmF1)
	mg.SerialDeps(NmBuildAll, VpEarly)
	return []int32{atomic.LoadInt32(&nmCount[0]), atomic.LoadInt32(&nmCount[1]), atomic.LoadInt32(&nmCount[2]), atomic.LoadInt32(&nmCount[3])}
}

// a crowd of dependencies in flight at once (all blocked) does not change what a call does for a dependency another
// call has in flight: it waits for it (C02)
var crowdRelease = make(chan struct{})
var crowdIndexDone int32

func crowdBlocked(i int) { <-crowdRelease }
func crowdIndex() {
	<-crowdRelease
	time.Sleep(30 * time.Millisecond)
	atomic.StoreInt32(&crowdIndexDone, 1)
}

func crowdProbe() string {
	const n = 12000
	started := make(chan struct{})
	go func() { close(started); mg.Deps(crowdIndex) }()
	<-started
	fns := make([]interface{}, n)
	for i := range fns {
		fns[i] = mg.F(crowdBlocked, i)
	}
	crowdDone := make(chan struct{})
	go func() {
		defer close(crowdDone)
		defer func() { recover() }()
		mg.Deps(fns...)
	}()
	time.Sleep(400 * time.Millisecond) // let them all get in flight
	res := make(chan string, 1)
	go func() {
		panicked := false
		func() {
			defer func() { panicked = recover() != nil }()
			mg.Deps(crowdIndex)
		}()
		if atomic.LoadInt32(&crowdIndexDone) != 1 {
			res <- fmt.Sprintf("with %d dependencies in flight, Deps(dependency another call has in flight) ended (panicked: %v) while that dependency was still running", n, panicked)
			return
		}
		res <- ""
	}()
	time.Sleep(200 * time.Millisecond)
	close(crowdRelease)
	out := <-res
	<-crowdDone
	return out
}

func namesProbe() []int32 {
	mg.Deps(NmBuildAll, NmF10)
	mg.Deps(NmBuild, NmF1)
	return []int32{atomic.LoadInt32(&nmCount[0]), atomic.LoadInt32(&nmCount[1]), atomic.LoadInt32(&nmCount[2]), atomic.LoadInt32(&nmCount[3]), atomic.LoadInt32(&nmBad)}
}

var genericRuns [2]int32

func genericDep[T any]() {
	var z T
	if _, ok := interface{}(z).(int); ok {
		atomic.AddInt32(&genericRuns[0], 1)
	} else {
		atomic.AddInt32(&genericRuns[1], 1)
	}
}

// ---- the process's ambient state (working directory, file system, environment) changes between two requests for
// the same dependency: a dependency is its function and its argument VALUES, nothing else; mg.F values are built
// afresh at every request, as a magefile does (C01, C13, C14).
var ambRuns [6]int32
var ambSlowStarted = make(chan struct{})
var ambSlowDone int32
var ambSlowOnce sync.Once

func ambPlain()           { atomic.AddInt32(&ambRuns[0], 1) }
func ambPath(p string)    { atomic.AddInt32(&ambRuns[1], 1) }
func ambFile(p string)    { atomic.AddInt32(&ambRuns[2], 1) }
func ambTwo(a, b string)  { atomic.AddInt32(&ambRuns[3], 1) }
func ambVar(xs ...string) { atomic.AddInt32(&ambRuns[4], 1) }
func ambSlow() {
	ambSlowOnce.Do(func() { close(ambSlowStarted) })
	time.Sleep(300 * time.Millisecond)
	atomic.AddInt32(&ambRuns[5], 1)
	atomic.StoreInt32(&ambSlowDone, 1)
}

func ambientProbe() []string {
	bad := []string{}
	old, err := os.Getwd()
	if err != nil {
		return bad
	}
	dir, err := os.MkdirTemp("", "vpamb")
	if err != nil {
		return bad
	}
	defer os.RemoveAll(dir)
	defer os.Chdir(old)
	oldHome, hadHome := os.LookupEnv("HOME")
	defer func() {
		if hadHome {
			os.Setenv("HOME", oldHome)
		} else {
			os.Unsetenv("HOME")
		}
		os.Unsetenv("VP_AMBIENT")
	}()
	os.Chdir(dir)
	deps := func() []interface{} {
		return []interface{}{ambPlain, mg.F(ambPath, "vpdist"), mg.F(ambFile, "./vpdist/out.bin"), mg.F(ambTwo, "vpdist", dir+"/vpdist"), mg.F(ambVar, "vpdist", "out.bin")}
	}
	steps := []string{}
	check := func(step string) {
		steps = append(steps, step)
		for i, name := range []string{"ambPlain", `mg.F(ambPath, "vpdist")`, `mg.F(ambFile, "./vpdist/out.bin")`, `mg.F(ambTwo, "vpdist", <abs>/vpdist)`, `mg.F(ambVar, "vpdist", "out.bin")`} {
			if got := atomic.LoadInt32(&ambRuns[i]); got != 1 {
				bad = append(bad, fmt.Sprintf("%s ran %d times after [%s] (requested once per step; must run exactly once)", name, got, strings.Join(steps, "; ")))
				atomic.StoreInt32(&ambRuns[i], 1)
			}
		}
	}
	mg.Deps(deps()...)
	check("Deps in an empty directory")
	os.Mkdir("vpdist", 0o755)
	os.WriteFile("vpdist/out.bin", []byte("x"), 0o644)
	mg.SerialDeps(deps()...)
	check("the paths the arguments name now exist; SerialDeps")
	os.Chdir("vpdist")
	mg.CtxDeps(context.Background(), deps()...)
	check("chdir vpdist; CtxDeps")
	os.Setenv("VP_AMBIENT", "1")
	os.Setenv("HOME", dir)
	mg.SerialCtxDeps(context.Background(), deps()...)
	check("HOME and another variable set; SerialCtxDeps")
	os.Chdir(dir)
	os.RemoveAll("vpdist")
	mg.Deps(deps()...)
	check("chdir back, the paths removed again; Deps")
	// in flight elsewhere while the directory changes: the serial call waits for it and does not run it again
	go mg.Deps(ambSlow)
	<-ambSlowStarted
	os.Chdir(old)
	mg.SerialDeps(ambSlow)
	if atomic.LoadInt32(&ambSlowDone) != 1 {
		bad = append(bad, "SerialDeps(ambSlow) returned while ambSlow, in flight in a parallel Deps since before a chdir, had not finished")
	}
	time.Sleep(400 * time.Millisecond)
	if got := atomic.LoadInt32(&ambRuns[5]); got != 1 {
		bad = append(bad, fmt.Sprintf("ambSlow, requested by a parallel Deps and (after a chdir) by SerialDeps, ran %d times", got))
	}
	return bad
}
