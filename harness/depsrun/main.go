// depsrun: runs ONE dependency program against the real mg package under a gate script and
// prints the totally ordered event trace (one JSON object per line) on stdout.
// Bodies are harness-owned; which interleaving happens is decided by the script (gate
// priorities), never what counts as correct.
package main

import (
	"bufio"
	"context"
	"encoding/json"
	"errors"
	"fmt"
	"os"
	"regexp"
	"sort"
	"strings"
	"sync"
	"sync/atomic"
	"time"

	"github.com/magefile/mage/mg"
)

type callSpec struct {
	Style   string `json:"style"` // par | ser
	Ctx     string `json:"ctx"`   // bg | fwd
	Deps    []int  `json:"deps"`
	Guarded bool   `json:"guarded"`
	Wrap    []bool `json:"wrap"` // per mention: name a plain function as mg.F(f) instead of f (the same dependency)
}

type resultSpec struct {
	T      string `json:"t"` // ok err fatal panicerr panicfatal panicval
	Code   int    `json:"code"`
	Silent bool   `json:"silent"` // the failure's message is the empty string
}

type nodeSpec struct {
	Kind   int           `json:"kind"`
	Slot   int           `json:"slot"`
	Args   []interface{} `json:"args"` // kind 6: [int,string]; 7: [bool, durationNs]; 8: [string]
	Calls  []callSpec    `json:"calls"`
	Result resultSpec    `json:"result"`
}

type rootSpec struct {
	Ctx   string     `json:"ctx"` // tag | bg
	Calls []callSpec `json:"calls"`
	// the director cancels this root's context after it has opened that many gates (0 = never):
	// a cancelled context must not make a Deps-family call return before its dependencies ended
	CancelAfter int `json:"cancel_after"`
}

type program struct {
	Nodes   []nodeSpec   `json:"nodes"`
	Roots   []rootSpec   `json:"roots"`
	Prio    []int        `json:"prio"`     // gate ids, highest priority first
	QuietUs int          `json:"quiet_us"` // quiescence window
	Free    bool         `json:"free"`     // no gates at all: let the Go scheduler decide
	Contend *contendSpec `json:"contend"`  // contention mode instead of a program (contend.go)
}

type event struct {
	Seq  int64    `json:"seq"`
	E    string   `json:"e"` // bs be ce cr cp
	K    int      `json:"k"`
	T    string   `json:"t,omitempty"`
	Pc   int      `json:"pc"`
	Ctx  string   `json:"ctx,omitempty"`
	R    string   `json:"r,omitempty"`
	Code int      `json:"code"`
	Toks []string `json:"toks,omitempty"`
}

var (
	prog     program
	logMu    sync.Mutex
	events   []event
	lastAct  int64 // unix nanos of last activity
	nodeOf   = map[string]int{}
	gateMu   sync.Mutex
	waiting  = map[int]chan struct{}{}
	gateBase []int // first gate id of node i; roots follow
	tokRx    = regexp.MustCompile(`E\d+`)
	pctMark  = " 100%z|%s Straße→世界\u2028"
)

type notConfigured struct{}

func (*notConfigured) Error() string { return "" }

var errNotConfigured *notConfigured

type tagKey struct{}

// a non-nil error whose ExitStatus() is 0 (e.g. a wrapper around a tool that printed errors but exited 0)
type zeroStatusErr string

func (e zeroStatusErr) Error() string   { return string(e) }
func (e zeroStatusErr) ExitStatus() int { return 0 }

var (
	cancelMu sync.Mutex
	cancels  = map[int][]context.CancelFunc{}
	opened   int
)

func touch() { atomic.StoreInt64(&lastAct, time.Now().UnixNano()) }

func logEv(e event) {
	logMu.Lock()
	e.Seq = int64(len(events))
	events = append(events, e)
	logMu.Unlock()
	touch()
}

func gate(id int) {
	if prog.Free {
		return
	}
	ch := make(chan struct{})
	gateMu.Lock()
	waiting[id] = ch
	gateMu.Unlock()
	touch()
	<-ch
	touch()
}

func ctxName(ctx context.Context) string {
	if ctx == nil {
		return "none"
	}
	if v := ctx.Value(tagKey{}); v != nil {
		return fmt.Sprintf("tag%d", v.(int))
	}
	return "bg"
}

func keyOf(kind, slot int, args []interface{}) string {
	return fmt.Sprintf("%d/%d/%v", kind, slot, args)
}

func depValue(n int, wrap bool) interface{} {
	nd := prog.Nodes[n]
	f := pool[nd.Kind][nd.Slot]
	if wrap && nd.Kind < 6 {
		return mg.F(f)
	}
	switch nd.Kind {
	case 6:
		return mg.F(f, int(nd.Args[0].(float64)), nd.Args[1].(string))
	case 7:
		return mg.F(f, nd.Args[0].(bool), time.Duration(int64(nd.Args[1].(float64))))
	case 8:
		return mg.F(f, nd.Args[0].(string))
	}
	return f
}

func classify(v interface{}) (string, int, []string) {
	// v is a recovered panic value or a returned error
	code := 1
	if err, ok := v.(error); ok {
		code = mg.ExitStatus(err)
	}
	text := fmt.Sprint(v)
	toks := tokRx.FindAllString(text, -1)
	if strings.Count(text, pctMark) != len(toks) || strings.Contains(text, "MISSING") || strings.Contains(text, "%!") {
		// every failing leaf writes its token followed by one marker containing a per cent sign; a
		// message that went through a format string on its way up no longer carries them verbatim
		toks = append(toks, "E999999")
	}
	sort.Strings(toks)
	return "", code, toks
}

// runCalls performs the calls of a body or root; returns a non-nil panic value if an
// unguarded call failed (the caller must re-panic with it).
func runCalls(tname string, gbase int, calls []callSpec, ctx context.Context) (pv interface{}, panicked bool) {
	for pc, c := range calls {
		gate(gbase + pc)
		deps := make([]interface{}, len(c.Deps))
		for i, d := range c.Deps {
			deps[i] = depValue(d, i < len(c.Wrap) && c.Wrap[i])
		}
		cctx := ctx
		if cctx == nil {
			cctx = context.Background()
		}
		logEv(event{E: "ce", T: tname, Pc: pc})
		var v interface{}
		failed := false
		func() {
			defer func() {
				if r := recover(); r != nil {
					v = r
					failed = true
				}
			}()
			switch {
			case c.Style == "par" && c.Ctx == "fwd":
				mg.CtxDeps(cctx, deps...)
			case c.Style == "par":
				mg.Deps(deps...)
			case c.Style == "ser" && c.Ctx == "fwd":
				mg.SerialCtxDeps(cctx, deps...)
			default:
				mg.SerialDeps(deps...)
			}
		}()
		if failed {
			_, code, toks := classify(v)
			logEv(event{E: "cp", T: tname, Pc: pc, Code: code, Toks: toks})
			if !c.Guarded {
				return v, true
			}
		} else {
			logEv(event{E: "cr", T: tname, Pc: pc})
		}
	}
	return nil, false
}

func body(kind, slot int, ctx context.Context, args []interface{}) error {
	var jargs []interface{}
	for _, a := range args {
		switch x := a.(type) {
		case int:
			jargs = append(jargs, float64(x))
		case time.Duration:
			jargs = append(jargs, float64(int64(x)))
		default:
			jargs = append(jargs, a)
		}
	}
	n, ok := nodeOf[keyOf(kind, slot, jargs)]
	if !ok {
		fmt.Fprintf(os.Stderr, "HARNESS: unknown node for %s\n", keyOf(kind, slot, jargs))
		os.Exit(3)
	}
	nd := prog.Nodes[n]
	logEv(event{E: "bs", K: n, Ctx: ctxName(ctx)})
	pv, panicked := runCalls(fmt.Sprintf("k%d", n), gateBase[n], nd.Calls, ctx)
	if panicked {
		_, code, toks := classify(pv)
		logEv(event{E: "be", K: n, R: "panic", Code: code, Toks: toks})
		panic(pv)
	}
	gate(gateBase[n] + len(nd.Calls))
	tok := fmt.Sprintf("E%d", n)
	if nd.Result.Silent {
		switch nd.Result.T {
		case "err":
			logEv(event{E: "be", K: n, R: "err", Code: 1})
			return errors.New("")
		case "fatal":
			logEv(event{E: "be", K: n, R: "err", Code: nd.Result.Code})
			return mg.Fatal(nd.Result.Code)
		case "panicerr":
			logEv(event{E: "be", K: n, R: "panic", Code: 1})
			panic(errors.New(""))
		case "panicfatal":
			logEv(event{E: "be", K: n, R: "panic", Code: nd.Result.Code})
			panic(mg.Fatal(nd.Result.Code))
		case "panicval":
			logEv(event{E: "be", K: n, R: "panic", Code: 1})
			panic("")
		}
	}
	switch nd.Result.T {
	case "ok":
		logEv(event{E: "be", K: n, R: "nil"})
		return nil
	case "err":
		logEv(event{E: "be", K: n, R: "err", Code: 1, Toks: []string{tok}})
		if kind == 0 || kind == 2 || kind == 4 || kind == 7 {
			panic("harness: kind without error result cannot return an error")
		}
		return errors.New("failed " + tok + pctMark)
	case "errwrap":
		logEv(event{E: "be", K: n, R: "err", Code: 1, Toks: []string{tok}})
		return fmt.Errorf("step failed: %w", mg.Fatal(nd.Result.Code, "wrapped "+tok+pctMark))
	case "errnilptr":
		logEv(event{E: "be", K: n, R: "err", Code: 1})
		return errNotConfigured // a non-nil error interface holding a nil pointer (a sentinel with nil-safe methods)
	case "errzero":
		logEv(event{E: "be", K: n, R: "err", Code: 0, Toks: []string{tok}})
		return zeroStatusErr("tool reported " + tok + pctMark)
	case "fatal":
		logEv(event{E: "be", K: n, R: "err", Code: nd.Result.Code, Toks: []string{tok}})
		return mg.Fatal(nd.Result.Code, "fatal "+tok+pctMark)
	case "panicerr":
		logEv(event{E: "be", K: n, R: "panic", Code: 1, Toks: []string{tok}})
		panic(errors.New("panicked " + tok + pctMark))
	case "panicfatal":
		logEv(event{E: "be", K: n, R: "panic", Code: nd.Result.Code, Toks: []string{tok}})
		panic(mg.Fatal(nd.Result.Code, "panicked fatally "+tok+pctMark))
	case "panicval":
		logEv(event{E: "be", K: n, R: "panic", Code: 1, Toks: []string{tok}})
		panic("panicked with a string " + tok + pctMark)
	}
	panic("harness: bad result spec")
}

func main() {
	dec := json.NewDecoder(bufio.NewReader(os.Stdin))
	if err := dec.Decode(&prog); err != nil {
		fmt.Fprintln(os.Stderr, "HARNESS: bad program:", err)
		os.Exit(3)
	}
	if prog.Contend != nil {
		contend(*prog.Contend)
		return
	}
	if prog.QuietUs == 0 {
		prog.QuietUs = 300
	}
	g := 0
	for i, nd := range prog.Nodes {
		nodeOf[keyOf(nd.Kind, nd.Slot, nd.Args)] = i
		gateBase = append(gateBase, g)
		g += len(nd.Calls) + 1
	}
	rootBase := []int{}
	for _, r := range prog.Roots {
		rootBase = append(rootBase, g)
		g += len(r.Calls) + 1
	}
	prio := map[int]int{}
	for i, id := range prog.Prio {
		prio[id] = i
	}
	var wg sync.WaitGroup
	done := make(chan struct{})
	for i, r := range prog.Roots {
		wg.Add(1)
		go func(i int, r rootSpec) {
			defer wg.Done()
			var ctx context.Context = context.Background()
			if r.Ctx == "tag" {
				c, cancel := context.WithCancel(context.WithValue(context.Background(), tagKey{}, i))
				defer cancel()
				ctx = c
				if r.CancelAfter > 0 {
					cancelMu.Lock()
					cancels[r.CancelAfter] = append(cancels[r.CancelAfter], cancel)
					cancelMu.Unlock()
				}
			}
			runCalls(fmt.Sprintf("r%d", i), rootBase[i], r.Calls, ctx)
			gate(rootBase[i] + len(r.Calls))
		}(i, r)
	}
	go func() { wg.Wait(); close(done) }()
	quiet := time.Duration(prog.QuietUs) * time.Microsecond
	deadline := time.Now().Add(20 * time.Second)
loop:
	for {
		select {
		case <-done:
			break loop
		default:
		}
		if time.Now().After(deadline) {
			fmt.Fprintln(os.Stderr, "HARNESS: timeout (deadlock?)")
			dump()
			os.Exit(4)
		}
		if time.Since(time.Unix(0, atomic.LoadInt64(&lastAct))) < quiet {
			time.Sleep(quiet / 4)
			continue
		}
		// quiescent: open the waiting gate of highest priority
		gateMu.Lock()
		best, bestP := -1, 1<<30
		for id := range waiting {
			p, ok := prio[id]
			if !ok {
				p = 1<<20 + id
			}
			if p < bestP {
				best, bestP = id, p
			}
		}
		var ch chan struct{}
		if best >= 0 {
			ch = waiting[best]
			delete(waiting, best)
		}
		gateMu.Unlock()
		if ch != nil {
			touch()
			close(ch)
			opened++
			cancelMu.Lock()
			for _, cancel := range cancels[opened] {
				cancel()
			}
			cancelMu.Unlock()
		} else {
			time.Sleep(quiet / 4)
		}
	}
	dump()
}

func dump() {
	out := bufio.NewWriter(os.Stdout)
	enc := json.NewEncoder(out)
	logMu.Lock()
	for _, e := range events {
		enc.Encode(e)
	}
	logMu.Unlock()
	out.Flush()
}
