// Package v2 lives in a directory whose name contains a dot (like gopkg.in/foo.v2).
package v2

import "sync/atomic"

var Runs [2]int32

func Build()                  { atomic.AddInt32(&Runs[0], 1) }
func Deploy(env string) error { atomic.AddInt32(&Runs[1], 1); return nil }
