// Package tasks has a namespace type V2 whose methods are named like the plain functions of the
// sibling package with the dotted directory name tasks.V2: the runtime keeps the two apart by
// escaping the dot of the import path ("tasks%2eV2.Build" vs "tasks.V2.Build").
package tasks

import (
	"sync/atomic"

	"github.com/magefile/mage/mg"
)

type V2 mg.Namespace

var Runs [2]int32

func (V2) Build()                  { atomic.AddInt32(&Runs[0], 1) }
func (V2) Deploy(env string) error { atomic.AddInt32(&Runs[1], 1); return nil }
