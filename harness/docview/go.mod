module verif.test/docview

go 1.12
