// Command docview prints what go/doc makes of a directory of Go files, the way mage's parse
// package asks for it (parser.ParseDir with ParseComments, doc.New(pkg, "./", 0)), without using
// any mage code.  One JSON request per input line: {"dir": "...", "files": ["a.go", ...]};
// one JSON answer per line.
package main

import (
	"bufio"
	"encoding/json"
	"fmt"
	"go/ast"
	"go/doc"
	"go/parser"
	"go/token"
	"os"
	"strconv"
	"strings"
	"unicode"
)

type req struct {
	Dir    string   `json:"dir"`
	Files  []string `json:"files"`
	Names  []string `json:"names"`  // instead of a directory: what Go's unicode tables say about these strings
	Idents string   `json:"idents"` // instead of a directory: a Go file; every identifier it DECLARES is reported
}

// declared is one identifier declared by a file: at package level, as the local name of an import, or
// anywhere inside a function body (variables, constants, types, closures' parameters, range variables).
type declared struct {
	Name  string `json:"name"`
	Where string `json:"where"` // package | import | local
}

func declaredIdents(path string) ([]declared, error) {
	fset := token.NewFileSet()
	f, err := parser.ParseFile(fset, path, nil, 0)
	if err != nil {
		return nil, err
	}
	seen := map[declared]bool{}
	var out []declared
	add := func(n, where string) {
		d := declared{n, where}
		if n != "" && n != "_" && !seen[d] {
			seen[d] = true
			out = append(out, d)
		}
	}
	for _, imp := range f.Imports {
		if imp.Name != nil {
			add(imp.Name.Name, "import")
		} else if p, err := strconv.Unquote(imp.Path.Value); err == nil {
			add(p[strings.LastIndex(p, "/")+1:], "import")
		}
	}
	depth := 0
	var fields func(fl *ast.FieldList)
	fields = func(fl *ast.FieldList) {
		if fl == nil {
			return
		}
		for _, fd := range fl.List {
			for _, n := range fd.Names {
				add(n.Name, "local")
			}
		}
	}
	where := func() string {
		if depth > 0 {
			return "local"
		}
		return "package"
	}
	var walk func(n ast.Node)
	walk = func(n ast.Node) {
		ast.Inspect(n, func(n ast.Node) bool {
			switch x := n.(type) {
			case *ast.FuncDecl:
				add(x.Name.Name, "package")
				fields(x.Recv)
				fields(x.Type.Params)
				fields(x.Type.Results)
				if x.Body != nil {
					depth++
					walk(x.Body)
					depth--
				}
				return false
			case *ast.FuncLit:
				fields(x.Type.Params)
				fields(x.Type.Results)
			case *ast.GenDecl:
				for _, sp := range x.Specs {
					switch s := sp.(type) {
					case *ast.ValueSpec:
						for _, n := range s.Names {
							add(n.Name, where())
						}
					case *ast.TypeSpec:
						add(s.Name.Name, where())
					}
				}
			case *ast.AssignStmt:
				if x.Tok == token.DEFINE {
					for _, l := range x.Lhs {
						if id, ok := l.(*ast.Ident); ok {
							add(id.Name, "local")
						}
					}
				}
			case *ast.RangeStmt:
				if x.Tok == token.DEFINE {
					for _, l := range []ast.Expr{x.Key, x.Value} {
						if id, ok := l.(*ast.Ident); ok {
							add(id.Name, "local")
						}
					}
				}
			case *ast.LabeledStmt:
				add(x.Label.Name, "local")
			}
			return true
		})
	}
	walk(f)
	return out, nil
}

// nameInfo is Go's own answer about a string used as (part of) an identifier or command-line word.
type nameInfo struct {
	Name     string `json:"name"`
	Exported bool   `json:"exported"` // token.IsExported: the first rune is unicode.IsUpper
	Lower    string `json:"lower"`    // strings.ToLower
	// Safe: every non-ASCII rune is neither upper nor title case, is its own lower case and folds with
	// no ASCII rune - on such strings ASCII lower-casing / ASCII upper tests agree with Go's
	Safe bool `json:"safe"`
}

func info(n string) nameInfo {
	safe := true
	for _, r := range n {
		if r < 128 {
			continue
		}
		if r == unicode.ReplacementChar || unicode.IsUpper(r) || unicode.IsTitle(r) || unicode.ToLower(r) != r {
			safe = false
		}
		for f := unicode.SimpleFold(r); f != r; f = unicode.SimpleFold(f) {
			if f < 128 {
				safe = false
			}
		}
	}
	return nameInfo{Name: n, Exported: token.IsExported(n), Lower: strings.ToLower(n), Safe: safe}
}

type fn struct {
	Name string `json:"name"`
	Recv string `json:"recv"`
	Doc  string `json:"doc"`
	Syn  string `json:"syn"`
}

type typ struct {
	Name    string `json:"name"`
	Methods []fn   `json:"methods"`
	Funcs   []fn   `json:"funcs"`
	NVars   int    `json:"nvars"`
}

type spec struct {
	Names   []string `json:"names"`
	NValues int      `json:"nvalues"`
}

type val struct {
	Names []string `json:"names"`
	Specs []spec   `json:"specs"`
}

type answer struct {
	Idents []declared `json:"idents,omitempty"`
	Names  []nameInfo `json:"names,omitempty"`
	Err    string     `json:"err,omitempty"`
	PkgDoc string     `json:"pkgdoc"`
	Funcs  []fn       `json:"funcs"`
	Types  []typ      `json:"types"`
	Vars   []val      `json:"vars"`
}

func fns(l []*doc.Func) []fn {
	out := []fn{}
	for _, f := range l {
		out = append(out, fn{Name: f.Name, Recv: f.Recv, Doc: f.Doc, Syn: doc.Synopsis(f.Doc)})
	}
	return out
}

func view(r req) (a answer) {
	defer func() {
		if e := recover(); e != nil {
			a = answer{Err: fmt.Sprint("panic: ", e)}
		}
	}()
	fm := map[string]bool{}
	for _, f := range r.Files {
		fm[f] = true
	}
	fset := token.NewFileSet()
	pkgs, err := parser.ParseDir(fset, r.Dir, func(fi os.FileInfo) bool { return fm[fi.Name()] }, parser.ParseComments)
	if err != nil {
		return answer{Err: err.Error()}
	}
	if len(pkgs) != 1 {
		return answer{Err: fmt.Sprintf("%d packages", len(pkgs))}
	}
	var pkg *ast.Package
	for _, pkg = range pkgs {
	}
	p := doc.New(pkg, "./", 0)
	a.PkgDoc = p.Doc
	a.Funcs = fns(p.Funcs)
	a.Types = []typ{}
	for _, t := range p.Types {
		a.Types = append(a.Types, typ{Name: t.Name, Methods: fns(t.Methods), Funcs: fns(t.Funcs), NVars: len(t.Vars)})
	}
	a.Vars = []val{}
	for _, v := range p.Vars {
		x := val{Names: v.Names, Specs: []spec{}}
		for _, s := range v.Decl.Specs {
			vs := s.(*ast.ValueSpec)
			sp := spec{Names: []string{}, NValues: len(vs.Values)}
			for _, n := range vs.Names {
				sp.Names = append(sp.Names, n.Name)
			}
			x.Specs = append(x.Specs, sp)
		}
		a.Vars = append(a.Vars, x)
	}
	return a
}

func main() {
	in := bufio.NewScanner(os.Stdin)
	in.Buffer(make([]byte, 1<<20), 1<<26)
	out := bufio.NewWriter(os.Stdout)
	defer out.Flush()
	enc := json.NewEncoder(out)
	for in.Scan() {
		var r req
		if err := json.Unmarshal(in.Bytes(), &r); err != nil {
			enc.Encode(answer{Err: "bad request: " + err.Error()})
			continue
		}
		if r.Idents != "" {
			ids, err := declaredIdents(r.Idents)
			a := answer{Idents: ids}
			if err != nil {
				a.Err = err.Error()
			}
			enc.Encode(a)
			continue
		}
		if r.Names != nil {
			a := answer{}
			for _, n := range r.Names {
				a.Names = append(a.Names, info(n))
			}
			enc.Encode(a)
			continue
		}
		enc.Encode(view(r))
	}
}
