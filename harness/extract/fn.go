// Mode `fn` of the translator: a first-order subset of Go -> Gallina (tools/notes/Translator.md).
//
//	extract fn  <file.go> <Name[,Name...]> <prefix>   Name is Func or Recv.Method; prints the Records the
//	                                                  functions need (only the fields they read, plus those
//	                                                  asked for by a Name of the form +Type.Field), a zero
//	                                                  value and a builder <prefix>T_mk : list string -> T per
//	                                                  Record, and one Definition <prefix><Func> /
//	                                                  <prefix><Recv>_<Method> per function (callees in the same
//	                                                  file first).
//	extract src <file.go> <Name>                      the Go text of that function (for replay files)
//
// Whatever is outside the subset ends the program with status 3 and a message; nothing is guessed.
package main

import (
	"bytes"
	"fmt"
	"go/ast"
	"go/parser"
	"go/printer"
	"go/token"
	"os"
	"sort"
	"strconv"
	"strings"
)

// ---------------------------------------------------------------- types
type typ struct {
	kind  string // "string" "int" "bool" "list" "struct" "map" (string keys) "error" "tuple" (results only)
	elem  *typ   // list, map (value type)
	name  string // struct
	elems []*typ // tuple
}

var (
	tString = &typ{kind: "string"}
	tInt    = &typ{kind: "int"}
	tBool   = &typ{kind: "bool"}
	tError  = &typ{kind: "error"}
)

func tMap(e *typ) *typ { return &typ{kind: "map", elem: e} }

func tList(e *typ) *typ { return &typ{kind: "list", elem: e} }

func (t *typ) eq(u *typ) bool {
	if t.kind != u.kind {
		return false
	}
	switch t.kind {
	case "list", "map":
		return t.elem.eq(u.elem)
	case "struct":
		return t.name == u.name
	case "tuple":
		if len(t.elems) != len(u.elems) {
			return false
		}
		for i := range t.elems {
			if !t.elems[i].eq(u.elems[i]) {
				return false
			}
		}
	}
	return true
}

func (t *typ) String() string {
	switch t.kind {
	case "list":
		return "[]" + t.elem.String()
	case "map":
		return "map[string]" + t.elem.String()
	case "struct":
		return t.name
	case "tuple":
		var s []string
		for _, e := range t.elems {
			s = append(s, e.String())
		}
		return "(" + strings.Join(s, ", ") + ")"
	}
	return t.kind
}

type tr struct {
	updated   map[string]bool   // structs some field of which is assigned or that are built by a literal: setters are emitted
	constMaps map[string]string // package-level map[string]string variables with a literal value: name -> Coq term
	tmp       int               // counter of temporaries
	fset      *token.FileSet
	file      *ast.File
	prefix    string
	imports   map[string]string          // local package name -> import path
	structs   map[string]*ast.StructType // declared struct types
	named     map[string]ast.Expr        // other declared named types (type Functions []*Function)
	funcs     map[string]*ast.FuncDecl   // "F" or "Recv.M"
	used      map[string]map[string]bool // struct -> fields read
	usedAny   []string                   // structs mentioned, in order of first mention
	done      map[string]string          // function key -> Definition text
	order     []string                   // keys in emission order
	busy      map[string]bool

	implicit map[string]map[string]string // function key -> implicit parameter name -> its Coq type
	forced   map[string][]string          // function key -> ambient values that are parameters even when not read
	consts   map[string]string            // package-level constants of the file with a literal value: name -> Coq term
	constTy  map[string]*typ
	foreign  map[string]bool      // structs of other packages declared on the command line (pkg_T)
	dyn      map[string]bool      // function key -> its `error` values are classes of dynamic types (Name!dyn)
	globals  map[string]bool      // package-level string variables named on the command line ($name): parameters
	opaque   map[string]*opaqueFn // functions named on the command line (?name): parameters of function type

	// per function
	key       string
	sites     map[token.Pos]int // map-range loops of the function, numbered in order of first translation
	params    map[string]bool   // parameters (a map parameter is never written: the caller would see it)
	namedRes  []string          // named results
	env       map[string]*typ
	ren       map[string]string // Go name -> Coq name of the declaration in scope
	declCount map[string]int    // how often a name has been declared in this function
	result    *typ
	loops     []loopCtx         // innermost last
	idxAlias  map[string]string // "xs[i]" -> element variable, inside a rewritten index loop
	idxVar    map[string]bool   // index variables of rewritten index loops (no other use allowed)
}

// a loop being translated: what one round yields when it ends normally (`continue` or falling off the body),
// and, when the body contains a `return`, how a returned value is packed into the round's result
type loopCtx struct {
	end    string   // value of a round that ends normally
	state  []string // Coq names of the state components after the optional return slot
	hasRet bool     // the state starts with a slot `ret : option R`
}

func (t *tr) coqType(ty *typ) string {
	switch ty.kind {
	case "string":
		return "string"
	case "int":
		return "Z"
	case "bool":
		return "bool"
	case "list":
		return "(list " + t.coqType(ty.elem) + ")"
	case "map":
		return "(gomap " + t.coqType(ty.elem) + ")"
	case "error":
		return "(option string)"
	case "dynerr":
		return "dynerr"
	case "exitStatuser": // a value asserted to interface{ ExitStatus() int }: stands for its ExitStatus()
		return "Z"
	case "exitError": // a *exec.ExitError: (Exited(), Sys())
		return "(bool * option Z)%type"
	case "ast.FuncType", "ast.FieldList", "ast.Field", "ast.Expr", "ast.SelectorExpr", "ast.Ident",
		"ast.CommentGroup", "ast.Comment", "ast.BasicLit", "ast.ImportSpec":
		return astCoq[ty.kind]
	case "sysval": // what (*exec.ExitError).Sys() returns: Some c when it has ExitStatus() int = c
		return "(option Z)"
	case "digest":
		return "string" // a hash value, as its %x rendering (the only use the subset allows)
	case "tuple":
		var s []string
		for _, e := range ty.elems {
			s = append(s, t.coqType(e))
		}
		return "(" + strings.Join(s, " * ") + ")%type"
	case "struct":
		return t.prefix + ty.name
	}
	die("internal: type %v", ty)
	return ""
}

// go/ast types -> Base/GoLib.v (pointers to them are read like the values; a *ast.FieldList may be nil)
var astCoq = map[string]string{"ast.FuncType": "ast_functype", "ast.FieldList": "ast_fieldlist", "ast.Field": "ast_field",
	"ast.Expr": "ast_expr", "ast.SelectorExpr": "(ast_expr * string)%type", "ast.Ident": "string",
	"ast.CommentGroup": "ast_commentgroup", "ast.Comment": "string", "ast.BasicLit": "string", "ast.ImportSpec": "ast_importspec"}

// field of a go/ast value -> (Coq projection, type of the field)
var astFields = map[string]struct {
	proj string
	ty   *typ
}{
	"ast.FuncType.Params":     {"ft_params", &typ{kind: "ast.FieldList"}},
	"ast.FuncType.Results":    {"ft_results", &typ{kind: "ast.FieldList"}},
	"ast.FuncType.TypeParams": {"ft_typeparams", &typ{kind: "ast.FieldList"}},
	"ast.FieldList.List":      {"fieldlist_List", tList(&typ{kind: "ast.Field"})},
	"ast.Field.Names":         {"fld_names", tList(&typ{kind: "ast.Ident"})},
	"ast.Field.Type":          {"fld_type", &typ{kind: "ast.Expr"}},
	"ast.SelectorExpr.X":      {"fst", &typ{kind: "ast.Expr"}},
	"ast.SelectorExpr.Sel":    {"snd", &typ{kind: "ast.Ident"}},
	"ast.Ident.Name":          {"", tString},
	"ast.CommentGroup.List":   {"commentgroup_List", tList(&typ{kind: "ast.Comment"})},
	"ast.Comment.Text":        {"", tString},
	"ast.BasicLit.Value":      {"", tString},
	"ast.ImportSpec.Doc":      {"imp_doc", &typ{kind: "ast.CommentGroup"}},
	"ast.ImportSpec.Comment":  {"imp_comment", &typ{kind: "ast.CommentGroup"}},
	"ast.ImportSpec.Path":     {"imp_path", &typ{kind: "ast.BasicLit"}},
}

func (t *tr) mention(s string) {
	for _, n := range t.usedAny {
		if n == s {
			return
		}
	}
	t.usedAny = append(t.usedAny, s)
	if t.used[s] == nil {
		t.used[s] = map[string]bool{}
	}
}

// the Go type expression -> typ; pointers to structs are read like the struct itself (the subset has
// no assignment through a selector, an index or a pointer, so nothing can be written through them)
func (t *tr) typeOf(e ast.Expr) *typ {
	switch v := e.(type) {
	case *ast.Ident:
		switch v.Name {
		case "string":
			return tString
		case "int":
			return tInt
		case "bool":
			return tBool
		case "error":
			if t.dyn[t.key] {
				return &typ{kind: "dynerr"}
			}
			return tError
		}
		if _, ok := t.structs[v.Name]; ok {
			t.mention(v.Name)
			return &typ{kind: "struct", name: v.Name}
		}
		if u, ok := t.named[v.Name]; ok {
			switch u.(type) {
			case *ast.ArrayType, *ast.MapType:
				return t.typeOf(u)
			}
		}
	case *ast.SelectorExpr: // a struct of another package whose (string) fields were named on the command line: %pkg.T=F1:F2
		if pk, ok := v.X.(*ast.Ident); ok {
			if t.imports[pk.Name] == "go/ast" { // the part of go/ast that Base/GoLib.v models
				if _, ok := astCoq["ast."+v.Sel.Name]; ok {
					return &typ{kind: "ast." + v.Sel.Name}
				}
			}
			name := pk.Name + "_" + v.Sel.Name
			if _, ok := t.structs[name]; ok && t.foreign[name] {
				t.mention(name)
				return &typ{kind: "struct", name: name}
			}
		}
	case *ast.StarExpr:
		u := t.typeOf(v.X)
		if u.kind == "struct" || (strings.HasPrefix(u.kind, "ast.") && u.kind != "ast.Expr") {
			return u
		}
	case *ast.ArrayType:
		if v.Len == nil {
			return tList(t.typeOf(v.Elt))
		}
	case *ast.MapType:
		if k := t.typeOf(v.Key); k.kind == "string" {
			return tMap(t.typeOf(v.Value))
		}
	case *ast.ParenExpr:
		return t.typeOf(v.X)
	}
	die("unsupported type %s", t.text(e))
	return nil
}

func (t *tr) text(n interface{}) string {
	var b bytes.Buffer
	printer.Fprint(&b, t.fset, n)
	return b.String()
}

func (t *tr) zero(ty *typ) string {
	switch ty.kind {
	case "string":
		return `""`
	case "int":
		return "0%Z"
	case "bool":
		return "false"
	case "list":
		return "(@nil " + t.coqType(ty.elem) + ")"
	case "map":
		return "(@nil (string * " + t.coqType(ty.elem) + "))"
	case "error":
		return "(@None string)"
	case "ast.Field":
		return "ast_field_zero"
	case "ast.Expr":
		return `(AOther "")`
	case "ast.Ident", "ast.Comment", "ast.BasicLit":
		return `""`
	case "ast.CommentGroup":
		return "(@None (list string))"
	case "ast.SelectorExpr":
		return `(AOther "", "")`
	case "ast.FieldList":
		return "(@None (list ast_field))"
	case "struct":
		return t.prefix + ty.name + "_zero"
	}
	die("internal: zero of %v", ty)
	return ""
}

func coqString(s string) string {
	plain := true
	for i := 0; i < len(s); i++ {
		if s[i] < 32 || s[i] >= 127 {
			plain = false
		}
	}
	if plain {
		return `"` + strings.Replace(s, `"`, `""`, -1) + `"`
	}
	var n []string
	for i := 0; i < len(s); i++ {
		n = append(n, strconv.Itoa(int(s[i])))
	}
	return "(bs [" + strings.Join(n, ";") + "])"
}

// the Coq name of a Go variable: v_<name>, with a numeric suffix for the second, third ... declaration of the
// same name in one function (Go scopes by block, the translation by `let`: distinct Coq names keep them apart)
func (t *tr) v(name string) string {
	if c, ok := t.ren[name]; ok {
		return c
	}
	return "v_" + name
}

func (t *tr) declare(name string, ty *typ) {
	env := make(map[string]*typ, len(t.env)+1)
	for k, x := range t.env {
		env[k] = x
	}
	ren := make(map[string]string, len(t.ren)+1)
	for k, x := range t.ren {
		ren[k] = x
	}
	t.declCount[name]++
	ren[name] = "v_" + name
	if n := t.declCount[name]; n > 1 {
		ren[name] = fmt.Sprintf("v_%s_%d", name, n)
	}
	env[name] = ty
	t.env, t.ren = env, ren
}

// the variables in scope (maps are never updated in place: a snapshot is the pair of references)
type scope struct {
	env map[string]*typ
	ren map[string]string
}

func (t *tr) snapshot() scope { return scope{t.env, t.ren} }
func (t *tr) restore(s scope) { t.env, t.ren = s.env, s.ren }

// k run in the scope s: what follows a block does not see the block's declarations
func (t *tr) inScope(s scope, k func() string) func() string {
	return func() string {
		t.restore(s)
		return k()
	}
}

// ---------------------------------------------------------------- expressions
// exprWant translates e where a value of type want is expected: this is where an untyped nil gets its type
// (nil error = None; a nil slice or map reads like an empty one, and comparisons with nil are refused for them)
func (t *tr) exprWant(e ast.Expr, want *typ) (string, *typ) {
	if id, ok := e.(*ast.Ident); ok && id.Name == "nil" {
		if _, shadow := t.env["nil"]; !shadow && want != nil {
			switch want.kind {
			case "error", "list", "map", "struct": // (a nil *T next to an error: the zero T; it is never looked at)
				return t.zero(want), want
			}
		}
	}
	return t.expr(e)
}

func isNil(e ast.Expr) bool {
	id, ok := e.(*ast.Ident)
	return ok && id.Name == "nil"
}

// values of the process that a function reads become parameters of its translation
var ambient = map[string]*typ{"runtime.GOOS": tString, "runtime.GOARCH": tString}

// a function that is not translated but taken as a parameter (it does I/O, or lives in another package)
type opaqueFn struct {
	params   []*typ
	result   *typ
	variadic bool // the last parameter is ...T: the remaining arguments are passed as a list
}

// Name!os_Environ!runtime_GOOS on the command line keeps these as parameters of Name even if it stops reading them
// (the statement about the function then still type-checks and says that it does not depend on them)
var forcedTypes = map[string]string{"os_Environ": "(list string)", "runtime_GOOS": "string", "runtime_GOARCH": "string"}

func (t *tr) addImplicit(name, coqType string) string {
	if t.implicit[t.key] == nil {
		t.implicit[t.key] = map[string]string{}
	}
	t.implicit[t.key][name] = coqType
	return name
}

func (t *tr) implicitNames(key string) []string {
	var out []string
	for n := range t.implicit[key] {
		out = append(out, n)
	}
	sort.Strings(out)
	return out
}

func (t *tr) expr(e ast.Expr) (string, *typ) {
	switch x := e.(type) {
	case *ast.Ident:
		switch x.Name {
		case "true", "false":
			if _, shadow := t.env[x.Name]; !shadow {
				return x.Name, tBool
			}
		case "_":
			die("blank identifier used as a value")
		}
		if t.idxVar[x.Name] {
			die("index variable %s of a rewritten index loop is used outside %s", x.Name, "xs["+x.Name+"]")
		}
		ty, ok := t.env[x.Name]
		if !ok {
			if c, isConst := t.consts[x.Name]; isConst {
				return c, t.constTy[x.Name]
			}
			if t.globals[x.Name] {
				return t.addImplicit("pkg_"+x.Name, "string"), tString
			}
			if c, ok := t.constMaps[x.Name]; ok { // a package-level map literal, never written in the subset
				return c, tMap(tString)
			}
			die("unsupported identifier %s (not a parameter, local variable or literal constant of the file)", x.Name)
		}
		return t.v(x.Name), ty
	case *ast.BasicLit:
		switch x.Kind {
		case token.INT:
			n, err := strconv.ParseInt(x.Value, 0, 64)
			if err != nil {
				die("unsupported integer literal %s", x.Value)
			}
			return fmt.Sprintf("(%d)%%Z", n), tInt
		case token.STRING:
			s, err := strconv.Unquote(x.Value)
			if err != nil {
				die("unsupported string literal %s", x.Value)
			}
			return coqString(s), tString
		}
		die("unsupported literal %s", x.Value)
	case *ast.ParenExpr:
		return t.expr(x.X)
	case *ast.UnaryExpr:
		c, ty := t.expr(x.X)
		switch {
		case x.Op == token.NOT && ty.kind == "bool":
			return "(negb " + c + ")", tBool
		case x.Op == token.SUB && ty.kind == "int":
			return "(Z.opp " + c + ")", tInt
		case x.Op == token.AND && ty.kind == "struct":
			return c, ty // &x of a struct value, read-only
		}
		die("unsupported unary expression %s", t.text(e))
	case *ast.StarExpr:
		c, ty := t.expr(x.X)
		if ty.kind == "struct" {
			return c, ty
		}
		die("unsupported dereference %s", t.text(e))
	case *ast.BinaryExpr:
		return t.binary(x)
	case *ast.SelectorExpr:
		if pk, ok := x.X.(*ast.Ident); ok {
			if _, shadow := t.env[pk.Name]; !shadow {
				if path, ok := t.imports[pk.Name]; ok {
					if ty, ok := ambient[path+"."+x.Sel.Name]; ok {
						return t.addImplicit(path+"_"+x.Sel.Name, t.coqType(ty)), ty
					}
					die("unsupported package member %s.%s", path, x.Sel.Name)
				}
			}
		}
		c, ty := t.expr(x.X)
		if f, ok := astFields[ty.kind+"."+x.Sel.Name]; ok {
			if f.proj == "" {
				return c, f.ty
			}
			return "(" + f.proj + " " + c + ")", f.ty
		}
		if ty.kind != "struct" {
			die("unsupported selector %s", t.text(e))
		}
		ft := t.fieldType(ty.name, x.Sel.Name)
		t.used[ty.name][x.Sel.Name] = true
		return "(" + t.prefix + ty.name + "_" + x.Sel.Name + " " + c + ")", ft
	case *ast.IndexExpr:
		if a, ok := t.idxAlias[t.text(e)]; ok {
			xi, _ := x.X.(*ast.Ident)
			return a, t.env[xi.Name].elem
		}
		c, ty := t.expr(x.X)
		i, ity := t.expr(x.Index)
		if ty.kind == "map" && ity.kind == "string" {
			return "(map_get " + t.zero(ty.elem) + " " + c + " " + i + ")", ty.elem
		}
		if ty.kind != "list" || ity.kind != "int" {
			die("unsupported index expression %s", t.text(e))
		}
		return "(index_ " + t.zero(ty.elem) + " " + c + " " + i + ")", ty.elem
	case *ast.SliceExpr:
		c, ty := t.expr(x.X)
		if ty.kind == "string" && x.Low != nil && x.High == nil && !x.Slice3 { // s[lo:] on bytes (Go panics beyond len(s))
			lo, lty := t.expr(x.Low)
			if lty.kind != "int" {
				die("unsupported slice bound %s", t.text(x.Low))
			}
			return "(sdrop (Z.to_nat " + lo + ") " + c + ")", tString
		}
		if ty.kind != "list" || x.Slice3 || (x.Low != nil && x.High != nil) || (x.Low == nil && x.High == nil) {
			die("unsupported slice expression %s (only xs[lo:] and xs[:hi] of a slice)", t.text(e))
		}
		// Go panics when the bound is outside 0..len(xs); the translation is total (skipn / firstn)
		if x.Low != nil {
			lo, lty := t.expr(x.Low)
			if lty.kind != "int" {
				die("unsupported slice bound %s", t.text(x.Low))
			}
			return "(skipn (Z.to_nat " + lo + ") " + c + ")", ty
		}
		hi, hty := t.expr(x.High)
		if hty.kind != "int" {
			die("unsupported slice bound %s", t.text(x.High))
		}
		return "(firstn (Z.to_nat " + hi + ") " + c + ")", ty
	case *ast.CompositeLit:
		if x.Type == nil {
			die("composite literal without a type")
		}
		ty := t.typeOf(x.Type)
		if ty.kind == "map" {
			out := t.zero(ty)
			for _, el := range x.Elts { // entries in source order; a repeated constant key does not compile in Go
				kv, ok := el.(*ast.KeyValueExpr)
				if !ok {
					die("map literal element without a key")
				}
				kc, kty := t.expr(kv.Key)
				vc, vty := t.exprWant(kv.Value, ty.elem)
				if kty.kind != "string" || !vty.eq(ty.elem) {
					die("map literal entry %s: type mismatch", t.text(el))
				}
				out = "(map_set " + out + " " + kc + " " + vc + ")"
			}
			return out, ty
		}
		if ty.kind == "struct" && !t.foreign[ty.name] { // T{F: e, ...}: the zero value with the named fields set
			out := t.zero(ty)
			t.updated[ty.name] = true
			for _, el := range x.Elts {
				kv, ok := el.(*ast.KeyValueExpr)
				if !ok {
					die("struct literal %s without field names", t.text(x))
				}
				fid, ok := kv.Key.(*ast.Ident)
				if !ok {
					die("unsupported struct literal %s", t.text(x))
				}
				fty := t.fieldType(ty.name, fid.Name)
				c, cty := t.exprWant(kv.Value, fty)
				if !cty.eq(fty) {
					die("field %s of %s: type mismatch", fid.Name, t.text(x))
				}
				t.used[ty.name][fid.Name] = true
				out = "(" + t.prefix + ty.name + "_with_" + fid.Name + " " + out + " " + c + ")"
			}
			return out, ty
		}
		if ty.kind != "list" {
			die("unsupported composite literal %s", t.text(x.Type))
		}
		var parts []string
		for _, el := range x.Elts {
			if _, kv := el.(*ast.KeyValueExpr); kv {
				die("keyed slice literal")
			}
			c, ety := t.expr(el)
			if !ety.eq(ty.elem) {
				die("element %s of %s has type %v", t.text(el), t.text(x.Type), ety)
			}
			parts = append(parts, c)
		}
		if len(parts) == 0 {
			return t.zero(ty), ty
		}
		return "[" + strings.Join(parts, "; ") + "]%list", ty
	case *ast.CallExpr:
		return t.call(x)
	}
	die("unsupported expression %s (%T)", t.text(e), e)
	return "", nil
}

func (t *tr) fieldType(st, field string) *typ {
	for _, f := range t.structs[st].Fields.List {
		for _, n := range f.Names {
			if n.Name == field {
				return t.typeOf(f.Type)
			}
		}
	}
	die("struct %s has no field %s (embedded fields and methods values are not supported)", st, field)
	return nil
}

func (t *tr) binary(x *ast.BinaryExpr) (string, *typ) {
	if (x.Op == token.EQL || x.Op == token.NEQ) && (isNil(x.X) || isNil(x.Y)) {
		if _, shadow := t.env["nil"]; !shadow {
			other := x.X
			if isNil(other) {
				other = x.Y
			}
			c, ty := t.expr(other)
			if ty.kind == "ast.CommentGroup" {
				if x.Op == token.EQL {
					return "(commentgroup_is_nil " + c + ")", tBool
				}
				return "(negb (commentgroup_is_nil " + c + "))", tBool
			}
			if ty.kind == "ast.FieldList" {
				if x.Op == token.EQL {
					return "(fieldlist_is_nil " + c + ")", tBool
				}
				return "(negb (fieldlist_is_nil " + c + "))", tBool
			}
			if ty.kind == "dynerr" {
				if x.Op == token.EQL {
					return "(dyn_is_nil " + c + ")", tBool
				}
				return "(negb (dyn_is_nil " + c + "))", tBool
			}
			if ty.kind != "error" {
				die("comparison of a %v with nil (a nil slice or map is not told from an empty one): %s", ty, t.text(x))
			}
			if x.Op == token.EQL {
				return "(is_nil " + c + ")", tBool
			}
			return "(negb (is_nil " + c + "))", tBool
		}
	}
	a, ta := t.expr(x.X)
	b, tb := t.expr(x.Y)
	if !ta.eq(tb) {
		die("operands of %s have types %v and %v", t.text(x), ta, tb)
	}
	k := ta.kind
	bin := func(f string) string { return "(" + f + " " + a + " " + b + ")" }
	rev := func(f string) string { return "(" + f + " " + b + " " + a + ")" }
	eqf := map[string]string{"string": "String.eqb", "int": "Z.eqb", "bool": "Bool.eqb"}
	ltf := map[string]string{"string": "String.ltb", "int": "Z.ltb"}
	lef := map[string]string{"string": "String.leb", "int": "Z.leb"}
	switch x.Op {
	case token.ADD:
		if k == "string" {
			return bin("String.append"), tString
		}
		if k == "int" {
			return bin("Z.add"), tInt
		}
	case token.SUB:
		if k == "int" {
			return bin("Z.sub"), tInt
		}
	case token.MUL:
		if k == "int" {
			return bin("Z.mul"), tInt
		}
	case token.LAND:
		if k == "bool" {
			return bin("andb"), tBool
		}
	case token.LOR:
		if k == "bool" {
			return bin("orb"), tBool
		}
	case token.EQL:
		if f, ok := eqf[k]; ok {
			return bin(f), tBool
		}
	case token.NEQ:
		if f, ok := eqf[k]; ok {
			return "(negb " + bin(f) + ")", tBool
		}
	case token.LSS:
		if f, ok := ltf[k]; ok {
			return bin(f), tBool
		}
	case token.GTR:
		if f, ok := ltf[k]; ok {
			return rev(f), tBool
		}
	case token.LEQ:
		if f, ok := lef[k]; ok {
			return bin(f), tBool
		}
	case token.GEQ:
		if f, ok := lef[k]; ok {
			return rev(f), tBool
		}
	}
	die("unsupported operation %s on %v", t.text(x), ta)
	return "", nil
}

func (t *tr) args(call *ast.CallExpr, want ...*typ) []string {
	if len(call.Args) != len(want) || call.Ellipsis.IsValid() {
		die("unsupported call %s", t.text(call))
	}
	var out []string
	for i, a := range call.Args {
		c, ty := t.exprWant(a, want[i])
		if !ty.eq(want[i]) {
			die("argument %d of %s has type %v", i+1, t.text(call), ty)
		}
		out = append(out, c)
	}
	return out
}

func (t *tr) call(x *ast.CallExpr) (string, *typ) {
	switch f := x.Fun.(type) {
	case *ast.Ident:
		if _, shadow := t.env[f.Name]; shadow {
			die("call of the local variable %s", f.Name)
		}
		switch f.Name {
		case "len":
			if len(x.Args) != 1 {
				die("unsupported call %s", t.text(x))
			}
			c, ty := t.expr(x.Args[0])
			if ty.kind == "list" || ty.kind == "map" {
				return "(len_ " + c + ")", tInt // a map is an association list with distinct keys
			}
			if ty.kind == "string" {
				return "(strlen " + c + ")", tInt
			}
			die("len of %v", ty)
		case "append":
			if len(x.Args) < 1 {
				die("unsupported call %s", t.text(x))
			}
			c, ty := t.expr(x.Args[0])
			if ty.kind != "list" {
				die("append to %v", ty)
			}
			if x.Ellipsis.IsValid() {
				if len(x.Args) != 2 {
					die("unsupported call %s", t.text(x))
				}
				d, dty := t.expr(x.Args[1])
				if !dty.eq(ty) {
					die("append(%v, %v...)", ty, dty)
				}
				return "(" + c + " ++ " + d + ")%list", ty
			}
			var parts []string
			for _, a := range x.Args[1:] {
				d, dty := t.expr(a)
				if !dty.eq(ty.elem) {
					die("append(%v, %v)", ty, dty)
				}
				parts = append(parts, d)
			}
			if len(parts) == 0 {
				return c, ty
			}
			return "(" + c + " ++ [" + strings.Join(parts, "; ") + "])%list", ty
		case "make":
			if len(x.Args) == 1 {
				if ty := t.typeOf(x.Args[0]); ty.kind == "map" {
					return t.zero(ty), ty
				}
			}
			if len(x.Args) < 2 || len(x.Args) > 3 {
				die("unsupported call %s", t.text(x))
			}
			ty := t.typeOf(x.Args[0])
			if ty.kind == "map" && len(x.Args) == 2 { // make(map[string]T, hint)
				if _, hty := t.expr(x.Args[1]); hty.kind != "int" {
					die("size hint of %s is not an int", t.text(x))
				}
				return t.zero(ty), ty
			}
			if lit, ok := x.Args[1].(*ast.BasicLit); !ok || lit.Value != "0" || ty.kind != "list" {
				die("make is supported only as make([]T, 0[, cap]): %s", t.text(x))
			}
			if len(x.Args) == 3 {
				if _, cty := t.expr(x.Args[2]); cty.kind != "int" { // the capacity is not observable in a value model; it must still be well-formed
					die("capacity of %s is not an int", t.text(x))
				}
			}
			return t.zero(ty), ty
		}
		if o, ok := t.opaque[f.Name]; ok {
			return t.callOpaque(f.Name, o, x)
		}
		if fd, ok := t.funcs[f.Name]; ok {
			return t.callLocal(f.Name, fd, "", nil, x)
		}
		die("unsupported call of %s", f.Name)
	case *ast.SelectorExpr:
		if pk, ok := f.X.(*ast.Ident); ok {
			if _, shadow := t.env[pk.Name]; !shadow {
				if path, ok := t.imports[pk.Name]; ok {
					if o, ok := t.opaque[pk.Name+"."+f.Sel.Name]; ok {
						return t.callOpaque(pk.Name+"."+f.Sel.Name, o, x)
					}
					return t.libcall(path, f.Sel.Name, x)
				}
			}
		}
		c, ty := t.expr(f.X)
		if len(x.Args) == 0 && !x.Ellipsis.IsValid() {
			switch ty.kind + "." + f.Sel.Name {
			case "ast.FieldList.NumFields":
				return "(fieldlist_NumFields " + c + ")", tInt
			case "exitStatuser.ExitStatus":
				return c, tInt
			case "exitError.Exited":
				return "(fst " + c + ")", tBool
			case "exitError.Sys":
				return "(snd " + c + ")", &typ{kind: "sysval"}
			}
		}
		if ty.kind == "struct" {
			if fd, ok := t.funcs[ty.name+"."+f.Sel.Name]; ok {
				return t.callLocal(ty.name+"."+f.Sel.Name, fd, c, ty, x)
			}
		}
		die("unsupported method call %s", t.text(x))
	}
	die("unsupported call %s", t.text(x))
	return "", nil
}

func (t *tr) libcall(path, name string, x *ast.CallExpr) (string, *typ) {
	switch path + "." + name {
	case "strings.Join":
		a := t.args(x, tList(tString), tString)
		return "(strings_Join " + a[0] + " " + a[1] + ")", tString
	case "strings.HasPrefix":
		a := t.args(x, tString, tString)
		return "(strings_HasPrefix " + a[0] + " " + a[1] + ")", tBool
	case "strings.Split":
		a := t.args(x, tString, tString)
		t.nonEmptyLit(x, 1)
		return "(strings_Split " + a[0] + " " + a[1] + ")", tList(tString)
	case "strings.SplitN":
		a := t.args(x, tString, tString, tInt)
		t.nonEmptyLit(x, 1)
		return "(strings_SplitN " + a[0] + " " + a[1] + " " + a[2] + ")", tList(tString)
	case "strconv.ParseBool":
		a := t.args(x, tString)
		return "(strconv_ParseBool " + a[0] + ")", &typ{kind: "tuple", elems: []*typ{tBool, tError}}
	case "strings.Fields":
		a := t.args(x, tString)
		return "(strings_Fields " + a[0] + ")", tList(tString) // ASCII reading (Base/GoLib.v)
	case "strings.EqualFold":
		a := t.args(x, tString, tString)
		return "(strings_EqualFold " + a[0] + " " + a[1] + ")", tBool // ASCII reading (Base/GoLib.v)
	case "strings.ToLower":
		a := t.args(x, tString)
		return "(strings_ToLower " + a[0] + ")", tString // ASCII reading of ToLower (Base/GoLib.v says where it coincides with Go's)
	case "strings.TrimSpace":
		a := t.args(x, tString)
		return "(strings_TrimSpace " + a[0] + ")", tString // ASCII reading of TrimSpace (Base/GoLib.v)
	case "strings.ReplaceAll":
		a := t.args(x, tString, tString, tString)
		t.nonEmptyLit(x, 1)
		return "(strings_ReplaceAll " + a[0] + " " + a[1] + " " + a[2] + ")", tString
	case "strings.Replace":
		a := t.args(x, tString, tString, tString, tInt)
		t.nonEmptyLit(x, 1)
		neg := false
		if u, ok := x.Args[3].(*ast.UnaryExpr); ok && u.Op == token.SUB {
			if lit, ok := u.X.(*ast.BasicLit); ok && lit.Kind == token.INT && lit.Value != "0" {
				neg = true
			}
		}
		if !neg {
			die("strings.Replace is supported only with a negative literal count (replace all): %s", t.text(x))
		}
		return "(strings_ReplaceAll " + a[0] + " " + a[1] + " " + a[2] + ")", tString
	case "crypto/sha1.Sum":
		// sha1.Sum([]byte(s)): the hash function is a parameter (string -> its %x rendering); the value may only be
		// printed with %x
		if len(x.Args) == 1 {
			if conv, ok := x.Args[0].(*ast.CallExpr); ok && len(conv.Args) == 1 {
				if at, ok := conv.Fun.(*ast.ArrayType); ok && at.Len == nil {
					if id, ok := at.Elt.(*ast.Ident); ok && id.Name == "byte" {
						c, ty := t.expr(conv.Args[0])
						if ty.kind == "string" {
							return "(" + t.addImplicit("hash_sha1", "(string -> string)") + " " + c + ")", &typ{kind: "digest"}
						}
					}
				}
			}
		}
		die("sha1.Sum is supported only as sha1.Sum([]byte(<string>)): %s", t.text(x))
	case "os.Environ":
		t.args(x)
		return t.addImplicit("os_Environ", t.coqType(tList(tString))), tList(tString) // read once per call: a parameter of the translation
	case "errors.New":
		a := t.args(x, tString)
		return "(Some " + a[0] + ")", tError
	case "fmt.Errorf":
		return "(Some " + t.format(x) + ")", tError
	case "fmt.Sprint":
		// of a go/ast expression: what fmt prints for the node is a parameter (for an *ast.Ident its name, through
		// Ident.String; for other nodes a struct dump with pointer values)
		if len(x.Args) == 1 && !x.Ellipsis.IsValid() {
			if c, ty := t.expr(x.Args[0]); ty.kind == "ast.Expr" {
				return "(" + t.addImplicit("fn_fmt_Sprint", "(ast_expr -> string)") + " " + c + ")", tString
			}
		}
		die("fmt.Sprint is supported only for one go/ast expression: %s", t.text(x))
	case "fmt.Sprintf":
		return t.format(x), tString
	}
	die("library function %s.%s is not supported", path, name)
	return "", nil
}

// argument i of the call must be a non-empty string literal (separators: the empty one means "explode" in Go)
func (t *tr) nonEmptyLit(x *ast.CallExpr, i int) {
	lit, ok := x.Args[i].(*ast.BasicLit)
	if !ok || lit.Kind != token.STRING {
		die("%s is supported only with a string literal as argument %d", t.text(x.Fun), i+1)
	}
	if s, err := strconv.Unquote(lit.Value); err != nil || s == "" {
		die("%s with an empty separator is not modelled: %s", t.text(x.Fun), t.text(x))
	}
}

// a format with %s, %v (string arguments only: both print the bytes of the string) and %% -> concatenation
func (t *tr) format(x *ast.CallExpr) string {
	if len(x.Args) < 1 || x.Ellipsis.IsValid() {
		die("unsupported call %s", t.text(x))
	}
	lit, ok := x.Args[0].(*ast.BasicLit)
	if !ok || lit.Kind != token.STRING {
		die("%s with a format that is not a string literal: %s", t.text(x.Fun), t.text(x))
	}
	format, err := strconv.Unquote(lit.Value)
	if err != nil {
		die("unsupported format %s", lit.Value)
	}
	var parts []string
	cur := ""
	n := 1
	flush := func() {
		if cur != "" {
			parts = append(parts, coqString(cur))
			cur = ""
		}
	}
	for i := 0; i < len(format); i++ {
		if format[i] != '%' {
			cur += string(format[i])
			continue
		}
		i++
		if i >= len(format) {
			die("format %s ends with %%", lit.Value)
		}
		switch format[i] {
		case '%':
			cur += "%"
		case 'x':
			if n >= len(x.Args) {
				die("format %s has more verbs than arguments", lit.Value)
			}
			c, ty := t.expr(x.Args[n])
			if ty.kind != "digest" {
				die("%%x argument %s has type %v (only hash values are translated)", t.text(x.Args[n]), ty)
			}
			n++
			flush()
			parts = append(parts, c)
		case 'd':
			if n >= len(x.Args) {
				die("format %s has more verbs than arguments", lit.Value)
			}
			c, ty := t.expr(x.Args[n])
			if ty.kind != "int" {
				die("%%d argument %s has type %v", t.text(x.Args[n]), ty)
			}
			n++
			flush()
			parts = append(parts, "(strconv_Itoa "+c+")")
		case 's', 'v':
			if n >= len(x.Args) {
				die("format %s has more verbs than arguments", lit.Value)
			}
			c, ty := t.expr(x.Args[n])
			if ty.kind != "string" {
				die("%%%c argument %s has type %v (only strings are translated)", format[i], t.text(x.Args[n]), ty)
			}
			n++
			flush()
			parts = append(parts, c)
		default:
			die("format verb %%%c is not supported (only %%s, %%v of strings and %%%%)", format[i])
		}
	}
	flush()
	if n != len(x.Args) {
		die("format %s has fewer verbs than arguments", lit.Value)
	}
	if len(parts) == 0 {
		return `""`
	}
	out := parts[len(parts)-1]
	for i := len(parts) - 2; i >= 0; i-- {
		out = "(String.append " + parts[i] + " " + out + ")"
	}
	return out
}

// ---------------------------------------------------------------- functions
func (t *tr) callLocal(key string, fd *ast.FuncDecl, recv string, recvTy *typ, x *ast.CallExpr) (string, *typ) {
	if x.Ellipsis.IsValid() {
		die("unsupported call %s", t.text(x))
	}
	// translate the callee in its own context
	env, result, loops, ia, iv := t.env, t.result, t.loops, t.idxAlias, t.idxVar
	k, sites, params, named, ren, dc := t.key, t.sites, t.params, t.namedRes, t.ren, t.declCount
	t.function(key)
	t.env, t.result, t.loops, t.idxAlias, t.idxVar = env, result, loops, ia, iv
	t.key, t.sites, t.params, t.namedRes, t.ren, t.declCount = k, sites, params, named, ren, dc
	ptys, res := t.signature(fd)
	if fd.Recv != nil {
		ptys = ptys[1:]
	}
	a := t.args(x, ptys...)
	name := t.defName(key)
	if recv != "" {
		a = append([]string{recv}, a...)
	}
	// what the callee reads from the process or leaves to the iteration order, the caller reads / leaves too
	var imp []string
	for _, n := range t.implicitNames(key) {
		imp = append(imp, t.addImplicit(n, t.implicit[key][n]))
	}
	a = append(imp, a...)
	return "(" + strings.TrimSpace(name+" "+strings.Join(a, " ")) + ")", res
}

func (t *tr) callOpaque(name string, o *opaqueFn, x *ast.CallExpr) (string, *typ) {
	var a []string
	if o.variadic && !x.Ellipsis.IsValid() {
		fixed := len(o.params) - 1
		if len(x.Args) < fixed {
			die("unsupported call %s", t.text(x))
		}
		head := *x
		head.Args = x.Args[:fixed]
		a = t.args(&head, o.params[:fixed]...)
		var rest []string
		for _, e := range x.Args[fixed:] {
			c, ty := t.exprWant(e, o.params[fixed].elem)
			if !ty.eq(o.params[fixed].elem) {
				die("argument %s of %s has type %v", t.text(e), t.text(x), ty)
			}
			rest = append(rest, c)
		}
		if len(rest) == 0 {
			a = append(a, t.zero(o.params[fixed]))
		} else {
			a = append(a, "["+strings.Join(rest, "; ")+"]%list")
		}
	} else if o.variadic {
		plain := *x
		plain.Ellipsis = token.NoPos
		a = t.args(&plain, o.params...)
	} else {
		a = t.args(x, o.params...)
	}
	var ptys []string
	for _, p := range o.params {
		ptys = append(ptys, t.coqType(p))
	}
	_ = ptys
	return "(" + t.opaqueParam(name, o) + " " + strings.Join(a, " ") + ")", o.result
}

// the parameter that stands for an opaque function
func (t *tr) opaqueParam(name string, o *opaqueFn) string {
	var ptys []string
	for _, p := range o.params {
		ptys = append(ptys, t.coqType(p))
	}
	return t.addImplicit("fn_"+strings.Replace(name, ".", "_", -1), "("+strings.Join(append(ptys, t.coqType(o.result)), " -> ")+")")
}

func (t *tr) defName(key string) string {
	return t.prefix + strings.Replace(key, ".", "_", -1)
}

func recvTypeName(fd *ast.FuncDecl) string {
	if fd.Recv == nil || len(fd.Recv.List) != 1 {
		return ""
	}
	e := fd.Recv.List[0].Type
	if s, ok := e.(*ast.StarExpr); ok {
		e = s.X
	}
	if id, ok := e.(*ast.Ident); ok {
		return id.Name
	}
	return ""
}

// parameter types (receiver first) and the result type
func (t *tr) signature(fd *ast.FuncDecl) ([]*typ, *typ) {
	var tys []*typ
	if fd.Recv != nil {
		tys = append(tys, t.typeOf(fd.Recv.List[0].Type))
	}
	for _, fl := range fd.Type.Params.List {
		if _, variadic := fl.Type.(*ast.Ellipsis); variadic {
			die("variadic parameter")
		}
		n := len(fl.Names)
		if n == 0 {
			n = 1
		}
		for i := 0; i < n; i++ {
			tys = append(tys, t.typeOf(fl.Type))
		}
	}
	if fd.Type.Results == nil || len(fd.Type.Results.List) == 0 {
		die("%s: no result", fd.Name.Name)
	}
	var res []*typ
	for _, fl := range fd.Type.Results.List {
		n := len(fl.Names)
		if n == 0 {
			n = 1
		}
		for i := 0; i < n; i++ {
			res = append(res, t.typeOf(fl.Type))
		}
	}
	if len(res) == 1 {
		return tys, res[0]
	}
	return tys, &typ{kind: "tuple", elems: res}
}

func (t *tr) resultTypes() []*typ {
	if t.result.kind == "tuple" {
		return t.result.elems
	}
	return []*typ{t.result}
}

func (t *tr) function(key string) {
	if _, ok := t.done[key]; ok {
		return
	}
	if t.busy[key] {
		die("recursive function %s", key)
	}
	fd, ok := t.funcs[key]
	if !ok {
		die("function %s not found", key)
	}
	if fd.Body == nil || fd.Type.TypeParams != nil {
		die("%s has no body or has type parameters", key)
	}
	t.busy[key] = true
	t.key = key
	t.sites = map[token.Pos]int{}
	t.params = map[string]bool{}
	t.namedRes = nil
	t.env = map[string]*typ{}
	t.ren = map[string]string{}
	t.declCount = map[string]int{}
	t.loops = nil
	t.idxAlias = map[string]string{}
	t.idxVar = map[string]bool{}
	t.checkDeclaredOnce(fd)
	tys, res := t.signature(fd)
	t.result = res
	var params []string
	i := 0
	add := func(name string, ty *typ) {
		if name == "" || name == "_" {
			name = fmt.Sprintf("_arg%d", i)
		} else {
			t.declare(name, ty)
			t.params[name] = true
		}
		params = append(params, "("+t.v(name)+" : "+t.coqType(ty)+")")
		i++
	}
	if fd.Recv != nil {
		name := ""
		if len(fd.Recv.List[0].Names) == 1 {
			name = fd.Recv.List[0].Names[0].Name
		}
		add(name, tys[0])
	}
	for _, fl := range fd.Type.Params.List {
		if len(fl.Names) == 0 {
			add("", tys[i])
		}
		for _, n := range fl.Names {
			add(n.Name, tys[i])
		}
	}
	// named results are variables that start at their zero values
	pre := ""
	ri := 0
	for _, fl := range fd.Type.Results.List {
		for _, n := range fl.Names {
			if n.Name == "_" {
				die("%s: blank named result", key)
			}
			ty := t.resultTypes()[ri]
			t.declare(n.Name, ty)
			t.namedRes = append(t.namedRes, n.Name)
			pre += "let " + t.v(n.Name) + " := " + t.zero(ty) + " in\n  "
			ri++
		}
	}
	body := pre + t.block(fd.Body.List, func() string {
		die("%s: control reaches the end of the function without a return", key)
		return ""
	})
	for _, n := range t.forced[key] {
		if strings.HasPrefix(n, "?") { // a function named with this function on the command line: a parameter even if not called
			t.opaqueParam(n[1:], t.opaque[n[1:]])
			continue
		}
		t.addImplicit(n, forcedTypes[n])
	}
	var imp []string
	for _, n := range t.implicitNames(key) {
		imp = append(imp, "("+n+" : "+t.implicit[key][n]+")")
	}
	params = append(imp, params...)
	t.done[key] = fmt.Sprintf("Definition %s %s : %s :=\n  %s.\n", t.defName(key), strings.Join(params, " "), t.coqType(res), body)
	t.order = append(t.order, key)
	delete(t.busy, key)
}

// Go scopes by block, the translation by `let`: they agree when no name is declared twice in the function.
func (t *tr) checkDeclaredOnce(fd *ast.FuncDecl) {
	seen := map[string]bool{}
	decl := func(id *ast.Ident) {
		if id == nil || id.Name == "_" {
			return
		}
		seen[id.Name] = true // (re-declarations get Coq names of their own: declare)
	}
	if fd.Recv != nil {
		for _, n := range fd.Recv.List[0].Names {
			decl(n)
		}
	}
	for _, fl := range fd.Type.Params.List {
		for _, n := range fl.Names {
			decl(n)
		}
	}
	if fd.Type.Results != nil {
		for _, fl := range fd.Type.Results.List {
			for _, n := range fl.Names {
				decl(n)
			}
		}
	}
	ast.Inspect(fd.Body, func(n ast.Node) bool {
		switch s := n.(type) {
		case *ast.FuncLit:
			die("%s: function literal", fd.Name.Name)
		case *ast.AssignStmt:
			if s.Tok == token.DEFINE {
				for _, l := range s.Lhs {
					if id, ok := l.(*ast.Ident); ok {
						decl(id)
					}
				}
			}
		case *ast.ValueSpec:
			for _, id := range s.Names {
				decl(id)
			}
		case *ast.RangeStmt:
			if s.Tok == token.DEFINE {
				if id, ok := s.Key.(*ast.Ident); ok {
					decl(id)
				}
				if id, ok := s.Value.(*ast.Ident); ok {
					decl(id)
				}
			}
		}
		return true
	})
}

// ---------------------------------------------------------------- statements
// names declared inside a statement list
func declaredIn(l []ast.Stmt) map[string]bool {
	out := map[string]bool{}
	for _, s := range l {
		ast.Inspect(s, func(n ast.Node) bool {
			switch d := n.(type) {
			case *ast.AssignStmt:
				if d.Tok == token.DEFINE {
					for _, x := range d.Lhs {
						if id, ok := x.(*ast.Ident); ok {
							out[id.Name] = true
						}
					}
				}
			case *ast.ValueSpec:
				for _, id := range d.Names {
					out[id.Name] = true
				}
			case *ast.RangeStmt:
				for _, x := range []ast.Expr{d.Key, d.Value} {
					if id, ok := x.(*ast.Ident); ok && d.Tok == token.DEFINE {
						out[id.Name] = true
					}
				}
			}
			return true
		})
	}
	return out
}

// sort.Strings(x) with x an identifier -> "x"
func sortStringsArg(s *ast.ExprStmt, imports map[string]string) string {
	call, ok := s.X.(*ast.CallExpr)
	if !ok || len(call.Args) != 1 {
		return ""
	}
	sel, ok := call.Fun.(*ast.SelectorExpr)
	if !ok || sel.Sel.Name != "Strings" {
		return ""
	}
	pk, ok := sel.X.(*ast.Ident)
	if !ok || imports[pk.Name] != "sort" {
		return ""
	}
	id, ok := call.Args[0].(*ast.Ident)
	if !ok {
		return ""
	}
	return id.Name
}

// variables of the enclosing scope that a statement list assigns, sorted by name
func (t *tr) assignedOuter(l []ast.Stmt) []string {
	inner := declaredIn(l)
	set := map[string]bool{}
	for _, s := range l {
		ast.Inspect(s, func(n ast.Node) bool {
			switch d := n.(type) {
			case *ast.AssignStmt:
				if d.Tok != token.DEFINE {
					for _, x := range d.Lhs {
						if ix, ok := x.(*ast.IndexExpr); ok { // m[k] = v
							x = ix.X
						}
						if sx, ok := x.(*ast.SelectorExpr); ok { // f.X = v
							x = sx.X
						}
						if id, ok := x.(*ast.Ident); ok && id.Name != "_" {
							if _, outer := t.env[id.Name]; outer && inner[id.Name] {
								die("the name %s is both re-declared and assigned in one block (not modelled)", id.Name)
							}
							if !inner[id.Name] {
								set[id.Name] = true
							}
						}
					}
				}
			case *ast.IncDecStmt:
				if id, ok := d.X.(*ast.Ident); ok && !inner[id.Name] {
					set[id.Name] = true
				}
			case *ast.ExprStmt:
				if id := sortStringsArg(d, t.imports); id != "" && !inner[id] {
					set[id] = true
				}
			}
			return true
		})
	}
	var out []string
	for n := range set {
		out = append(out, n)
	}
	sort.Strings(out)
	return out
}

// does the list contain a return or a continue/break that leaves it?
func jumps(l []ast.Stmt) bool {
	found := false
	for _, s := range l {
		ast.Inspect(s, func(n ast.Node) bool {
			switch n.(type) {
			case *ast.ReturnStmt:
				found = true
			case *ast.BranchStmt:
				found = true // (a continue of a loop nested inside the list is counted too: the duplicating scheme is used, which is always correct)
			}
			return true
		})
	}
	return found
}

func (t *tr) tuple(names []string) string {
	var vs []string
	for _, n := range names {
		vs = append(vs, t.v(n))
	}
	if len(vs) == 1 {
		return vs[0]
	}
	return "(" + strings.Join(vs, ", ") + ")"
}

func (t *tr) letTuple(names []string) string {
	if len(names) == 1 {
		return "let " + t.v(names[0]) + " := "
	}
	return "let '" + t.tuple(names) + " := "
}

// block translates a statement list; k() is what follows when control falls off its end.
func (t *tr) block(l []ast.Stmt, k func() string) string {
	if len(l) == 0 {
		return k()
	}
	rest := func() string { return t.block(l[1:], k) }
	switch s := l[0].(type) {
	case *ast.EmptyStmt:
		return rest()
	case *ast.BlockStmt:
		return t.block(s.List, t.inScope(t.snapshot(), rest))
	case *ast.ReturnStmt:
		return t.returned(t.returnValue(s))
	case *ast.BranchStmt:
		if s.Tok == token.CONTINUE && s.Label == nil && len(t.loops) > 0 {
			return t.loops[len(t.loops)-1].end
		}
		die("unsupported %s", t.text(s))
	case *ast.DeclStmt:
		gd, ok := s.Decl.(*ast.GenDecl)
		if !ok || gd.Tok != token.VAR {
			die("unsupported declaration %s", t.text(s))
		}
		out := ""
		for _, sp := range gd.Specs {
			vs := sp.(*ast.ValueSpec)
			if len(vs.Values) != 0 && len(vs.Values) != len(vs.Names) {
				die("unsupported declaration %s", t.text(s))
			}
			for i, n := range vs.Names {
				var c string
				var ty *typ
				if len(vs.Values) > 0 {
					c, ty = t.expr(vs.Values[i])
					if vs.Type != nil && !t.typeOf(vs.Type).eq(ty) {
						die("declaration %s: type mismatch", t.text(s))
					}
				} else {
					if vs.Type == nil {
						die("unsupported declaration %s", t.text(s))
					}
					ty = t.typeOf(vs.Type)
					c = t.zero(ty)
				}
				if n.Name == "_" {
					continue
				}
				t.declare(n.Name, ty)
				out += "let " + t.v(n.Name) + " := " + c + " in\n  "
			}
		}
		return out + rest()
	case *ast.AssignStmt:
		return t.assign(s) + rest()
	case *ast.SwitchStmt:
		// switch [init;] [tag] { case a, b: ... default: ... } without fallthrough = an if / else-if chain (the tag
		// and the case expressions are pure; the tag is evaluated once in Go, any number of times here)
		var chain ast.Stmt
		var deflt *ast.BlockStmt
		var clauses []*ast.CaseClause
		for _, c := range s.Body.List {
			cc := c.(*ast.CaseClause)
			for _, b := range cc.Body {
				if br, ok := b.(*ast.BranchStmt); ok && (br.Tok == token.FALLTHROUGH || br.Tok == token.BREAK) {
					die("unsupported %s in a switch", br.Tok)
				}
			}
			if cc.List == nil {
				deflt = &ast.BlockStmt{List: cc.Body}
				continue
			}
			clauses = append(clauses, cc)
		}
		if deflt != nil {
			chain = deflt
		}
		for i := len(clauses) - 1; i >= 0; i-- {
			var cond ast.Expr
			for _, v := range clauses[i].List {
				var one ast.Expr = v
				if s.Tag != nil {
					one = &ast.BinaryExpr{X: s.Tag, Op: token.EQL, Y: v}
				}
				if cond == nil {
					cond = one
				} else {
					cond = &ast.BinaryExpr{X: cond, Op: token.LOR, Y: one}
				}
			}
			chain = &ast.IfStmt{Cond: cond, Body: &ast.BlockStmt{List: clauses[i].Body}, Else: chain}
		}
		var list []ast.Stmt
		if s.Init != nil {
			list = append(list, s.Init)
		}
		switch c := chain.(type) {
		case nil:
		case *ast.BlockStmt: // only a default clause
			list = append(list, c)
		default:
			list = append(list, c)
		}
		return t.block(list, t.inScope(t.snapshot(), rest))
	case *ast.ExprStmt:
		if id := sortStringsArg(s, t.imports); id != "" {
			ty, ok := t.env[id]
			if !ok || !ty.eq(tList(tString)) || t.params[id] {
				die("sort.Strings is supported only on a local []string variable (a parameter's caller would see the sorting): %s", t.text(s))
			}
			return "let " + t.v(id) + " := (sort_Strings " + t.v(id) + ") in\n  " + rest()
		}
		if call, ok := s.X.(*ast.CallExpr); ok {
			if sel, ok := call.Fun.(*ast.SelectorExpr); ok {
				if pk, ok := sel.X.(*ast.Ident); ok && t.imports[pk.Name] == "log" {
					if _, shadow := t.env[pk.Name]; !shadow {
						switch sel.Sel.Name {
						case "Println", "Printf", "Print":
							return rest() // what is written to the log is not part of the function's value
						}
					}
				}
			}
		}
		die("unsupported statement %s", t.text(s))
	case *ast.IncDecStmt:
		id, ok := s.X.(*ast.Ident)
		if !ok || t.env[id.Name] == nil || t.env[id.Name].kind != "int" || t.idxVar[id.Name] {
			die("unsupported %s", t.text(s))
		}
		op := "Z.add"
		if s.Tok == token.DEC {
			op = "Z.sub"
		}
		return "let " + t.v(id.Name) + " := (" + op + " " + t.v(id.Name) + " 1%Z) in\n  " + rest()
	case *ast.IfStmt:
		if s.Init != nil { // the variables of the init statement are in scope in the if statement only
			cp := *s
			cp.Init = nil
			return t.block([]ast.Stmt{s.Init, &cp}, t.inScope(t.snapshot(), rest))
		}
		c, ty := t.expr(s.Cond)
		if ty.kind != "bool" {
			die("condition %s is not a bool", t.text(s.Cond))
		}
		var els []ast.Stmt
		switch e := s.Else.(type) {
		case nil:
		case *ast.BlockStmt:
			els = e.List
		case *ast.IfStmt:
			els = []ast.Stmt{e}
		default:
			die("unsupported else %T", s.Else)
		}
		here := t.snapshot()
		if jumps(s.Body.List) || jumps(els) {
			// a branch may leave: each branch is followed by the rest of the enclosing list
			a := t.block(s.Body.List, t.inScope(here, rest))
			t.restore(here)
			b := t.block(els, t.inScope(here, rest))
			t.restore(here)
			return "(if " + c + " then " + a + " else " + b + ")"
		}
		mods := t.assignedOuter(append(append([]ast.Stmt{}, s.Body.List...), els...))
		if len(mods) == 0 {
			// no assignment to an outer variable and no jump: the statement has no effect (everything in the subset is pure)
			t.block(s.Body.List, func() string { return "" }) // still must be inside the subset
			t.restore(here)
			t.block(els, func() string { return "" })
			t.restore(here)
			return rest()
		}
		end := t.inScope(here, func() string { return t.tuple(mods) })
		a := t.block(s.Body.List, end)
		t.restore(here)
		b := t.block(els, end)
		t.restore(here)
		return t.letTuple(mods) + "(if " + c + " then " + a + " else " + b + ") in\n  " + rest()
	case *ast.RangeStmt:
		if s.Tok != token.DEFINE && (s.Value != nil || s.Key != nil) {
			die("range assigning to existing variables")
		}
		xs, ty := t.expr(s.X)
		rest := t.inScope(t.snapshot(), rest) // the loop variables and the body's declarations end with the loop
		loopVar := func(e ast.Expr, ty *typ) string {
			if e == nil {
				return "_"
			}
			id, ok := e.(*ast.Ident)
			if !ok {
				die("unsupported range variable %s", t.text(e))
			}
			if id.Name == "_" {
				return "_"
			}
			for _, n := range t.assignedOuter(s.Body.List) {
				if n == id.Name {
					die("the range variable %s is assigned in the loop body", n)
				}
			}
			t.declare(id.Name, ty)
			return t.v(id.Name)
		}
		switch ty.kind {
		case "list":
			if s.Key != nil {
				if id, ok := s.Key.(*ast.Ident); !ok || id.Name != "_" {
					die("range over a slice with an index variable: %s", t.text(s.Key))
				}
			}
			return t.loop(s.Body.List, xs, loopVar(s.Value, ty.elem), rest)
		case "map":
			// the order of a range over a map is unspecified: it is a parameter of the translated function
			if id, ok := s.X.(*ast.Ident); ok {
				for _, n := range t.assignedOuter(s.Body.List) {
					if n == id.Name {
						die("the map %s is written while it is ranged over", n)
					}
				}
			}
			if _, ok := t.sites[s.Pos()]; !ok {
				t.sites[s.Pos()] = len(t.sites) + 1
			}
			ord := t.addImplicit(fmt.Sprintf("ord_%s_%d", strings.Replace(t.key, ".", "_", -1), t.sites[s.Pos()]), "(map_order "+t.coqType(ty.elem)+")")
			kv := "'(" + loopVar(s.Key, tString) + ", " + loopVar(s.Value, ty.elem) + ")"
			return t.loop(s.Body.List, "("+ord+" "+xs+")", kv, rest)
		}
		die("range over %v", ty)
	case *ast.ForStmt:
		// for i := 0; i < len(xs); i++ { ... xs[i] ... }  ==  for _, e := range xs { ... e ... }
		// when i is used only in xs[i] and neither i nor xs is assigned in the body
		xsName, iName := indexLoop(s)
		if xsName == "" || !onlyIndexUses(s.Body, xsName, iName) {
			return t.countedLoop(s, rest)
		}
		xty, ok := t.env[xsName]
		if !ok || xty.kind != "list" {
			die("index loop over %s, which is not a local slice", xsName)
		}
		for _, n := range t.assignedOuter(s.Body.List) {
			if n == xsName || n == iName {
				die("index loop: the body assigns %s", n)
			}
		}
		key := xsName + "[" + iName + "]"
		elem := t.v(iName + "_elem")
		t.idxAlias[key] = elem
		t.idxVar[iName] = true
		rest := t.inScope(t.snapshot(), rest)
		return t.loop(s.Body.List, t.v(xsName), elem, func() string {
			delete(t.idxAlias, key) // (i is not in scope after the loop)
			delete(t.idxVar, iName)
			return rest()
		})
	}
	die("unsupported statement %s (%T)", strings.SplitN(t.text(l[0]), "\n", 2)[0], l[0])
	return ""
}

// every use of i in the body is xs[i]
func onlyIndexUses(body *ast.BlockStmt, xs, i string) bool {
	ok := true
	var walk func(n ast.Node) bool
	walk = func(n ast.Node) bool {
		switch v := n.(type) {
		case *ast.IndexExpr:
			if x, isId := v.X.(*ast.Ident); isId && x.Name == xs {
				if ix, isId := v.Index.(*ast.Ident); isId && ix.Name == i {
					return false // do not descend: this use is fine
				}
			}
		case *ast.Ident:
			if v.Name == i {
				ok = false
			}
		}
		return true
	}
	ast.Inspect(body, walk)
	return ok
}

// for [x := a | x = a | nothing]; x < bound; x++ { body }: x runs through a, a+1, .., bound-1 when the body assigns
// neither x nor anything the bound mentions: a fold over (zrange a bound); afterwards x = max a bound
func (t *tr) countedLoop(s *ast.ForStmt, rest func() string) string {
	bad := func() string {
		die("unsupported for statement (only `for _, x := range xs` and `for [x := a]; x < bound; x++`): %s", t.text(s.Cond))
		return ""
	}
	cond, ok := s.Cond.(*ast.BinaryExpr)
	if !ok || cond.Op != token.LSS {
		return bad()
	}
	xid, ok := cond.X.(*ast.Ident)
	if !ok {
		return bad()
	}
	post, ok := s.Post.(*ast.IncDecStmt)
	if !ok || post.Tok != token.INC {
		return bad()
	}
	if pid, ok := post.X.(*ast.Ident); !ok || pid.Name != xid.Name {
		return bad()
	}
	outer := t.snapshot()
	start := ""
	declared := false
	switch init := s.Init.(type) {
	case nil:
		if ty, ok := t.env[xid.Name]; !ok || ty.kind != "int" {
			return bad()
		}
		start = t.v(xid.Name)
	case *ast.AssignStmt:
		if len(init.Lhs) != 1 || len(init.Rhs) != 1 {
			return bad()
		}
		if id, ok := init.Lhs[0].(*ast.Ident); !ok || id.Name != xid.Name {
			return bad()
		}
		c, ty := t.expr(init.Rhs[0])
		if ty.kind != "int" {
			return bad()
		}
		start = c
		if init.Tok == token.DEFINE {
			declared = true
		} else if init.Tok != token.ASSIGN {
			return bad()
		}
	default:
		return bad()
	}
	bound, bty := t.expr(cond.Y)
	if bty.kind != "int" {
		return bad()
	}
	assigned := t.assignedOuter(s.Body.List)
	for _, n := range assigned {
		if n == xid.Name {
			die("counted loop: the body assigns the counter %s", n)
		}
	}
	ast.Inspect(cond.Y, func(n ast.Node) bool {
		if id, ok := n.(*ast.Ident); ok {
			for _, a := range assigned {
				if a == id.Name {
					die("counted loop: the body assigns %s, which the bound mentions", a)
				}
			}
		}
		return true
	})
	t.tmp++
	lo := fmt.Sprintf("lo_%d", t.tmp)
	hi := fmt.Sprintf("hi_%d", t.tmp)
	pre := "let " + lo + " := " + start + " in\n  let " + hi + " := " + bound + " in\n  "
	after := rest
	if declared {
		t.declare(xid.Name, tInt)
		after = t.inScope(outer, rest)
	} else {
		xv := t.v(xid.Name)
		inner := rest
		after = func() string { return "let " + xv + " := (Z.max " + lo + " " + hi + ") in\n  " + inner() }
		after = t.inScope(outer, after)
	}
	return pre + t.loop(s.Body.List, "(zrange "+lo+" "+hi+")", t.v(xid.Name), after)
}

// `for i := 0; i < len(xs); i++ {}` -> ("xs", "i")
func indexLoop(s *ast.ForStmt) (string, string) {
	init, ok := s.Init.(*ast.AssignStmt)
	if !ok || init.Tok != token.DEFINE || len(init.Lhs) != 1 || len(init.Rhs) != 1 {
		return "", ""
	}
	i, ok := init.Lhs[0].(*ast.Ident)
	if lit, ok2 := init.Rhs[0].(*ast.BasicLit); !ok || !ok2 || lit.Value != "0" {
		return "", ""
	}
	cond, ok := s.Cond.(*ast.BinaryExpr)
	if !ok || cond.Op != token.LSS {
		return "", ""
	}
	if ci, ok := cond.X.(*ast.Ident); !ok || ci.Name != i.Name {
		return "", ""
	}
	call, ok := cond.Y.(*ast.CallExpr)
	if !ok || len(call.Args) != 1 {
		return "", ""
	}
	if f, ok := call.Fun.(*ast.Ident); !ok || f.Name != "len" {
		return "", ""
	}
	xs, ok := call.Args[0].(*ast.Ident)
	if !ok {
		return "", ""
	}
	post, ok := s.Post.(*ast.IncDecStmt)
	if !ok || post.Tok != token.INC {
		return "", ""
	}
	if pi, ok := post.X.(*ast.Ident); !ok || pi.Name != i.Name {
		return "", ""
	}
	return xs.Name, i.Name
}

// a loop over the elements of xs: fold_left over xs with the outer variables the body assigns as state
func (t *tr) loop(body []ast.Stmt, xs, elem string, rest func() string) string {
	var state []string
	for _, n := range t.assignedOuter(body) {
		state = append(state, t.v(n))
	}
	hasRet := containsReturn(body)
	if len(state) == 0 && !hasRet {
		// nothing assigned outside the body and no way out of it: no effect.  The body must still be inside the subset.
		t.loops = append(t.loops, loopCtx{})
		t.block(body, func() string { return "" })
		t.loops = t.loops[:len(t.loops)-1]
		return rest()
	}
	comps := state
	ret := fmt.Sprintf("ret_%d", len(t.loops)+1)
	if hasRet {
		comps = append([]string{ret}, state...)
	}
	pack := func(first string) string { // the state with another first component
		if !hasRet {
			return pat(state)
		}
		return pat(append([]string{first}, state...))
	}
	none := "(@None " + t.coqType(t.result) + ")"
	ctx := loopCtx{end: pack(none), state: state, hasRet: hasRet}
	t.loops = append(t.loops, ctx)
	b := t.block(body, func() string { return ctx.end })
	t.loops = t.loops[:len(t.loops)-1]
	p := pat(comps)
	fpat := p
	if len(comps) > 1 {
		fpat = "'" + p
	}
	if hasRet { // once a round has returned, the remaining rounds change nothing
		b = "match " + ret + " with Some _ => " + p + " | None => " + b + " end"
	}
	out := "let " + fpat + " := (fold_left (fun " + fpat + " " + elem + " => " + b + ") " + xs + " " + pack(none) + ") in\n  "
	if !hasRet {
		return out + rest()
	}
	r := fmt.Sprintf("r_%d", len(t.loops)+1)
	return out + "match " + ret + " with Some " + r + " => " + t.returned(r) + " | None => " + rest() + " end"
}

func pat(comps []string) string {
	if len(comps) == 1 {
		return comps[0]
	}
	return "(" + strings.Join(comps, ", ") + ")"
}

func containsReturn(l []ast.Stmt) bool {
	found := false
	for _, s := range l {
		ast.Inspect(s, func(n ast.Node) bool {
			if _, ok := n.(*ast.ReturnStmt); ok {
				found = true
			}
			return true
		})
	}
	return found
}

// the function returns the value c: at top level that is the value of the body; inside a loop it is put into
// the return slot of the innermost loop, whose fold hands it outwards when it is done
func (t *tr) returned(c string) string {
	if len(t.loops) == 0 {
		return c
	}
	ctx := t.loops[len(t.loops)-1]
	if !ctx.hasRet {
		die("internal: return in a loop without a return slot")
	}
	return pat(append([]string{"(Some " + c + ")"}, ctx.state...))
}

// the value of a return statement
func (t *tr) returnValue(s *ast.ReturnStmt) string {
	want := t.resultTypes()
	if len(s.Results) == 0 {
		if len(t.namedRes) != len(want) {
			die("return without values in a function without named results")
		}
		return t.tuple(t.namedRes)
	}
	if len(s.Results) == 1 && len(want) > 1 { // return f(x) with a multi-valued f
		c, ty := t.expr(s.Results[0])
		if !ty.eq(t.result) {
			die("return %s has type %v, the function returns %v", t.text(s.Results[0]), ty, t.result)
		}
		return c
	}
	if len(s.Results) != len(want) {
		die("return with %d values, the function returns %d", len(s.Results), len(want))
	}
	var cs []string
	for i, e := range s.Results {
		c, ty := t.exprWant(e, want[i])
		if !ty.eq(want[i]) {
			die("return %s has type %v, the function returns %v", t.text(e), ty, want[i])
		}
		if id, ok := e.(*ast.Ident); ok && ty.kind == "map" && t.params[id.Name] {
			die("the map parameter %s is returned (the caller would share it)", id.Name)
		}
		cs = append(cs, c)
	}
	return pat(cs)
}

// T is a named interface of the file with the single method ExitStatus() int
func (t *tr) isExitStatusInterface(e ast.Expr) bool {
	id, ok := e.(*ast.Ident)
	if !ok {
		return false
	}
	it, ok := t.named[id.Name].(*ast.InterfaceType)
	if !ok || it.Methods == nil || len(it.Methods.List) != 1 {
		return false
	}
	m := it.Methods.List[0]
	ft, ok := m.Type.(*ast.FuncType)
	if !ok || len(m.Names) != 1 || m.Names[0].Name != "ExitStatus" || len(ft.Params.List) != 0 || ft.Results == nil || len(ft.Results.List) != 1 {
		return false
	}
	r, ok := ft.Results.List[0].Type.(*ast.Ident)
	return ok && r.Name == "int"
}

// T is *ast.<name> of go/ast
func (t *tr) isAstPtr(e ast.Expr, name string) bool {
	st, ok := e.(*ast.StarExpr)
	if !ok {
		return false
	}
	sel, ok := st.X.(*ast.SelectorExpr)
	if !ok || sel.Sel.Name != name {
		return false
	}
	pk, ok := sel.X.(*ast.Ident)
	return ok && t.imports[pk.Name] == "go/ast"
}

// T is *exec.ExitError of os/exec
func (t *tr) isExecExitError(e ast.Expr) bool {
	st, ok := e.(*ast.StarExpr)
	if !ok {
		return false
	}
	sel, ok := st.X.(*ast.SelectorExpr)
	if !ok || sel.Sel.Name != "ExitError" {
		return false
	}
	pk, ok := sel.X.(*ast.Ident)
	return ok && t.imports[pk.Name] == "os/exec"
}

// an assignment statement as a `let ... in` prefix
func (t *tr) assign(s *ast.AssignStmt) string {
	post := ""                                 // lets that follow the pattern binding: field updates f.X = tmp
	bind := func(e ast.Expr, ty *typ) string { // the pattern component for one left-hand side
		if sx, ok := e.(*ast.SelectorExpr); ok && s.Tok == token.ASSIGN { // f.X = ...: a record update of the local f
			id, ok := sx.X.(*ast.Ident)
			if !ok {
				die("unsupported assignment target %s", t.text(e))
			}
			sty, ok := t.env[id.Name]
			if !ok || sty.kind != "struct" || t.foreign[sty.name] || t.params[id.Name] {
				die("unsupported assignment target %s (a field of a local struct variable only: a parameter's caller would see the write)", t.text(e))
			}
			fty := t.fieldType(sty.name, sx.Sel.Name)
			if !fty.eq(ty) {
				die("assignment %s: type mismatch", t.text(s))
			}
			t.used[sty.name][sx.Sel.Name] = true
			t.updated[sty.name] = true
			t.tmp++
			tmp := fmt.Sprintf("tmp_%d", t.tmp)
			post += "let " + t.v(id.Name) + " := (" + t.prefix + sty.name + "_with_" + sx.Sel.Name + " " + t.v(id.Name) + " " + tmp + ") in\n  "
			return tmp
		}
		id, ok := e.(*ast.Ident)
		if !ok {
			die("unsupported assignment target %s (only local variables and m[k])", t.text(e))
		}
		if id.Name == "_" {
			return "_"
		}
		if s.Tok == token.DEFINE {
			t.declare(id.Name, ty)
		} else if old, ok := t.env[id.Name]; !ok || !old.eq(ty) {
			die("assignment %s: unknown variable or type mismatch", t.text(s))
		}
		return t.v(id.Name)
	}
	letp := func(comps []string, c string) string {
		p := pat(comps)
		if len(comps) > 1 {
			p = "'" + p
		}
		out := "let " + p + " := " + c + " in\n  " + post
		post = ""
		return out
	}
	noAlias := func(e ast.Expr, ty *typ) {
		if _, ok := e.(*ast.Ident); ok && ty.kind == "map" {
			die("a second name for the map %s (two names for one map are not modelled)", t.text(e))
		}
		if _, ok := e.(*ast.Ident); ok && ty.kind == "struct" && t.updated[ty.name] {
			die("a second name for the struct %s whose fields are assigned (it may be a pointer: not modelled)", t.text(e))
		}
	}
	switch {
	case len(s.Lhs) == 1 && len(s.Rhs) == 1:
		if ix, ok := s.Lhs[0].(*ast.IndexExpr); ok { // m[k] = v
			id, isId := ix.X.(*ast.Ident)
			if !isId || s.Tok != token.ASSIGN {
				die("unsupported assignment %s", t.text(s))
			}
			mty, ok := t.env[id.Name]
			if !ok || mty.kind != "map" {
				die("unsupported assignment target %s (only local variables and m[k] of a local map)", t.text(s.Lhs[0]))
			}
			if t.params[id.Name] {
				die("write into the map parameter %s (the caller would see it; not modelled)", id.Name)
			}
			kc, kty := t.expr(ix.Index)
			vc, vty := t.exprWant(s.Rhs[0], mty.elem)
			if kty.kind != "string" || !vty.eq(mty.elem) {
				die("assignment %s: type mismatch", t.text(s))
			}
			return "let " + t.v(id.Name) + " := (map_set " + t.v(id.Name) + " " + kc + " " + vc + ") in\n  "
		}
		if sx, ok := s.Lhs[0].(*ast.SelectorExpr); ok && s.Tok == token.ASSIGN { // f.X = e
			var want *typ
			if xid, ok := sx.X.(*ast.Ident); ok {
				if sty, ok := t.env[xid.Name]; ok && sty.kind == "struct" {
					want = t.fieldType(sty.name, sx.Sel.Name)
				}
			}
			c, ty := t.exprWant(s.Rhs[0], want)
			return letp([]string{bind(sx, ty)}, c)
		}
		id, ok := s.Lhs[0].(*ast.Ident)
		if !ok {
			die("unsupported assignment target %s (only local variables, m[k] and f.X)", t.text(s.Lhs[0]))
		}
		var want *typ
		if s.Tok != token.DEFINE {
			want = t.env[id.Name]
		}
		c, ty := t.exprWant(s.Rhs[0], want)
		noAlias(s.Rhs[0], ty)
		if ty.kind == "tuple" {
			die("assignment %s: %d values for one variable", t.text(s), len(ty.elems))
		}
		if id.Name == "_" {
			return ""
		}
		switch s.Tok {
		case token.DEFINE, token.ASSIGN:
			return letp([]string{bind(id, ty)}, c)
		case token.ADD_ASSIGN:
			old, ok := t.env[id.Name]
			if !ok || !old.eq(ty) {
				die("assignment %s: unknown variable or type mismatch", t.text(s))
			}
			switch ty.kind {
			case "string":
				return letp([]string{t.v(id.Name)}, "(String.append "+t.v(id.Name)+" "+c+")")
			case "int":
				return letp([]string{t.v(id.Name)}, "(Z.add "+t.v(id.Name)+" "+c+")")
			}
		}
		die("unsupported assignment %s", t.text(s))
	case len(s.Rhs) == 1 && (s.Tok == token.DEFINE || s.Tok == token.ASSIGN):
		if ta, ok := s.Rhs[0].(*ast.TypeAssertExpr); ok && len(s.Lhs) == 2 && ta.Type != nil { // x, ok := e.(T)
			c, ty := t.expr(ta.X)
			fn, rty := "", (*typ)(nil)
			switch {
			case t.isExitStatusInterface(ta.Type) && ty.kind == "dynerr":
				fn, rty = "dyn_as_exitStatus", &typ{kind: "exitStatuser"}
			case t.isExitStatusInterface(ta.Type) && ty.kind == "sysval":
				fn, rty = "sys_as_exitStatus", &typ{kind: "exitStatuser"}
			case t.isExecExitError(ta.Type) && ty.kind == "dynerr":
				fn, rty = "dyn_as_ExitError", &typ{kind: "exitError"}
			case ty.kind == "ast.Expr" && t.isAstPtr(ta.Type, "SelectorExpr"):
				fn, rty = "ast_as_Selector", &typ{kind: "ast.SelectorExpr"}
			case ty.kind == "ast.Expr" && t.isAstPtr(ta.Type, "Ident"):
				fn, rty = "ast_as_Ident", &typ{kind: "ast.Ident"}
			default:
				die("unsupported type assertion %s (only to interface{ ExitStatus() int } and *exec.ExitError, on an error of a function translated with !dyn)", t.text(ta))
			}
			a := bind(s.Lhs[0], rty)
			b := bind(s.Lhs[1], tBool)
			return letp([]string{a, b}, "("+fn+" "+c+")")
		}
		if ix, ok := s.Rhs[0].(*ast.IndexExpr); ok && len(s.Lhs) == 2 { // v, ok := m[k]
			mc, mty := t.expr(ix.X)
			kc, kty := t.expr(ix.Index)
			if mty.kind != "map" || kty.kind != "string" {
				die("unsupported assignment %s", t.text(s))
			}
			a := bind(s.Lhs[0], mty.elem)
			b := bind(s.Lhs[1], tBool)
			return letp([]string{a, b}, "(map_get "+t.zero(mty.elem)+" "+mc+" "+kc+", map_has "+mc+" "+kc+")")
		}
		c, ty := t.expr(s.Rhs[0]) // a, b := f(x)
		if ty.kind != "tuple" || len(ty.elems) != len(s.Lhs) {
			die("unsupported assignment %s", t.text(s))
		}
		var comps []string
		for i, l := range s.Lhs {
			comps = append(comps, bind(l, ty.elems[i]))
		}
		return letp(comps, c)
	case len(s.Lhs) == len(s.Rhs) && (s.Tok == token.DEFINE || s.Tok == token.ASSIGN):
		// x, y = e1, e2: all right-hand sides are evaluated first
		var comps, cs []string
		var tys []*typ
		for i, r := range s.Rhs {
			var want *typ
			if id, ok := s.Lhs[i].(*ast.Ident); ok && s.Tok == token.ASSIGN {
				want = t.env[id.Name]
			}
			c, ty := t.exprWant(r, want)
			noAlias(r, ty)
			if ty.kind == "tuple" {
				die("unsupported assignment %s", t.text(s))
			}
			cs = append(cs, c)
			tys = append(tys, ty)
		}
		for i, l := range s.Lhs {
			comps = append(comps, bind(l, tys[i]))
		}
		return letp(comps, pat(cs))
	}
	die("unsupported assignment %s", t.text(s))
	return ""
}

// ---------------------------------------------------------------- driver
func (t *tr) load(path string) {
	t.fset = token.NewFileSet()
	f, err := parser.ParseFile(t.fset, path, nil, 0)
	if err != nil {
		die("%v", err)
	}
	t.file = f
	t.imports = map[string]string{}
	for _, im := range f.Imports {
		p, _ := strconv.Unquote(im.Path.Value)
		name := p[strings.LastIndex(p, "/")+1:]
		if im.Name != nil {
			name = im.Name.Name
		}
		t.imports[name] = p
	}
	t.consts = map[string]string{}
	t.constTy = map[string]*typ{}
	for _, d := range f.Decls {
		if gd, ok := d.(*ast.GenDecl); ok && gd.Tok == token.CONST {
			for _, sp := range gd.Specs {
				vs := sp.(*ast.ValueSpec)
				for i, n := range vs.Names {
					if i >= len(vs.Values) || vs.Type != nil {
						continue
					}
					if lit, ok := vs.Values[i].(*ast.BasicLit); ok && lit.Kind == token.STRING {
						if s, err := strconv.Unquote(lit.Value); err == nil {
							t.consts[n.Name] = coqString(s)
							t.constTy[n.Name] = tString
						}
					}
				}
			}
		}
	}
	t.constMaps = map[string]string{}
	for _, d := range f.Decls {
		if gd, ok := d.(*ast.GenDecl); ok && gd.Tok == token.VAR {
			for _, sp := range gd.Specs {
				vs := sp.(*ast.ValueSpec)
				for i, n := range vs.Names {
					if i >= len(vs.Values) {
						continue
					}
					cl, ok := vs.Values[i].(*ast.CompositeLit)
					if !ok {
						continue
					}
					mt, ok := cl.Type.(*ast.MapType)
					if !ok {
						continue
					}
					k, _ := mt.Key.(*ast.Ident)
					v, _ := mt.Value.(*ast.Ident)
					if k == nil || v == nil || k.Name != "string" || v.Name != "string" {
						continue
					}
					var ents []string
					good := true
					for _, el := range cl.Elts {
						kv, ok := el.(*ast.KeyValueExpr)
						if !ok {
							good = false
							break
						}
						kl, ok1 := kv.Key.(*ast.BasicLit)
						vl, ok2 := kv.Value.(*ast.BasicLit)
						if !ok1 || !ok2 || kl.Kind != token.STRING || vl.Kind != token.STRING {
							good = false
							break
						}
						ks, _ := strconv.Unquote(kl.Value)
						vs2, _ := strconv.Unquote(vl.Value)
						ents = append(ents, "("+coqString(ks)+", "+coqString(vs2)+")")
					}
					if good {
						t.constMaps[n.Name] = "([" + strings.Join(ents, "; ") + "]%list : gomap string)"
					}
				}
			}
		}
	}
	t.structs = map[string]*ast.StructType{}
	t.named = map[string]ast.Expr{}
	t.funcs = map[string]*ast.FuncDecl{}
	for _, d := range f.Decls {
		switch x := d.(type) {
		case *ast.GenDecl:
			for _, sp := range x.Specs {
				if ts, ok := sp.(*ast.TypeSpec); ok && ts.TypeParams == nil {
					if st, ok := ts.Type.(*ast.StructType); ok {
						t.structs[ts.Name.Name] = st
					} else {
						t.named[ts.Name.Name] = ts.Type
					}
				}
			}
		case *ast.FuncDecl:
			key := x.Name.Name
			if x.Recv != nil {
				rn := recvTypeName(x)
				if rn == "" {
					continue
				}
				key = rn + "." + key
			}
			t.funcs[key] = x
		}
	}
}

// a method of a named slice type (Functions.Less) is looked up under the slice type's name; its receiver
// is then simply a list
func (t *tr) declareOpaque(spec string) string {
	name := spec
	sig := ""
	if i := strings.Index(spec, "="); i >= 0 {
		name, sig = spec[:i], spec[i+1:]
	}
	basic := func(s string) *typ {
		switch s {
		case "string":
			return tString
		case "int":
			return tInt
		case "bool":
			return tBool
		case "error":
			return tError
		case "[]string":
			return tList(tString)
		}
		if _, ok := astCoq[s]; ok {
			return &typ{kind: s}
		}
		die("unsupported type %s in the signature of %s", s, name)
		return nil
	}
	o := &opaqueFn{}
	if sig == "" { // a function of the file: its declared signature
		fd, ok := t.funcs[name]
		if !ok || fd.Recv != nil {
			die("function %s not found", name)
		}
		o.params, o.result = t.signature(fd)
	} else {
		io := strings.SplitN(sig, ">", 2)
		if len(io) != 2 {
			die("signature of %s: want T1:T2>R1:R2", name)
		}
		if io[0] != "" {
			for _, s := range strings.Split(io[0], ":") {
				if strings.HasPrefix(s, "...") {
					o.variadic = true
					o.params = append(o.params, tList(basic(s[3:])))
					continue
				}
				if o.variadic {
					die("signature of %s: ...T must be the last parameter", name)
				}
				o.params = append(o.params, basic(s))
			}
		}
		var res []*typ
		for _, s := range strings.Split(io[1], ":") {
			res = append(res, basic(s))
		}
		o.result = res[0]
		if len(res) > 1 {
			o.result = &typ{kind: "tuple", elems: res}
		}
	}
	t.opaque[name] = o
	return name
}

func fnMode() {
	t := &tr{prefix: os.Args[4], used: map[string]map[string]bool{}, done: map[string]string{}, busy: map[string]bool{}, implicit: map[string]map[string]string{}, forced: map[string][]string{}, updated: map[string]bool{}, foreign: map[string]bool{}, dyn: map[string]bool{}, globals: map[string]bool{}, opaque: map[string]*opaqueFn{}}
	t.load(os.Args[2])
	for _, key := range strings.Split(os.Args[3], ",") {
		if strings.HasPrefix(key, "+") { // +Type.Field: keep this field in the Record even if no translated function reads it
			parts := strings.SplitN(key[1:], ".", 2)
			if _, ok := t.structs[parts[0]]; !ok || len(parts) != 2 {
				die("struct field %s not found", key[1:])
			}
			t.mention(parts[0])
			t.fieldType(parts[0], parts[1])
			t.used[parts[0]][parts[1]] = true
			continue
		}
		if parts := strings.Split(key, "!"); len(parts) > 1 {
			key = parts[0]
			for _, n := range parts[1:] {
				switch {
				case strings.HasPrefix(n, "%"): // %pkg.T=F1:F2: a struct of another package, its string fields
					eq := strings.Index(n, "=")
					if eq < 0 {
						die("want %%pkg.T=F1:F2, got %s", n)
					}
					name := strings.Replace(n[1:eq], ".", "_", -1)
					st := &ast.StructType{Fields: &ast.FieldList{}}
					for _, f := range strings.Split(n[eq+1:], ":") {
						st.Fields.List = append(st.Fields.List, &ast.Field{Names: []*ast.Ident{ast.NewIdent(f)}, Type: ast.NewIdent("string")})
						if t.used[name] == nil {
							t.used[name] = map[string]bool{}
						}
						t.used[name][f] = true
					}
					t.structs[name] = st
					t.foreign[name] = true
				case n == "dyn": // the function inspects errors by type assertion: error = class of the dynamic type
					t.dyn[key] = true
				case strings.HasPrefix(n, "$"): // a package-level string variable (of this or another file): a parameter
					t.globals[n[1:]] = true
				case strings.HasPrefix(n, "?"): // a function taken as a parameter: ?local or ?pkg.Func=T1:T2>R1:R2
					t.forced[key] = append(t.forced[key], "?"+t.declareOpaque(n[1:]))
				default:
					if _, ok := forcedTypes[n]; !ok {
						die("unknown ambient value %s", n)
					}
					t.forced[key] = append(t.forced[key], n)
				}
			}
		}
		t.function(key)
	}
	var out bytes.Buffer
	emitted := map[string]bool{}
	var emit func(name string)
	emit = func(name string) {
		if emitted[name] {
			return
		}
		emitted[name] = true
		var fields, zeros, mk []string
		nstr := 0
		for _, f := range t.structs[name].Fields.List {
			for _, n := range f.Names {
				if !t.used[name][n.Name] {
					continue
				}
				ty := t.typeOf(f.Type)
				for u := ty; u != nil; u = u.elem {
					if u.kind == "struct" {
						if u.name == name {
							die("recursive struct %s", name)
						}
						emit(u.name)
					}
				}
				fields = append(fields, fmt.Sprintf("%s%s_%s : %s", t.prefix, name, n.Name, t.coqType(ty)))
				zeros = append(zeros, fmt.Sprintf("%s%s_%s := %s", t.prefix, name, n.Name, t.zero(ty)))
				if ty.kind == "string" {
					mk = append(mk, fmt.Sprintf("%s%s_%s := nth %d ss \"\"", t.prefix, name, n.Name, nstr))
					nstr++
				} else {
					mk = append(mk, zeros[len(zeros)-1])
				}
			}
		}
		fmt.Fprintf(&out, "Record %s%s := { %s }.\n", t.prefix, name, strings.Join(fields, "; "))
		if len(fields) == 0 {
			fmt.Fprintf(&out, "Definition %s%s_zero : %s%s := Build_%s%s.\n", t.prefix, name, t.prefix, name, t.prefix, name)
		} else {
			fmt.Fprintf(&out, "Definition %s%s_zero : %s%s := {| %s |}.\n", t.prefix, name, t.prefix, name, strings.Join(zeros, "; "))
			// a value from a list of strings (the string fields in declaration order; other fields zero): used to enumerate inputs
			fmt.Fprintf(&out, "Definition %s%s_mk (ss : list string) : %s%s := {| %s |}.\n", t.prefix, name, t.prefix, name, strings.Join(mk, "; "))
			fmt.Fprintf(&out, "Definition %s%s_arity : nat := %d.\n", t.prefix, name, nstr)
		}
		if t.updated[name] { // r.F = v as a new record
			var names, tys []string
			for _, f := range t.structs[name].Fields.List {
				for _, n := range f.Names {
					if t.used[name][n.Name] {
						names = append(names, n.Name)
						tys = append(tys, t.coqType(t.typeOf(f.Type)))
					}
				}
			}
			for i, fn := range names {
				var parts []string
				for _, g := range names {
					if g == fn {
						parts = append(parts, fmt.Sprintf("%s%s_%s := v", t.prefix, name, g))
					} else {
						parts = append(parts, fmt.Sprintf("%s%s_%s := %s%s_%s r", t.prefix, name, g, t.prefix, name, g))
					}
				}
				fmt.Fprintf(&out, "Definition %s%s_with_%s (r : %s%s) (v : %s) : %s%s := {| %s |}.\n", t.prefix, name, fn, t.prefix, name, tys[i], t.prefix, name, strings.Join(parts, "; "))
			}
		}
	}
	for i := 0; i < len(t.usedAny); i++ { // emit may mention further structs
		emit(t.usedAny[i])
	}
	for _, key := range t.order {
		out.WriteString(t.done[key])
	}
	os.Stdout.Write(out.Bytes())
}

func srcMode() {
	t := &tr{}
	t.load(os.Args[2])
	fd, ok := t.funcs[os.Args[3]]
	if !ok {
		die("function %s not found in %s", os.Args[3], os.Args[2])
	}
	fd.Doc = nil
	fmt.Println(t.text(fd))
}
