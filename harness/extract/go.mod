module verif.test/extract

go 1.12
